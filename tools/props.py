"""Per-property pipelines: model instances (TLC), replay setups, drivers, non-triviality rules."""


def ev_ok(names):
    names = set(names)
    return lambda e: (e.get("ev"), e.get("res"), e.get("err")) if e.get("ev") in names else None


LEDGER_DRIVERS = [{"name": "ledger", "args": {"quick": [60, 120], "thorough": [3000, 300]}}]


LEDGER_MODELS = [
    {"name": "ledger", "module": "Ledger.tla", "cfg": {"quick": "MC_LedgerQuick.cfg", "thorough": "MC_LedgerThorough.cfg"},
     "setup": "setups/ledgermodel.json", "init_from_setup": True, "timeout": {"quick": 900, "thorough": 7200}},
]


def succ(names):
    names = set(names)
    return lambda e: (e.get("ev"), json_key(e.get("a"))) if e.get("ev") in names and e.get("res") == "ok" else None


def json_key(a):
    import json
    return json.dumps(a, sort_keys=True)[:160]


def ledger_prop(extra_ops=()):
    ops = ["deposit", "withdraw", "borrow", "repay", "liquidate", "bankruptcy", "accrue", "collect_fees", "close_balance"] + list(extra_ops)
    return {
        "models": LEDGER_MODELS,
        "drivers": LEDGER_DRIVERS,
        "nontrivial": succ(ops),
        "rule": "each executed instruction is one evaluation; non-trivial = successful ledger instruction; distinct by (instruction, arguments)",
        "min_nontrivial": 200,
    }


PROPS = {
    "C01": ledger_prop(),
    "C02": ledger_prop(),
    "C03": ledger_prop(),
    "C06": ledger_prop(),
    "C16": ledger_prop(),
    "C17": ledger_prop(),
    "C15": {
        "models": [
            {"name": "panic", "module": "Panic.tla", "cfg": {"quick": "MC_PanicQuick.cfg", "thorough": "MC_PanicThorough.cfg"},
             "setup": "setups/panic.json"},
        ],
        "drivers": [{"name": "panic", "args": {"quick": [300, 60], "thorough": [5000, 120]}}],
        "validate": ["C15"],
        "nontrivial": ev_ok(["panic_pause", "panic_unpause", "panic_unpause_perm", "propagate_fee", "deposit"]),
        "rule": "each executed instruction is one evaluation; non-trivial = pause/unpause/propagate/probe instructions; distinct by (instruction, result, error)",
        "min_nontrivial": 50,
    },
}
