"""Per-property pipelines: model instances (TLC), replay setups, drivers, non-triviality rules."""


def ev_ok(names):
    names = set(names)
    return lambda e: (e.get("ev"), e.get("res"), e.get("err")) if e.get("ev") in names else None


PROPS = {
    "C15": {
        "models": [
            {"name": "panic", "module": "Panic.tla", "cfg": {"quick": "MC_PanicQuick.cfg", "thorough": "MC_PanicThorough.cfg"},
             "setup": "setups/panic.json"},
        ],
        "drivers": [{"name": "panic", "args": {"quick": [300, 60], "thorough": [5000, 120]}}],
        "validate": ["C15"],
        "nontrivial": ev_ok(["panic_pause", "panic_unpause", "panic_unpause_perm", "propagate_fee", "deposit"]),
        "rule": "each executed instruction is one evaluation; non-trivial = pause/unpause/propagate/probe instructions; distinct by (instruction, result, error)",
        "min_nontrivial": 50,
    },
}
