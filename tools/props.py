"""Per-property pipelines: model instances (TLC), replay setups, drivers, non-triviality rules."""


def ev_ok(names):
    names = set(names)
    return lambda e: (e.get("ev"), e.get("res"), e.get("err")) if e.get("ev") in names else None


LEDGER_DRIVERS = [{"name": "ledger", "args": {"quick": [60, 120], "thorough": [3000, 300]}}]
# episodes that need an exact coincidence (harness/src/drv2.rs)
EDGE_DRIVERS = [{"name": "edge", "args": {"quick": [360], "thorough": [15000]}}]
# a bank killed by bad debt, then every operational state asked for in every order of two (harness/src/drv2.rs)
KILL_DRIVERS = [{"name": "kill", "args": {"quick": [24], "thorough": [600]}}]


LEDGER_MODELS = [
    {"name": "ledger", "module": "MC_Ledger.tla", "cfg": {"quick": "MC_LedgerQuick.cfg", "thorough": "MC_LedgerThorough.cfg"},
     "setup": "setups/ledgermodel.json", "init_from_setup": True, "timeout": {"quick": 900, "thorough": 7200}},
    {"name": "ledgerfee", "module": "MC_Ledger.tla", "cfg": {"quick": "MC_LedgerFeeQuick.cfg", "thorough": "MC_LedgerFeeThorough.cfg"},
     "setup": "setups/ledgerfee.json", "init_from_setup": True, "timeout": {"quick": 900, "thorough": 7200}},
]


# long random walks of the ledger model (tlc -simulate): behaviours of 60 instructions from the risk seed, every step predicted and replayed
WALK_MODELS = [
    {"name": "ledgerwalk", "module": "MC_Ledger.tla", "cfg": {"quick": "MC_LedgerWalkQuick.cfg", "thorough": "MC_LedgerWalkThorough.cfg"},
     "setup": "setups/riskmodel.json", "init_from_setup": True, "simulate": {"quick": [6, 40], "thorough": [60, 60]},
     "timeout": {"quick": 900, "thorough": 10000}},
]


VENUE_MODELS = [
    {"name": "venue", "module": "MC_Venue.tla", "cfg": {"quick": "MC_VenueQuick.cfg", "thorough": "MC_VenueThorough.cfg"},
     "setup": "setups/venue.json", "init_from_setup": True, "timeout": {"quick": 900, "thorough": 7200}},
    {"name": "venuesolend", "module": "MC_Venue.tla", "cfg": {"quick": "MC_VenueSolendQuick.cfg", "thorough": "MC_VenueSolendThorough.cfg"},
     "setup": "setups/venuesolend.json", "init_from_setup": True, "timeout": {"quick": 900, "thorough": 7200}},
    {"name": "venuedrift", "module": "MC_Venue.tla", "cfg": {"quick": "MC_VenueDriftQuick.cfg", "thorough": "MC_VenueDriftThorough.cfg"},
     "setup": "setups/venuedrift.json", "init_from_setup": True, "timeout": {"quick": 900, "thorough": 7200}},
]


def succ(names):
    names = set(names)
    return lambda e: (e.get("ev"), json_key(e.get("a"))) if e.get("ev") in names and e.get("res") == "ok" else None


def json_key(a):
    import json
    return json.dumps(a, sort_keys=True)[:160]


def ledger_prop(extra_ops=()):
    ops = ["deposit", "withdraw", "borrow", "repay", "liquidate", "bankruptcy", "accrue", "collect_fees", "close_balance"] + list(extra_ops)
    return {
        "models": LEDGER_MODELS,
        "drivers": LEDGER_DRIVERS + EDGE_DRIVERS,
        "nontrivial": succ(ops),
        "rule": "each executed instruction is one evaluation; non-trivial = successful ledger instruction; distinct by (instruction, arguments)",
        "min_nontrivial": 200,
    }


RISK_DRIVERS = [{"name": "risk", "args": {"quick": [250], "thorough": [8000]}}]


def risk_prop(ops):
    return {
        "models": RISK_MODELS,
        "drivers": RISK_DRIVERS + LEDGER_DRIVERS,
        "nontrivial": ev_ok(ops),
        "rule": "each executed instruction is one evaluation; non-trivial = the instructions the property constrains (accepted and rejected, incl. boundary pairs found by binary search); distinct by (instruction, result, error)",
        "min_nontrivial": 100,
    }


LIQ_DRIVERS = [{"name": "liq", "args": {"quick": [300], "thorough": [6000]}}]
STAKED_DRIVERS = [{"name": "staked", "args": {"quick": [40], "thorough": [2000]}}]
KAMINO_DRIVERS = [{"name": "kamino", "args": {"quick": [30], "thorough": [1500]}}, {"name": "drift", "args": {"quick": [30], "thorough": [1500]}},
                  {"name": "solend", "args": {"quick": [30], "thorough": [1500]}}]
GATE_MODELS = [
    {"name": "gate", "module": "Gate.tla", "cfg": {"quick": "MC_GateQuick.cfg", "thorough": "MC_GateThorough.cfg"}, "setup": "setups/gate.json"},
]


RISK_MODELS = [
    {"name": "riskmodel", "module": "MC_Ledger.tla", "cfg": {"quick": "MC_RiskQuick.cfg", "thorough": "MC_RiskThorough.cfg"},
     "setup": "setups/riskmodel.json", "init_from_setup": True, "timeout": {"quick": 900, "thorough": 10000}},
]


# account life cycle (Life.tla): close / move / settle in every order on top of the ledger actions, from the risk seed
LIFE_MODELS = [
    {"name": "life", "module": "MC_Life.tla", "cfg": {"quick": "MC_LifeQuick.cfg", "thorough": "MC_LifeThorough.cfg"},
     "setup": "setups/riskmodel.json", "init_from_setup": True, "timeout": {"quick": 900, "thorough": 10000}},
]


# receivership with values (Recv.tla): exact seize boundary per repayment computed in the model
RECV_MODELS = [
    {"name": "recv", "module": "MC_Recv.tla", "cfg": {"quick": "MC_RecvQuick.cfg", "thorough": "MC_RecvThorough.cfg"},
     "setup": "setups/recvmodel.json", "init_from_setup": True, "timeout": {"quick": 900, "thorough": 10000}},
    # the same borrower also lends in a bank with zero initial weight and in an isolated-tier bank (nothing may leave them inside a bracket)
    {"name": "recvz", "module": "MC_Recv.tla", "cfg": {"quick": "MC_RecvZQuick.cfg", "thorough": "MC_RecvZThorough.cfg"},
     "setup": "setups/recvmodelz.json", "init_from_setup": True, "timeout": {"quick": 900, "thorough": 10000}},
    # the brackets on oracle-priced banks (Pyth spot / time-weighted prices with confidence, Switchboard collateral, stale and over-wide feeds)
    {"name": "recvo", "module": "MC_RecvO.tla", "cfg": {"quick": "MC_RecvOQuick.cfg", "thorough": "MC_RecvOThorough.cfg"},
     "setup": "setups/recvoracle.json", "init_from_setup": True, "timeout": {"quick": 900, "thorough": 10000}},
]


# flash loans with values (Flash.tla): largest in-bracket borrow / withdrawal with which the end instruction still passes
FLASH_MODELS = [
    {"name": "flash", "module": "MC_Flash.tla", "cfg": {"quick": "MC_FlashQuick.cfg", "thorough": "MC_FlashThorough.cfg"},
     "setup": "setups/riskmodel.json", "init_from_setup": True, "timeout": {"quick": 900, "thorough": 10000}},
]


# winding a bank down (Wind.tla): token-less repayment in a deleverage bracket, completion, purges, what-is-left withdrawals, closing
WIND_MODELS = [
    {"name": "wind", "module": "MC_Wind.tla", "cfg": {"quick": "MC_WindQuick.cfg", "thorough": "MC_WindThorough.cfg"},
     "setup": "setups/windmodel.json", "init_from_setup": True, "timeout": {"quick": 900, "thorough": 10000}},
]


# forced deleverage with values (Delev.tla): largest withdrawal per repayment under the health rule and the daily dollar limit
DELEV_MODELS = [
    {"name": "delev", "module": "MC_Delev.tla", "cfg": {"quick": "MC_DelevQuick.cfg", "thorough": "MC_DelevThorough.cfg"},
     "setup": "setups/windmodel.json", "init_from_setup": True, "timeout": {"quick": 900, "thorough": 10000}},
]


# where fees and emission rewards can go (Payout.tla): vault withdrawals, the fixed fees destination, emission payouts, campaign updates
PAYOUT_MODELS = [
    {"name": "payout", "module": "MC_Payout.tla", "cfg": {"quick": "MC_PayoutQuick.cfg", "thorough": "MC_PayoutThorough.cfg"},
     "setup": "setups/payoutmodel.json", "init_from_setup": True, "timeout": {"quick": 900, "thorough": 10000}},
    # the same world on Token-2022 transfer-fee mints (bank mint 1 % capped, emissions mint 0.5 % capped): every payout arrives net of the fee
    {"name": "payoutfee", "module": "MC_Payout.tla", "cfg": {"quick": "MC_PayoutFeeQuick.cfg", "thorough": "MC_PayoutFeeThorough.cfg"},
     "setup": "setups/payoutfee.json", "init_from_setup": True, "timeout": {"quick": 900, "thorough": 10000}},
]


# caps and utilization with values (Caps.tla): limits moved onto / under the totals, boundaries of deposit / borrow / withdraw by bisection
CAPS_MODELS = [
    {"name": "caps", "module": "MC_Caps.tla", "cfg": {"quick": "MC_CapsQuick.cfg", "thorough": "MC_CapsThorough.cfg"},
     "setup": "setups/capsmodel.json", "init_from_setup": True, "timeout": {"quick": 900, "thorough": 10000}},
]


# classic liquidation with values (Liq.tla): largest accepted seizure per state by bisection, two liquidators, prices either side of the limit
LIQ_MODELS = [
    {"name": "liq", "module": "MC_Liq.tla", "cfg": {"quick": "MC_LiqQuick.cfg", "thorough": "MC_LiqThorough.cfg"},
     "setup": "setups/riskmodel.json", "init_from_setup": True, "timeout": {"quick": 900, "thorough": 10000}},
]


# the global fee state and its per-group copy (FeeCfg.tla): edit / switch / propagate x accrue / collect / borrow in every order
FEECFG_MODELS = [
    {"name": "feecfg", "module": "MC_FeeCfg.tla", "cfg": {"quick": "MC_FeeCfgQuick.cfg", "thorough": "MC_FeeCfgThorough.cfg"},
     "setup": "setups/payoutmodel.json", "init_from_setup": True, "timeout": {"quick": 900, "thorough": 10000}},
]


# bankruptcy with values (Bkr.tla): insurance below / at / above the bad debt, permissionless opt-in and out, three signers, what follows
BKR_MODELS = [
    {"name": "bkr", "module": "MC_Bkr.tla", "cfg": {"quick": "MC_BkrQuick.cfg", "thorough": "MC_BkrThorough.cfg"},
     "setup": "setups/riskmodel.json", "init_from_setup": True, "timeout": {"quick": 900, "thorough": 10000}},
    # the sole lender lent exactly what the bankrupt account owes: the write-off shuts the bank; every operational state asked for afterwards
    {"name": "bkrkill", "module": "MC_Bkr.tla", "cfg": {"quick": "MC_BkrKillQuick.cfg", "thorough": "MC_BkrKillThorough.cfg"},
     "setup": "setups/bkrkill.json", "init_from_setup": True, "timeout": {"quick": 900, "thorough": 10000}},
]


RISKCFG_MODELS = [
    {"name": "riskcfg", "module": "MC_RiskCfg.tla", "cfg": {"quick": "MC_RiskCfgQuick.cfg", "thorough": "MC_RiskCfgThorough.cfg"},
     "setup": "setups/riskcfg.json", "init_from_setup": True, "timeout": {"quick": 900, "thorough": 10000}},
    # spot = time-weighted price, zero confidence: e-mode entry sets x borrow boundary x liquidation attempts (C13's consequence)
    {"name": "riskcfgflat", "module": "MC_RiskCfg.tla", "cfg": {"quick": "MC_RiskCfgFlatQuick.cfg", "thorough": "MC_RiskCfgFlatThorough.cfg"},
     "setup": "setups/riskcfgflat.json", "init_from_setup": True, "timeout": {"quick": 900, "thorough": 10000}},
]


# staked collateral with values (Staked.tla): pool moves, settings edits and their propagation, borrow / withdraw / seizure boundaries by bisection
STAKED_MODELS = [
    {"name": "staked", "module": "MC_Staked.tla", "cfg": {"quick": "MC_StakedQuick.cfg", "thorough": "MC_StakedThorough.cfg"},
     "setup": "setups/stakedmodel.json", "init_from_setup": True, "timeout": {"quick": 900, "thorough": 10000}},
    # random behaviours of 30 / 60 steps of the same model (tlc -simulate): every successor of every visited state is predicted and replayed
    {"name": "stakedwalk", "module": "MC_Staked.tla", "cfg": {"quick": "MC_StakedWalkQuick.cfg", "thorough": "MC_StakedWalkThorough.cfg"},
     "setup": "setups/stakedmodel.json", "init_from_setup": True, "simulate": {"quick": [3, 30], "thorough": [40, 60]},
     "timeout": {"quick": 900, "thorough": 10000}},
]


# borrowing against venue-backed collateral (VenueRisk.tla): venues falling behind / refreshed / accruing, feed moves, borrow boundaries by bisection
VENUERISK_MODELS = [
    {"name": "venuerisk", "module": "MC_VenueRisk.tla", "cfg": {"quick": "MC_VenueRiskQuick.cfg", "thorough": "MC_VenueRiskThorough.cfg"},
     "setup": "setups/venuerisk.json", "init_from_setup": True, "timeout": {"quick": 900, "thorough": 10000}},
    {"name": "venueriskswb", "module": "MC_VenueRisk.tla", "cfg": {"quick": "MC_VenueRiskSwbQuick.cfg", "thorough": "MC_VenueRiskSwbThorough.cfg"},
     "setup": "setups/venueriskswb.json", "init_from_setup": True, "timeout": {"quick": 900, "thorough": 10000}},
    {"name": "venueriskwalk", "module": "MC_VenueRisk.tla", "cfg": {"quick": "MC_VenueRiskWalkQuick.cfg", "thorough": "MC_VenueRiskWalkThorough.cfg"},
     "setup": "setups/venuerisk.json", "init_from_setup": True, "simulate": {"quick": [3, 30], "thorough": [40, 60]},
     "timeout": {"quick": 900, "thorough": 10000}},
]


def risk_prop2(ops, drivers, models=(), minnt=30):
    return {
        "models": list(models),
        "drivers": drivers,
        "nontrivial": ev_ok(ops),
        "rule": "each executed instruction is one evaluation; non-trivial = the instructions the property constrains (accepted and rejected, incl. boundary pairs found by binary search); distinct by (instruction, result, error)",
        "min_nontrivial": minnt,
    }


AUTH_MODELS = [
    {"name": "auth", "module": "Auth.tla", "cfg": "MC_Auth.cfg", "setup": "setups/auth.json", "env": {"AUTH_BASE": "gen/auth_base.json"}},
    {"name": "roles", "module": "Roles.tla", "cfg": {"quick": "MC_RolesQuick.cfg", "thorough": "MC_RolesThorough.cfg"}, "setup": "setups/auth.json",
     "env": {"AUTH_BASE": "gen/auth_base.json"}, "timeout": {"quick": 900, "thorough": 7200}},
]


def auth_nontrivial(e):
    a = e.get("a")
    if not isinstance(a, dict):
        return None
    if "cell" in a:
        return (a.get("cell"), a.get("variant"), a.get("who"), str(a.get("subst")), a.get("mode"), e.get("res"))
    if a.get("op") == "config_group":
        return ("config_group", str(sorted((k, v) for k, v in a.items() if k.endswith("admin"))), e.get("res"))
    if a.get("op") in ("transfer_account", "init_account") and ("pda" in a or "signer" in a):
        return (a.get("op"), str(a.get("pda")), a.get("signer"), a.get("cpi_via"), a.get("cpi"), e.get("res"), e.get("err"))
    if "oracle_sub" in a or "oracle_sub_slots" in a:
        return (a.get("op"), str(a.get("oracle_sub")), str(a.get("oracle_sub_slots")), e.get("res"))
    return None

ADMIN_DRIVERS = [{"name": "admin", "args": {"quick": [240], "thorough": [6000]}}]
RECV_DRIVERS = [{"name": "recv", "args": {"quick": [60], "thorough": [3000]}}]
ADMIN_MODELS = [
    {"name": "admin", "module": "Admin.tla", "cfg": {"quick": "MC_AdminQuick.cfg", "thorough": "MC_AdminThorough.cfg"},
     "setup": "setups/auth.json", "init_from_setup": True},
]

ORACLE_MODELS = [
    {"name": "oracle", "module": "Oracle.tla", "cfg": {"quick": "MC_OracleQuick.cfg", "thorough": "MC_OracleThorough.cfg"},
     "setup": "setups/oracle.json", "init_from_setup": True, "timeout": {"quick": 900, "thorough": 7200}},
]
CONFIG_MODELS = [
    {"name": "config", "module": "Config.tla", "cfg": {"quick": "MC_ConfigQuick.cfg", "thorough": "MC_ConfigThorough.cfg"},
     "setup": "setups/config.json", "init_from_setup": True, "timeout": {"quick": 900, "thorough": 7200}},
]


PDA_MODELS = [
    {"name": "pda", "module": "Pda.tla", "cfg": {"quick": "MC_PdaQuick.cfg", "thorough": "MC_PdaThorough.cfg"},
     "setup": "setups/pda.json", "init_from_setup": True, "timeout": {"quick": 900, "thorough": 7200}},
]


def txm(n, setup="setups/auth.json"):
    return {"name": "tx" + n.lower(), "module": "MC_TxShape.tla", "cfg": {"quick": f"MC_Tx{n}Quick.cfg", "thorough": f"MC_Tx{n}Thorough.cfg"},
            "setup": setup, "timeout": {"quick": 900, "thorough": 7200}}


def tx_nontrivial(e):
    a = e.get("a")
    if isinstance(a, dict) and a.get("op") == "tx":
        return (tuple((x.get("op"), x.get("acct"), x.get("program"), x.get("end_index"), x.get("cpi")) for x in a.get("ixs", [])), e.get("res"))
    return None


def pure_nontrivial(kind):
    import json
    return lambda e: (json.dumps(e.get("a"), sort_keys=True)[:400], e.get("res")) if e.get("ev") == kind else None


def integ_nontrivial(e):
    import json
    if e.get("ev") == "integ":
        return (json.dumps(e.get("a"), sort_keys=True)[:400], e.get("res"))
    if e.get("ev") in ("borrow", "withdraw", "kamino_withdraw", "drift_withdraw", "solend_withdraw", "kamino_deposit", "drift_deposit", "solend_deposit",
                       "liquidate", "bankruptcy", "pulse_health", "tx"):
        return (e.get("ev"), e.get("res"), e.get("err"))
    return None


PROPS = {
    "C20": {"models": [{"name": "integ", "module": "Integ.tla", "cfg": "MC_Integ.cfg", "setup": "setups/empty.json"}] + VENUE_MODELS + VENUERISK_MODELS,
            "drivers": [{"name": "integ", "args": {"quick": [20000], "thorough": [2000000]}}] + KAMINO_DRIVERS,
            "nontrivial": integ_nontrivial,
            "rule": "each operand tuple passed to a real conversion function is one evaluation, so is every instruction executed on a world with venue-backed banks (the staleness rule is judged on what the program decides); all are non-trivial; distinct by (function, operands) / (instruction, result, error)",
            "min_nontrivial": 5000},
    "C18": {"models": [{"name": "curve", "module": "Curve.tla", "cfg": {"quick": "MC_CurveQuick.cfg", "thorough": "MC_CurveThorough.cfg"},
                        "setup": "setups/empty.json", "timeout": {"quick": 900, "thorough": 7200}}],
            "drivers": [{"name": "curve", "args": {"quick": [3000], "thorough": [100000]}}] + EDGE_DRIVERS,
            "nontrivial": pure_nontrivial("curve"),
            "rule": "each curve configuration passed to the real validate() (and, if accepted, calc_interest_rate over an ascending utilization sweep) is one evaluation; all are non-trivial; distinct by configuration",
            "min_nontrivial": 1000},
    "C10": {"models": [txm("Recv"), txm("Recv2", "setups/tx.json"), txm("Recv3"), txm("RecvP", "setups/tx.json")] + RECV_MODELS, "drivers": ADMIN_DRIVERS + LIQ_DRIVERS + RECV_DRIVERS + KAMINO_DRIVERS, "nontrivial": tx_nontrivial,
            "rule": "each instruction list executed as one atomic transaction on the real program is one evaluation; all are non-trivial; distinct by (instruction list, result)",
            "min_nontrivial": 1000},
    "C11": {"models": [txm("Flash"), txm("Flash3"), txm("FlashW"), txm("Flash6")] + FLASH_MODELS, "drivers": ADMIN_DRIVERS, "nontrivial": tx_nontrivial,
            "rule": "each instruction list executed as one atomic transaction on the real program is one evaluation; all are non-trivial; distinct by (instruction list, result)",
            "min_nontrivial": 1000},
    "C12": risk_prop2(["configure_bank", "configure_interest", "configure_limits", "configure_emode", "clone_emode", "setup_emissions", "update_emissions",
                       "tokenless_complete", "write_metadata", "configure_oracle", "set_fixed_price", "tx"], ADMIN_DRIVERS, models=ADMIN_MODELS + WIND_MODELS + DELEV_MODELS, minnt=200),
    "C19": risk_prop2(["collect_fees", "withdraw_fees", "withdraw_fees_perm", "withdraw_insurance", "settle_emissions", "withdraw_emissions",
                       "withdraw_emissions_perm", "deposit", "withdraw"], ADMIN_DRIVERS + LEDGER_DRIVERS, models=LEDGER_MODELS + PAYOUT_MODELS + FEECFG_MODELS, minnt=200),
    "C08": {
        "models": AUTH_MODELS + PDA_MODELS + [txm("Recv2", "setups/tx.json"), txm("RecvP", "setups/tx.json")],
        "drivers": STAKED_DRIVERS + RISK_DRIVERS + LIQ_DRIVERS + KAMINO_DRIVERS + RECV_DRIVERS + ADMIN_DRIVERS,
        "nontrivial": auth_nontrivial,
        "rule": "each matrix cell (instruction x variant: unmodified, signer identity, missing signature, slot x foreign object; normal and frozen account; every role-gated instruction x identity after every re-assignment of a group role) executed through marginfi::entry is one evaluation, so is every role assignment and every instruction executed with a substituted price account; all are non-trivial; distinct by (cell, variant, identity, substitution, mode, result)",
        "min_nontrivial": 500,
    },
    "C04": dict(risk_prop(["borrow", "withdraw", "kamino_withdraw", "drift_withdraw", "solend_withdraw", "tx"]), models=RISK_MODELS + RISKCFG_MODELS + STAKED_MODELS + VENUERISK_MODELS, drivers=RISK_DRIVERS + LEDGER_DRIVERS + STAKED_DRIVERS + KAMINO_DRIVERS + EDGE_DRIVERS),
    "C05": risk_prop2(["liquidate"], LIQ_DRIVERS + LEDGER_DRIVERS + STAKED_DRIVERS + EDGE_DRIVERS, models=RISK_MODELS + RISKCFG_MODELS + LIQ_MODELS + STAKED_MODELS + VENUERISK_MODELS),
    "C07": risk_prop2(["bankruptcy"], LIQ_DRIVERS + LEDGER_DRIVERS + EDGE_DRIVERS + KILL_DRIVERS, models=RISK_MODELS + BKR_MODELS),
    "C09": risk_prop2(["borrow", "withdraw", "liquidate", "bankruptcy", "pulse_health"], LIQ_DRIVERS + RISK_DRIVERS + LEDGER_DRIVERS + STAKED_DRIVERS + KAMINO_DRIVERS + EDGE_DRIVERS, models=RISK_MODELS + ORACLE_MODELS + RISKCFG_MODELS + STAKED_MODELS + VENUERISK_MODELS + RECV_MODELS[2:]),
    "C13": risk_prop2(["add_bank", "add_bank_staked", "add_bank_kamino", "add_bank_drift", "add_bank_solend", "init_staked_settings", "edit_staked_settings", "propagate_staked", "configure_bank", "configure_emode", "borrow", "withdraw", "pulse_health", "bankruptcy", "clone_emode"],
                      LIQ_DRIVERS + RISK_DRIVERS + ADMIN_DRIVERS + STAKED_DRIVERS + KAMINO_DRIVERS + EDGE_DRIVERS + KILL_DRIVERS, models=RISK_MODELS + CONFIG_MODELS + RISKCFG_MODELS + STAKED_MODELS + BKR_MODELS),
    "C14": risk_prop2(["deposit", "withdraw", "borrow", "repay", "liquidate", "bankruptcy", "propagate_fee"], LIQ_DRIVERS + RISK_DRIVERS + EDGE_DRIVERS, models=GATE_MODELS),
    "C01": dict(ledger_prop(), drivers=LEDGER_DRIVERS + EDGE_DRIVERS + LIQ_DRIVERS, models=LEDGER_MODELS + WIND_MODELS + WALK_MODELS),
    "C02": dict(ledger_prop(extra_ops=["purge", "transfer_account", "kamino_deposit", "kamino_withdraw", "drift_deposit", "drift_withdraw", "solend_deposit", "solend_withdraw"]), drivers=LEDGER_DRIVERS + LIQ_DRIVERS + ADMIN_DRIVERS + KAMINO_DRIVERS + EDGE_DRIVERS, models=LEDGER_MODELS + VENUE_MODELS + LIFE_MODELS + WIND_MODELS),
    "C03": dict(ledger_prop(extra_ops=["kamino_deposit", "kamino_withdraw", "drift_deposit", "drift_withdraw", "solend_deposit", "solend_withdraw"]), drivers=LEDGER_DRIVERS + KAMINO_DRIVERS + EDGE_DRIVERS, models=LEDGER_MODELS + VENUE_MODELS),
    "C06": dict(ledger_prop(), models=LEDGER_MODELS + FEECFG_MODELS, drivers=LEDGER_DRIVERS + EDGE_DRIVERS + [{"name": "caps", "args": {"quick": [200], "thorough": [4000]}},
                                                                                                      {"name": "zerorate", "args": {"quick": [24], "thorough": [1200]}}]),
    "C16": dict(ledger_prop(extra_ops=["close_account", "transfer_account"]), models=LEDGER_MODELS + PDA_MODELS + LIFE_MODELS, drivers=LEDGER_DRIVERS + [{"name": "struct", "args": {"quick": [60], "thorough": [2000]}}] + LIQ_DRIVERS + STAKED_DRIVERS + ADMIN_DRIVERS + KAMINO_DRIVERS + EDGE_DRIVERS),
    "C17": dict(ledger_prop(), models=LEDGER_MODELS + CAPS_MODELS, drivers=LEDGER_DRIVERS + EDGE_DRIVERS + [{"name": "caps", "args": {"quick": [300], "thorough": [8000]}}]),
    "C15": {
        "models": [
            {"name": "panic", "module": "Panic.tla", "cfg": {"quick": "MC_PanicQuick.cfg", "thorough": "MC_PanicThorough.cfg"},
             "setup": "setups/panic.json"},
        ],
        "drivers": [{"name": "panic", "args": {"quick": [300, 60], "thorough": [5000, 120]}}],
        "validate": ["C15"],
        # unbounded time / unbounded histories: inductive invariant of the same operators (PanicImpl.tla), by Apalache
        "proofs": [{"module": "PanicInd.tla", "timeout": 900, "obligations": [
            ["--init=Init", "--inv=IndInv", "--length=0"],
            ["--init=IndInit", "--inv=IndInv", "--length=1"],
            ["--init=IndInit", "--inv=Safety", "--length=0"]]}],
        "nontrivial": ev_ok(["panic_pause", "panic_unpause", "panic_unpause_perm", "propagate_fee", "deposit"]),
        "rule": "each executed instruction is one evaluation; non-trivial = pause/unpause/propagate/probe instructions; distinct by (instruction, result, error)",
        "min_nontrivial": 50,
    },
}
