TEXT = {
 "C15": {
  "level": "TLC explores the pause automaton (Panic.tla, transcribed from panic_state.rs and the four handlers) exhaustively on its region graph and checks the C15 predicates on every transition; every explored transition is replayed through the real marginfi::entry (zero drift required) and seeded one-second-resolution schedules biased to the expiry/day boundaries are executed; TLC then validates every recorded step against the same predicates.",
  "note": "Trusted: TLC, the BigInteger override, the mini-runtime and projection. Time granularity of the exhaustive model is 30 min (quick) / 10 min (thorough); one-second boundaries come from the seeded driver, not exhaustively.",
  "technique": "TLA+ model checking (TLC) + replay of model behaviours into the implementation + TLC trace validation",
 },
}
NOT_APPLICABLE = {}
