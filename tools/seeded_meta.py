#!/usr/bin/env python3
"""Fold seeded/<id>/result.txt (written by tools/seeded_run.sh) into seeded/<id>/meta.json."""
import json, os, re, sys
ROOT = os.path.dirname(os.path.dirname(os.path.abspath(__file__)))
NEEDS = {
 "C01a": "group with PROGRAM_FEES_ENABLED cleared while the cached global program fee is non-zero; a bank with debt; time passing",
 "C01b": "Token-2022 transfer-fee mint; partial withdraw",
 "C04a": "deposit-cap-limited collateral value together with an e-mode weight",
 "C04b": "account with an isolated-tier debt borrowing a second asset",
 "C05a": "collateral balance with a fractional native amount (collateral bank has accrued interest); seize amount exactly ceil(balance)",
 "C05b": "liability bank priced by Pyth with EMA different from spot",
 "C06a": "group with PROGRAM_FEES_ENABLED cleared while the cached global fixed program fee is non-zero; debt; time passing",
 "C06b": "close_balance on a bank with unaccrued elapsed time",
 "C10a": "one transaction with two start_liquidation instructions for two different unhealthy accounts that both have a liquidation record",
 "C10b": "receivership on an account whose assets are worth >= $5 but whose net value is < $5; seize above 105% of repaid or leaving the account healthy",
 "C16a": "liquidation where the liquidator receives a position in a bank whose tag conflicts with its existing positions",
 "C16b": "liquidator with default-tag positions seizing collateral of a staked-tag bank from a liquidatee allowed to hold it",
}
FIRST = {  # what the first run of the checks (before strengthening) reported, and what was strengthened
 "C01a": ("missed", "ledgerfee model instance now runs with program fees disabled and starts with an open debt; ledger driver switches program fees off in a third of its histories"),
 "C05a": ("missed", "liq driver: collateral bank gets a borrower so balances are fractional, recorded forks probe floor/ceil/ceil+1 of the balance; C05 clauses 'seized_collateral_did_not_become_debt' made strict and 'seizing_opens_no_debt_in_the_collateral_bank' added; borrow search bound fixed"),
 "C06a": ("missed", "same as C01a"),
 "C10a": ("missed", "TxShape model: second unhealthy account with a record (Recv2 alphabet: START3/START4/END3/END4/W/R); recv driver shape variants"),
 "C10b": ("missed", "recv driver: controlled dollar values on both sides of the $5 threshold with binary-searched seize boundaries"),
 "C16b": ("missed", "struct driver: second user depositing into the staked-retagged bank, made unhealthy through the debt price, liquidated by a liquidator with default-tag positions"),
}
for d in sorted(os.listdir(os.path.join(ROOT, "seeded"))):
    mp = os.path.join(ROOT, "seeded", d, "meta.json")
    rp = os.path.join(ROOT, "seeded", d, "result.txt")
    if not (os.path.exists(mp) and os.path.exists(rp)):
        continue
    m = json.load(open(mp))
    runs, det = [], []
    cur = None
    for line in open(rp):
        mm = re.match(r"== (C\d+) rc=(\d+)", line)
        if mm:
            cur = mm.group(1)
            runs.append({"cmd": f"./check {cur}", "rc": int(mm.group(2))})
            continue
        mm = re.search(r"clause=(\S+) ev=(\S+)", line)
        if mm and cur:
            k = f"{cur}:{mm.group(1)}@{mm.group(2)}"
            if k not in det:
                det.append(k)
        if "SPEC-DRIFT" in line and cur:
            k = f"{cur}:spec-drift(model predicted differently; informational)"
            if k not in det:
                det.append(k)
    m["checks_run"] = runs
    m["detected"] = any(r["rc"] == 1 for r in runs)
    m["detected_by"] = det
    if d in NEEDS:
        m["needs_to_manifest"] = NEEDS[d]
    if d in FIRST:
        m["first_run"] = FIRST[d][0]
        m["strengthened"] = FIRST[d][1]
    elif "first_run" not in m:
        m["first_run"] = "detected" if m["detected"] else "missed"
    json.dump(m, open(mp, "w"), indent=1)
    print(d, "detected" if m["detected"] else "MISSED", m.get("first_run"), len(det))
