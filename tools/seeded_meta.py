#!/usr/bin/env python3
"""Fold seeded/<id>/result.txt (written by tools/seeded_run.sh) into seeded/<id>/meta.json."""
import json, os, re, sys
ROOT = os.path.dirname(os.path.dirname(os.path.abspath(__file__)))
NEEDS = {
 "C01a": "group with PROGRAM_FEES_ENABLED cleared while the cached global program fee is non-zero; a bank with debt; time passing",
 "C01b": "Token-2022 transfer-fee mint; partial withdraw",
 "C04a": "deposit-cap-limited collateral value together with an e-mode weight",
 "C04b": "account with an isolated-tier debt borrowing a second asset",
 "C05a": "collateral balance with a fractional native amount (collateral bank has accrued interest); seize amount exactly ceil(balance)",
 "C05b": "liability bank priced by Pyth with EMA different from spot",
 "C06a": "group with PROGRAM_FEES_ENABLED cleared while the cached global fixed program fee is non-zero; debt; time passing",
 "C06b": "close_balance on a bank with unaccrued elapsed time",
 "C10a": "one transaction with two start_liquidation instructions for two different unhealthy accounts that both have a liquidation record",
 "C10b": "receivership on an account whose assets are worth >= $5 but whose net value is < $5; seize above 105% of repaid or leaving the account healthy",
 "C16a": "liquidation where the liquidator receives a position in a bank whose tag conflicts with its existing positions",
 "C16b": "liquidator with default-tag positions seizing collateral of a staked-tag bank from a liquidatee allowed to hold it",
}
NEEDS.update({
 "C02a": "withdraw_all of a position whose native amount is fractional (bank with accrued interest)",
 "C02b": "account disabled by bankruptcy that still holds other positions, then transfer_to_new_account",
 "C02c": "classic liquidation whose asset bank has an active deposit cap at or below its deposits",
 "C02d": "exact-amount withdraw/repay after accrual leaving 0.0001..1 share, then close_balance",
 "C03a": "repay_all of a fractional liability", "C03b": "partial withdraw while asset and liability share values differ",
 "C04c": "Pyth debt oracle whose EMA (price or confidence) differs from spot", "C04d": "init-value cap active, deposits near the cap, asset share value off 1",
 "C07a": "bankruptcy while the collateral bank's oracle is stale", "C07b": "uncovered loss between total shares and total value with share value off 1",
 "C08a": "config_group assigning the curve role to the key that currently holds the limit role (or revoking it when no limit delegate exists)",
 "C08b": "staked bank; exactly one of {LST mint, stake account} substituted", "C09c": "same as C08b",
 "C09a": "Switchboard feed whose 1.96 sigma exceeds the bank's max confidence (>= 5%)", "C09b": "bankruptcy with an unusable collateral oracle",
 "C09d": "fresh Pyth update with partial verification level",
 "C11a": "start_flashloan naming an end_flashloan of another account that merely lists the started account among its remaining accounts",
 "C11b": "bracket ending below the initial requirement",
 "C12a": "emissions-flag write on a bank carrying CLOSE_ENABLED (or any non-group, non-emission bit)", "C12b": "first deleverage withdrawal after the daily window rolled over",
 "C13a": "e-mode entry present, then configure_bank changing only the maintenance liability weight",
 "C13b": "edit_staked_settings(max age < 10) then propagate to a staked bank whose oracle is unchanged",
 "C14a": "pause, extending pause, propagate before the extended start", "C14b": "reduce-only collateral bank with an applicable e-mode entry",
 "C15a": "unpause between two pauses at realistic clock values", "C15b": "admin unpause of a pause that ran out without being cleared",
 "C17a": "borrow limit active, liability share value above asset share value", "C17b": "withdraw_all from a nearly fully lent bank whose vault holds uncollected fees",
 "C18a": "curve without interior points and zero rate above hundred rate", "C18b": "curve with a flat segment",
 "C19a": "interaction while the position is ineligible for emissions, later eligible", "C19b": "fee collection with liquidity below the sum of whole-token buckets",
 "C20a": "Kamino reserve whose pending referrer fees differ from the accumulated ones", "C20b": "adjust_i128 with |raw| in [2^79, 2^80)",
 "C01c": "origination fee with non-zero program fee rate", "C01d": "repay_all of a liability whose fraction exceeds 0.5",
})
FIRST = {  # what the first run of the checks (before strengthening) reported, and what was strengthened
 "C01a": ("missed", "ledgerfee model instance now runs with program fees disabled and starts with an open debt; ledger driver switches program fees off in a third of its histories"),
 "C05a": ("missed", "liq driver: collateral bank gets a borrower so balances are fractional, recorded forks probe floor/ceil/ceil+1 of the balance; C05 clauses 'seized_collateral_did_not_become_debt' made strict and 'seizing_opens_no_debt_in_the_collateral_bank' added; borrow search bound fixed"),
 "C06a": ("missed", "same as C01a"),
 "C10a": ("missed", "TxShape model: second unhealthy account with a record (Recv2 alphabet: START3/START4/END3/END4/W/R); recv driver shape variants"),
 "C10b": ("missed", "recv driver: controlled dollar values on both sides of the $5 threshold with binary-searched seize boundaries"),
 "C16b": ("missed", "struct driver: second user depositing into the staked-retagged bank, made unhealthy through the debt price, liquidated by a liquidator with default-tag positions"),
}
FIRST.update({
 "C02b": ("missed", "liq driver: transfer after bankruptcy (recorded fork); C02 now also validates the liq driver trace"),
 "C02c": ("missed", "liq driver lowers the collateral bank's deposit cap below its deposits before liquidating"),
 "C02d": ("missed", "ledger driver: exact-amount exits after accrual followed by close_balance"),
 "C04d": ("missed", "risk driver: collateral banks with a deposit share value off 1"),
 "C07a": ("missed", "liq driver: bankruptcy with stale / doctored / substituted collateral oracle; C07 clause every_holding_priced_before_write_off"),
 "C08a": ("missed", "Roles.tla (role re-assignment x probes) + clause role_is_held_by_the_key_the_admin_assigned"),
 "C08b": ("missed", "staked banks executable; C08Sub clauses on substituted price accounts; staked driver"),
 "C09b": ("missed", "liq driver: bankruptcy with unusable collateral oracle"),
 "C09d": ("missed", "risk driver: partially verified / wrong-owner / wrong-discriminator oracle variants"),
 "C11a": ("missed", "TxShape symbol EFL1X2 (another account's end listing the started account)"),
 "C13a": ("missed", "Config.tla: every configuration entry path x dyadic weights on both sides of the leverage caps"),
 "C13b": ("missed", "staked driver edits + propagates settings; C13 now judges staked-tag banks"),
 "C14a": ("missed", "C14 clauses group_receives_an_exact_copy_of_the_protocol_pause and not_refused_for_pause_once_it_ran_out"),
 "C14b": ("missed", "C14 clause reduce_only_deposits_count_for_nothing_toward_new_borrowing; risk driver trace validated under C14"),
 "C17a": ("missed", "caps driver: accrue, then bisect the largest accepted borrow under the cap"),
 "C17b": ("missed", "caps driver: nearly fully lent bank, small lender leaves by amount and by withdraw-all"),
 "C19a": ("missed", "C19 clause position_clock_restarts_at_every_interaction"),
 "C20a": ("missed", "integ functions kamino.total / kamino.full.c2l / solend.total with all supply components; composition clauses"),
 "C20b": ("missed", "I80F48 integer-range alphabets for adjust_i128; clause no_wrapped_value"),
})
NEEDS.update({
 "C03c": "Kamino reserve whose exchange rate is above 1 (venue interest accrued); deposit through the venue", "C03d": "estimate one above the venue's exact payout and a unit of dust in the pass-through vault",
 "C08c": "frozen account holding a Kamino position; withdrawal signed by the risk admin", "C08d": "another group's staked settings propagated onto this group's staked bank",
 "C09e": "Kamino reserve refreshed exactly one slot ago", "C09f": "Kamino bank whose Pyth EMA confidence differs from the spot confidence",
 "C13c": "staked settings with oracle max age below 10, then permissionless bank creation", "C13d": "Kamino bank created in the paused state with incoherent weights",
 "C16c": "eight positions of one integration, then a position of another integration", "C16d": "at least four positions, two closed leaving holes, then a position opened in a lower-key bank",
 "C19c": "emissions pool nearly exhausted when a position claims", "C19d": "permissionless emission payout for an account that never chose a destination",
})
FIRST.update({
 "C03c": ("missed (exit 2: the model's own transitions failed on the state the changed program produced)", "check.py defers model-level failures to the verdict on the real program's traces"),
 "C09e": ("missed", "kamino driver: reserve slot now / now-1 / now-2 probes; C09 clause position_with_unusable_price_counts_for_nothing"),
 "C09f": ("missed", "kamino driver: EMA confidence beyond the maximum while the spot confidence is small; same C09 clause"),
 "C13d": ("missed", "kamino driver creates banks with incoherent weights in every operational state; C13 judges Kamino-tag banks and validates the kamino driver trace"),
 "C16d": ("missed", "struct driver: open / close orderings over ten banks (holes, then lowest / highest / middle key)"),
 "C19d": ("missed", "admin driver: permissionless payouts before a destination was chosen (also for a second account)"),
})
NEEDS.update({
 "C04e": "Kamino bank priced by Pyth whose EMA confidence differs from the spot confidence times the reserve rate",
 "C04f": "tagged collateral, two debts: one in a bank with a matching e-mode entry, one in a bank with e-mode off",
 "C06c": "bank with insurance fees but no group fees; debt; time passing", "C06d": "bank idle (deposits, no debt) for a while, first borrow, then any accrual",
 "C07c": "solvent account whose collateral bank is reduce-only; bankruptcy attempt", "C07d": "redundant configure_bank(permissionless_bad_debt = false) on a bank that never opted in, then settlement by a stranger",
 "C10c": "transaction [non-whitelisted instruction of a venue program (or a refresh discriminator at another program), start, ..., end]",
 "C10d": "unhealthy account holding an isolated-tier (zero-weight) deposit; receiver withdraws it inside the bracket",
 "C14c": "pause propagated to the group, not re-propagated; financial instruction exactly at pause start + 1800 s",
 "C14d": "classic liquidation whose liability bank is paused",
 "C17c": "deposit_up_to_limit with amount >= remaining capacity while the bank's deposits are a whole number of units",
 "C17d": "bank whose borrow limit is exactly 0",
})
FIRST.update({
 "C06c": ("missed", "ledger driver: every combination of absent / present insurance and group fees; ledgerfee model bank B2 charges insurance fees only"),
 "C07c": ("missed", "liq driver: bankruptcy attempts on the still-solvent account with the collateral bank reduce-only / paused / as is (recorded forks)"),
 "C07d": ("missed", "C07 keeps the history of what the admin asked for (clause permissionless_only_where_the_admin_opted_in); liq driver issues a redundant 'off' before the stranger's attempt"),
 "C10c": ("missed", "TxShape symbols KREF / DREF (whitelisted refreshes), KOTH (another venue instruction), JREF (refresh discriminator at another program); Recv3 instance; PreStartOk requires program AND instruction"),
 "C10d": ("missed", "C10 clause value_taken_from_positions_the_end_checks_cannot_see_counts_as_seized; recv driver: isolated-tier and zero-initial-weight deposits, receiver withdrawals from them"),
 "C14d": ("missed", "liq driver: an acceptable liquidation retried with the liability / collateral bank paused and reduce-only (recorded forks)"),
})
FIRST.update({
 "C05c": ("missed", "C05 clause health_before_assessed_on_usable_prices_of_every_holding / C09 liquidation_assessment_needs_every_holding_priced; liq driver: second collateral bank whose price turns stale, unauthentic or is substituted while it alone keeps the account healthy (recorded forks)"),
 "C11c": ("missed", "TxShape symbols with end-index arguments 2^16+k, 2^32+1, 2^64-1 (FlashW instance); C11 start clause refuses them"),
 "C12d": ("missed", "C12 daily window reckoned from event times instead of the program's own stamp; admin driver: limit left idle for days, then a clean burst whose parts stay below the limit"),
 "C15c": ("missed", "C15 clause c_reset_events_24h_apart (resets located by the step at which they happen, not by the stored stamp); Panic model emits the predicted state (drift on the stored stamp); panic driver bursts after a quiet stretch that is not a whole number of days"),
 "C16f": ("missed", "struct driver: liquidator holding two or three positions and none in either liquidation bank; every order of its remaining accounts is tried when the canonical one is refused"),
 "C18d": ("missed", "Curve model families with four and five used point slots; curve driver: one defect at a random position of an otherwise valid curve"),
 "C19e": ("missed", "reference and harness take the fee wallet from the fee state (they had followed the group's cached copy, like the change); admin driver rotates the fee wallet and collects before / after propagation"),
 "C19f": ("missed", "C19 clause emissions_credited_in_full_for_size_time_rate (lower bound, position valued on its own side)"),
})
FIRST.update({  # round 8
 "C01e": ("missed", "C01 is judged on the liq driver's bankruptcies (insurance below / at / above the bad debt) and on the edge driver's exact-wipe episodes"),
 "C01f": ("missed", "edge driver: the steepest curves the program accepts (hundred-percent rate at the u32 maximum) with every fee parameter present, at and near full utilization"),
 "C02e": ("missed", "Life.tla (close_account / transfer on top of the ledger actions: [price collapse, liquidate all collateral, close] is explored by TLC) + edge driver episode 'debt without collateral, then close / move / settle'"),
 "C02f": ("missed", "edge driver: wind-down (token-less repayments allowed and complete) of a bank whose deposit share value is off 1, lenders purged one by one"),
 "C03e": ("missed", "harness: set_transfer_fee (real Token-2022 instruction) / set_epoch, fee in force read from the mint; edge driver: deposits / repays / withdrawals / borrows in the epochs before, at and after the activation of a re-scheduled fee"),
 "C07e": ("missed", "edge driver: a solvent account whose collateral bank's collateral-value cap is lowered far below its deposits (with a large co-depositor); bankruptcy attempts by admin and risk admin"),
 "C07f": ("missed", "edge driver: sole borrower drew every deposited token (or all but 1 / 2 units), no fees, no time, insurance empty / a unit / half / equal / more: uncovered loss =, <, > deposits"),
 "C08e": ("missed", "C08 general clauses on every recorded execution (third_party_control_ends_with_the_transaction, balances_change_only_with_the_entitled_signature, third party only strictly inside a bracket); Recv2 alphabet, recv driver ([start A, start B, end A], strangers probing both accounts afterwards) and admin driver added to C08"),
 "C08f": ("missed", "same as C08e (the recv driver's empty brackets followed by strangers' withdrawals)"),
 "C09g": ("missed", "edge driver: Pyth feeds with exponents from -12 up to +3 and confidence ratios up to the maximum, borrow / withdraw / liquidation boundaries"),
 "C09h": ("missed", "edge driver: reduce-only collateral bank whose feed stopped while the debt bank's feed goes on; liquidation, bankruptcy, receivership start, borrow"),
 "C13f": ("missed", "C13 clause account_that_passes_the_initial_check_cannot_be_liquidated; risk driver attempts a liquidation after every boundary borrow; RiskCfg offers an e-mode entry far below the collateral bank's own weights"),
 "C14f": ("missed", "C14 clauses reduce_only_deposits_still_count_when_liquidation_is_assessed / _when_bad_debt_is_assessed"),
 "C17e": ("missed", "edge driver: utilization boundary by bisection (borrow and withdraw) on banks whose deposits and debt both carry a fraction after accrual; amounts around the boundary recorded"),
})
FIRST.update({  # rounds 9 and 10
 "C12f": ("missed (not run before the strengthening: no recorded instruction carried bytes trailing its arguments, so the shape could not occur)", "harness modifier pad; TxShape padded start / end symbols (RecvP instance); C12 clause deleverage_is_bracketed_like_a_liquidation / deleverage_leaves_no_marker_on_any_account; admin driver: two-account deleverage brackets with a plain and a padded second start"),
 "C08g": ("missed (not run before the strengthening: the padded start existed only in C10's RecvP instance)", "RecvP instance added to C08 (its general clause third_party_control_ends_with_the_transaction judges the committed lists)"),
 "C16i": ("missed", "edge driver: a liquidator holding two to five positions, one of them in the bank it seizes from and none in the debt bank (whose key lies above or below the collateral banks' keys); after a refusal, account lists naming one of the liquidator's banks twice are tried"),
 "C16j": ("missed", "edge driver: asset-class mixing in every opening order (SOL-class collateral, a pure default-class debt, then staked collateral; staked first; a repaid-to-dust debt; leaving the default bank)"),
 "C05g": ("missed (model drift only)", "RiskCfg: a feed variant after which the account is healthy only thanks to the e-mode maintenance weight, followed by the liquidation attempt"),
 "C09l": ("missed", "liq driver: bankruptcy and receivership attempted on feeds whose confidence interval is far beyond the bank's maximum (collateral feed, debt feed, only the spot / only the time-weighted side; harness modifier conf_frac); C09 clause receivership_assessment_needs_every_holding_priced"),
 "C04k": ("missed", "RiskCfg world: a second plain debt bank (B7) whose key lies below the e-mode debt bank's (B4 lies above), so the account's debts are reconciled in either order; borrow boundary located for it"),
 "C13g": ("missed", "Config.tla: limits travel with the weights in configure requests (borrow limit 0 / small together with incoherent liability weights)"),
 "C10h": ("missed (not run before the strengthening: no bracket world had a reduce-only collateral bank)", "Recv.tla: the admin makes the collateral bank reduce-only before the bracket (its deposits keep counting for the maintenance and equity valuations)"),
 "C02h": ("missed", "edge driver: all sixteen slots in use, one of them holding less than a share (every whole unit withdrawn after accrual), a seventeenth position attempted by deposit and by borrow"),
 "C03g": ("missed", "edge driver: an operation reaching across the zero of a position by less than 0.0001 (withdraw 1001 of a deposit worth 1000.99995; borrow against a remainder of 0.00005), share value set by marked injection"),
 "C06h": ("missed", "edge driver: time passes and interest accrues on a bank flagged for token-less repayments (wind-down)"),
 "C07h": ("missed", "C07 clause insurance_pays_first_up_to_its_balance now computes, for transfer-fee mints, what the whole insurance vault can deliver net of the fee in force including its cap (it had only bounded the outflow by the vault balance)"),
})
FIRST.update({  # rounds 12 and 13
 "C20g": ("missed", "C20 judges the staleness rule on what the program decides: Venue.tla instances, VenueRisk.tla and the kamino / drift / solend drivers run under C20 with clauses position_in_a_venue_not_refreshed_now_counts_for_nothing / no_*_assessment_on_a_venue_not_refreshed_now / no_price_cached_from_a_venue_not_refreshed_now; driver episodes with a feed older than the venue's last update, which is older than now"),
 "C15h": ("missed (model drift only)", "C15 judged the group-level hold on the group's own copy of the pause (the program's book-keeping); it now carries the latest start any protocol-wide pause ever had: a user is held for 'protocol paused' only within 30 minutes of such a start (d_held_only_within_30min_of_a_protocol_pause_start), and a propagation never stamps the copy later than the pause started (propagation_never_stamps_a_pause_later_than_it_started)"),
 "C18h": ("detected (the clause legacy_rate_defined_beyond_full_utilization was added from the change's description before its first run; the judgement on [0, 1] alone would have missed it, Curve.tla reported it as drift)", "C18: a legacy curve has to be defined on (100 %, 200 %] as well"),
 "C13k": ("missed", "kill driver (harness/src/drv2.rs): a bank wiped out by bad debt, then every operational state asked for alone and in every order of two (a detour through paused or reduce-only), with deposit / borrow probes; Bkr.tla got the configure_bank{operational_state} action (no kill is reachable in its world, so the dead-bank refusals come from the driver)"),
 "C05k": ("missed", "RiskCfg / RecvO feed variant: a drop with the spot confidence at the 5 % cap while the time-weighted price lies well above spot (the cap is 5 % of the price it is applied to), followed by liquidation attempts / brackets"),
 "C06k": ("missed", "zerorate driver (harness/src/drv2.rs, C06): curves whose base rate is zero over a stretch of utilization on banks charging fixed and rate fees; borrow to a utilization inside / at the end of / beyond the stretch, let time pass, accrue, collect"),
 "C16m": ("not reported: the change cannot manifest through the program", "the change lets can_be_closed() accept an account flagged as in receivership, but that flag exists only inside a transaction whose start_liquidation / start_deleverage validated the whole instruction list, and the list may contain no marginfi instruction other than init_liquidation_record, withdraw, repay, kamino_withdraw, drift_withdraw and the matching end (liquidate_start.rs: validate_instructions); a transaction containing marginfi_account_close is refused at the start, before the flag is ever set - on the changed program too. At the level the property speaks about (what instructions do) the changed program behaves like the unchanged one; only the unit test of the helper tells them apart. Kept for the record; no check was loosened or strengthened for it"),
 "C11j": ("missed", "TxShape Flash6 instance: flash-loan brackets on an account without any position (its end instruction is sent without bank / price accounts)"),
})
for d in sorted(os.listdir(os.path.join(ROOT, "seeded"))):
    mp = os.path.join(ROOT, "seeded", d, "meta.json")
    rp = os.path.join(ROOT, "seeded", d, "result.txt")
    if not (os.path.exists(mp) and os.path.exists(rp)):
        continue
    m = json.load(open(mp))
    runs, det = [], []
    cur = None
    for line in open(rp):
        mm = re.match(r"== (C\d+) rc=(\d+)", line)
        if mm:
            cur = mm.group(1)
            runs.append({"cmd": f"./check {cur}", "rc": int(mm.group(2))})
            continue
        mm = re.search(r"clause=(\S+) ev=(\S+)", line)
        if mm and cur:
            k = f"{cur}:{mm.group(1)}@{mm.group(2)}"
            if k not in det:
                det.append(k)
        if "SPEC-DRIFT" in line and cur:
            k = f"{cur}:spec-drift(model predicted differently; informational)"
            if k not in det:
                det.append(k)
    m["checks_run"] = runs
    m["detected"] = any(r["rc"] == 1 for r in runs)
    m["detected_by"] = det
    if d in NEEDS:
        m["needs_to_manifest"] = NEEDS[d]
    if d in FIRST:
        m["first_run"] = FIRST[d][0]
        m["strengthened"] = FIRST[d][1]
    elif "first_run" not in m:
        m["first_run"] = "detected" if m["detected"] else "missed"
    json.dump(m, open(mp, "w"), indent=1)
    print(d, "detected" if m["detected"] else "MISSED", m.get("first_run"), len(det))
