#!/usr/bin/env python3
"""Regenerate MANIFEST.json from tools/props.py (claimed checks) and properties.jsonl (the rest)."""
import json, os, sys
ROOT = os.path.dirname(os.path.dirname(os.path.abspath(__file__)))
sys.path.insert(0, os.path.join(ROOT, "tools"))
from props import PROPS
from manifest_text import TEXT, NOT_APPLICABLE
ids = [json.loads(l)["id"] for l in open(os.path.join(ROOT, "properties.jsonl"))]
checks = []
na = []
for i in ids:
    if i in PROPS and i in TEXT:
        t = TEXT[i]
        checks.append({
            "property_id": i,
            "quick_cmd": f"./check {i} --tier quick",
            "thorough_cmd": f"./check {i} --tier thorough",
            "evidence_file": f"/verif/evidence/{i}.json",
            "replay_cmd_template": f"./check {i} --replay {{path}}",
            "engine": "tla-trace",
            "level_claimed": {"category": "model_checking", "text": t["level"], "design_ref": t.get("ref", "DESIGN.md section 5")},
            "level_note": t["note"],
            "technique": t["technique"],
        })
    else:
        na.append({"property_id": i, "reason": NOT_APPLICABLE.get(i, "check not built yet in this round; no claim is made")})
m = {
    "version": 1,
    "setup_cmd": "bash tools/setup.sh",
    "hooks": {"guard": "marginfi_verif", "enable": "RUSTFLAGS --cfg marginfi_verif (set in harness/.cargo/config.toml); no source hooks exist: all state is observed from account bytes",
              "baseline_off_cmd": "cd /repo && cargo test --workspace --no-fail-fast --offline", "source_commits": [], "add_only": True},
    "engines": [{"name": "tla-trace", "path": "/verif/check", "serves_properties": [c["property_id"] for c in checks],
                 "kind_free_text": "explicit TLA+ specification (spec/*.tla) model-checked by TLC; behaviours replayed into the real program through a native mini-runtime; recorded traces validated by TLC against the property predicates"}],
    "checks": checks,
    "not_applicable": na,
    "notes": "See DESIGN.md. Exit 0 held, 1 VIOLATION, 2 tool error.",
}
json.dump(m, open(os.path.join(ROOT, "MANIFEST.json"), "w"), indent=1)
print("claimed:", [c["property_id"] for c in checks])
