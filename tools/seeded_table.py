#!/usr/bin/env python3
"""Markdown table of seeded/<id>/meta.json (for DESIGN.md)."""
import json, os, re
ROOT = os.path.dirname(os.path.dirname(os.path.abspath(__file__)))
print("| id | needs | first run | now reported by |")
print("|----|-------|-----------|-----------------|")
for d in sorted(os.listdir(os.path.join(ROOT, "seeded"))):
    mp = os.path.join(ROOT, "seeded", d, "meta.json")
    if not os.path.exists(mp):
        continue
    m = json.load(open(mp))
    by = [x for x in m.get("detected_by", []) if "spec-drift" not in x]
    drift = any("spec-drift" in x for x in m.get("detected_by", []))
    names = sorted({re.sub(r"@.*", "", x) for x in by})
    txt = ", ".join(f"`{n}`" for n in names[:3]) + (" ..." if len(names) > 3 else "") + ("; model drift" if drift else "")
    print(f"| {d} | {m.get('needs_to_manifest','')} | {m.get('first_run','')} | {txt if m.get('detected') else '**not detected**'} |")
