#!/bin/bash
# usage: tools/seeded_run.sh <seeded-id> [prop ...]   — apply /verif/seeded/<id>/patch.diff to /repo, run the checks
# (default: the property named in meta.json), record what they reported, restore /repo.
set -u
ID=$1; shift
D=/verif/seeded/$ID
[ -f "$D/patch.diff" ] || { echo "no $D/patch.diff"; exit 2; }
PROPS="$@"
[ -z "$PROPS" ] && PROPS=$(python3 -c "import json;print(json.load(open('$D/meta.json'))['property'])")
cd /repo && git status --short | grep -q . && { echo "/repo not clean"; exit 2; }
git apply "$D/patch.diff" || { echo "patch does not apply"; exit 2; }
cd /verif
: > "$D/result.txt"
for p in $PROPS; do
  cp evidence/$p.json /tmp/seeded_ev_$p.json 2>/dev/null   # evidence must describe the unchanged tree: put it back afterwards
  ./check $p > /tmp/seeded_${ID}_${p}.out 2>&1; rc=$?
  echo "== $p rc=$rc" >> "$D/result.txt"
  grep -E "^(VIOLATION|OK|TOOL-ERROR|KNOWN-FINDING|  clause)" /tmp/seeded_${ID}_${p}.out | sed 's/replay=[^ ]*//' | sort | uniq -c | sort -rn | head -8 >> "$D/result.txt"
  grep -E "^SPEC-DRIFT" /tmp/seeded_${ID}_${p}.out | sort | uniq -c | sort -rn | head -4 >> "$D/result.txt"
  cp /tmp/seeded_ev_$p.json evidence/$p.json 2>/dev/null
done
cd /repo && git checkout -- . && git clean -fdq
cat "$D/result.txt"
