#!/bin/bash
# usage: tlc.sh <workers> <heap> <metadir> <tlc args...>   (run from /verif/spec)
W=$1; H=$2; M=$3; shift 3
SPEC=/verif/spec
exec java -Xss1g -Xmx$H -XX:+UseParallelGC -Dtlc2.tool.queue.IStateQueue=StateDeque \
  -Dtlc2.overrides.TLCOverrides=verif.BigOverrides:tlc2.overrides.TLCOverrides \
  -cp $SPEC/classes:/opt/veriftools/tla/tla2tools.jar:/opt/veriftools/tla/CommunityModules-deps.jar \
  tlc2.TLC -workers $W -metadir $M -cleanup -noGenerateSpecTE -checkpoint 0 "$@"
