#!/bin/bash
# usage: tools/mutant.sh <patch-or-"sed:<file>:<expr>"> <prop> [<prop>...]
# Applies a change to /repo, runs the given checks (quick), restores /repo. For development only.
set -u
M=$1; shift
cd /repo
if [[ "$M" == sed:* ]]; then
  IFS=: read -r _ f expr <<< "$M"
  sed -i "$expr" "$f"
else
  git apply "$M" || { echo "patch failed"; exit 2; }
fi
git diff --stat | tail -2
cd /verif
for p in "$@"; do
  ./check $p 2>&1 | grep -E "^(VIOLATION|OK|TOOL-ERROR|KNOWN|SPEC-DRIFT|  clause)" | sort | uniq -c | sort -rn | head -6
done
cd /repo && git checkout -- . && git status --short | head -3
