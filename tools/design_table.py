#!/usr/bin/env python3
"""Replace the seeded-changes table in DESIGN.md with the output of tools/seeded_table.py and refresh the counts line."""
import json, os, re, subprocess
ROOT = os.path.dirname(os.path.dirname(os.path.abspath(__file__)))
p = os.path.join(ROOT, "DESIGN.md")
s = open(p).read()
tab = subprocess.run(["python3", os.path.join(ROOT, "tools", "seeded_table.py")], capture_output=True, text=True).stdout.rstrip("\n")
lines = s.split("\n")
i = next(k for k, l in enumerate(lines) if l.startswith("| id | needs | first run | now reported by |"))
j = i
while j < len(lines) and lines[j].startswith("|"):
    j += 1
lines[i:j] = tab.split("\n")
s = "\n".join(lines)
n = first = missed = undet = 0
for d in sorted(os.listdir(os.path.join(ROOT, "seeded"))):
    mp = os.path.join(ROOT, "seeded", d, "meta.json")
    if os.path.exists(mp):
        m = json.load(open(mp))
        if not m.get("checks_run"):
            continue
        n += 1
        if str(m.get("first_run", "")).startswith("detected"):
            first += 1
        else:
            missed += 1
        if not m.get("detected"):
            undet += 1
s = re.sub(r"\d+ of the \d+ changes filed so far \(rounds 1-\d+\)", f"{first} of the {n} changes filed so far (rounds 1-14)", s)
s = re.sub(r"the other \d+ were missed at first", f"the other {missed} were missed at first", s)
open(p, "w").write(s)
print(n, "changes;", first, "reported at once;", missed, "missed at first;", undet, "currently undetected")
