#!/bin/bash
# Development aid (not used by any registered check): a scratch copy of /verif whose harness is bound to a scratch
# worktree of /repo, so that seeded changes can be tried while /repo and /verif stay untouched and usable.
#   tools/lab.sh init            create $LAB/repo (worktree of /repo HEAD) and $LAB/verif (copy incl. build output)
#   tools/lab.sh sync            refresh $LAB/verif from /verif (sources only) and $LAB/repo to /repo HEAD
#   tools/lab.sh run <id> [prop ...]   apply seeded/<id>/patch.diff in $LAB/repo, run the checks there, write
#                                seeded/<id>/result.txt in /verif, undo the patch
#   tools/lab.sh rm              remove the lab with its build output
set -u
LAB=${LAB:-/tmp/lab}
case "$1" in
init)
  mkdir -p $LAB
  [ -d $LAB/repo ] || git -C /repo worktree add --detach $LAB/repo HEAD >/dev/null
  mkdir -p $LAB/verif
  rsync -a --exclude work --exclude .git /verif/ $LAB/verif/
  sed -i "s#\"/repo/#\"$LAB/repo/#" $LAB/verif/harness/Cargo.toml
  mkdir -p $LAB/verif/work/meta
  (cd $LAB/verif/harness && CARGO_NET_OFFLINE=true cargo build --offline 2>&1 | tail -1)
  ;;
sync)
  rsync -a --exclude work --exclude .git --exclude harness/target --exclude evidence /verif/ $LAB/verif/
  sed -i "s#\"/repo/#\"$LAB/repo/#" $LAB/verif/harness/Cargo.toml
  git -C $LAB/repo checkout -q -- . && git -C $LAB/repo clean -fdq && git -C $LAB/repo checkout -q --detach $(git -C /repo rev-parse HEAD)
  ;;
run)
  ID=$2; shift 2
  D=/verif/seeded/$ID
  PROPS="$@"
  [ -z "$PROPS" ] && PROPS=$(python3 -c "import json;print(json.load(open('$D/meta.json'))['property'])")
  git -C $LAB/repo status --short | grep -q . && { echo "$LAB/repo not clean"; exit 2; }
  git -C $LAB/repo apply $D/patch.diff || { echo "patch does not apply"; exit 2; }
  : > $D/result.txt
  for p in $PROPS; do
    (cd $LAB/verif && ./check $p > $LAB/${ID}_${p}.out 2>&1); rc=$?
    echo "== $p rc=$rc" >> $D/result.txt
    grep -E "^(VIOLATION|OK|TOOL-ERROR|KNOWN-FINDING|  clause)" $LAB/${ID}_${p}.out | sed 's/replay=[^ ]*//' | sort | uniq -c | sort -rn | head -8 >> $D/result.txt
    grep -E "^SPEC-DRIFT" $LAB/${ID}_${p}.out | sort | uniq -c | sort -rn | head -4 >> $D/result.txt
  done
  git -C $LAB/repo checkout -q -- . && git -C $LAB/repo clean -fdq
  cat $D/result.txt
  ;;
rm)
  git -C /repo worktree remove --force $LAB/repo; rm -rf $LAB
  ;;
esac
