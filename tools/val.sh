#!/bin/bash
# development aid: validate one recorded trace against the named properties  (tools/val.sh <trace> C04 C09 ...)
T=$(readlink -f $1); shift
cd /verif/spec
for p in "$@"; do export P_$p=1; done
TRACE=$T ../tools/tlc.sh 1 6g /verif/work/meta/val_dev_$$ -config Trace.cfg Trace.tla 2>&1 | grep -E '^"FAIL|TRACE-|Error|rror:' | sort | uniq -c | sort -rn | head -${HEADN:-20}
rm -rf /verif/work/meta/val_dev_$$
