#!/bin/bash
# development aid: validate one recorded trace against the named properties  (tools/val.sh <trace> C04 C09 ...)
# prints one line per (property, clause) with its count and the first line number, then TRACE-OK / errors
T=$(readlink -f $1); shift
cd /verif/spec
for p in "$@"; do export P_$p=1; done
TRACE=$T ../tools/tlc.sh 1 6g /verif/work/meta/val_dev_$$ -config Trace.cfg Trace.tla 2>&1 | grep -E '^"FAIL|TRACE-|Error|rror:' > /verif/work/meta/val_dev_$$.out
python3 - /verif/work/meta/val_dev_$$.out <<'PY'
import sys, json, collections
c = collections.OrderedDict()
for l in open(sys.argv[1]):
    l = l.strip()
    try:
        s = json.loads(l)
    except Exception:
        print(l[:300]); continue
    if s.startswith("FAIL "):
        j = json.loads(s[5:]); k = (j["property"], j["clause"])
        c.setdefault(k, [0, j["line"], json.dumps(j["info"])[:int(__import__("os").environ.get("INFOW", "160"))]]); c[k][0] += 1
    else:
        print(s)
for k, v in c.items():
    print(f"{v[0]:6d} {k[0]} {k[1]} first_line={v[1]} {v[2]}")
PY
rm -rf /verif/work/meta/val_dev_$$ /verif/work/meta/val_dev_$$.out
