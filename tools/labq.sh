#!/bin/bash
# Development aid: tools/labq.sh worker <lab-dir> [wait-for-file]  - pops seeded ids from /tmp/labq/queue (one per line) and runs
# tools/lab.sh run <id> in that lab (syncing the lab from /verif first);  tools/labq.sh add <id...>  appends ids.
Q=/tmp/labq/queue
case "$1" in
add) shift; for i in "$@"; do echo $i >> $Q; done ;;
worker)
  LABD=$2; W=${3:-}
  [ -n "$W" ] && while [ ! -f "$W" ]; do sleep 20; done
  while true; do
    [ -f /tmp/labq/stop ] && exit 0
    ID=$( (flock 9; head -1 $Q 2>/dev/null; sed -i 1d $Q 2>/dev/null) 9>/tmp/labq/lock )
    if [ -z "$ID" ]; then sleep 20; continue; fi
    while [ ! -f /verif/seeded/$ID/meta.json ]; do sleep 20; done
    LAB=$LABD /verif/tools/lab.sh sync
    LAB=$LABD /verif/tools/lab.sh run $ID > /tmp/labq/run_$ID.log 2>&1
  done ;;
esac
