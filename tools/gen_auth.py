#!/usr/bin/env python3
"""Source of truth for the authorization matrix (DESIGN.md Appendix B): per instruction the signer role,
the base action that must be accepted, and per account slot its binding class.  Generates
spec/AuthTable.tla (used by Auth.tla / PropsAuth.tla) and spec/setups/auth.json."""
import json, os
ROOT = os.path.dirname(os.path.dirname(os.path.abspath(__file__)))

# candidates for substitution per binding kind: foreign objects of the same type
CAND = {
 "group": ["G2"],
 "acct": ["XA", "A2"],            # same authority in another group; another authority in the same group
 "acct_g": ["XA"],                # bound to the group only
 "bank": ["X1", "B2"],            # bound to group and to its vaults
 "bank_g": ["X1"],                # bound to the group only
 "vliq": ["B2.liq", "B1.ins", "X1.liq"],
 "bank2": ["X1", "B1"], "vliq2": ["B1.liq", "B2.ins", "X1.liq"], "aliq2": ["B1.liq_auth", "B2.ins_auth"],
 "vins": ["B2.ins", "B1.fee"],
 "vfee": ["B2.fee", "B1.ins"],
 "aliq": ["B2.liq_auth", "B1.ins_auth"],
 "ains": ["B2.ins_auth", "B1.liq_auth"],
 "afee": ["B2.fee_auth", "B1.liq_auth"],
 "tprog": ["prog.token22", "prog.unknown"],
 "sprog": ["prog.unknown"],
 "feestate": ["G1", "fakefee"],
 "feewallet": ["U1"],
 "sysixs": ["sysvar.rent"],
 "rec": ["A2.rec"],
 "mint": ["M2"],
 "eauth": ["B2.liq_auth"],
 "evault": ["B1.liq"],
 "meta": ["B2.meta"],
 "feeata": ["U1.M1"],
 "feesdest": ["U2.M1"],
 "ssettings": ["G2.staked"],                # another group's staked settings
 "sbank": ["B1", "XS1"],                    # a non-staked bank of the group; a staked bank of another group
 "lstmint": ["LST2", "M1"], "solpool": ["SP2.stake", "SP3"], "stakepool": ["SP2", "stranger"],
 "rec3": ["A2.rec"],
 "bankf": ["X1", "B1"],                      # another group's bank; a bank of the group that is not flagged tokenless-complete
 # Kamino integration (stand-in venue): another venue bank of the group / a non-venue bank, and their accounts
 "kbank": ["KB2", "B1"], "klva": ["KB2.liq_auth"], "kvliq": ["KB2.liq", "B1.liq"], "kobl": ["KB2.obl"], "kres": ["KR2"],
 "kbank3": ["KB1", "B1"], "klva3": ["KB1.liq_auth"], "kvliq3": ["KB1.liq"], "kobl3": ["KB1.obl"], "kres3": ["KR1"], "kmarket": ["KM2"],
 "kprog": ["prog.unknown"], "fprog": ["prog.unknown"], "sysrent": ["sysvar.ixs"],
 "kmint": ["M2"], "kres_bad": ["B1", "KB1.obl"], "kobl_pda": ["KB1.obl"],
 # Drift integration (stand-in venue)
 "dbank": ["DB2", "B1"], "dlva": ["DB2.liq_auth"], "dvliq": ["DB2.liq", "B1.liq"], "duser": ["DB2.duser"], "dstats": ["DB2.dstats"], "dmkt": ["DM2"],
 # Solend integration (stand-in venue)
 "lbank": ["LB2", "B1"], "llva": ["LB2.liq_auth"], "lvliq": ["LB2.liq", "B1.liq"], "lobl": ["LB2.obl"], "lres": ["SR2"], "lprog": ["prog.unknown"],
 # rows added in round 7 (remaining instructions of the program)
 "eauth2": ["B1.emis_auth.ME"], "evault2": ["B1.emis_vault.ME"], "emisdest": ["emisadmin.ME", "U2.M1"],
 "dmkt_bad": ["B1", "KR1"], "duser_pda": ["DB1.duser"], "dstats_pda": ["DB1.dstats"],
 "dbank3": ["DB1", "B1"], "dlva3": ["DB1.liq_auth"], "dvliq3": ["DB1.liq"], "duser3": ["DB1.duser"], "dstats3": ["DB1.dstats"], "dmkt3": ["DM1"],
 "sres_bad": ["B1", "KR1"], "lobl_pda": ["LB1.obl"],
 "lbank3": ["LB1", "B1"], "llva3": ["LB1.liq_auth"], "lvliq3": ["LB1.liq"], "lobl3": ["LB1.obl"], "lres3": ["SR1"],
 "anygroup": ["B1", "feestate"], "anyacct": ["B1", "G1"], "anybank": ["A1", "G1"],
 "signer": [], "free": [], "payer": [], "new": [],
}

# role -> wallet name in the auth world
ROLES = {"authority": "U1", "authority2": "U2", "authority3": "U3", "admin": "admin", "risk_admin": "riskadmin", "emode_admin": "emodeadmin",
         "curve_admin": "curveadmin", "limit_admin": "limitadmin", "emissions_admin": "emisadmin", "metadata_admin": "metaadmin",
         "fee_admin": "feeadmin", "anyone": "stranger", "receiver": "liquidator"}
IDENTITIES = ["U1", "U2", "U3", "admin", "admin2", "riskadmin", "emodeadmin", "curveadmin", "limitadmin", "emisadmin", "metaadmin", "feeadmin", "stranger"]

def S(*slots):
    return [dict(name=n, kind=k) for n, k in slots]

USER_BANK = lambda tokslot: [("group","group"),("marginfi_account","acct"),("authority","signer"),("bank","bank"),(tokslot,"free"),("liquidity_vault","vliq"),("token_program","tprog")]
USER_BANK_AUTH = lambda tokslot: [("group","group"),("marginfi_account","acct"),("authority","signer"),("bank","bank"),(tokslot,"free"),("bank_liquidity_vault_authority","aliq"),("liquidity_vault","vliq"),("token_program","tprog")]

# op -> role(s), base action, slots.  "also": additional entitled roles.  "signer_slot": index of the role's signer slot.
OPS = {
 "deposit":   dict(role="authority", base={"op":"deposit","acct":"A1","bank":"B1","amount":10}, slots=S(*USER_BANK("signer_token_account"))),
 "repay":     dict(role="authority2", base={"op":"repay","acct":"A2","bank":"B1","amount":10}, slots=S(("group","group"),("marginfi_account","acct_g"),("authority","signer"),("bank","bank"),("signer_token_account","free"),("liquidity_vault","vliq"),("token_program","tprog"))),
 "withdraw":  dict(role="authority", base={"op":"withdraw","acct":"A1","bank":"B1","amount":10}, slots=S(*USER_BANK_AUTH("destination_token_account"))),
 "borrow":    dict(role="authority2", base={"op":"borrow","acct":"A2","bank":"B1","amount":10}, slots=S(("group","group"),("marginfi_account","acct_g"),("authority","signer"),("bank","bank"),("destination_token_account","free"),("bank_liquidity_vault_authority","aliq"),("liquidity_vault","vliq"),("token_program","tprog"))),
 "close_balance": dict(role="authority", base={"op":"close_balance","acct":"A1","bank":"B2"}, slots=S(("group","group"),("marginfi_account","acct"),("authority","signer"),("bank","bank_g"))),
 "liquidate": dict(role="authority", base={"op":"liquidate","liquidator":"A1","liquidatee":"A3","asset_bank":"B2","liab_bank":"B1","amount":1000},
                   slots=S(("group","group"),("asset_bank","bank_g"),("liab_bank","bank"),("liquidator_marginfi_account","acct"),("authority","signer"),("liquidatee_marginfi_account","acct_g"),("bank_liquidity_vault_authority","aliq"),("bank_liquidity_vault","vliq"),("bank_insurance_vault","vins"),("token_program","tprog"))),
 "bankruptcy": dict(role="admin", also=["risk_admin"], base={"op":"bankruptcy","acct":"A4","bank":"B1"},
                   slots=S(("group","group"),("signer","signer"),("bank","bank"),("marginfi_account","acct_g"),("liquidity_vault","vliq"),("insurance_vault","vins"),("insurance_vault_authority","ains"),("token_program","tprog"))),
 "freeze":    dict(role="admin", base={"op":"freeze","acct":"A1","frozen":True}, slots=S(("group","group"),("marginfi_account","acct_g"),("admin","signer"))),
 "close_account": dict(role="authority3", base={"op":"close_account","acct":"A6"}, slots=S(("marginfi_account","free"),("authority","signer"),("fee_payer","payer"))),
 "transfer_account": dict(role="authority3", base={"op":"transfer_account","acct":"A5","new_acct":"N1","new_authority":"U7"},
                   slots=S(("group","group"),("old_marginfi_account","acct_g"),("new_marginfi_account","new"),("authority","signer"),("fee_payer","payer"),("new_authority","free"),("global_fee_wallet","feewallet"),("system_program","sprog"))),
 "update_emis_dest": dict(role="authority", base={"op":"update_emis_dest","acct":"A1","dst":"U1"}, slots=S(("marginfi_account","free"),("authority","signer"),("destination_account","free"))),
 "withdraw_emissions": dict(role="authority", base={"op":"withdraw_emissions","acct":"A1","bank":"B1"},
                   slots=S(("group","group"),("marginfi_account","acct"),("authority","signer"),("bank","bank_g"),("emissions_mint","mint"),("emissions_auth","eauth"),("emissions_vault","evault"),("destination_account","free"),("token_program","tprog"))),
 "config_group": dict(role="admin", base={"op":"config_group","group":"G1"}, slots=S(("marginfi_group","free"),("admin","signer"))),
 "configure_bank": dict(role="admin", base={"op":"configure_bank","bank":"B1","cfg":{"deposit_limit":"1000000000000000"}}, slots=S(("group","group"),("admin","signer"),("bank","bank_g"))),
 "configure_interest": dict(role="curve_admin", base={"op":"configure_interest","bank":"B1","ir":{"ins_ir":"0.06"}}, slots=S(("group","group"),("delegate_curve_admin","signer"),("bank","bank_g"))),
 "configure_limits": dict(role="limit_admin", base={"op":"configure_limits","bank":"B1","deposit_limit":"2000000000000000"}, slots=S(("group","group"),("delegate_limit_admin","signer"),("bank","bank_g"))),
 "configure_oracle": dict(role="admin", base={"op":"configure_oracle","bank":"B2","oracle":"O2","setup":3}, slots=S(("group","group"),("admin","signer"),("bank","bank_g"))),
 "set_fixed_price": dict(role="admin", base={"op":"set_fixed_price","bank":"B3","price":3}, slots=S(("group","group"),("admin","signer"),("bank","bank_g"))),
 "configure_emode": dict(role="emode_admin", base={"op":"configure_emode","bank":"B1","tag":5,"entries":[]}, slots=S(("group","group"),("emode_admin","signer"),("bank","bank_g"))),
 "clone_emode": dict(role="admin", also=["emode_admin"], base={"op":"clone_emode","from":"B1","to":"B2"}, slots=S(("group","group"),("signer","signer"),("copy_from_bank","bank_g"),("copy_to_bank","bank_g"))),
 "withdraw_fees": dict(role="admin", base={"op":"withdraw_fees","bank":"B1","amount":1}, slots=S(("group","group"),("bank","bank"),("admin","signer"),("fee_vault","vfee"),("fee_vault_authority","afee"),("dst_token_account","free"),("token_program","tprog"))),
 "withdraw_insurance": dict(role="admin", base={"op":"withdraw_insurance","bank":"B1","amount":1}, slots=S(("group","group"),("bank","bank"),("admin","signer"),("insurance_vault","vins"),("insurance_vault_authority","ains"),("dst_token_account","free"),("token_program","tprog"))),
 "update_fees_dest": dict(role="admin", base={"op":"update_fees_dest","bank":"B1","dst":"U1.M1"}, slots=S(("group","group"),("bank","bank_g"),("admin","signer"),("destination_account","free"))),
 "withdraw_fees_perm": dict(role="anyone", base={"op":"withdraw_fees_perm","bank":"B1","amount":1}, slots=S(("group","group"),("bank","bank"),("fee_vault","vfee"),("fee_vault_authority","afee"),("fees_destination_account","feesdest"),("token_program","tprog"))),
 "collect_fees": dict(role="anyone", base={"op":"collect_fees","bank":"B1"}, slots=S(("group","group"),("bank","bank"),("liquidity_vault_authority","aliq"),("liquidity_vault","vliq"),("insurance_vault","vins"),("fee_vault","vfee"),("fee_state","feestate"),("fee_ata","feeata"),("token_program","tprog"))),
 "close_bank": dict(role="admin", base={"op":"close_bank","bank":"B9"}, slots=S(("group","group"),("bank","bank_g"),("admin","signer"))),
 "delev_limit": dict(role="admin", base={"op":"delev_limit","group":"G1","limit":1000}, slots=S(("marginfi_group","free"),("admin","signer"))),
 "tokenless_complete": dict(role="risk_admin", base={"op":"tokenless_complete","bank":"B1"}, slots=S(("group","group"),("risk_admin","signer"),("bank","bank_g"))),
 "write_metadata": dict(role="metadata_admin", base={"op":"write_metadata","bank":"B1","ticker":"USDC"}, slots=S(("group","group"),("bank","bank_g"),("metadata_admin","signer"),("metadata","meta"))),
 "update_emissions": dict(role="emissions_admin", base={"op":"update_emissions","bank":"B1","mint":"ME","rate":5},
                   slots=S(("group","group"),("delegate_emissions_admin","signer"),("bank","bank_g"),("emissions_mint","mint"),("emissions_token_account","evault"),("emissions_funding_account","free"),("token_program","free"))),
 "panic_pause": dict(role="fee_admin", base={"op":"panic_pause"}, slots=S(("global_fee_admin","signer"),("fee_state","feestate"))),
 "edit_fee_state": dict(role="fee_admin", base={"op":"edit_fee_state","admin":"feeadmin","wallet":"feewallet"}, slots=S(("global_fee_admin","signer"),("fee_state","feestate"))),
 "config_group_fee": dict(role="fee_admin", base={"op":"config_group_fee","group":"G1","enable":True}, slots=S(("marginfi_group","free"),("global_fee_admin","signer"),("fee_state","feestate"))),
 "add_bank": dict(role="admin", base={"op":"add_bank","group":"G1","bank":"NB","mint":"M1","cfg":{}},
                   slots=S(("marginfi_group","free"),("admin","signer"),("fee_payer","payer"),("fee_state","feestate"),("global_fee_wallet","feewallet"),("bank_mint","free"),("bank","new"),
                           ("liquidity_vault_authority","free"),("liquidity_vault","free"),("insurance_vault_authority","free"),("insurance_vault","free"),("fee_vault_authority","free"),("fee_vault","free"),("token_program","tprog"),("system_program","sprog"))),
 # ---- staked collateral: group settings (admin), their propagation and bank creation (anyone)
 "init_staked_settings": dict(role="admin", grp="G3", base={"op":"init_staked_settings","group":"G3","oracle":"O1"},
                   slots=S(("marginfi_group","free"),("admin","signer"),("fee_payer","payer"),("staked_settings","new"),("system_program","sprog"))),
 "edit_staked_settings": dict(role="admin", base={"op":"edit_staked_settings","group":"G1","max_age":77},
                   slots=S(("marginfi_group","group"),("admin","signer"),("staked_settings","ssettings"))),
 "propagate_staked": dict(role="anyone", base={"op":"propagate_staked","bank":"SB1"},
                   slots=S(("marginfi_group","group"),("staked_settings","ssettings"),("bank","sbank"))),
 "add_bank_staked": dict(role="anyone", base={"op":"add_bank_staked","group":"G1","bank":"SB3","pool":"SP3","seed":0},
                   slots=S(("marginfi_group","group"),("staked_settings","ssettings"),("fee_payer","signer"),("bank_mint","lstmint"),("sol_pool","solpool"),("stake_pool","stakepool"),("bank","new"),
                           ("liquidity_vault_authority","free"),("liquidity_vault","free"),("insurance_vault_authority","free"),("insurance_vault","free"),("fee_vault_authority","free"),("fee_vault","free"),("token_program","tprog"),("system_program","sprog"))),
 "purge": dict(role="risk_admin", base={"op":"purge","acct":"A5","bank":"B8"},
                   slots=S(("group","group"),("marginfi_account","acct_g"),("risk_admin","signer"),("bank","bankf"))),
 # ---- Kamino integration instructions (against the stand-in venue)
 "kamino_deposit": dict(role="authority", base={"op":"kamino_deposit","acct":"A1","bank":"KB1","amount":10},
                   slots=S(("group","group"),("marginfi_account","acct"),("authority","signer"),("bank","kbank"),("signer_token_account","free"),("liquidity_vault_authority","klva"),
                           ("liquidity_vault","kvliq"),("integration_acc_2","kobl"),("lending_market","free"),("lending_market_authority","free"),("integration_acc_1","kres"),("mint","mint"),
                           ("reserve_liquidity_supply","free"),("reserve_collateral_mint","free"),("reserve_destination_deposit_collateral","free"),("obligation_farm_user_state","free"),
                           ("reserve_farm_state","free"),("kamino_program","kprog"),("farms_program","fprog"),("collateral_token_program","tprog"),("liquidity_token_program","tprog"),
                           ("instruction_sysvar_account","sysixs"))),
 "kamino_withdraw": dict(role="authority", base={"op":"kamino_withdraw","acct":"A1","bank":"KB1","amount":5},
                   slots=S(("group","group"),("marginfi_account","acct"),("authority","signer"),("bank","kbank"),("destination_token_account","free"),("liquidity_vault_authority","klva"),
                           ("liquidity_vault","kvliq"),("integration_acc_2","kobl"),("lending_market","free"),("lending_market_authority","free"),("integration_acc_1","kres"),("reserve_liquidity_mint","mint"),
                           ("reserve_liquidity_supply","free"),("reserve_collateral_mint","free"),("reserve_source_collateral","free"),("obligation_farm_user_state","free"),
                           ("reserve_farm_state","free"),("kamino_program","kprog"),("farms_program","fprog"),("collateral_token_program","tprog"),("liquidity_token_program","tprog"),
                           ("instruction_sysvar_account","sysixs"))),
 "kamino_init_obligation": dict(role="anyone", base={"op":"kamino_init_obligation","bank":"KB3","amount":100},
                   slots=S(("fee_payer","signer"),("bank","kbank3"),("signer_token_account","free"),("liquidity_vault_authority","klva3"),("liquidity_vault","kvliq3"),("integration_acc_2","kobl3"),
                           ("user_metadata","free"),("lending_market","kmarket"),("lending_market_authority","free"),("integration_acc_1","kres3"),("mint","mint"),("reserve_liquidity_supply","free"),
                           ("reserve_collateral_mint","free"),("reserve_destination_deposit_collateral","free"),("pyth_oracle","free"),("switchboard_price_oracle","free"),
                           ("switchboard_twap_oracle","free"),("scope_prices","free"),("obligation_farm_user_state","free"),("reserve_farm_state","free"),("kamino_program","kprog"),
                           ("farms_program","fprog"),("collateral_token_program","tprog"),("liquidity_token_program","tprog"),("instruction_sysvar_account","sysixs"),("rent","sysrent"),
                           ("system_program","sprog"))),
 "add_bank_kamino": dict(role="admin", base={"op":"add_bank_kamino","group":"G1","bank":"KB9","reserve":"KR1","oracle":"O1","seed":99},
                   slots=S(("group","group"),("admin","signer"),("fee_payer","payer"),("bank_mint","kmint"),("bank","new"),("integration_acc_1","kres_bad"),("integration_acc_2","kobl_pda"),
                           ("liquidity_vault_authority","free"),("liquidity_vault","free"),("insurance_vault_authority","free"),("insurance_vault","free"),("fee_vault_authority","free"),("fee_vault","free"),
                           ("token_program","tprog"),("system_program","sprog"))),
 # ---- Drift integration instructions (against the stand-in venue)
 "drift_deposit": dict(role="authority", base={"op":"drift_deposit","acct":"A7","bank":"DB1","amount":10},
                   slots=S(("group","group"),("marginfi_account","acct"),("authority","signer"),("bank","dbank"),("drift_oracle","free"),("liquidity_vault_authority","dlva"),
                           ("liquidity_vault","dvliq"),("signer_token_account","free"),("drift_state","free"),("integration_acc_2","duser"),("integration_acc_3","dstats"),
                           ("integration_acc_1","dmkt"),("drift_spot_market_vault","free"),("mint","mint"),("drift_program","kprog"),("token_program","tprog"),("system_program","sprog"))),
 "drift_withdraw": dict(role="authority", base={"op":"drift_withdraw","acct":"A7","bank":"DB1","amount":5},
                   slots=S(("group","group"),("marginfi_account","acct"),("authority","signer"),("bank","dbank"),("drift_oracle","free"),("liquidity_vault_authority","dlva"),
                           ("liquidity_vault","dvliq"),("destination_token_account","free"),("drift_state","free"),("integration_acc_2","duser"),("integration_acc_3","dstats"),
                           ("integration_acc_1","dmkt"),("drift_spot_market_vault","free"),("drift_reward_oracle","free"),("drift_reward_spot_market","free"),("drift_reward_mint","free"),
                           ("drift_reward_oracle_2","free"),("drift_reward_spot_market_2","free"),("drift_reward_mint_2","free"),("drift_signer","free"),("mint","mint"),
                           ("drift_program","kprog"),("token_program","tprog"),("system_program","sprog"))),
 # ---- Solend integration instructions (against the stand-in venue)
 "solend_deposit": dict(role="authority", base={"op":"solend_deposit","acct":"A7","bank":"LB1","amount":10},
                   slots=S(("group","group"),("marginfi_account","acct"),("authority","signer"),("bank","lbank"),("signer_token_account","free"),("liquidity_vault_authority","llva"),
                           ("liquidity_vault","lvliq"),("integration_acc_2","lobl"),("lending_market","free"),("lending_market_authority","free"),("integration_acc_1","lres"),("mint","mint"),
                           ("reserve_liquidity_supply","free"),("reserve_collateral_mint","free"),("reserve_collateral_supply","free"),("user_collateral","free"),("pyth_price","free"),
                           ("switchboard_feed","free"),("solend_program","lprog"),("token_program","tprog"))),
 "solend_withdraw": dict(role="authority", base={"op":"solend_withdraw","acct":"A7","bank":"LB1","amount":5},
                   slots=S(("group","group"),("marginfi_account","acct"),("authority","signer"),("bank","lbank"),("destination_token_account","free"),("liquidity_vault_authority","llva"),
                           ("liquidity_vault","lvliq"),("integration_acc_2","lobl"),("lending_market","free"),("lending_market_authority","free"),("integration_acc_1","lres"),("mint","mint"),
                           ("reserve_liquidity_supply","free"),("reserve_collateral_mint","free"),("reserve_collateral_supply","free"),("user_collateral","free"),("solend_program","lprog"),
                           ("token_program","tprog"))),
 # ---- permissionless housekeeping
 "init_liq_record": dict(role="anyone", base={"op":"init_liq_record","acct":"A5"},
                   slots=S(("marginfi_account","free"),("fee_payer","signer"),("liquidation_record","new"),("system_program","sprog"))),
 "settle_emissions": dict(role="anyone", base={"op":"settle_emissions","acct":"A1","bank":"B1"}, slots=S(("marginfi_account","acct_g"),("bank","bank_g"))),
 "accrue": dict(role="anyone", base={"op":"accrue","bank":"B1"}, slots=S(("group","group"),("bank","bank_g"))),
 "propagate_fee": dict(role="anyone", base={"op":"propagate_fee","group":"G1"}, slots=S(("fee_state","feestate"),("marginfi_group","free"))),

 # ---- round 7: the remaining instructions of the program
 "setup_emissions": dict(role="emissions_admin", base={"op":"setup_emissions","bank":"B2","mint":"ME","flags":2,"rate":5,"total":1000},
                   slots=S(("group","group"),("delegate_emissions_admin","signer"),("bank","bank_g"),("emissions_mint","free"),("emissions_auth","eauth2"),("emissions_token_account","evault2"),
                           ("emissions_funding_account","free"),("token_program","tprog"),("system_program","sprog"))),
 "init_account": dict(role="anyone", base={"op":"init_account","acct":"N2","group":"G1","authority":"U1"},
                   slots=S(("marginfi_group","anygroup"),("marginfi_account","new"),("authority","signer"),("fee_payer","payer"),("system_program","sprog"))),
 "withdraw_emissions_perm": dict(role="anyone", base={"op":"withdraw_emissions_perm","acct":"A1","bank":"B1"},
                   slots=S(("group","group"),("marginfi_account","acct"),("bank","bank_g"),("emissions_mint","mint"),("emissions_auth","eauth"),("emissions_vault","evault"),
                           ("destination_account","emisdest"),("token_program","tprog"))),
 "pulse_health": dict(role="anyone", base={"op":"pulse_health","acct":"A2"}, slots=S(("marginfi_account","anyacct"))),
 "pulse_price": dict(role="anyone", base={"op":"pulse_price","bank":"B1"}, slots=S(("group","group"),("bank","bank_g"))),
 "migrate_curve": dict(role="anyone", base={"op":"migrate_curve","bank":"B1"}, slots=S(("bank","anybank"))),
 "init_metadata": dict(role="anyone", base={"op":"init_metadata","bank":"B3"}, slots=S(("bank","bank_g"),("fee_payer","signer"),("metadata","new"),("system_program","sprog"))),
 "init_group": dict(role="anyone", grp="G9", base={"op":"init_group","group":"G9","admin":"stranger"},
                   slots=S(("marginfi_group","new"),("admin","signer"),("fee_state","feestate"),("system_program","sprog"))),
 "add_bank_drift": dict(role="admin", base={"op":"add_bank_drift","group":"G1","bank":"DB9","market":"DM1","oracle":"O1","setup":9,"seed":29},
                   slots=S(("group","group"),("admin","signer"),("fee_payer","payer"),("bank_mint","kmint"),("bank","new"),("integration_acc_1","dmkt_bad"),("integration_acc_2","duser_pda"),
                           ("integration_acc_3","dstats_pda"),("liquidity_vault_authority","free"),("liquidity_vault","free"),("insurance_vault_authority","free"),("insurance_vault","free"),
                           ("fee_vault_authority","free"),("fee_vault","free"),("token_program","tprog"),("system_program","sprog"))),
 "add_bank_solend": dict(role="admin", base={"op":"add_bank_solend","group":"G1","bank":"LB9","reserve":"SR1","oracle":"O1","setup":11,"seed":39},
                   slots=S(("group","group"),("admin","signer"),("fee_payer","payer"),("bank_mint","kmint"),("bank","new"),("integration_acc_1","sres_bad"),("integration_acc_2","lobl_pda"),
                           ("liquidity_vault_authority","free"),("liquidity_vault","free"),("insurance_vault_authority","free"),("insurance_vault","free"),
                           ("fee_vault_authority","free"),("fee_vault","free"),("token_program","tprog"),("system_program","sprog"))),
 "drift_init_user": dict(role="anyone", base={"op":"drift_init_user","bank":"DB3","amount":100},
                   slots=S(("fee_payer","signer"),("signer_token_account","free"),("bank","dbank3"),("liquidity_vault_authority","dlva3"),("liquidity_vault","dvliq3"),("mint","mint"),
                           ("integration_acc_3","dstats3"),("integration_acc_2","duser3"),("drift_state","free"),("integration_acc_1","dmkt3"),("drift_spot_market_vault","free"),
                           ("drift_oracle","free"),("drift_program","kprog"),("token_program","tprog"),("rent","sysrent"),("system_program","sprog"))),
 "solend_init_obligation": dict(role="anyone", base={"op":"solend_init_obligation","bank":"LB3","amount":100},
                   slots=S(("fee_payer","signer"),("bank","lbank3"),("signer_token_account","free"),("liquidity_vault_authority","llva3"),("liquidity_vault","lvliq3"),("integration_acc_2","lobl3"),
                           ("lending_market","free"),("lending_market_authority","free"),("integration_acc_1","lres3"),("mint","mint"),("reserve_liquidity_supply","free"),
                           ("reserve_collateral_mint","free"),("reserve_collateral_supply","free"),("user_collateral","free"),("pyth_price","free"),("switchboard_feed","free"),
                           ("solend_program","lprog"),("token_program","tprog"),("rent","sysrent"),("system_program","sprog"))),
 "init_account_pda": dict(role="anyone", base={"op":"init_account","acct":"NP","group":"G1","authority":"U1","pda":{"index":3}},
                   slots=S(("marginfi_group","anygroup"),("marginfi_account","new"),("authority","signer"),("fee_payer","payer"),("instructions_sysvar","sysixs"),("system_program","sprog"))),
 "transfer_account_pda": dict(role="authority3", base={"op":"transfer_account","acct":"A5","new_acct":"NP2","new_authority":"U7","pda":{"index":2,"third_party":77}},
                   slots=S(("group","group"),("old_marginfi_account","acct_g"),("new_marginfi_account","new"),("authority","signer"),("fee_payer","payer"),("new_authority","free"),
                           ("global_fee_wallet","feewallet"),("instructions_sysvar","sysixs"),("system_program","sprog"))),
}

# multi-instruction cells (brackets): the cell's modifiers apply to instruction `k` of the transaction
TXS = {
 "start_fl": dict(role="authority", k=0, base=[{"op":"start_fl","acct":"A1","end_index":1},{"op":"end_fl","acct":"A1"}],
                  slots=S(("marginfi_account","free"),("authority","signer"),("ixs_sysvar","sysixs"))),
 "end_fl": dict(role="authority", k=1, base=[{"op":"start_fl","acct":"A1","end_index":1},{"op":"end_fl","acct":"A1"}],
                  slots=S(("marginfi_account","free"),("authority","signer"))),
 "start_liq": dict(role="anyone", k=0, base=[{"op":"start_liq","acct":"A3","receiver":"liquidator"},{"op":"end_liq","acct":"A3","receiver":"liquidator"}],
                  slots=S(("marginfi_account","free"),("liquidation_record","rec"),("liquidation_receiver","free"),("instruction_sysvar","sysixs"))),
 "end_liq": dict(role="receiver", k=1, base=[{"op":"start_liq","acct":"A3","receiver":"liquidator"},{"op":"end_liq","acct":"A3","receiver":"liquidator"}],
                  slots=S(("marginfi_account","free"),("liquidation_record","rec"),("liquidation_receiver","signer"),("fee_state","feestate"),("global_fee_wallet","feewallet"),("system_program","sprog"))),
 "recv_withdraw": dict(role="anyone", k=1, base=[{"op":"start_liq","acct":"A3","receiver":"liquidator"},{"op":"withdraw","acct":"A3","bank":"B2","amount":1,"signer":"liquidator"},{"op":"repay","acct":"A3","bank":"B1","amount":100,"signer":"liquidator"},{"op":"end_liq","acct":"A3","receiver":"liquidator"}],
                  slots=S(("group","group"),("marginfi_account","acct_g"),("authority","signer"),("bank","bank2"),("destination_token_account","free"),("bank_liquidity_vault_authority","aliq2"),("liquidity_vault","vliq2"),("token_program","tprog"))),
 "start_delev": dict(role="risk_admin", k=0, base=[{"op":"start_delev","acct":"A3"},{"op":"end_delev","acct":"A3"}],
                  slots=S(("marginfi_account","free"),("liquidation_record","rec3"),("group","group"),("risk_admin","signer"),("instruction_sysvar","sysixs"))),
 "end_delev": dict(role="risk_admin", k=1, base=[{"op":"start_delev","acct":"A3"},{"op":"end_delev","acct":"A3"}],
                  slots=S(("marginfi_account","free"),("liquidation_record","rec3"),("group","group"),("risk_admin","signer"))),
 "panic_unpause": dict(role="fee_admin", k=1, base=[{"op":"panic_pause"},{"op":"panic_unpause"}], slots=S(("global_fee_admin","signer"),("fee_state","feestate"))),
}

def tla(v):
    if isinstance(v, bool): return "TRUE" if v else "FALSE"
    if isinstance(v, int): return str(v)
    if isinstance(v, str): return json.dumps(v)
    if isinstance(v, list): return "<<" + ", ".join(tla(x) for x in v) + ">>"
    if isinstance(v, dict):
        if not v: return "<<>>"
        return "[" + ", ".join(f"{k} |-> {tla(x)}" for k, x in v.items()) + "]"
    raise ValueError(v)

def main():
    out = ["---------------------------- MODULE AuthTable ----------------------------",
           "(* GENERATED by tools/gen_auth.py from the authorization matrix (DESIGN.md Appendix B). Do not edit. *)",
           "EXTENDS Naturals, Sequences, TLC", ""]
    out.append("AuthCand == " + tla({k: v for k, v in CAND.items()}))
    out.append("AuthRoles == " + tla(ROLES))
    out.append("AuthIdentities == " + tla(IDENTITIES))
    ops = {}
    for name, o in OPS.items():
        ops[name] = dict(role=o["role"], also=o.get("also", []), k=0, base=[o["base"]], slots=[[s["name"], s["kind"]] for s in o["slots"]], grp=o.get("grp", "G1"))
    for name, o in TXS.items():
        ops[name] = dict(role=o["role"], also=o.get("also", []), k=o["k"], base=o["base"], slots=[[s["name"], s["kind"]] for s in o["slots"]], grp=o.get("grp", "G1"))
    out.append("AuthOpNames == {" + ", ".join(json.dumps(n) for n in ops) + "}")
    # base actions contain heterogeneous records: emit as JSON strings to be embedded in edges verbatim
    out.append("AuthOps == [n \\in AuthOpNames |->")
    cases = []
    for n, o in ops.items():
        cases.append(f"  n = {json.dumps(n)} -> [role |-> {tla(o['role'])}, also |-> {tla(o['also'])}, k |-> {o['k']}, nix |-> {len(o['base'])}, grp |-> {tla(o['grp'])}, slots |-> {tla(o['slots'])}]")
    out.append("  CASE " + "\n    [] ".join(cases) + "]")
    out.append("=============================================================================")
    open(os.path.join(ROOT, "spec", "AuthTable.tla"), "w").write("\n".join(out) + "\n")
    json.dump({n: o["base"] for n, o in ops.items()}, open(os.path.join(ROOT, "spec", "gen", "auth_base.json"), "w"), indent=1)
    print("ops:", len(ops))

if __name__ == "__main__":
    main()
