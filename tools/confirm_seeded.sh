#!/bin/bash
# usage: tools/confirm_seeded.sh <worktree> <A|B> <seeded-id> <property>
# Confirms in the scratch worktree: patch applies to the pristine tree, the existing unit tests pass with it,
# the demonstration test (if any) fails with it and passes without it. Then files it under /verif/seeded/<id>/.
set -u
WT=$1; V=$2; ID=$3; PROP=$4
O=$WT/out/$V
cd $WT || exit 2
git checkout -q -- . ; git clean -fdq -e out -e target
git apply --check $O/patch.diff || { echo "PATCH-DOES-NOT-APPLY"; exit 1; }
git apply $O/patch.diff
export CARGO_TARGET_DIR=$WT/target
T1=$(cargo test -p marginfi --lib --offline 2>&1 | grep "^test result" | tail -1)
T2=$(cargo test -p marginfi-type-crate --offline 2>&1 | grep "^test result" | head -1)
echo "with patch, existing tests: $T1 | $T2"
DEMO=none; WITH=na; WITHOUT=na
D=$(ls $O/demo_test.diff 2>/dev/null | head -1)
if [ -n "$D" ]; then
  DEMO=test
  git apply $D 2>/dev/null || echo "demo diff did not apply on top of patch"
  WITH=$(cargo test -p marginfi --lib --offline 2>&1 | grep "^test result" | tail -1)
  git checkout -q -- . ; git clean -fdq -e out -e target
  git apply $D 2>/dev/null
  WITHOUT=$(cargo test -p marginfi --lib --offline 2>&1 | grep "^test result" | tail -1)
  echo "demo with patch:    $WITH"
  echo "demo without patch: $WITHOUT"
fi
git checkout -q -- . ; git clean -fdq -e out -e target
mkdir -p /verif/seeded/$ID
cp $O/patch.diff /verif/seeded/$ID/patch.diff
cp $O/demo.md /verif/seeded/$ID/demo.md 2>/dev/null
[ -n "$D" ] && cp $D /verif/seeded/$ID/demo_test.diff
python3 - "$ID" "$PROP" "$T1" "$T2" "$DEMO" "$WITH" "$WITHOUT" <<'PY'
import json,sys
i,prop,t1,t2,demo,w,wo=sys.argv[1:8]
json.dump({"id":i,"property":prop,"source":"independent sub-agent given only the property text and a scratch worktree",
 "existing_tests_with_patch":{"marginfi_lib":t1,"type_crate":t2},
 "demonstration":{"kind":demo,"with_patch":w,"without_patch":wo},
 "needs_to_manifest":"see demo.md","checks_run":[],"detected_by":[]}, open(f"/verif/seeded/{i}/meta.json","w"), indent=1)
PY
echo "filed /verif/seeded/$ID"
