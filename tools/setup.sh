#!/bin/bash
# Build the framework offline from files on disk: Java override classes + native harness.
set -e
cd "$(dirname "$0")/.."
mkdir -p spec/classes work/meta evidence
javac -cp /opt/veriftools/tla/tla2tools.jar -d spec/classes spec/java/verif/BigOverrides.java
cd harness
CARGO_NET_OFFLINE=true cargo build --offline 2>&1 | tail -3
test -x target/debug/hx
