#!/usr/bin/env python3
"""Orchestrator: ./check <Cxx> [--tier quick|thorough] [--replay path]

Per property: (1) build the native harness against /repo's working tree, (2) TLC model-check the
property's model instance(s) (spec-level failure => exit 2: the *model* is wrong), every explored
transition is emitted as an edge, (3) replay all edges on the real program (hx tree) and run the
seeded drivers (hx drive), recording traces, (4) TLC validates every trace with Trace.tla evaluating
the property predicates on each step, (5) violations are matched against known_findings.json,
(6) evidence/<id>.json is written.  Exit 0 held / 1 VIOLATION / 2 tool error.
"""
import sys, os, json, subprocess, time, hashlib, re, shutil, glob
from concurrent.futures import ThreadPoolExecutor

ROOT = os.path.dirname(os.path.dirname(os.path.abspath(__file__)))
SPEC = os.path.join(ROOT, "spec")
HARN = os.path.join(ROOT, "harness")
WORK = os.path.join(ROOT, "work")
HX = os.path.join(HARN, "target", "debug", "hx")
TLC = os.path.join(ROOT, "tools", "tlc.sh")

sys.path.insert(0, os.path.join(ROOT, "tools"))
from props import PROPS  # noqa: E402


def log(*a):
    print("[check]", *a, file=sys.stderr, flush=True)


def tool_error(msg):
    print(f"TOOL-ERROR {msg}", flush=True)
    sys.exit(2)


def build():
    t0 = time.time()
    cls = os.path.join(SPEC, "classes", "verif", "BigOverrides.class")
    src = os.path.join(SPEC, "java", "verif", "BigOverrides.java")
    if not os.path.exists(cls) or os.path.getmtime(cls) < os.path.getmtime(src):
        os.makedirs(os.path.join(SPEC, "classes"), exist_ok=True)
        r = subprocess.run(["javac", "-cp", "/opt/veriftools/tla/tla2tools.jar", "-d", os.path.join(SPEC, "classes"), src],
                           capture_output=True, text=True)
        if r.returncode != 0:
            tool_error("javac failed: " + r.stderr[-500:])
    subprocess.run(["python3", os.path.join(ROOT, "tools", "gen_auth.py")], stdout=subprocess.DEVNULL)
    env = dict(os.environ, CARGO_NET_OFFLINE="true")
    r = subprocess.run(["cargo", "build", "--offline"], cwd=HARN, capture_output=True, text=True, env=env)
    if r.returncode != 0:
        sys.stderr.write(r.stderr[-3000:])
        tool_error("harness build failed (cargo build) — cannot decide the property")
    r = subprocess.run([HX, "consts", os.path.join(SPEC, "ImplConsts.tla")], stdout=subprocess.DEVNULL, stderr=subprocess.PIPE, text=True)
    if r.returncode != 0:
        tool_error("hx consts failed: " + r.stderr[-300:])
    log(f"build ok in {time.time()-t0:.1f}s")


def run_tlc(module, cfg, workers, heap, metadir, extra=None, env=None, timeout=3600, out_path=None):
    cmd = [TLC, str(workers), heap, metadir] + (extra or []) + ["-config", cfg, module]
    e = dict(os.environ)
    if env:
        e.update(env)
    t0 = time.time()
    if out_path:
        with open(out_path, "w") as f:
            try:
                r = subprocess.run(cmd, cwd=SPEC, stdout=f, stderr=subprocess.STDOUT, env=e, timeout=timeout)
                rc = r.returncode
            except subprocess.TimeoutExpired:
                rc = 124
        out = None
    else:
        try:
            r = subprocess.run(cmd, cwd=SPEC, capture_output=True, text=True, env=e, timeout=timeout)
            rc = r.returncode
            out = r.stdout + r.stderr
        except subprocess.TimeoutExpired:
            rc, out = 124, ""
    return rc, out, time.time() - t0


STATS_RE = re.compile(r"(\d+) states generated, (\d+) distinct states found")


def parse_fail(line):
    # "FAIL {json}" printed as a TLA+ string literal
    t = line.strip()
    try:
        s = json.loads(t) if t.startswith('"') else t
    except Exception:
        return None
    if not s.startswith("FAIL "):
        return None
    try:
        return json.loads(s[5:])
    except Exception:
        return {"property": "?", "clause": "unparsed", "line": -1, "info": s}


def model_stage(pid, m, tier, seed):
    """Run TLC on a model instance; returns dict(stats, edges_path)."""
    name = m["name"]
    cfg = m["cfg"][tier] if isinstance(m["cfg"], dict) else m["cfg"]
    out_path = os.path.join(WORK, f"{pid}_{name}_{tier}.mc.out")
    meta = os.path.join(WORK, "meta", f"{pid}_{name}")
    extra = []
    sim = m.get("simulate", {}).get(tier) if m.get("simulate") else None
    if sim:
        extra += ["-simulate", f"num={sim[0]}", "-depth", str(sim[1]), "-seed", str(seed)]
    workers = m.get("workers", 1)
    menv = {}
    if m.get("setup") and m.get("init_from_setup"):
        init = os.path.join(WORK, f"{pid}_{name}_{tier}.init.json")
        r = subprocess.run([HX, "state", os.path.join(SPEC, m["setup"]), init], stdout=subprocess.DEVNULL, stderr=subprocess.PIPE, text=True)
        if r.returncode != 0:
            tool_error(f"seed script {m['setup']} failed on the real program: {r.stderr[-500:]}")
        menv["INIT_STATE"] = init
    for k, v in m.get("env", {}).items():
        menv[k] = os.path.join(SPEC, v)
    rc, _, dt = run_tlc(m["module"], cfg, workers, m.get("heap", "6g"), meta, extra=extra, env=menv,
                        timeout=m.get("timeout", {}).get(tier, 1500) if isinstance(m.get("timeout"), dict) else 1500,
                        out_path=out_path)
    states = distinct = 0
    fails = []
    edges_path = os.path.join(WORK, f"{pid}_{name}_{tier}.edges")
    nedges = 0
    errtxt = []
    with open(out_path) as f, open(edges_path, "w") as ef:
        for line in f:
            if line.startswith('"EDGE '):
                ef.write(line)
                nedges += 1
                continue
            mm = STATS_RE.search(line)
            if mm:
                states, distinct = int(mm.group(1)), int(mm.group(2))
            if line.startswith('"FAIL '):
                fails.append(parse_fail(line))
            if line.startswith("Error:") or "Exception" in line:
                errtxt.append(line.strip())
    if sim and states == 0:
        # simulation mode prints no totals: use edge count
        states = distinct = nedges
    if rc not in (0,) or errtxt:
        if not (sim and rc in (0, 124)):
            tool_error(f"TLC model run {name} failed rc={rc}: {' | '.join(errtxt[:3])} (see {out_path})")
    # a property failure on the *model* is a modelling error (exit 2) unless it reproduces a recorded genuine finding
    # (the implementation-shaped model mirrors the code, defects included; replay then shows zero drift)
    known = [k for k in load_known() if k.get("status") == "known"]
    unexplained = []
    for f in fails:
        v = {"property": f.get("property"), "clause": f.get("clause"), "info": f.get("info"), "ev": None}
        if not any(k.get("property") == v["property"] and sig_match({kk: vv for kk, vv in k.get("signature", {}).items() if kk != "ev"}, v) for k in known):
            unexplained.append(f)
    # deferred: if the traces recorded from the real program show a violation in this run, that is what gets reported (the model
    # starts from a state the real program produced, so a broken program can make the model's own transitions fail too);
    # only when the real traces are clean is a model-level failure a defect of the model (exit 2)
    model_level = unexplained[0] if unexplained else None
    log(f"model {name}: {states} states generated, {distinct} distinct, {nedges} edges in {dt:.1f}s")
    return {"name": name, "states": distinct, "transitions": states, "edges": nedges, "edges_path": edges_path, "wall_s": dt,
            "cfg": cfg, "module": m["module"], "model_level_failure": model_level}


def proof_stage(pid, pr):
    """Apalache obligations of an inductive-invariant proof: each must end with 'The outcome is: NoError'.
    A failing obligation means the specification itself (which the replay binds to the code) admits a bad state."""
    outdir = os.path.join(WORK, "apalache", pid)
    t0 = time.time()
    for ob in pr["obligations"]:
        cmd = ["timeout", str(pr.get("timeout", 900)), "apalache-mc", "check", f"--out-dir={outdir}", "--run-dir=" + os.path.join(outdir, "run")] + ob + [pr["module"]]
        r = subprocess.run(cmd, cwd=SPEC, stdout=subprocess.PIPE, stderr=subprocess.STDOUT, text=True)
        if "The outcome is: NoError" not in r.stdout:
            tool_error(f"Apalache obligation {' '.join(ob)} of {pr['module']} not discharged (rc={r.returncode}): {r.stdout[-600:]}")
    shutil.rmtree(outdir, ignore_errors=True)
    log(f"proof {pr['module']}: {len(pr['obligations'])} Apalache obligation(s) discharged in {time.time()-t0:.1f}s")
    return {"module": pr["module"], "obligations": [" ".join(o) for o in pr["obligations"]], "wall_s": time.time() - t0}


def replay_stage(pid, m, ms, tier):
    trace = os.path.join(WORK, f"{pid}_{m['name']}_{tier}.trace")
    summ = os.path.join(WORK, f"{pid}_{m['name']}_{tier}.sum")
    t0 = time.time()
    r = subprocess.run([HX, "tree", ms["edges_path"], os.path.join(SPEC, m["setup"]), trace, summ],
                       stdout=subprocess.DEVNULL, stderr=subprocess.PIPE, text=True)
    if r.returncode != 0:
        tool_error(f"replay of {m['name']} failed: {r.stderr[-800:]}")
    s = json.load(open(summ))
    log(f"replay {m['name']}: {s['events']} events ({s['ok']} ok, {s['err']} refused), drift={s['drift']} in {time.time()-t0:.1f}s")
    for d in s.get("drift_samples", [])[:5]:
        print(f"SPEC-DRIFT model={m['name']} {json.dumps(d)}", flush=True)
    return trace, s


def driver_stage(pid, d, tier, seed):
    outdir = os.path.join(WORK, f"{pid}_{d['name']}_{tier}")
    shutil.rmtree(outdir, ignore_errors=True)
    os.makedirs(outdir)
    args = [str(a) for a in d.get("args", {}).get(tier, [])]
    t0 = time.time()
    r = subprocess.run([HX, "drive", d["name"], outdir, str(seed)] + args, stdout=subprocess.DEVNULL, stderr=subprocess.PIPE, text=True)
    if r.returncode != 0:
        tool_error(f"driver {d['name']} failed: {r.stderr[-800:]}")
    traces = sorted(glob.glob(os.path.join(outdir, "*.trace")))
    log(f"driver {d['name']}: {len(traces)} trace file(s) in {time.time()-t0:.1f}s")
    return traces


def validate(trace, props, idx):
    meta = os.path.join(WORK, "meta", f"val_{os.getpid()}_{idx}")
    env = {"TRACE": trace}
    for p in props:
        env["P_" + p] = "1"
    rc, out, dt = run_tlc("Trace.tla", "Trace.cfg", 1, "6g", meta, env=env, timeout=3000)
    fails = []
    okline = None
    for line in out.splitlines():
        if line.startswith('"FAIL '):
            f = parse_fail(line)
            if f:
                fails.append(f)
        if "TRACE-OK" in line:
            okline = line
    if okline is None:
        tail = "\n".join(out.splitlines()[-25:])
        tool_error(f"trace validation did not consume {trace} (rc={rc}):\n{tail}")
    shutil.rmtree(meta, ignore_errors=True)
    return fails, dt


def trace_paths(trace, wanted):
    """Reconstruct, for each wanted line number, the list of lines from the last reset to that line
    (tree traces use save/restore/drop). Only wanted lines are kept: traces have millions of lines."""
    paths = {}
    cur = []
    stack = []
    wanted = set(wanted)
    last = max(wanted) if wanted else 0
    with open(trace) as f:
        for ln, line in enumerate(f, start=1):
            if ln > last:
                break
            if '"ev":"save"' in line:
                stack.append(list(cur))
                continue
            if '"ev":"restore"' in line:
                cur = list(stack[-1])
                continue
            if '"ev":"drop"' in line:
                stack.pop()
                continue
            if '"ev":"reset"' in line:
                cur = [ln]
                stack = []
                continue
            cur.append(ln)
            if ln in wanted:
                paths[ln] = list(cur)
    return paths


def count_events(trace, pred):
    n = tot = 0
    seen = set()
    with open(trace) as f:
        for line in f:
            if '"chg"' not in line:
                continue
            try:
                e = json.loads(line)
            except Exception:
                continue
            if e.get("ev") in ("save", "restore", "drop", "reset"):
                continue
            tot += 1
            k = pred(e)
            if k is not None:
                n += 1
                seen.add(k)
    return tot, n, seen


def load_known():
    p = os.path.join(ROOT, "known_findings.json")
    if not os.path.exists(p):
        return []
    return json.load(open(p)).get("findings", [])


def sig_match(sig, v):
    for k, want in sig.items():
        got = v.get(k)
        if isinstance(want, dict) and isinstance(got, dict):
            if not sig_match(want, got):
                return False
        elif got != want:
            return False
    return True


def main():
    args = sys.argv[1:]
    if not args:
        print(__doc__)
        sys.exit(2)
    pid = args[0]
    tier = os.environ.get("VERIF_TIER", "quick")
    replay = None
    i = 1
    while i < len(args):
        if args[i] == "--tier":
            tier = args[i + 1]; i += 2
        elif args[i] == "--replay":
            replay = args[i + 1]; i += 2
        else:
            i += 1
    seed = int(os.environ.get("VERIF_SEED", "1"))
    if pid not in PROPS:
        tool_error(f"unknown property {pid}")
    P = PROPS[pid]
    os.makedirs(os.path.join(WORK, "meta"), exist_ok=True)
    os.makedirs(os.path.join(WORK, "replay"), exist_ok=True)
    os.makedirs(os.path.join(ROOT, "evidence"), exist_ok=True)
    t_start = time.time()
    build()

    if replay:
        return do_replay(pid, P, replay)

    mstats = []
    traces = []
    drift = 0
    replayed = 0
    models = [m for m in P.get("models", []) if tier in m.get("tiers", ["quick", "thorough"])]
    # development aid (never set by registered commands): restrict a run to the named drivers, no models
    only = [x for x in os.environ.get("VERIF_ONLY_DRIVERS", "").split(",") if x]
    onlym = [x for x in os.environ.get("VERIF_ONLY_MODELS", "").split(",") if x]
    if onlym:
        models = [m for m in models if m["name"] in onlym]
        P = dict(P, drivers=[], min_nontrivial=0)
    if only:
        models = []
        P = dict(P, drivers=[d for d in P.get("drivers", []) if d["name"] in only], min_nontrivial=0)
    with ThreadPoolExecutor(max_workers=10) as ex:
        futs = [ex.submit(model_stage, pid, m, tier, seed) for m in models]
        results = [f.result() for f in futs]
    for m, ms in zip(models, results):
        mstats.append(ms)
        if m.get("setup"):
            tr, s = replay_stage(pid, m, ms, tier)
            traces.append(tr)
            drift += s["drift"]
            replayed += s["events"]
    for d in P.get("drivers", []):
        traces += driver_stage(pid, d, tier, seed)
    proofs = [proof_stage(pid, pr) for pr in P.get("proofs", [])]

    # validate all traces (parallel JVMs, one worker each)
    vprops = P.get("validate", [pid])
    all_fails = []
    t0 = time.time()
    with ThreadPoolExecutor(max_workers=10) as ex:
        futs = [ex.submit(validate, tr, vprops, k) for k, tr in enumerate(traces)]
        for tr, fu in zip(traces, futs):
            fails, dt = fu.result()
            for f in fails:
                f["trace"] = tr
            all_fails += fails
    log(f"validated {len(traces)} trace(s) in {time.time()-t0:.1f}s, {len(all_fails)} FAIL line(s)")

    # enrich failures with the event and path; write replay files; match known findings
    known = load_known()
    violations = []
    known_hits = {}
    by_trace = {}
    ext_fails = [f for f in all_fails if f.get("property") == "EXT"]
    for f in ext_fails[:5]:
        # clauses beyond the listed properties: the specification and the code disagree, but no listed property is at stake
        print(f"SPEC-DRIFT ext clause={f.get('clause')} trace={os.path.basename(f.get('trace',''))} line={f.get('line')} info={json.dumps(f.get('info'))[:200]}", flush=True)
    for f in all_fails:
        if f.get("property") != pid:
            continue   # other properties' clauses evaluated alongside are reported by their own check
        by_trace.setdefault(f["trace"], []).append(f)
    for tr, fl in by_trace.items():
        paths = trace_paths(tr, [f.get("line", -1) for f in fl])
        lines = open(tr).read().split("\n")
        for f in fl:
            ln = f.get("line", -1)
            ev = {}
            if 1 <= ln <= len(lines):
                try:
                    ev = json.loads(lines[ln - 1])
                except Exception:
                    ev = {}
            v = {"property": pid, "clause": f.get("clause"), "ev": ev.get("ev"), "action": ev.get("a"), "res": ev.get("res"), "err": ev.get("err"),
                 "info": f.get("info")}
            hit = None
            for kf in known:
                if kf.get("property") == pid and kf.get("status") == "known" and sig_match(kf.get("signature", {}), v):
                    hit = kf
                    break
            if hit:
                known_hits.setdefault(hit["id"], hit)
                continue
            acts = []
            setup = []
            pls = paths.get(ln, [])
            if ev.get("ev") in ("integ", "curve") and len(pls) > 2:
                pls = [pls[0], pls[-1]]     # pure-function events do not depend on earlier ones
            for pl in pls:
                try:
                    a = json.loads(lines[pl - 1]).get("a")
                except Exception:
                    continue
                if a.get("op") == "reset":
                    setup = a.get("setup", [])
                else:
                    acts.append(a)
            v["setup"] = setup
            v["path"] = acts
            v["trace"] = tr
            v["line"] = ln
            violations.append(v)

    for kid, kf in known_hits.items():
        ln = kf.get("line", "")
        print(ln if ln.startswith("KNOWN-FINDING:") else f"KNOWN-FINDING: property={pid} {kf.get('description','')}", flush=True)

    # evidence
    tot_events = nontriv = 0
    distinct = set()
    pred = P.get("nontrivial", lambda e: (e.get("ev"), e.get("res")) if e.get("res") == "ok" else None)
    samples = []
    for tr in traces:
        t, n, seen = count_events(tr, pred)
        tot_events += t
        nontriv += n
        distinct |= seen
        if len(samples) < 4:
            with open(tr) as f:
                for line in f:
                    try:
                        e = json.loads(line)
                    except Exception:
                        continue
                    if e.get("ev") in ("save", "restore", "drop", "reset"):
                        continue
                    if pred(e) is not None:
                        chg = json.dumps(e.get("chg"))[:300]
                        samples.append({"ev": e["ev"], "action": e["a"], "res": e["res"], "err": e.get("err"), "chg_excerpt": chg})
                        break
    min_nt = P.get("min_nontrivial", {}).get(tier, 1) if isinstance(P.get("min_nontrivial"), dict) else P.get("min_nontrivial", 1)
    ev = {
        "property_id": pid, "tier": tier, "seed": seed, "level": "model_checking",
        "coverage": {
            "states": max(1, sum(m["states"] for m in mstats)),
            "transitions": max(1, sum(m["transitions"] for m in mstats)),
            "traces_validated_against_impl": len(traces),
            "samples": samples or [{"note": "no sample"}],
            "evaluations": tot_events,
            "distinct_nontrivial": len(distinct),
            "nontrivial_events": nontriv,
            "rule": P.get("rule", "every recorded instruction is one evaluation; non-trivial = successful instruction; distinct by (instruction, result)"),
            "models": [{k: m[k] for k in ("name", "module", "cfg", "states", "transitions", "edges", "wall_s")} for m in mstats],
            "replayed_model_transitions": replayed,
            "apalache_proofs": proofs,
            "spec_drift": drift,
            "ext_clause_failures": len(ext_fails),
            "known_findings_hit": sorted(known_hits.keys()),
            "checker_cmd": "tools/tlc.sh (TLC 1.8.0 + verif.BigOverrides) on spec/*.tla; harness/target/debug/hx" + ("; apalache-mc check (inductive invariant)" if proofs else ""),
            "trusted_base": ["TLC", "CommunityModules Json/IOUtils", "verif.BigOverrides (java.math.BigInteger)", "hx mini-runtime and projection", "tools/check.py"],
        },
        "assumptions": P.get("assumptions", []) + [
            "native x86-64 execution of the program equals its BPF execution for safe Rust (overflow-checks on)",
            "the mini-runtime's account serialization, syscall stubs and CPI rules match what the program observes on chain"],
        "wall_s": round(time.time() - t_start, 1),
        "violations": len(violations),
    }
    with open(os.path.join(ROOT, "evidence", f"{pid}.json"), "w") as f:
        json.dump(ev, f, indent=1)

    if not violations:
        for ms in mstats:
            if ms.get("model_level_failure"):
                tool_error(f"spec-level property failure in model {ms['name']}: {ms['model_level_failure']} - the traces of the real program are clean, so the model is wrong, not the code")
    if violations:
        seen_sig = set()
        for k, v in enumerate(violations):
            sg = (v["clause"], v["ev"], json.dumps(v.get("action"), sort_keys=True)[:200])
            if sg in seen_sig and k > 20:
                continue
            seen_sig.add(sg)
            rp = os.path.join(WORK, "replay", f"{pid}_{k}.json")
            json.dump(v, open(rp, "w"), indent=1)
            print(f"VIOLATION property={pid} replay={rp}", flush=True)
            print(f"  clause={v['clause']} ev={v['ev']} res={v['res']} err={v['err']} info={json.dumps(v['info'])[:300]}", flush=True)
            if k > 20:
                break
        sys.exit(1)
    if nontriv < min_nt:
        tool_error(f"vacuity guard: only {nontriv} non-trivial events (< {min_nt}) — nothing decided")
    print(f"OK property={pid} tier={tier} models={len(mstats)} traces={len(traces)} events={tot_events} nontrivial={nontriv} drift={drift} wall={time.time()-t_start:.0f}s", flush=True)
    sys.exit(0)


def do_replay(pid, P, path):
    """Re-execute the recorded scenario (setup + action path) on the real program and re-validate."""
    v = json.load(open(path))
    scn = os.path.join(WORK, "replay", "rerun.ndjson")
    tr = os.path.join(WORK, "replay", "rerun.trace")
    with open(scn, "w") as f:
        f.write(json.dumps({"scn": 1, "setup": v.get("setup", []), "actions": v.get("path", [])}) + "\n")
    r = subprocess.run([HX, "run", scn, tr], stdout=subprocess.DEVNULL, stderr=subprocess.PIPE, text=True)
    if r.returncode != 0:
        tool_error("replay run failed: " + r.stderr[-500:])
    fails, _ = validate(tr, P.get("validate", [pid]), 999)
    fails = [f for f in fails if f.get("property") == pid]
    for f in fails:
        print("FAIL", json.dumps(f)[:400])
    if fails:
        print(f"VIOLATION property={pid} replay={path}")
        sys.exit(1)
    print(f"OK replay of {path} shows no violation of {pid}")
    sys.exit(0)


if __name__ == "__main__":
    main()
