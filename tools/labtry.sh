#!/bin/bash
# Development aid: tools/labtry.sh <seeded-id> <driver> <n> <prop...>  - in the lab ($LAB, default /tmp/lab2): apply the seeded
# change, rebuild the lab harness, run one driver, validate its trace against the named properties with /verif's spec, undo.
LAB=${LAB:-/tmp/lab3}
ID=$1; DRV=$2; N=$3; shift 3
git -C $LAB/repo checkout -q -- . ; git -C $LAB/repo clean -fdq
[ "$ID" = none ] || git -C $LAB/repo apply /verif/seeded/$ID/patch.diff || exit 2
rsync -a /verif/harness/src/ $LAB/verif/harness/src/
(cd $LAB/verif/harness && CARGO_NET_OFFLINE=true cargo build --offline 2>&1 | grep -E "^error|Finished" -A6 | head -20)
mkdir -p $LAB/try; rm -f $LAB/try/*.trace
$LAB/verif/harness/target/debug/hx drive $DRV $LAB/try ${SEED:-1} $N > /dev/null
for t in $LAB/try/*.trace; do /verif/tools/val.sh $t "$@"; done
git -C $LAB/repo checkout -q -- . ; git -C $LAB/repo clean -fdq
