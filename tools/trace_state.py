#!/usr/bin/env python3
"""Reconstruct the abstract state before a given line of a trace: trace_state.py <trace> <line> [section.name ...]"""
import sys, json
def big(v):
    if isinstance(v, list) and v and all(isinstance(x, int) for x in v):
        s = v[0]; m = 0
        for l in reversed(v[1:]): m = m*10**9 + l
        return -m if s < 0 else m
    return v
def conv(v, fx=False):
    if isinstance(v, dict): return {k: conv(x) for k, x in v.items()}
    if isinstance(v, list):
        if v and all(isinstance(x, int) for x in v) and v[0] in (-1,0,1): return big(v)
        return [conv(x) for x in v]
    return v
def apply(st, chg):
    for sec, val in chg.items():
        if sec.startswith("del_"):
            for k in val: st.get(sec[4:], {}).pop(k, None)
        elif sec in ("clock", "fee"): st[sec] = val
        else: st.setdefault(sec, {}).update(val)
tr, ln = sys.argv[1], int(sys.argv[2])
st = {}; stack = []
for i, line in enumerate(open(tr), start=1):
    e = json.loads(line)
    if i == ln:
        print("EVENT", json.dumps({k: e[k] for k in ("ev","a","res","err","label")}))
        for q in sys.argv[3:]:
            sec, _, name = q.partition(".")
            v = st.get(sec, {})
            if name: v = v.get(name)
            print(q, json.dumps(conv(v))[:300000])
        break
    if e["ev"] == "save": stack.append(json.loads(json.dumps(st))); continue
    if e["ev"] == "restore": st = json.loads(json.dumps(stack[-1])); continue
    if e["ev"] == "drop": stack.pop(); continue
    if e["ev"] == "reset": st = {}
    apply(st, e["chg"])
