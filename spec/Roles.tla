------------------------------- MODULE Roles -------------------------------
(***************************************************************************)
(* C08, role assignment: the group admin re-assigns the seven roles of a   *)
(* group (admin, risk, e-mode, curve, limit, emissions, metadata) to any   *)
(* key that already holds another role, to a stranger, or to nobody; after *)
(* every assignment sequence (bounded depth) every role-gated instruction  *)
(* is probed with every identity.  The model's state is the assignment the *)
(* admin *asked for*; an instruction is predicted to succeed iff its       *)
(* signer holds the role it names under that assignment.  Probes are leaf  *)
(* transitions (the replay snapshots around them).                         *)
(***************************************************************************)
EXTENDS PropsAuth, IOUtils, FiniteSets

CONSTANTS MaxDepth,        \* number of successive re-assignments
          ProbeAll         \* TRUE: probe every gated instruction in every state; FALSE: only those naming a re-assigned role

Base0 == JsonDeserialize(IOEnv.AUTH_BASE)

GroupRoles == {"admin", "risk_admin", "emode_admin", "curve_admin", "limit_admin", "emissions_admin", "metadata_admin"}
Keys == {AuthRoles[r] : r \in GroupRoles} \cup {"stranger", "none"}
Probers == Keys \ {"none"}
\* single-instruction instructions of the table gated by a group role
GatedOps == {op \in AuthOpNames : AuthOps[op].nix = 1 /\ AuthOps[op].role \in GroupRoles /\ AuthOps[op].grp = "G1"}

VARIABLES roles, touched, depth, sid
vars == <<roles, touched, depth, sid>>

HoldersNow(op) == {roles[AuthOps[op].role]} \cup {roles[AuthOps[op].also[i]] : i \in DOMAIN AuthOps[op].also}

Emit(a, exp) ==
  /\ sid' = TLCGet(1)
  /\ TLCSet(1, TLCGet(1) + 1)
  /\ PrintT("EDGE " \o ToString(sid) \o " " \o ToString(TLCGet(1) - 1) \o " " \o ToJson(a @@ [exp |-> exp]))

Assign(r, k) ==
  /\ depth < MaxDepth
  /\ roles[r] # k
  /\ ~(r = "admin" /\ k = "none")                 \* (nobody can sign for the all-zero key on a real cluster)
  /\ roles' = [roles EXCEPT ![r] = k]
  /\ touched' = touched \cup {r}
  /\ depth' = depth + 1
  /\ Emit([op |-> "config_group", group |-> "G1", mode |-> "roles"] @@ (r :> k), "ok")

Probe(op, id) ==
  /\ depth >= 1
  /\ (ProbeAll \/ AuthOps[op].role \in touched \/ \E i \in DOMAIN AuthOps[op].also : AuthOps[op].also[i] \in touched)
  /\ roles' = roles /\ touched' = touched
  /\ depth' = MaxDepth + 1                          \* leaf
  /\ Emit([cell |-> op, mode |-> "roles", variant |-> "signer", who |-> id, signer |-> id] @@ Base0[op][1],
          IF id \in HoldersNow(op) THEN "ok" ELSE "err")

Init == /\ roles = [r \in GroupRoles |-> AuthRoles[r]] /\ touched = {} /\ depth = 0 /\ sid = 0 /\ TLCSet(1, 1)
Next ==
  /\ depth <= MaxDepth
  /\ \/ \E r \in GroupRoles, k \in Keys : Assign(r, k)
     \/ \E op \in GatedOps, id \in Probers : Probe(op, id)
Spec == Init /\ [][Next]_vars
View == <<roles, touched, depth, sid>>
=============================================================================
