SPECIFICATION SpecD
CONSTANTS
  Accts = {"A1"}
  BankNames = {"B1", "B2"}
  Amounts = {1000003}
  Ticks = {86399, 86400}
  LiqTriples <- DvNone
  Prices <- DvNone
  BkCases <- DvNone
  RecvCases <- DvNone
  Repays = {}
  FixedSeizes = {1, 999999, 1000000}
  SeizeCap = 1
  OpStates = {}
  DelevCases <- DvCases
  DelevRepays = {100000000}
  Limits = {0, 2}
  RiskAdminW = "riskadmin"
  DelevCap = 40000001
  MaxDepth = 3
VIEW ViewD
CHECK_DEADLOCK FALSE
