------------------------------ MODULE PropsTx ------------------------------
(***************************************************************************)
(* C10 receivership brackets and C11 flash-loan brackets, as predicates on *)
(* committed transactions (instruction list + state before and after).    *)
(***************************************************************************)
EXTENDS PropsAdmin

IxList(e) == IF e.ev = "tx" THEN e.a.ixs ELSE <<e.a>>
IsCpi(ix) == Has(ix, "cpi") /\ ix.cpi = TRUE
AllowedForeign == {"prog.compute", "prog.kamino", "prog.drift", "prog.jup", "prog.titan", "prog.ata"}   \* (Solend is not on the list)
IsForeign(ix) == ix.op = "foreign"
ForeignProg(ix) == IF Has(ix, "program") THEN ix.program ELSE "prog.unknown"
\* before the start: compute budget, record init, and the whitelisted venue refreshes (that program AND that instruction)
WhitelistedRefresh(ix) ==
  \/ ix.op \in {"kamino_refresh", "drift_refresh"}
  \/ (IsForeign(ix) /\ Has(ix, "disc") /\ ForeignProg(ix) = "prog.kamino" /\ ix.disc \in {"refresh_reserve", "refresh_obligation"})
  \/ (IsForeign(ix) /\ Has(ix, "disc") /\ ForeignProg(ix) = "prog.drift" /\ ix.disc = "update_spot_market_cumulative_interest")
PreStartOk(ix) == (IsForeign(ix) /\ ForeignProg(ix) = "prog.compute") \/ (ix.op = "init_liq_record" /\ ~IsCpi(ix)) \/ WhitelistedRefresh(ix)
InsideOk(ix) == (ix.op \in {"withdraw", "repay", "kamino_withdraw", "drift_withdraw", "solend_withdraw"} /\ ~IsCpi(ix)) \/ (IsForeign(ix) /\ ForeignProg(ix) \in AllowedForeign)
                \/ (ix.op = "init_liq_record" /\ ~IsCpi(ix)) \/ ix.op \in {"kamino_refresh", "drift_refresh", "solend_refresh"}
StartOps == {"start_liq", "start_delev"}
EndOf(op) == IF op = "start_liq" THEN "end_liq" ELSE "end_delev"
FIVE_USD == RInt(5)
MIN_PREMIUM == RMake(BOfInt(21), BOfInt(20))      \* 1 + 5%

NoTransientFlags(s) ==
  \A an \in DOMAIN s.accts :
     ~Bit(s.accts[an].flags, ACC_FLASHLOAN) /\ ~Bit(s.accts[an].flags, ACC_RECEIVERSHIP) /\ ~Bit(s.accts[an].flags, ACC_DELEVERAGE)

\* C12 ("a forced deleverage is bracketed like a liquidation"): the shape of every committed transaction that contains a
\* deleverage start, and no account left under the risk admin's control
C12Bracket(pre, e, post, line) ==
  (IsProgramEvent(e) /\ Ok(e)) =>
    LET L == IxList(e) starts == {i \in DOMAIN L : L[i].op = "start_delev"} IN
    (starts # {}) =>
      LET i == CHOOSE x \in starts : \A y \in starts : x <= y
          an == L[i].acct
          n == Len(L)
      IN /\ Chk("C12", "deleverage_is_bracketed_like_a_liquidation", line,
                /\ Cardinality(starts) = 1 /\ ~IsCpi(L[i]) /\ i < n
                /\ \A k \in 1..(i - 1) : PreStartOk(L[k])
                /\ L[n].op = "end_delev" /\ L[n].acct = an /\ ~IsCpi(L[n])
                /\ \A k \in (i + 1)..(n - 1) : InsideOk(L[k]) /\ (Has(L[k], "acct") => L[k].acct = an),
                [acct |-> an, start_at |-> i, len |-> n, starts |-> Cardinality(starts)])
         /\ Chk("C12", "deleverage_leaves_no_marker_on_any_account", line,
                \A x \in DOMAIN post.accts : ~Bit(post.accts[x].flags, ACC_RECEIVERSHIP) /\ ~Bit(post.accts[x].flags, ACC_DELEVERAGE), [acct |-> an])

C10(pre, e, post, line) ==
  /\ (IsProgramEvent(e) /\ Ok(e)) =>
       /\ Chk("C10", "receivership_marker_never_survives_a_transaction", line,
              \A an \in DOMAIN post.accts : ~Bit(post.accts[an].flags, ACC_RECEIVERSHIP) /\ ~Bit(post.accts[an].flags, ACC_DELEVERAGE), [ev |-> e.ev])
       /\ Chk("C10", "control_never_survives_a_transaction", line,
              \A r \in DOMAIN post.liqrec : post.liqrec[r].receiver = "none", [ev |-> e.ev])
  /\ (IsProgramEvent(e) /\ Ok(e)) =>
       LET L == IxList(e)
           starts == {i \in DOMAIN L : L[i].op \in StartOps}
       IN (starts # {}) =>
          LET i == CHOOSE x \in starts : \A y \in starts : x <= y
              an == L[i].acct
              n == Len(L)
          IN /\ Chk("C10", "single_start_first_matching_end_last", line,
                    /\ Cardinality(starts) = 1 /\ ~IsCpi(L[i]) /\ i < n
                    /\ \A k \in 1..(i - 1) : PreStartOk(L[k])
                    /\ L[n].op = EndOf(L[i].op) /\ L[n].acct = an /\ ~IsCpi(L[n]),
                    [acct |-> an, start_at |-> i, len |-> n])
             /\ Chk("C10", "only_withdraw_and_repay_in_between", line,
                    \A k \in (i + 1)..(n - 1) : InsideOk(L[k]), [acct |-> an])
             /\ (L[i].op = "start_liq" /\ Has(pre.accts, an)) =>
                  LET preA == [pre EXCEPT !.banks = [bn \in DOMAIN pre.banks |->
                                 IF Has(post.banks, bn) THEN [pre.banks[bn] EXCEPT !.asv = post.banks[bn].asv, !.lsv = post.banks[bn].lsv] ELSE pre.banks[bn]]]
                      h0u == HealthRef(preA, e, pre.accts[an], "Maint", "unfav")
                      h0 == HealthRef(preA, e, pre.accts[an], "Maint", "fav")
                      h1 == HealthRef(post, e, post.accts[an], "Maint", "fav")
                      h1u == HealthRef(post, e, post.accts[an], "Maint", "unfav")
                      q0 == HealthRef(preA, e, pre.accts[an], "Equity", "fav")
                      q1 == HealthRef(post, e, post.accts[an], "Equity", "fav")
                      \* the same valuation with isolated-tier deposits counted at their price (the program's own end checks
                      \* value them at zero, so whatever leaves such a position is seized value they cannot see)
                      Vis(s) == [s EXCEPT !.banks = [bn \in DOMAIN s.banks |->
                                   IF s.banks[bn].cfg.risk_tier = 1 THEN [s.banks[bn] EXCEPT !.cfg = [@ EXCEPT !.risk_tier = 0]] ELSE s.banks[bn]]]
                      hasIso == \E j \in ActiveSlots(pre.accts[an]) : pre.banks[pre.accts[an].bal[j].bank].cfg.risk_tier = 1
                      x0 == HealthRef(Vis(preA), e, pre.accts[an], "Equity", "fav")
                      x1 == HealthRef(Vis(post), e, post.accts[an], "Equity", "fav")
                      seizedX == RSub(x0.av, x1.av)
                      small == RLt(RSub(q0.av, q0.tol), FIVE_USD)
                      seized == RSub(q0.av, q1.av)
                      repaid == RSub(q0.lv, q1.lv)
                      maxFee == RMax(RAdd(ROne, R(pre.fee.liq_max_fee)), MIN_PREMIUM)
                      tol == RAdd(q0.tol, q1.tol)
                  IN (h0.known /\ h1.known /\ q0.known /\ q1.known) =>
                     /\ Chk("C10", "taken_over_only_when_unhealthy", line, RLt(Health(h0u), h0u.tol), [acct |-> an])
                     /\ Chk("C10", "health_not_worse_at_end", line, RGe(RAdd(Health(h1), h1.tol), RSub(Health(h0u), h0u.tol)), [acct |-> an])
                     /\ (~small) => Chk("C10", "still_not_healthy_at_end", line, RLe(Health(h1u), h1u.tol), [acct |-> an])
                     /\ (hasIso /\ x0.known /\ x1.known /\ RGt(RSub(seizedX, seized), RAdd(tol, RAdd(x0.tol, x1.tol))) /\ ~RLt(RSub(x0.av, x0.tol), FIVE_USD)) =>
                          Chk("C10", "value_taken_from_positions_the_end_checks_cannot_see_counts_as_seized", line,
                              RLe(seizedX, RAdd(RMul(repaid, maxFee), RMul(RAdd(tol, RAdd(x0.tol, x1.tol)), RInt(4)))),
                              [acct |-> an, seized_num |-> seizedX[1], seized_den |-> seizedX[2], repaid_num |-> repaid[1], repaid_den |-> repaid[2]])
                     /\ (~small) => Chk("C10", "seized_within_premium_of_repaid", line,
                                       RLe(seized, RAdd(RMul(repaid, maxFee), RMul(tol, RInt(4)))),
                                       [acct |-> an, seized_num |-> seized[1], seized_den |-> seized[2], repaid_num |-> repaid[1], repaid_den |-> repaid[2]])

C11(pre, e, post, line) ==
  /\ (IsProgramEvent(e) /\ Ok(e)) =>
       Chk("C11", "flashloan_flag_never_survives_a_transaction", line,
           \A an \in DOMAIN post.accts : ~Bit(post.accts[an].flags, ACC_FLASHLOAN), [ev |-> e.ev])
  /\ (IsProgramEvent(e) /\ Ok(e)) =>
       LET L == IxList(e) n == Len(L)
           starts == {i \in DOMAIN L : L[i].op = "start_fl"}
       IN \A i \in starts :
            LET an == L[i].acct
                wide == Has(L[i], "end_index_wide")   \* an argument beyond every possible instruction index (see TxShape)
                idx == IF wide THEN n + 1 ELSE L[i].end_index + 1            \* 1-based position of the named end
                a == IF Has(pre.accts, an) THEN pre.accts[an] ELSE [flags |-> <<>>]
            IN /\ Chk("C11", "start_names_a_later_end_of_this_program_for_the_same_account", line,
                      /\ ~wide /\ ~IsCpi(L[i]) /\ idx > i /\ idx <= n
                      /\ L[idx].op = "end_fl" /\ L[idx].acct = an /\ ~IsCpi(L[idx]),
                      [acct |-> an, start_at |-> i, end_index |-> idx, len |-> n])
               /\ Chk("C11", "refused_for_disabled_frozen_or_in_receivership", line,
                      ~Bit(a.flags, ACC_DISABLED) /\ ~Bit(a.flags, ACC_FROZEN) /\ ~Bit(a.flags, ACC_RECEIVERSHIP), [acct |-> an])
               \* the bracket is open from the start to the first end instruction of the same account after it (the named
               \* end, or an earlier one: ending early only shortens the window in which checks are skipped)
               /\ (idx > i /\ idx <= n) =>
                    LET ends == {k \in (i + 1)..idx : L[k].op = "end_fl" /\ L[k].acct = an}
                        close == IF ends = {} THEN idx ELSE CHOOSE k \in ends : \A k2 \in ends : k <= k2
                    IN
                    Chk("C11", "no_nesting_liquidation_or_bankruptcy_inside_bracket", line,
                        \A k \in (i + 1)..(close - 1) :
                           /\ ~(L[k].op = "start_fl" /\ L[k].acct = an)
                           /\ ~(L[k].op = "liquidate" /\ L[k].liquidatee = an)
                           /\ ~(L[k].op \in {"bankruptcy", "start_liq", "start_delev", "transfer_account", "close_account"} /\ L[k].acct = an),
                        [acct |-> an])
               /\ (Has(post.accts, an)) =>
                    LET h == HealthRef(post, e, post.accts[an], "Init", "fav") IN
                    (h.known) => Chk("C11", "initial_health_enforced_at_end_of_bracket", line, RGe(Health(h), RNeg(h.tol)),
                                     [acct |-> an, health_num |-> Health(h)[1], health_den |-> Health(h)[2]])
=============================================================================
