SPECIFICATION Spec
CONSTANTS
  Alphabet <- Recv3Alphabet
  MaxLen = 5
  NeedOneOf <- NeedStart
CHECK_DEADLOCK FALSE
