-------------------------------- MODULE Delev --------------------------------
(***************************************************************************)
(* Forced deleverage with values (C12: "bracketed like a liquidation,      *)
(* cannot leave the account less healthy, and, when a daily dollar limit   *)
(* is configured for the group, the whole-dollar value of its withdrawals  *)
(* within a day cannot exceed that limit").  One action is one atomic      *)
(* transaction [start_deleverage, repay r, withdraw w, end_deleverage]     *)
(* signed by the risk admin, simulated with the implementation's operation *)
(* sequence: the start takes any account (healthy or not) and snapshots    *)
(* its maintenance totals; repay and withdraw run without the risk check;  *)
(* each withdrawal adds the whole dollars of its low-biased spot value to  *)
(* the group's counter for the current window (a window opens when the     *)
(* limit is configured or when a withdrawal finds the previous one a day   *)
(* old) and is refused once the counter exceeds a configured limit; the    *)
(* end refuses a worse maintenance health (liquidate_start.rs,             *)
(* liquidate_end.rs, withdraw.rs, marginfi_group.rs).  For every reachable *)
(* state (limits, time passing within and across windows, earlier          *)
(* brackets) TLC computes the largest withdrawal with which the bracket    *)
(* commits (bisection) and emits it with its successor and the predicted   *)
(* error; every bracket is replayed and judged by the C12 predicates.      *)
(***************************************************************************)
EXTENDS Recv

CONSTANTS DelevCases,   \* set of <<account, collateral bank, debt bank>>
          DelevRepays,  \* repay amounts (native units of the debt token)
          Limits,       \* daily limits (whole dollars) the admin may configure
          RiskAdminW,   \* the risk admin's wallet
          DelevCap      \* upper end of the bisection

GroupOf(s, an) == s.accts[an].group

\* configure_deleverage_withdrawal_limit (group admin): sets the limit, opens a window now (the counter is left as it is)
SetLimit(g, lim) ==
  LET a == [op |-> "delev_limit", group |-> g, limit |-> lim] IN
  IF lim = 0 THEN Fail(a, "ZeroWithdrawalLimit")
  ELSE LET d == [st.groups[g].delev EXCEPT !.limit = BOfInt(lim), !.reset = Now]
           post == [st EXCEPT !.groups[g].delev = d]
       IN Do(a, "ok", post, [groups |-> (g :> [delev |-> d])])

\* the receiver's withdraw plus the deleverage accounting of withdraw.rs / update_withdrawn_equity
U32MAXB == BOfStr("4294967295")
WithdrawD(s, an, bn, amt, w) ==
  LET r == WithdrawF(s, an, bn, amt, w) IN
  IF r.r # "ok" THEN r
  ELSE LET g == GroupOf(s, an)
           px == Px(s.banks)[bn].px
           low == BSub(px.pRT, px.cRT.v)
           pre == PreFee(s.mints[s.banks[bn].mint], BOfInt(amt))
           dollars == FToInt(CalcValueNoW(FOfBig(pre), low, s.banks[bn].dec))
           d0 == r.s.groups[g].delev
           d1 == IF BGe(BSub(Now, d0.reset), IC_DAILY_RESET_INTERVAL) THEN [d0 EXCEPT !.today = BZero, !.reset = Now] ELSE d0
           d2 == [d1 EXCEPT !.today = BMin(BAdd(@, dollars), U32MAXB)]
       IN IF ~BIsZero(d2.limit) /\ BGt(d2.today, d2.limit) THEN F2("DailyWithdrawalLimitExceeded", s)
          ELSE F2("ok", [r.s EXCEPT !.groups[g].delev = d2])

DelevEval(c, rep, wd) ==
  LET an == c[1] cb == c[2] lb == c[3] ac == st.accts[an] IN
  IF Bit(ac.flags, ACC_DISABLED) \/ Bit(ac.flags, ACC_FLASHLOAN) \/ Bit(ac.flags, ACC_RECEIVERSHIP) THEN F2("err", st)
  ELSE LET h0 == HealthComponents(Px(st.banks), ac.bal, "Maint") IN
  IF IsErr(h0) THEN F2(h0.err, st)
  ELSE LET q0 == HealthComponents(Px(st.banks), ac.bal, "Equity") IN
  IF IsErr(q0) THEN F2(q0.err, st)
  ELSE LET s1 == [st EXCEPT !.accts[an].flags = RFlag(RFlag(@, ACC_RECEIVERSHIP), ACC_DELEVERAGE)]
           s2 == RepayF(s1, an, lb, rep, RiskAdminW)
       IN IF s2.r # "ok" THEN F2(s2.r, st)
          ELSE LET s3 == WithdrawD(s2.s, an, cb, wd, RiskAdminW) IN
               IF s3.r # "ok" THEN F2(s3.r, st)
               ELSE LET h1 == HealthComponents(Px(s3.s.banks), s3.s.accts[an].bal, "Maint") IN
                    IF IsErr(h1) THEN F2(h1.err, st)
                    ELSE LET q1 == HealthComponents(Px(s3.s.banks), s3.s.accts[an].bal, "Equity") IN
                    IF IsErr(q1) THEN F2(q1.err, st)
                    ELSE IF BGt(BSub(h0[1], h0[2]), BSub(h1[1], h1[2])) THEN F2("WorseHealthPostLiquidation", st)
                    ELSE F2("ok", [s3.s EXCEPT !.accts[an].flags = UnFlag(UnFlag(@, ACC_RECEIVERSHIP), ACC_DELEVERAGE)])

DelevTx(c, rep, wd) ==
  LET an == c[1] IN
  [op |-> "tx", ixs |-> <<[op |-> "start_delev", acct |-> an, signer |-> RiskAdminW],
                          [op |-> "repay", acct |-> an, bank |-> c[3], amount |-> rep, all |-> FALSE, signer |-> RiskAdminW],
                          [op |-> "withdraw", acct |-> an, bank |-> c[2], amount |-> wd, all |-> FALSE, signer |-> RiskAdminW],
                          [op |-> "end_delev", acct |-> an, signer |-> RiskAdminW]>>]
DelevBracket(c, rep, wd) ==
  LET ev == DelevEval(c, rep, wd) a == DelevTx(c, rep, wd) g == GroupOf(st, c[1]) IN
  IF ev.r = "ok"
  THEN Do(a, "ok", ev.s, Obs(ev.s, {c[2], c[3]}, {c[1]}, {RTok(RiskAdminW, st, c[2]), RTok(RiskAdminW, st, c[3]), st.banks[c[2]].vault_liq, st.banks[c[3]].vault_liq})
                         @@ [groups |-> (g :> [delev |-> ev.s.groups[g].delev])])
  ELSE Fail(a, ev.r)

RECURSIVE BisectD(_, _, _, _)
BisectD(c, rep, lo, hi) ==
  IF hi - lo <= 1 THEN lo
  ELSE LET mid == lo + (hi - lo) \div 2 IN
       IF DelevEval(c, rep, mid).r = "ok" THEN BisectD(c, rep, mid, hi) ELSE BisectD(c, rep, lo, mid)
BoundaryDelev(c, rep) ==
  LET one == DelevEval(c, rep, 1).r top == DelevEval(c, rep, DelevCap).r IN
  IF one # "ok" THEN DelevBracket(c, rep, 1)
  ELSE IF top = "ok" THEN DelevBracket(c, rep, DelevCap)
  ELSE LET m == BisectD(c, rep, 1, DelevCap) IN \E x \in {m, m + 1} : DelevBracket(c, rep, x)

NextD ==
  /\ depth < MaxDepth
  /\ \/ \E d \in Ticks : Tick(d)
     \/ \E c \in DelevCases, lim \in Limits : SetLimit(GroupOf(st, c[1]), lim)
     \/ \E c \in DelevCases, rep \in DelevRepays : BoundaryDelev(c, rep)
     \/ \E c \in DelevCases, rep \in DelevRepays, x \in FixedSeizes : DelevBracket(c, rep, x)
SpecD == Init /\ [][NextD]_vars
ViewD == <<View, [g \in DOMAIN st.groups |-> st.groups[g].delev]>>
=============================================================================
