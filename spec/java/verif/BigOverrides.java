package verif;

import java.math.BigInteger;
import tlc2.overrides.ITLCOverrides;
import tlc2.overrides.TLAPlusOperator;
import tlc2.value.impl.BoolValue;
import tlc2.value.impl.IntValue;
import tlc2.value.impl.StringValue;
import tlc2.value.impl.TupleValue;
import tlc2.value.impl.Value;

/**
 * Exact unbounded integers for TLC. A Big is the TLA+ tuple <<sign, l0, l1, ...>> with sign in
 * {-1,0,1} and little-endian limbs base 10^9 (canonical: no leading zero limbs; zero is <<0>>), so
 * that TLA+ equality is numeric equality. These methods override the operators of Big.tla.
 */
public class BigOverrides implements ITLCOverrides {
    private static final BigInteger BASE = BigInteger.valueOf(1_000_000_000L);

    @Override
    public Class[] get() {
        return new Class[] { BigOverrides.class };
    }

    static BigInteger dec(Value v) {
        TupleValue t = (TupleValue) v.toTuple();
        if (t == null) {
            throw new RuntimeException("Big: not a tuple: " + v);
        }
        Value[] e = t.elems;
        int sign = ((IntValue) e[0]).val;
        if (sign == 0) {
            return BigInteger.ZERO;
        }
        BigInteger m = BigInteger.ZERO;
        for (int i = e.length - 1; i >= 1; i--) {
            m = m.multiply(BASE).add(BigInteger.valueOf(((IntValue) e[i]).val));
        }
        return sign < 0 ? m.negate() : m;
    }

    static Value enc(BigInteger x) {
        int s = x.signum();
        if (s == 0) {
            return new TupleValue(new Value[] { IntValue.gen(0) });
        }
        BigInteger m = x.abs();
        java.util.ArrayList<Value> out = new java.util.ArrayList<>();
        out.add(IntValue.gen(s));
        while (m.signum() > 0) {
            BigInteger[] qr = m.divideAndRemainder(BASE);
            out.add(IntValue.gen(qr[1].intValue()));
            m = qr[0];
        }
        return new TupleValue(out.toArray(new Value[0]));
    }

    static BigInteger floorDiv(BigInteger a, BigInteger b) {
        BigInteger[] qr = a.divideAndRemainder(b);
        if (qr[1].signum() != 0 && (qr[1].signum() != b.signum())) {
            return qr[0].subtract(BigInteger.ONE);
        }
        return qr[0];
    }

    @TLAPlusOperator(identifier = "BAdd", module = "Big", warn = false)
    public static Value add(Value a, Value b) { return enc(dec(a).add(dec(b))); }

    @TLAPlusOperator(identifier = "BSub", module = "Big", warn = false)
    public static Value sub(Value a, Value b) { return enc(dec(a).subtract(dec(b))); }

    @TLAPlusOperator(identifier = "BMul", module = "Big", warn = false)
    public static Value mul(Value a, Value b) { return enc(dec(a).multiply(dec(b))); }

    @TLAPlusOperator(identifier = "BFloorDiv", module = "Big", warn = false)
    public static Value fdiv(Value a, Value b) { return enc(floorDiv(dec(a), dec(b))); }

    @TLAPlusOperator(identifier = "BTruncDiv", module = "Big", warn = false)
    public static Value tdiv(Value a, Value b) { return enc(dec(a).divide(dec(b))); }

    @TLAPlusOperator(identifier = "BMod", module = "Big", warn = false)
    public static Value mod(Value a, Value b) {
        BigInteger x = dec(a), y = dec(b);
        return enc(x.subtract(floorDiv(x, y).multiply(y)));
    }

    @TLAPlusOperator(identifier = "BNeg", module = "Big", warn = false)
    public static Value neg(Value a) { return enc(dec(a).negate()); }

    @TLAPlusOperator(identifier = "BAbs", module = "Big", warn = false)
    public static Value abs(Value a) { return enc(dec(a).abs()); }

    @TLAPlusOperator(identifier = "BCmp", module = "Big", warn = false)
    public static Value cmp(Value a, Value b) { return IntValue.gen(dec(a).compareTo(dec(b))); }

    @TLAPlusOperator(identifier = "BLe", module = "Big", warn = false)
    public static Value le(Value a, Value b) { return dec(a).compareTo(dec(b)) <= 0 ? BoolValue.ValTrue : BoolValue.ValFalse; }

    @TLAPlusOperator(identifier = "BLt", module = "Big", warn = false)
    public static Value lt(Value a, Value b) { return dec(a).compareTo(dec(b)) < 0 ? BoolValue.ValTrue : BoolValue.ValFalse; }

    @TLAPlusOperator(identifier = "BMin", module = "Big", warn = false)
    public static Value min(Value a, Value b) { return enc(dec(a).min(dec(b))); }

    @TLAPlusOperator(identifier = "BMax", module = "Big", warn = false)
    public static Value max(Value a, Value b) { return enc(dec(a).max(dec(b))); }

    @TLAPlusOperator(identifier = "BOfInt", module = "Big", warn = false)
    public static Value ofInt(Value a) { return enc(BigInteger.valueOf(((IntValue) a).val)); }

    @TLAPlusOperator(identifier = "BToInt", module = "Big", warn = false)
    public static Value toInt(Value a) { return IntValue.gen(dec(a).intValueExact()); }

    @TLAPlusOperator(identifier = "BFitsInt", module = "Big", warn = false)
    public static Value fitsInt(Value a) { return dec(a).bitLength() < 31 ? BoolValue.ValTrue : BoolValue.ValFalse; }

    @TLAPlusOperator(identifier = "BPow2", module = "Big", warn = false)
    public static Value pow2(Value n) { return enc(BigInteger.ONE.shiftLeft(((IntValue) n).val)); }

    @TLAPlusOperator(identifier = "BPow10", module = "Big", warn = false)
    public static Value pow10(Value n) { return enc(BigInteger.TEN.pow(((IntValue) n).val)); }

    @TLAPlusOperator(identifier = "BShl", module = "Big", warn = false)
    public static Value shl(Value a, Value n) { return enc(dec(a).shiftLeft(((IntValue) n).val)); }

    @TLAPlusOperator(identifier = "BShr", module = "Big", warn = false)
    public static Value shr(Value a, Value n) { return enc(dec(a).shiftRight(((IntValue) n).val)); }

    @TLAPlusOperator(identifier = "BGcd", module = "Big", warn = false)
    public static Value gcd(Value a, Value b) { return enc(dec(a).gcd(dec(b))); }

    @TLAPlusOperator(identifier = "BOfStr", module = "Big", warn = false)
    public static Value ofStr(Value s) { return enc(new BigInteger(((StringValue) s).val.toString())); }

    @TLAPlusOperator(identifier = "BShow", module = "Big", warn = false)
    public static Value show(Value a) { return new StringValue(dec(a).toString()); }

    @TLAPlusOperator(identifier = "BIsBig", module = "Big", warn = false)
    public static Value isBig(Value v) {
        try {
            TupleValue t = (TupleValue) v.toTuple();
            if (t == null || t.elems.length == 0) return BoolValue.ValFalse;
            return enc(dec(v)).equals(t) ? BoolValue.ValTrue : BoolValue.ValFalse;
        } catch (RuntimeException e) {
            return BoolValue.ValFalse;
        }
    }

    /** RNorm(<<n, d>>): reduce a rational to lowest terms with positive denominator. */
    @TLAPlusOperator(identifier = "RNorm", module = "Big", warn = false)
    public static Value rnorm(Value r) {
        TupleValue t = (TupleValue) r.toTuple();
        BigInteger n = dec(t.elems[0]), d = dec(t.elems[1]);
        if (d.signum() == 0) throw new RuntimeException("RNorm: zero denominator");
        if (d.signum() < 0) { n = n.negate(); d = d.negate(); }
        BigInteger g = n.gcd(d);
        if (g.signum() != 0 && !g.equals(BigInteger.ONE)) { n = n.divide(g); d = d.divide(g); }
        return new TupleValue(new Value[] { enc(n), enc(d) });
    }
}
