------------------------------- MODULE Curve -------------------------------
(***************************************************************************)
(* C18: TLC enumerates seven-point curves over a u32 boundary grid (valid  *)
(* and invalid, every zero / hundred rate) and legacy three-point curves,  *)
(* evaluates the implementation-shaped validator and curve (Impl.tla) on a *)
(* refinement of the grid, checks C18 on the model's own results and emits *)
(* every curve for replay through the real validate / calc_interest_rate   *)
(* with the predicted rates compared bit for bit.                          *)
(***************************************************************************)
EXTENDS Impl, PropsCurve

CONSTANTS NPoints      \* number of free point slots (the remaining slots are padding)
VARIABLES phase, sid
vars == <<phase, sid>>

U32M == BOfStr("4294967295")
GU == {BZero, BOne, BOfStr("1431655765"), BOfStr("2147483647"), BOfStr("4294967294"), U32M}
GR == {BZero, BOne, BOfStr("2147483647"), U32M}
Pad == <<BZero, BZero>>

\* validate_seven_point transcribed
ImplValidate(ir) ==
  LET P == ir.points
      used == {i \in DOMAIN P : ~BIsZero(P[i][1])}
      padOk == \A i \in DOMAIN P : BIsZero(P[i][1]) => BIsZero(P[i][2])
      noHoles == \A i \in DOMAIN P, j \in DOMAIN P : (i < j /\ BIsZero(P[i][1])) => BIsZero(P[j][1])
      asc == \A i \in used, j \in used : (j = i + 1) => (BLt(P[i][1], P[j][1]) /\ BLe(P[i][2], P[j][2]))
  IN padOk /\ noHoles /\ asc /\ BLe(ir.zero, ir.hundred) /\ \A i \in used : BLe(ir.zero, P[i][2]) /\ BLe(P[i][2], ir.hundred)

\* utilization sweep (I80F48 bits, ascending): 0, 1 ulp, each grid utilization as the implementation sees it -1/+0/+1 ulp, 1, 1+ulp, 2
UrOf(u) == UtilFromU32(u)
SweepSet == {BZero, BOne, FOne, BAdd(FOne, BOne), FOfInt(2)}
            \cup UNION {{BMax(BZero, BSub(UrOf(u), BOne)), UrOf(u), BAdd(UrOf(u), BOne)} : u \in GU}
RECURSIVE SortBig(_)
SortBig(S) == IF S = {} THEN <<>> ELSE LET m == CHOOSE x \in S : \A y \in S : BLe(x, y) IN <<m>> \o SortBig(S \ {m})
Sweep == SortBig(SweepSet)

Fees == [ins_fixed |-> "1/128", ins_ir |-> "1/16", grp_fixed |-> "1/128", grp_ir |-> "1/16"]
FeesBits == [ins_fixed |-> FDiv(FOfInt(1), FOfInt(128)), ins_ir |-> FDiv(FOfInt(1), FOfInt(16)),
             grp_fixed |-> FDiv(FOfInt(1), FOfInt(128)), grp_ir |-> FDiv(FOfInt(1), FOfInt(16))]
G0 == [flags |-> <<>>, fee_cache |-> [rate |-> BZero, fixed |-> BZero]]

RateRec(ir, ur) ==
  LET irf == ir @@ FeesBits
      r == ImplRates(irf, G0, ur)
  IN IF r = None THEN [ur |-> ur, def |-> FALSE] ELSE [ur |-> ur, def |-> TRUE, base |-> r.base, lend |-> r.lend, borrow |-> r.borrow]

Emit(a, ir, accepted) ==
  LET out == IF accepted THEN [rates |-> [i \in DOMAIN Sweep |-> RateRec(ir, Sweep[i])]] ELSE <<>>
      e == [ev |-> "curve", a |-> a, res |-> IF accepted THEN "ok" ELSE "err", err |-> IF accepted THEN "" ELSE "InvalidConfig", out |-> out]
  IN /\ phase' = "sink"
     /\ C18(<<>>, e, <<>>, 0) = TRUE
     /\ sid' = TLCGet(1)
     /\ TLCSet(1, TLCGet(1) + 1)
     /\ PrintT("EDGE " \o ToString(sid) \o " " \o ToString(TLCGet(1) - 1) \o " " \o
               ToJson(a @@ [exp |-> IF accepted THEN "ok" ELSE "InvalidConfig"] @@ (IF accepted THEN [obs |-> [out |-> out]] ELSE <<>>)))

SevenPoint(z, h, pts) ==
  LET P == pts \o [i \in 1..(5 - Len(pts)) |-> Pad]
      ir == [curve_type |-> 1, points |-> P, zero |-> z, hundred |-> h, opt_util |-> BZero, plateau |-> BZero, max_rate |-> BZero]
      a == [op |-> "curve", zero |-> z, hundred |-> h, points |-> P, fees |-> Fees, urs |-> Sweep]
  IN Emit(a, ir, ImplValidate(ir))

LegacyGrid == {FDiv(FOfInt(1), FOfInt(2)), FDiv(FOfInt(4), FOfInt(5)), BZero, FOne, FDiv(FOfInt(1), FOfInt(10)), FOfInt(3)}
ImplValidateLegacy(o, p, m) == BIsPos(o) /\ BLt(o, FOne) /\ BIsPos(p) /\ BIsPos(m) /\ BLt(p, m)
Legacy(o, p, m) ==
  LET ir == [curve_type |-> 0, points |-> <<>>, zero |-> BZero, hundred |-> BZero, opt_util |-> o, plateau |-> p, max_rate |-> m]
      a == [op |-> "curve", legacy |-> [opt |-> o, plateau |-> p, max |-> m], fees |-> Fees, urs |-> Sweep]
  IN Emit(a, ir, ImplValidateLegacy(o, p, m))

PointSeqs == [1..NPoints -> GU \X GR]
\* curves with four and with all five point slots in use (no padding entry at all): fixed ascending utilizations, every
\* assignment of rates from a three-value grid, every zero / hundred rate
FullU == <<BOne, BOfStr("1431655765"), BOfStr("2147483647"), BOfStr("4294967294"), U32M>>
GR3 == {BZero, BOfStr("2147483647"), U32M}
FullSeqs(n) == [1..n -> GR3]
Init == phase = "root" /\ sid = 0 /\ TLCSet(1, 1)
Next == /\ phase = "root"
        /\ \/ \E z \in GR, h \in GR, ps \in PointSeqs : SevenPoint(z, h, [i \in 1..NPoints |-> <<ps[i][1], ps[i][2]>>])
           \/ \E n \in {4, 5}, z \in GR, h \in GR : \E rs \in FullSeqs(n) : SevenPoint(z, h, [i \in 1..n |-> <<FullU[i], rs[i]>>])
           \/ \E o \in LegacyGrid, p \in LegacyGrid, m \in LegacyGrid : Legacy(o, p, m)
Spec == Init /\ [][Next]_vars
=============================================================================
