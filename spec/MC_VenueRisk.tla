--------------------------- MODULE MC_VenueRisk ---------------------------
(* Model-checking instance of VenueRisk.tla (constants that a .cfg cannot express). *)
EXTENDS VenueRisk
NoTuplesV == {}
ASSUME TLCSet(1, 1)
InitSimV == /\ st = InitState /\ acc = C02AccNext(C02Acc0, InitState, [ev |-> "reset"], InitState)
            /\ acc7 = C07Acc0 /\ sid = 0 /\ depth = 0
SpecSimV == InitSimV /\ [][NextV]_vars
\* feeds at exponent -6: OU prices the Kamino / Solend underlying ($1), OV the Drift underlying ($150); exponent -8: OD the debt ($1)
OVV == {<<"OU", 1000000, 2000, 990000, 1500>>,
        <<"OU", 700000, 0, 700000, 0>>,
        <<"OU", 1000000, 45000, 1000000, 45000>>,       \* 4.5 % x 2.12: capped at 5 % of the adjusted price
        <<"OV", 150000000, 300000, 151000000, 200000>>,
        <<"OV", 90000000, 0, 90000000, 0>>,
        <<"OD", 104000000, 0, 100000000, 0>>}
\* the Switchboard instance: value / standard deviation at 10^-18
SVV == {<<"OU", "1000000000000000000", "2000000000000000">>,
        <<"OU", "700000000000000001", "0">>,
        <<"OU", "1000000000000000000", "27000000000000000">>,     \* 2.7 % x 1.96: capped at 5 % of the adjusted value
        <<"OV", "90000000000000000000", "0">>}
OVD == {<<"OD", 104000000, 0, 100000000, 0>>}
VLC == {<<"A4", "A1", "KB1", "BD">>, <<"A4", "A2", "DB1", "BD">>, <<"A4", "A3", "SB1", "BD">>}
BPV == {<<"A1", "BD">>, <<"A2", "BD">>, <<"A3", "BD">>}
KBorV == {300000000, 0}
SBorV == {250, 0}
DCumV == {<<1, 0, 12>>, <<1, 7, 10>>}
=============================================================================
