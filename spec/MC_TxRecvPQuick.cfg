SPECIFICATION Spec
CONSTANTS
  Alphabet <- RecvPAlphabet
  MaxLen = 4
  NeedOneOf <- NeedStartP
CHECK_DEADLOCK FALSE
