SPECIFICATION Spec
CONSTANTS
  TickSet = {600, 85800}
  Groups = {"G1", "G2"}
VIEW View
INVARIANT TypeOK
INVARIANT BoundedAhead
CHECK_DEADLOCK FALSE
