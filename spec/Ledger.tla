------------------------------- MODULE Ledger -------------------------------
(***************************************************************************)
(* The lending ledger: one action per user / keeper instruction            *)
(* (deposit, withdraw, borrow, repay, accrue, collect fees, close balance, *)
(* clock advance), written with the implementation's own operation         *)
(* sequence (module Impl) over the abstract state of the projection.  The  *)
(* initial state is the projected state of a seed script executed on the   *)
(* real program (IOEnv.INIT_STATE), so model and implementation start      *)
(* from the same reachable world.  Every transition is checked against     *)
(* the ledger properties (C01 C02 C03 C06 C16 C17) and emitted for replay  *)
(* together with the model's predicted observables.                        *)
(***************************************************************************)
EXTENDS Impl, PropsAdmin, IOUtils

CONSTANTS Accts, BankNames, Amounts, Ticks, MaxDepth,
          LiqTriples,   \* set of <<liquidator, liquidatee, asset bank, liab bank>>
          Prices,       \* set of <<bank, numerator, denominator>> the admin may set as fixed price
          BkCases       \* set of <<account, bank, signer>> for handle_bankruptcy

VARIABLES st, acc, acc7, sid, depth
vars == <<st, acc, acc7, sid, depth>>

InitState == JsonDeserialize(IOEnv.INIT_STATE)

Now == st.clock.ts
\* banks annotated with the prices the risk engine reads for them now (oracle accounts of the projected state)
\* venue-backed banks (Kamino 6, Solend 11, Drift 9 on Pyth push feeds; the Switchboard variants below): the feed's spot / time-weighted price AND both confidence
\* values multiplied by the venue's exchange rate - Kamino / Solend: total liquidity over collateral supply, both first divided
\* by 10^decimals in I80F48, the product floored (adjust_i64 / adjust_u64); Drift: cumulative deposit interest over 10^10 in
\* integers.  Check order of the adapters: venue account, refreshed in this slot / second, feed owner, feed age.
PythAdjusted(b, o, load, Adj(_)) ==
  LET o2 == IF load = "ok" THEN [o EXCEPT !.price = Adj(o.price), !.ema = Adj(o.ema), !.conf = Adj(o.conf), !.ema_conf = Adj(o.ema_conf)] ELSE o
      fits == BLt(o2.price, BPow2(63)) /\ BLt(o2.ema, BPow2(63)) /\ BLt(o2.conf, BPow2(64)) /\ BLt(o2.ema_conf, BPow2(64))
      load2 == IF load = "ok" /\ ~fits THEN "MathError" ELSE load
  IN [load |-> load2, pTW |-> PythToFix(o2.ema, o.expo), pRT |-> PythToFix(o2.price, o.expo),
      cTW |-> ImplPythConf(o2, TRUE, b.cfg.oracle_max_conf), cRT |-> ImplPythConf(o2, FALSE, b.cfg.oracle_max_conf)]
FeedLoad(b, o) ==
  LET maxAge == IF b.cfg.oracle_max_age = 0 THEN IC_MAX_PYTH_ORACLE_AGE ELSE BOfInt(b.cfg.oracle_max_age) IN
  IF ~o.owner_ok THEN "PythPushWrongAccountOwner" ELSE IF BLt(BAdd(o.ts, maxAge), Now) THEN "PythPushStalePrice" ELSE "ok"
\* the Switchboard variants (7, 12, 10): the feed's 10^18-scaled value and standard deviation multiplied by the same rate
\* (Kamino / Solend: through I80F48, which holds integers below 2^79 only; Drift: in integers)
SwbFeedLoad(b, o) ==
  IF ~o.owner_ok THEN "SwitchboardWrongAccountOwner"
  ELSE IF BGt(BSub(Now, o.ts), BOfInt(b.cfg.oracle_max_age)) THEN "SwitchboardStalePrice" ELSE "ok"
SwbAdjusted(b, o, load, Adj(_), viaFixed) ==
  LET o2 == IF load = "ok" THEN [o EXCEPT !.swb_value = Adj(o.swb_value), !.swb_std = Adj(o.swb_std)] ELSE o
      lim == IF viaFixed THEN BPow2(79) ELSE BPow2(127)
      fits == BLt(o.swb_value, lim) /\ BLt(o.swb_std, lim) /\ BLt(o2.swb_value, lim) /\ BLt(o2.swb_std, lim)
      load2 == IF load = "ok" /\ ~fits THEN "MathError" ELSE load
      p == FDiv(FOfBig(o2.swb_value), Exp10(18))
      c == ImplSwbConf(o2, b.cfg.oracle_max_conf)
  IN [load |-> load2, pTW |-> p, pRT |-> p, cTW |-> c, cRT |-> c]
ReservePx(b) ==
  LET o == st.oracles[b.cfg.oracle_keys[1]] r == st.reserves[b.cfg.oracle_keys[2]] sol == b.cfg.oracle_setup \in SolLike
      swb == b.cfg.oracle_setup \in SwbLike
      load == IF ~r.owner_ok THEN (IF sol THEN "SolendReserveValidationFailed" ELSE "KaminoReserveValidationFailed")
              ELSE IF BLt(r.slot, st.clock.slot) THEN (IF sol THEN "SolendReserveStale" ELSE "ReserveStale")
              ELSE IF swb THEN SwbFeedLoad(b, o) ELSE FeedLoad(b, o)
      ratio == ReserveRatioBits(r)
  IN IF swb THEN SwbAdjusted(b, o, load, LAMBDA x : KaminoAdj(x, ratio), TRUE)
     ELSE PythAdjusted(b, o, load, LAMBDA x : KaminoAdj(x, ratio))
MarketPx(b) ==
  LET o == st.oracles[b.cfg.oracle_keys[1]] m == st.markets[b.cfg.oracle_keys[2]]
      swb == b.cfg.oracle_setup \in SwbLike
      load == IF ~m.owner_ok THEN "DriftSpotMarketValidationFailed" ELSE IF BLt(m.ts, Now) THEN "DriftSpotMarketStale"
              ELSE IF swb THEN SwbFeedLoad(b, o) ELSE FeedLoad(b, o)
  IN IF swb THEN SwbAdjusted(b, o, load, LAMBDA x : DriftAdj(x, m.cum), FALSE)
     ELSE PythAdjusted(b, o, load, LAMBDA x : DriftAdj(x, m.cum))
PxFor(b) ==
  LET oracles == IF Has(st, "oracles") THEN st.oracles ELSE <<>> IN
  IF b.cfg.oracle_setup \in KamLike /\ Has(oracles, b.cfg.oracle_keys[1]) /\ Has(ReservesOf(st), b.cfg.oracle_keys[2])
  THEN ReservePx(b)
  ELSE IF b.cfg.oracle_setup \in DriLike /\ Has(oracles, b.cfg.oracle_keys[1]) /\ Has(MarketsOf(st), b.cfg.oracle_keys[2])
  THEN MarketPx(b)
  ELSE ImplPxP(b, oracles, IF Has(st, "pools") THEN st.pools ELSE <<>>, Now)
Px(banks) == [bn \in DOMAIN banks |-> banks[bn] @@ [px |-> PxFor(banks[bn])]]
UserTok(a, bn) == st.accts[a].auth \o "." \o st.banks[bn].mint
TokOf(s, t) == IF Has(s.tok, t) THEN s.tok[t].amount ELSE BZero
SetTok(tok, t, amt) == [tok EXCEPT ![t] = [@ EXCEPT !.amount = amt]]
MintOf(bn) == st.mints[st.banks[bn].mint]
Disabled(a) == Bit(st.accts[a].flags, ACC_DISABLED)
InRecv(a) == Bit(st.accts[a].flags, ACC_RECEIVERSHIP)

Ev(a, r) == [ev |-> a.op, a |-> a, amt |-> IF Has(a, "amount") THEN BOfInt(a.amount) ELSE BZero,
             res |-> IF r = "ok" THEN "ok" ELSE "err", err |-> IF r = "ok" THEN "" ELSE r]

\* observables the replay compares bit-for-bit with the implementation
ObsBank(b) == [asv |-> b.asv, lsv |-> b.lsv, tas |-> b.tas, tls |-> b.tls, fee_ins |-> b.fee_ins, fee_grp |-> b.fee_grp,
               fee_prog |-> b.fee_prog, last_update |-> b.last_update, lend_cnt |-> b.lend_cnt, borrow_cnt |-> b.borrow_cnt,
               emis_rem |-> b.emis_rem]
ObsSlot(s) == IF s.act = 1 THEN [act |-> 1, bank |-> s.bank, tag |-> s.tag, a |-> s.a, l |-> s.l, emis |-> s.emis, lu |-> s.lu] ELSE [act |-> 0]
ObsAcct(a) == [bal |-> [i \in DOMAIN a.bal |-> ObsSlot(a.bal[i])]]
Obs(s, banks, accts, toks) ==
  [banks |-> [b \in banks |-> ObsBank(s.banks[b])], accts |-> [a \in accts |-> ObsAcct(s.accts[a])],
   tok |-> [t \in toks |-> [amount |-> s.tok[t].amount, withheld |-> s.tok[t].withheld]]]

\* one transition: update, property predicates on (pre, event, post), edge emission
Do(a, r, post, obs) ==
  LET e == Ev(a, r) IN
  /\ st' = post
  /\ depth' = depth + 1
  /\ acc' = C02AccNext(acc, st, e, post)
  /\ acc7' = C07AccNext(acc7, st, e, post)
  /\ (C01(st, e, post, 0) /\ C02(st, e, post, acc, 0) /\ C03(st, e, post, 0)
      /\ C06(st, e, post, 0) /\ C16(st, e, post, 0) /\ C17(st, e, post, 0)
      /\ C04(st, e, post, 0) /\ C05(st, e, post, 0) /\ C07(st, e, post, acc7, 0) /\ C09(st, e, post, 0)
      /\ C13(st, e, post, 0) /\ C14Bank(st, e, post, 0) /\ C19(st, e, post, 0)) = TRUE
  /\ sid' = TLCGet(1)
  /\ TLCSet(1, TLCGet(1) + 1)
  /\ PrintT("EDGE " \o ToString(sid) \o " " \o ToString(TLCGet(1) - 1) \o " " \o
            ToJson(a @@ [exp |-> r] @@ (IF r = "ok" THEN [obs |-> obs] ELSE <<>>)))
Fail(a, err) == Do(a, err, st, <<>>)

Tick(d) ==
  LET a == [op |-> "tick", dt |-> d]
      post == [st EXCEPT !.clock = [@ EXCEPT !.ts = BAdd(@, BOfInt(d))]]
  IN Do(a, "ok", post, Obs(post, {}, {}, {}))

\* lending_account_deposit as a function of the state: [r |-> "ok" or the error, post, obs]; with `upto` the amount is first cut
\* down to the remaining deposit capacity, measured after the accrual (deposit.rs)
DepositEval(an, bn, amt, upto) ==
  LET b0 == st.banks[bn] ac == st.accts[an] g == st.groups[b0.group]
      te == TagsErr(b0, ac.bal) se == BankStateErr(b0, "PausedOrReduce")
      F(err) == [r |-> err, post |-> st, obs |-> <<>>]
  IN IF te # "ok" THEN F(te)
     ELSE IF se # "ok" THEN F(se)
     ELSE IF Disabled(an) \/ InRecv(an) THEN F("AccountDisabled")
     ELSE LET b1 == ImplAccrue(b0, g, Now) IN
          IF IsErr(b1) THEN F(b1.err)
          ELSE LET cap == IF upto THEN RemainingDepositCapacity(b1) ELSE [v |-> BZero] IN
          IF IsErr(cap) THEN F(cap.err)
          ELSE LET dep == IF upto THEN BMin(BOfInt(amt), cap.v) ELSE BOfInt(amt) IN
          \* a zero deposit returns right after the accrual (no position, no transfer, no cache refresh)
          IF BIsZero(dep) THEN LET post0 == [st EXCEPT !.banks[bn] = b1] IN [r |-> "ok", post |-> post0, obs |-> Obs(post0, {bn}, {an}, {})]
          ELSE LET foc == FindOrCreate(ac.bal, bn, b1.key, b1.cfg.asset_tag, Now) IN
               IF IsErr(foc) THEN F(foc.err)
               ELSE LET r == ImplIncrease(b1, foc[1], foc[2], FOfBig(dep), "DepositOnly", Now) IN
                    IF IsErr(r) THEN F(r.err)
                    ELSE LET ut == UserTok(an, bn) have == TokOf(st, ut) pay == PreFee(MintOf(bn), dep) IN
                         IF BLt(have, pay) THEN F("A1")
                         ELSE LET b2 == ImplUpdateCache(r.b, Now)
                                  post == [st EXCEPT !.banks[bn] = b2, !.accts[an].bal = SortBal(r.bal),
                                                     !.tok = Xfer(@, MintOf(bn), ut, b2.vault_liq, pay)]
                              IN [r |-> "ok", post |-> post, obs |-> Obs(post, {bn}, {an}, {ut, b2.vault_liq})]
Deposit(an, bn, amt) ==
  LET a == [op |-> "deposit", acct |-> an, bank |-> bn, amount |-> amt]
      ev == DepositEval(an, bn, amt, FALSE)
  IN IF ev.r = "ok" THEN Do(a, "ok", ev.post, ev.obs) ELSE Fail(a, ev.r)

Repay(an, bn, amt, all) ==
  LET a == [op |-> "repay", acct |-> an, bank |-> bn, amount |-> amt, all |-> all]
      b0 == st.banks[bn] ac == st.accts[an] g == st.groups[b0.group]
      se == BankStateErr(b0, "Paused")
  IN IF Disabled(an) THEN Fail(a, "AccountDisabled")
     ELSE IF se # "ok" THEN Fail(a, se)
     ELSE LET b1 == ImplAccrue(b0, g, Now) IN
          IF IsErr(b1) THEN Fail(a, b1.err)
          ELSE LET i == FindSlot(ac.bal, bn) IN
               IF i = 0 THEN Fail(a, "BankAccountNotFound")
               ELSE LET r == IF all THEN ImplRepayAll(b1, ac.bal, i, Now) ELSE ImplIncrease(b1, ac.bal, i, FOfInt(amt), "RepayOnly", Now) IN
                    IF IsErr(r) THEN Fail(a, r.err)
                    ELSE LET pay == PreFee(MintOf(bn), IF all THEN r.pay ELSE BOfInt(amt))
                             ut == UserTok(an, bn) have == TokOf(st, ut)
                         IN IF BLt(have, pay) THEN Fail(a, "A1")
                            ELSE LET b2 == ImplUpdateCache(r.b, Now)
                                     post == [st EXCEPT !.banks[bn] = b2, !.accts[an].bal = SortBal(r.bal),
                                                        !.tok = Xfer(@, MintOf(bn), ut, b2.vault_liq, pay)]
                                 IN Do(a, "ok", post, Obs(post, {bn}, {an}, {ut, b2.vault_liq}))

\* lending_account_withdraw as a function of the state: [r |-> "ok" or the error, post, obs]
WithdrawEval(an, bn, amt, all) ==
  LET b0 == st.banks[bn] ac == st.accts[an] g == st.groups[b0.group]
      se == BankStateErr(b0, "Paused")
      F(err) == [r |-> err, post |-> st, obs |-> <<>>]
  IN IF Disabled(an) THEN F("AccountDisabled")
     ELSE IF se # "ok" THEN F(se)
     ELSE LET b1 == ImplAccrue(b0, g, Now) IN
          IF IsErr(b1) THEN F(b1.err)
          ELSE LET i == FindSlot(ac.bal, bn) IN
               IF i = 0 THEN F("BankAccountNotFound")
               ELSE LET pre == PreFee(MintOf(bn), BOfInt(amt))
                        r == IF all THEN ImplWithdrawAll(b1, ac.bal, i, Now) ELSE ImplDecrease(b1, ac.bal, i, FOfBig(pre), "WithdrawOnly", Now) IN
                    IF IsErr(r) THEN F(r.err)
                    ELSE LET pay == IF all THEN r.pay ELSE pre
                             vault == TokOf(st, b1.vault_liq)
                         IN IF BLt(vault, pay) THEN F("A1")
                            ELSE LET b2 == ImplUpdateCache(r.b, Now)
                                     bal2 == SortBal(r.bal)
                                     banks2 == [st.banks EXCEPT ![bn] = b2]
                                     h == ImplInitHealth(Px(banks2), bal2)
                                     ut == UserTok(an, bn)
                                 IN IF h # "ok" THEN F(h)
                                    ELSE LET post == [st EXCEPT !.banks = banks2, !.accts[an].bal = bal2,
                                                        !.tok = Xfer(@, MintOf(bn), b2.vault_liq, ut, pay)]
                                         IN [r |-> "ok", post |-> post, obs |-> Obs(post, {bn}, {an}, {ut, b2.vault_liq})]
Withdraw(an, bn, amt, all) ==
  LET a == [op |-> "withdraw", acct |-> an, bank |-> bn, amount |-> amt, all |-> all]
      ev == WithdrawEval(an, bn, amt, all)
  IN IF ev.r = "ok" THEN Do(a, "ok", ev.post, ev.obs) ELSE Fail(a, ev.r)

\* lending_account_borrow as a function of the state: [r |-> "ok" or the error, post, obs]
BorrowEval(an, bn, amt) ==
  LET b0 == st.banks[bn] ac == st.accts[an] g == st.groups[b0.group]
      F(err) == [r |-> err, post |-> st, obs |-> <<>>]
  IN IF Disabled(an) \/ InRecv(an) THEN F("AccountDisabled")
     ELSE LET b1 == ImplAccrue(b0, g, Now) IN
          IF IsErr(b1) THEN F(b1.err)
          ELSE LET te == TagsErr(b1, ac.bal) se == BankStateErr(b1, "PausedOrReduce") IN
               IF te # "ok" THEN F(te)
               ELSE IF se # "ok" THEN F(se)
               ELSE LET foc == FindOrCreate(ac.bal, bn, b1.key, b1.cfg.asset_tag, Now) IN
                    IF IsErr(foc) THEN F(foc.err)
                    ELSE LET preB == PreFee(MintOf(bn), BOfInt(amt))
                             x == FOfBig(preB)
                             rate == b1.cfg.ir.orig_fee
                             fee == IF BIsZero(rate) THEN BZero ELSE FMul(x, rate)
                             r == ImplDecrease(b1, foc[1], foc[2], BAdd(x, fee), "BorrowOnly", Now)
                         IN IF IsErr(r) THEN F(r.err)
                            ELSE LET vault == TokOf(st, b1.vault_liq) IN
                                 IF BLt(vault, preB) THEN F("A1")
                                 ELSE LET prate == g.fee_cache.rate
                                          pfee == IF BIsZero(prate) THEN BZero ELSE FMul(fee, prate)
                                          b2 == IF BIsZero(fee) THEN r.b
                                                ELSE [r.b EXCEPT !.fee_grp = BAdd(@, BSub(fee, pfee)), !.fee_prog = BAdd(@, pfee)]
                                          bal2 == SortBal(r.bal)
                                          h == ImplInitHealth(Px([st.banks EXCEPT ![bn] = b2]), bal2)
                                          ut == UserTok(an, bn)
                                      IN IF h # "ok" THEN F(h)
                                         ELSE LET b3 == ImplUpdateCache(b2, Now)
                                                  post == [st EXCEPT !.banks[bn] = b3, !.accts[an].bal = bal2,
                                                             !.tok = Xfer(@, MintOf(bn), b3.vault_liq, ut, preB)]
                                              IN [r |-> "ok", post |-> post, obs |-> Obs(post, {bn}, {an}, {ut, b3.vault_liq})]
Borrow(an, bn, amt) ==
  LET a == [op |-> "borrow", acct |-> an, bank |-> bn, amount |-> amt]
      ev == BorrowEval(an, bn, amt)
  IN IF ev.r = "ok" THEN Do(a, "ok", ev.post, ev.obs) ELSE Fail(a, ev.r)

Accrue(bn) ==
  LET a == [op |-> "accrue", bank |-> bn]
      b0 == st.banks[bn] g == st.groups[b0.group]
      b1 == ImplAccrue(b0, g, Now)
  IN IF IsErr(b1) THEN Fail(a, b1.err)
     ELSE LET post == [st EXCEPT !.banks[bn] = ImplUpdateCache(b1, Now)] IN Do(a, "ok", post, Obs(post, {bn}, {}, {}))

CloseBalance(an, bn) ==
  LET a == [op |-> "close_balance", acct |-> an, bank |-> bn]
      b0 == st.banks[bn] ac == st.accts[an] g == st.groups[b0.group]
  IN IF Disabled(an) THEN Fail(a, "AccountDisabled")
     ELSE LET b1 == ImplAccrue(b0, g, Now) IN
          IF IsErr(b1) THEN Fail(a, b1.err)
          ELSE LET b2 == ImplUpdateCache(b1, Now) i == FindSlot(ac.bal, bn) IN
               IF i = 0 THEN Fail(a, "BankAccountNotFound")
               ELSE LET r == ImplCloseBalance(b2, ac.bal, i, Now) IN
                    IF IsErr(r) THEN Fail(a, r.err)
                    ELSE LET post == [st EXCEPT !.banks[bn] = r.b, !.accts[an].bal = SortBal(r.bal)] IN
                         Do(a, "ok", post, Obs(post, {bn}, {an}, {}))

\* lending_account_settle_emissions (permissionless): claim on the stored share values, no interest accrual
SettleEmissions(an, bn) ==
  LET a == [op |-> "settle_emissions", acct |-> an, bank |-> bn]
      b0 == st.banks[bn] ac == st.accts[an]
      i == FindSlot(ac.bal, bn)
  IN IF i = 0 THEN Fail(a, "BankAccountNotFound")
     ELSE LET cl == ImplClaim(b0, ac.bal[i], Now) IN
          IF IsErr(cl) THEN Fail(a, cl.err)
          ELSE LET post == [st EXCEPT !.banks[bn] = cl.b, !.accts[an].bal[i] = cl.s] IN Do(a, "ok", post, Obs(post, {bn}, {an}, {}))

\* collect_bank_fees: floor(min(bucket, available)) in the order insurance, group, program
CollectFees(bn) ==
  LET a == [op |-> "collect_fees", bank |-> bn]
      b == st.banks[bn] g == st.groups[b.group]
      avail0 == FOfBig(TokOf(st, b.vault_liq))
      ti == FFloor(BMin(b.fee_ins, avail0))
      avail1 == BSub(avail0, ti)
      tg == FFloor(BMin(b.fee_grp, avail1))
      avail2 == BSub(avail1, tg)
      tp == FFloor(BMin(b.fee_prog, avail2))
      \* the token account of the wallet the global fee state names now (not of the copy the group cached earlier)
      ata == "ata." \o st.fee.wallet \o "." \o b.mint
      out == BAdd(BAdd(FToInt(ti), FToInt(tg)), FToInt(tp))
      b2 == [b EXCEPT !.fee_ins = BSub(@, ti), !.fee_grp = BSub(@, tg), !.fee_prog = BSub(@, tp)]
      tok0 == IF Has(st.tok, ata) THEN st.tok ELSE st.tok @@ (ata :> [mint |-> b.mint, owner |-> st.fee.wallet, amount |-> BZero, withheld |-> BZero])
      tok4 == Xfer(Xfer(Xfer(tok0, MintOf(bn), b.vault_liq, b.vault_fee, FToInt(tg)), MintOf(bn), b.vault_liq, b.vault_ins, FToInt(ti)),
                   MintOf(bn), b.vault_liq, ata, FToInt(tp))
      post == [st EXCEPT !.banks[bn] = b2, !.tok = tok4]
  IN Do(a, "ok", post, Obs(post, {bn}, {}, {b.vault_liq, b.vault_ins, b.vault_fee, ata}))

\* ---- liquidation, bankruptcy, admin price (fixed-price oracles) --------------------------------
SetPrice(bn, n, d) ==
  LET a == [op |-> "set_fixed_price", bank |-> bn, price |-> ToString(n) \o "/" \o ToString(d)]
      post == [st EXCEPT !.banks[bn].cfg.fixed_price = FDiv(FOfInt(n), FOfInt(d))]
  IN Do(a, "ok", post, [banks |-> [b \in {bn} |-> [cfg |-> [fixed_price |-> post.banks[bn].cfg.fixed_price]]]])

\* lending_account_liquidate as a function of the state: [r |-> "ok" or the error, post, obs]
LiquidateEval(lor, lee, abn, lbn, q) ==
  LET FL(err) == [r |-> err, post |-> st, obs |-> <<>>]
      ab0 == st.banks[abn] lb0 == st.banks[lbn] g == st.groups[lb0.group]
      sa == BankStateErr(ab0, "Paused") sl == BankStateErr(lb0, "Paused")
  IN IF q = 0 THEN FL("ZeroLiquidationAmount")
     ELSE IF abn = lbn THEN FL("SameAssetAndLiabilityBanks")
     ELSE IF sa # "ok" THEN FL(sa)
     ELSE IF sl # "ok" THEN FL(sl)
     ELSE LET ab1 == ImplAccrue(ab0, g, Now) lb1 == ImplAccrue(lb0, g, Now) IN
     IF IsErr(ab1) THEN FL(ab1.err) ELSE IF IsErr(lb1) THEN FL(lb1.err)
     ELSE LET leeBal == SortBal(st.accts[lee].bal)
              banks1 == [st.banks EXCEPT ![abn] = ab1, ![lbn] = lb1]
              i == FindSlot(leeBal, lbn)
          IN IF i = 0 THEN FL("LendingAccountBalanceNotFound")
             ELSE IF BLt(leeBal[i].l, IONE) THEN FL("NoLiabilitiesInLiabilityBank")
             ELSE IF ~BLt(leeBal[i].a, IONE) THEN FL("AssetsInLiabilityBank")
             ELSE LET h0 == HealthComponents(Px(banks1), leeBal, "Maint") IN
             IF IsErr(h0) THEN FL(h0.err)
             ELSE LET pre == BSub(h0[1], h0[2]) IN
             IF BIsPos(pre) THEN FL("HealthyAccount")
             \* seized collateral at its low-biased, the debt at its high-biased real-time price
             ELSE LET pxa == Px(banks1)[abn].px pxl == Px(banks1)[lbn].px IN
             IF pxa.load # "ok" THEN FL(pxa.load) ELSE IF IsErr(pxa.cRT) THEN FL(pxa.cRT.err)
             ELSE IF pxl.load # "ok" THEN FL(pxl.load) ELSE IF IsErr(pxl.cRT) THEN FL(pxl.cRT.err)
             ELSE LET pa == BSub(pxa.pRT, pxa.cRT.v) pl == BAdd(pxl.pRT, pxl.cRT.v) IN
             IF ~BIsPos(pa) THEN FL("ZeroAssetPrice")
             ELSE IF ~BIsPos(pl) THEN FL("ZeroLiabilityPrice")
             ELSE LET qF == FOfInt(q)
                      dL == BSub(FOne, IC_LIQUIDATION_LIQUIDATOR_FEE)
                      dF == BSub(FOne, BAdd(IC_LIQUIDATION_INSURANCE_FEE, IC_LIQUIDATION_LIQUIDATOR_FEE))
                      qll == CalcAmount(CalcValue(qF, pa, ab1.dec, dL), pl, lb1.dec)
                      qlf == CalcAmount(CalcValue(qF, pa, ab1.dec, dF), pl, lb1.dec)
                      fee == BSub(qll, qlf)
                      \* liquidator takes on the liability
                      f1 == FindOrCreate(st.accts[lor].bal, lbn, lb1.key, lb1.cfg.asset_tag, Now)
                  IN IF IsErr(f1) THEN FL(f1.err)
                     ELSE LET r1 == ImplDecrease(lb1, f1[1], f1[2], qll, "Bypass", Now) IN
                     IF IsErr(r1) THEN FL(r1.err)
                     ELSE LET j == FindSlot(leeBal, abn) IN
                     IF j = 0 THEN FL("BankAccountNotFound")
                     ELSE IF BLt(AssetAmount(ab1, leeBal[j].a), qF) THEN FL("OverliquidationAttempt")
                     ELSE LET r2 == ImplDecrease(ab1, leeBal, j, qF, "Bypass", Now) IN
                     IF IsErr(r2) THEN FL(r2.err)
                     ELSE LET f3 == FindOrCreate(r1.bal, abn, ab1.key, ab1.cfg.asset_tag, Now) IN
                     IF IsErr(f3) THEN FL(f3.err)
                     ELSE LET r3 == ImplIncrease(r2.b, f3[1], f3[2], qF, "Bypass", Now) IN
                     IF IsErr(r3) THEN FL(r3.err)
                     ELSE LET k == FindSlot(r2.bal, lbn)
                              r4 == ImplIncrease(r1.b, r2.bal, k, qlf, "RepayOnly", Now)
                          IN IF IsErr(r4) THEN FL(r4.err)
                             ELSE LET feeT == FToInt(FFloor(fee))
                                      vault == TokOf(st, lb1.vault_liq)
                                  IN IF BLt(vault, feeT) THEN FL("A1")
                                     ELSE LET lbF == ImplUpdateCache([r4.b EXCEPT !.fee_ins = BAdd(@, FFrac(fee))], Now)
                                              abF == ImplUpdateCache(r3.b, Now)
                                              banks2 == [st.banks EXCEPT ![abn] = abF, ![lbn] = lbF]
                                              leeBal2 == r4.bal
                                              k2 == FindSlot(leeBal2, lbn)
                                              h1 == HealthComponents(Px(banks2), leeBal2, "Maint")
                                              post == IF IsErr(h1) THEN BZero ELSE BSub(h1[1], h1[2])
                                              lorBal == SortBal(r3.bal)
                                          IN IF BLt(leeBal2[k2].l, IONE) THEN FL("ExhaustedLiability")
                                             ELSE IF ~BLt(leeBal2[k2].a, IONE) THEN FL("TooSeverePayoff")
                                             ELSE IF BIsPos(post) THEN FL("TooSevereLiquidation")
                                             ELSE IF BLe(post, pre) THEN FL("WorseHealthPostLiquidation")
                                             ELSE LET hl == ImplInitHealth(Px(banks2), lorBal) IN
                                             IF hl # "ok" THEN FL(hl)
                                             ELSE LET st2 == [st EXCEPT !.banks = banks2, !.accts[lee].bal = leeBal2, !.accts[lor].bal = lorBal,
                                                                !.tok = Xfer(@, MintOf(lbn), lbF.vault_liq, lbF.vault_ins, feeT)]
                                                  IN [r |-> "ok", post |-> st2, obs |-> Obs(st2, {abn, lbn}, {lor, lee}, {lbF.vault_liq, lbF.vault_ins})]
Liquidate(lor, lee, abn, lbn, q) ==
  LET a == [op |-> "liquidate", liquidator |-> lor, liquidatee |-> lee, asset_bank |-> abn, liab_bank |-> lbn, amount |-> q]
      ev == LiquidateEval(lor, lee, abn, lbn, q)
  IN IF ev.r = "ok" THEN Do(a, "ok", ev.post, ev.obs) ELSE Fail(a, ev.r)

Bankruptcy(an, bn, signer) ==
  LET a == [op |-> "bankruptcy", acct |-> an, bank |-> bn, signer |-> signer]
      b0 == st.banks[bn] ac == st.accts[an] g == st.groups[b0.group]
      se == BankStateErr(b0, "Paused")
  IN IF se # "ok" THEN Fail(a, se)
     ELSE IF ~Bit(b0.flags, BANK_PERMISSIONLESS_BAD_DEBT) /\ signer \notin {g.admin, g.risk_admin} THEN Fail(a, "Unauthorized")
     ELSE LET hq == HealthComponents(Px(st.banks), ac.bal, "Equity") IN
     IF IsErr(hq) THEN Fail(a, hq.err)
     ELSE IF ~BLt(hq[1], hq[2]) THEN Fail(a, "AccountNotBankrupt")
     ELSE IF ~(BLt(hq[1], IC_BANKRUPT_THRESHOLD) /\ BGt(hq[2], IEPS)) THEN Fail(a, "AccountNotBankrupt")
     ELSE LET b1 == ImplAccrue(b0, g, Now) IN
     IF IsErr(b1) THEN Fail(a, b1.err)
     ELSE LET i == FindSlot(ac.bal, bn) IN
     IF i = 0 THEN Fail(a, "LendingAccountBalanceNotFound")
     ELSE LET bad == LiabAmount(b1, ac.bal[i].l) IN
     IF ~BGt(bad, IEPS) THEN Fail(a, "BalanceNotBadDebt")
     ELSE LET insAmt == TokOf(st, b1.vault_ins)
              cov == BMin(bad, FOfBig(PostFee(MintOf(bn), insAmt)))
              soc == BMax(BSub(bad, cov), BZero)
              covUp == PreFee(MintOf(bn), FToInt(FCeil(cov)))
              T == FMul(b1.tas, b1.asv)
              wipe == BLe(T, soc)
              asv2 == IF wipe THEN BZero ELSE FDiv(BSub(T, soc), b1.tas)
              kill == wipe \/ BIsZero(asv2)
              b2 == [b1 EXCEPT !.asv = asv2]
              r == ImplIncrease(b2, ac.bal, i, bad, "RepayOnly", Now)
          IN IF IsErr(r) THEN Fail(a, r.err)
             ELSE LET b3 == ImplUpdateCache(r.b, Now)
                      b4 == IF kill THEN [b3 EXCEPT !.cfg.op_state = OP_KILLED] ELSE b3
                      flags2 == IF Bit(ac.flags, ACC_DISABLED) THEN ac.flags ELSE <<ACC_DISABLED>> \o ac.flags
                      post == [st EXCEPT !.banks[bn] = b4, !.accts[an].bal = r.bal, !.accts[an].flags = flags2,
                                 !.tok = Xfer(@, MintOf(bn), b4.vault_ins, b4.vault_liq, covUp)]
                  IN Do(a, "ok", post, Obs(post, {bn}, {an}, {b4.vault_liq, b4.vault_ins}))

\* banks with an emissions campaign in the seed state (settle_emissions is explored on those only)
EmisBanks == {bn \in BankNames : Bit(InitState.banks[bn].flags, BANK_EMIS_LEND) \/ Bit(InitState.banks[bn].flags, BANK_EMIS_BORROW)}
Init == /\ st = InitState /\ acc = C02AccNext(C02Acc0, InitState, [ev |-> "reset"], InitState)
        /\ acc7 = C07Acc0 /\ sid = 0 /\ depth = 0 /\ TLCSet(1, 1)

\* accounts that still exist (Life.tla closes accounts; everywhere else this is Accts)
Live == Accts \cap DOMAIN st.accts
Next ==
  /\ depth < MaxDepth
  /\ \/ \E d \in Ticks : Tick(d)
     \/ \E an \in Live, bn \in BankNames, amt \in Amounts :
          \/ Deposit(an, bn, amt) \/ Borrow(an, bn, amt)
          \/ Withdraw(an, bn, amt, FALSE) \/ Repay(an, bn, amt, FALSE)
     \/ \E an \in Live, bn \in BankNames : Withdraw(an, bn, 0, TRUE) \/ Repay(an, bn, 0, TRUE) \/ CloseBalance(an, bn)
     \/ \E an \in Live, bn \in EmisBanks : SettleEmissions(an, bn)
     \/ \E bn \in BankNames : Accrue(bn) \/ CollectFees(bn)
     \/ \E t \in LiqTriples, q \in Amounts : (Has(st.accts, t[1]) /\ Has(st.accts, t[2])) /\ Liquidate(t[1], t[2], t[3], t[4], q)
     \/ \E p \in Prices : SetPrice(p[1], p[2], p[3])
     \/ \E c \in BkCases : Has(st.accts, c[1]) /\ Bankruptcy(c[1], c[2], c[3])

Spec == Init /\ [][Next]_vars

\* fingerprint only the modelled part of the state (not the edge ids)
View == <<st.clock.ts, [b \in BankNames |-> ObsBank(st.banks[b])], [a \in DOMAIN st.accts |-> ObsAcct(st.accts[a])],
          [t \in DOMAIN st.tok |-> <<st.tok[t].amount, st.tok[t].withheld>>], [b \in BankNames |-> <<st.banks[b].cfg.fixed_price, st.banks[b].cfg.op_state>>],
          [a \in DOMAIN st.accts |-> st.accts[a].flags], depth>>
=============================================================================
