------------------------------- MODULE MC_Caps -------------------------------
(* Model-checking instance of Caps.tla from setups/capsmodel.json: B1 (6 decimals, all fee kinds, origination fee) lent by A3
   (50) and A2 (20), borrowed by A1 (15, against 30 B2 at $2) for half a year, so both share values are off 1 and the totals are
   fractional; limits start far away and are moved onto / under the current totals. *)
EXTENDS Caps
NoTuplesC == {}
CapAcctsQ == {<<"A2", "B1">>}
BorAcctsQ == {<<"A1", "B1">>}
WdAcctsQ == {<<"A3", "B1">>}
=============================================================================
