----------------------------- MODULE MC_TxShape -----------------------------
EXTENDS TxShape
RecvAlphabet == {"CB", "JUP", "UNK", "START3", "START2", "END3", "END2", "W3", "R3", "DEP1", "INITREC", "CSTART3", "CEND3"}
FlashAlphabet == {"CB", "SFL2_0", "SFL2_1", "SFL2_2", "SFL2_3", "SFL2_4", "EFL2", "EFL1", "EFL1X2", "BIGB2", "REPALL2", "DEP1", "CSFL2", "CEFL2", "START2"}
Flash3Alphabet == {"SFL3_1", "SFL3_2", "SFL3_3", "SFL3_4", "EFL3", "LIQ3", "DEPBIG3", "START3", "END3"}
Recv2Alphabet == {"CB", "START3", "START4", "END3", "END4", "W3", "R3", "W4", "R4"}
Recv3Alphabet == {"CB", "KREF", "DREF", "KOTH", "JREF", "START3", "END3", "W3", "R3", "INITREC"}
FlashWAlphabet == {"CB", "SFLW_65536", "SFLW_65537", "SFLW_65538", "SFLW_4294967297", "SFLW_MAX", "SFL2_1", "EFL2", "BIGB2", "DEP1"}
RecvPAlphabet == {"START3", "START4", "PSTART3", "PSTART4", "END3", "END4", "PEND3", "W3", "R3", "W4"}
NeedStartP == {"PSTART3", "PSTART4", "PEND3"}
Flash6Alphabet == {"CB", "SFL6_1", "SFL6_2", "SFL6_3", "EFL6", "SFL2_1", "EFL2", "DEP1"}
NeedSfl6 == {"SFL6_1", "SFL6_2", "SFL6_3"}
NeedSflW == {"SFLW_65536", "SFLW_65537", "SFLW_65538", "SFLW_4294967297", "SFLW_MAX"}
NeedStart == {"START3"}
NeedStart34 == {"START3", "START4"}
NeedSfl == {"SFL2_0", "SFL2_1", "SFL2_2", "SFL2_3", "SFL2_4"}
NeedSfl3 == {"SFL3_1", "SFL3_2", "SFL3_3", "SFL3_4"}
Nothing == {}
=============================================================================
