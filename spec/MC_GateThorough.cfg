SPECIFICATION Spec
CONSTANTS
  TickSet = {1800, 82800}
VIEW View
CHECK_DEADLOCK FALSE
