------------------------------- MODULE Impl -------------------------------
(***************************************************************************)
(* Implementation-shaped, deterministic definitions (bit-exact I80F48      *)
(* operation sequences) mirroring state/bank.rs, state/interest_rate.rs,   *)
(* state/marginfi_account.rs.  They make the model executable, predict     *)
(* results (incl. the error) and generate behaviours to replay.  The       *)
(* properties never mention them.  A result is either a value or           *)
(* [err |-> "Name"].                                                       *)
(***************************************************************************)
EXTENDS Base, ImplConsts, Sequences, FiniteSets

IsErr(x) == DOMAIN x = {"err"}
E(name) == [err |-> name]

IEPS == IC_ZERO_AMOUNT_THRESHOLD
IONE == IC_EMPTY_BALANCE_THRESHOLD
IsPosTol(x) == BGt(x, IEPS)
IsZeroTol(x) == BLt(BAbs(x), IEPS)
Exp10(d) == IC_EXP_10[d + 1]
MathOk(x) == InI128(x)

\* ---- bank primitives -----------------------------------------------------------------------
AssetAmount(b, s) == FMul(s, b.asv)
LiabAmount(b, s) == FMul(s, b.lsv)
AssetShares(b, v) == IF BIsZero(b.asv) THEN BZero ELSE FDiv(v, b.asv)
LiabShares(b, v) == FDiv(v, b.lsv)
DepositLimitActive(b) == b.cfg.deposit_limit # U64MAX
BorrowLimitActive(b) == b.cfg.borrow_limit # U64MAX

\* Bank::change_asset_shares
ChangeAssetShares(b, d, bypass) ==
  LET b2 == [b EXCEPT !.tas = BAdd(b.tas, d)] IN
  IF BIsPos(d) /\ DepositLimitActive(b) /\ ~bypass /\ BGe(AssetAmount(b2, b2.tas), FOfBig(b.cfg.deposit_limit))
  THEN E("BankAssetCapacityExceeded") ELSE b2
ChangeLiabShares(b, d, bypass) ==
  LET b2 == [b EXCEPT !.tls = BAdd(b.tls, d)] IN
  IF ~bypass /\ BIsPos(d) /\ BorrowLimitActive(b) /\ BGe(LiabAmount(b2, b2.tls), FOfBig(b.cfg.borrow_limit))
  THEN E("BankLiabilityCapacityExceeded") ELSE b2
UtilizationOk(b) == ~BLt(AssetAmount(b, b.tas), LiabAmount(b, b.tls))
RemainingDepositCapacity(b) ==
  IF ~DepositLimitActive(b) THEN [v |-> U64MAX]
  ELSE LET cur == AssetAmount(b, b.tas) lim == FOfBig(b.cfg.deposit_limit) IN
       \* less than one token of room counts as none (before the fix of F8 the subtraction below went negative: MathError)
       IF BGe(BAdd(cur, FOne), lim) THEN [v |-> BZero] ELSE LET r == FFloor(BSub(BSub(lim, cur), FOne)) IN IF BIsNeg(r) THEN E("MathError") ELSE [v |-> FToInt(r)]

\* ---- interest ------------------------------------------------------------------------------
RateFromU32(r) == FMul(FDiv(FOfBig(r), IC_U32_MAX), FOfInt(10))
UtilFromU32(u) == FDiv(FOfBig(u), IC_U32_MAX)
ImplLerp(x0, y0, x1, y1, x) ==
  IF BLe(x1, x0) THEN y0
  ELSE IF BLt(x, x0) \/ BGt(x, x1) \/ BLt(y1, y0) THEN None
  ELSE BAdd(y0, FMul(BSub(y1, y0), FDiv(BSub(x, x0), BSub(x1, x0))))
RECURSIVE ImplCurveWalk(_, _, _, _, _, _)
ImplCurveWalk(pts, i, px, py, hundred, ur) ==
  IF i > Len(pts) THEN ImplLerp(px, py, FOne, hundred, ur)
  ELSE IF BIsZero(pts[i][1]) THEN ImplCurveWalk(pts, i + 1, px, py, hundred, ur)
  ELSE LET x == UtilFromU32(pts[i][1]) y == RateFromU32(pts[i][2]) IN
       IF BLe(ur, x) THEN ImplLerp(px, py, x, y, ur) ELSE ImplCurveWalk(pts, i + 1, x, y, hundred, ur)
ImplBaseRate(ir, ur0) ==
  LET ur == BMin(BMax(ur0, BZero), FOne) IN
  IF ir.curve_type = 1 THEN ImplCurveWalk(ir.points, 1, BZero, RateFromU32(ir.zero), RateFromU32(ir.hundred), ur)
  ELSE IF BLe(ur0, ir.opt_util) THEN FMul(FDiv(ur0, ir.opt_util), ir.plateau)
  ELSE BAdd(FMul(FDiv(BSub(ur0, ir.opt_util), BSub(FOne, ir.opt_util)), BSub(ir.max_rate, ir.plateau)), ir.plateau)

FeeRate(base, rate, fixed) == IF BIsZero(rate) THEN fixed ELSE BAdd(FMul(base, rate), fixed)
\* InterestRateCalc::calc_interest_rate -> record or None
ImplRates(ir, g, ur) ==
  LET progOn == Bit(g.flags, 0)
      pr == IF progOn THEN g.fee_cache.rate ELSE BZero
      pf == IF progOn THEN g.fee_cache.fixed ELSE BZero
      feeIr == BAdd(BAdd(ir.ins_ir, ir.grp_ir), pr)
      feeFx == BAdd(BAdd(ir.ins_fixed, ir.grp_fixed), pf)
      base == ImplBaseRate(ir, ur)
  IN IF base = None THEN None
     ELSE [base |-> base, lend |-> FMul(base, ur),
           borrow |-> BAdd(FMul(base, BAdd(FOne, feeIr)), feeFx),
           grp |-> FeeRate(base, ir.grp_ir, ir.grp_fixed),
           ins |-> FeeRate(base, ir.ins_ir, ir.ins_fixed),
           prog |-> FeeRate(base, pr, pf)]
AccruedValue(apr, dt, v) == FMul(v, BAdd(FOne, FDiv(FMul(apr, FOfBig(dt)), IC_SECONDS_PER_YEAR)))
InterestPayment(apr, dt, v) == IF BIsZero(apr) THEN BZero ELSE FDiv(FMul(FMul(v, apr), FOfBig(dt)), IC_SECONDS_PER_YEAR)

\* Bank::accrue_interest(now) -> bank' or error
ImplAccrue(b, g, now) ==
  LET dt == BSub(now, b.last_update) IN
  IF BIsZero(dt) THEN b
  ELSE LET A == AssetAmount(b, b.tas) L == LiabAmount(b, b.tls)
           b1 == [b EXCEPT !.last_update = now]
       IN IF BIsZero(A) \/ BIsZero(L) THEN b1
          ELSE LET ur == FDiv(L, A)
                   r == ImplRates(b.cfg.ir, g, ur)
               IN IF r = None THEN E("MathError")
                  ELSE LET fg == InterestPayment(r.grp, dt, L)
                           fi == InterestPayment(r.ins, dt, L)
                           fp == InterestPayment(r.prog, dt, L)
                       IN [b1 EXCEPT !.asv = AccruedValue(r.lend, dt, b.asv),
                                     !.lsv = AccruedValue(r.borrow, dt, b.lsv),
                                     !.fee_grp = IF BIsPos(fg) THEN BAdd(fg, b.fee_grp) ELSE b.fee_grp,
                                     !.fee_ins = IF BIsPos(fi) THEN BAdd(fi, b.fee_ins) ELSE b.fee_ins,
                                     !.fee_prog = IF BIsPos(fp) THEN BAdd(fp, b.fee_prog) ELSE b.fee_prog]
\* Bank::update_bank_cache: only last_update is modelled (rates cache is not part of the abstract state)
ImplUpdateCache(b, now) ==
  IF BIsZero(AssetAmount(b, b.tas)) \/ BIsZero(LiabAmount(b, b.tls)) THEN b ELSE [b EXCEPT !.last_update = now]

\* ---- balances ------------------------------------------------------------------------------
EmptySlot == [act |-> 0, clean |-> TRUE]
IsActive(s) == s.act = 1
FindSlot(bal, bn) == LET S == {i \in DOMAIN bal : IsActive(bal[i]) /\ bal[i].bank = bn} IN IF S = {} THEN 0 ELSE CHOOSE i \in S : \A j \in S : i <= j
FirstEmpty(bal) == LET S == {i \in DOMAIN bal : ~IsActive(bal[i])} IN IF S = {} THEN 0 ELSE CHOOSE i \in S : \A j \in S : i <= j
NewSlot(bn, key, tag, now) == [act |-> 1, bank |-> bn, key |-> key, tag |-> tag, a |-> BZero, l |-> BZero, emis |-> BZero, lu |-> now]
\* find_or_create -> <<bal', index>> or error
\* (a new position in a venue-backed bank - asset tags 3, 4, 5 - is refused once eight such positions are open)
IsIntegrationTag(t) == t \in {3, 4, 5}
FindOrCreate(bal, bn, key, tag, now) ==
  LET i == FindSlot(bal, bn) IN
  IF i # 0 THEN <<bal, i>>
  ELSE IF IsIntegrationTag(tag) /\ Cardinality({k \in DOMAIN bal : IsActive(bal[k]) /\ IsIntegrationTag(bal[k].tag)}) >= 8
       THEN E("IntegrationPositionLimitExceeded")
  ELSE LET j == FirstEmpty(bal) IN
       IF j = 0 THEN E("LendingAccountBalanceSlotsFull") ELSE <<[bal EXCEPT ![j] = NewSlot(bn, key, tag, now)], j>>
\* sort_balances: descending by key, inactive (default key) last; stable
SlotKey(s) == IF IsActive(s) THEN s.key ELSE BZero
RECURSIVE InsertSorted(_, _)
InsertSorted(sorted, s) ==
  IF sorted = <<>> THEN <<s>>
  ELSE IF BGt(SlotKey(s), SlotKey(sorted[1])) THEN <<s>> \o sorted
  ELSE <<sorted[1]>> \o InsertSorted(Tail(sorted), s)
RECURSIVE SortBal(_)
SortBal(bal) == IF bal = <<>> THEN <<>> ELSE InsertSorted(SortBal(SubSeq(bal, 1, Len(bal) - 1)), bal[Len(bal)])
\* note: insertion keeps equal keys (inactive slots) in original relative order = stable sort

CountAdj(cnt, had, has) == IF ~had /\ has THEN cnt + 1 ELSE IF had /\ ~has THEN (IF cnt > 0 THEN cnt - 1 ELSE 0) ELSE cnt
\* (position counters saturate at i32 bounds; never reached in the model)

\* BankAccountWrapper::claim_emissions (first statement of every balance operation): credit what the position earned
\* since its last interaction, out of the bank's funded remainder, and restart the position's clock.
\* Balance::get_side: liabilities >= 1 share -> Liabilities, else assets >= 1 share -> Assets, else none.
SECS_PER_YEAR_F == FOfBig(BOfInt(31536000))
MIN_EMISSIONS_START == BOfStr("1681989983")
ClaimSide(s) == IF ~BLt(s.l, FOne) THEN "L" ELSE IF ~BLt(s.a, FOne) THEN "A" ELSE "N"
ImplClaim(b, s, now) ==
  LET side == ClaimSide(s)
      earning == (side = "A" /\ Bit(b.flags, BANK_EMIS_LEND)) \/ (side = "L" /\ Bit(b.flags, BANK_EMIS_BORROW))
  IN IF ~earning THEN [b |-> b, s |-> [s EXCEPT !.lu = now]]
     ELSE LET amt == IF side = "A" THEN AssetAmount(b, s.a) ELSE LiabAmount(b, s.l)
              last == IF BLt(s.lu, MIN_EMISSIONS_START) THEN now ELSE s.lu
          IN IF BLt(now, last) THEN E("MathError")
             ELSE LET period == FOfBig(BSub(now, last))
                      ui == FDiv(amt, Exp10(b.dec))
                      em == FMul(FDiv(FMul(period, ui), SECS_PER_YEAR_F), FOfBig(b.emis_rate))
                      real == BMin(em, b.emis_rem)
                  IN [b |-> [b EXCEPT !.emis_rem = BSub(@, real)], s |-> [s EXCEPT !.emis = BAdd(@, real), !.lu = now]]

\* increase_balance_internal(delta, kind) on slot i; kind in {"DepositOnly","RepayOnly","Bypass"}
\* returns [b |-> bank', bal |-> bal'] or error
ImplIncrease(b0, bal, i, delta, kind, now) ==
  LET cl == ImplClaim(b0, bal[i], now) IN
  IF IsErr(cl) THEN cl ELSE
  LET b == cl.b s == cl.s
      hadA == IsPosTol(s.a) hadL == IsPosTol(s.l)
      curL == LiabAmount(b, s.l)
      dec == BMin(curL, delta)
      inc == BMax(BSub(delta, curL), BZero)
  IN IF kind = "RepayOnly" /\ ~IsZeroTol(inc) THEN E("OperationRepayOnly")
     ELSE IF kind = "DepositOnly" /\ ~IsZeroTol(dec) THEN E("OperationDepositOnly")
     ELSE LET da == AssetShares(b, inc)
              b1 == ChangeAssetShares(b, da, kind = "Bypass")
          IN IF IsErr(b1) THEN b1
             ELSE LET dl == LiabShares(b1, dec)
                      b2 == ChangeLiabShares(b1, BNeg(dl), TRUE)
                      s2 == [s EXCEPT !.a = BAdd(s.a, da), !.l = BSub(s.l, dl), !.lu = now]
                      b3 == [b2 EXCEPT !.lend_cnt = CountAdj(b2.lend_cnt, hadA, IsPosTol(s2.a)),
                                       !.borrow_cnt = CountAdj(b2.borrow_cnt, hadL, IsPosTol(s2.l))]
                  IN [b |-> b3, bal |-> [bal EXCEPT ![i] = s2]]
\* decrease_balance_internal(delta, kind); kind in {"WithdrawOnly","BorrowOnly","Bypass"}
ImplDecrease(b0, bal, i, delta, kind, now) ==
  LET cl == ImplClaim(b0, bal[i], now) IN
  IF IsErr(cl) THEN cl ELSE
  LET b == cl.b s == cl.s
      hadA == IsPosTol(s.a) hadL == IsPosTol(s.l)
      curA == AssetAmount(b, s.a)
      dec == BMin(curA, delta)
      inc == BMax(BSub(delta, curA), BZero)
  IN IF kind = "WithdrawOnly" /\ ~IsZeroTol(inc) THEN E("OperationWithdrawOnly")
     ELSE IF kind = "BorrowOnly" /\ ~IsZeroTol(dec) THEN E("OperationBorrowOnly")
     ELSE LET da == AssetShares(b, dec)
              b1 == ChangeAssetShares(b, BNeg(da), FALSE)
              dl == LiabShares(b1, inc)
              b2 == ChangeLiabShares(b1, dl, kind = "Bypass")
          IN IF IsErr(b2) THEN b2
             ELSE IF kind # "Bypass" /\ ~UtilizationOk(b2) THEN E("IllegalUtilizationRatio")
             ELSE LET s2 == [s EXCEPT !.a = BSub(s.a, da), !.l = BAdd(s.l, dl), !.lu = now]
                      b3 == [b2 EXCEPT !.lend_cnt = CountAdj(b2.lend_cnt, hadA, IsPosTol(s2.a)),
                                       !.borrow_cnt = CountAdj(b2.borrow_cnt, hadL, IsPosTol(s2.l))]
                  IN [b |-> b3, bal |-> [bal EXCEPT ![i] = s2]]
\* withdraw_all -> [b, bal, pay] or error
ImplWithdrawAll(b0, bal, i, now) ==
  LET cl == ImplClaim(b0, bal[i], now) IN
  IF IsErr(cl) THEN cl ELSE
  LET b == cl.b s == cl.s A == AssetAmount(b, s.a) L == LiabAmount(b, s.l) IN
  IF ~IsPosTol(A) THEN E("NoAssetFound")
  ELSE IF ~IsZeroTol(L) THEN E("NoAssetFound")
  ELSE IF ~BLt(s.emis, FOne) THEN E("CannotCloseOutstandingEmissions")
  ELSE LET b1 == [b EXCEPT !.lend_cnt = IF @ > 0 THEN @ - 1 ELSE 0, !.tas = BSub(b.tas, s.a)] IN
       IF ~UtilizationOk(b1) THEN E("IllegalUtilizationRatio")
       ELSE LET pay == FFloor(A) IN
            [b |-> [b1 EXCEPT !.fee_ins = BAdd(BSub(A, pay), b.fee_ins)], bal |-> [bal EXCEPT ![i] = EmptySlot], pay |-> FToInt(pay)]
ImplRepayAll(b0, bal, i, now) ==
  LET cl == ImplClaim(b0, bal[i], now) IN
  IF IsErr(cl) THEN cl ELSE
  LET b == cl.b s == cl.s L == LiabAmount(b, s.l) A == AssetAmount(b, s.a) IN
  IF ~IsPosTol(L) THEN E("NoLiabilityFound")
  ELSE IF ~IsZeroTol(A) THEN E("NoLiabilityFound")
  ELSE IF ~BLt(s.emis, FOne) THEN E("CannotCloseOutstandingEmissions")
  ELSE LET b1 == [b EXCEPT !.borrow_cnt = IF @ > 0 THEN @ - 1 ELSE 0, !.tls = BSub(b.tls, s.l)]
           chg == FCeil(L)
       IN [b |-> [b1 EXCEPT !.fee_ins = BAdd(BSub(chg, L), b.fee_ins)], bal |-> [bal EXCEPT ![i] = EmptySlot], pay |-> FToInt(chg)]
ImplCloseBalance(b0, bal, i, now) ==
  LET cl == ImplClaim(b0, bal[i], now) IN
  IF IsErr(cl) THEN cl ELSE
  LET b == cl.b s == cl.s IN
  IF ~IsZeroTol(LiabAmount(b, s.l)) \/ ~IsZeroTol(AssetAmount(b, s.a)) THEN E("IllegalBalanceState")
  ELSE IF ~BLt(s.emis, FOne) THEN E("CannotCloseOutstandingEmissions")
  ELSE [b |-> b, bal |-> [bal EXCEPT ![i] = EmptySlot]]

\* ---- risk engine with Fixed-price banks ------------------------------------------------------
CalcValue(amount, price, dec, w) ==
  IF BIsZero(amount) THEN BZero ELSE FDiv(FMul(FMul(amount, w), price), Exp10(dec))
CalcValueNoW(amount, price, dec) ==
  IF BIsZero(amount) THEN BZero ELSE FDiv(FMul(amount, price), Exp10(dec))
CalcAmount(value, price, dec) == FDiv(FMul(value, Exp10(dec)), price)
SideOf(s) == IF ~BLt(s.l, IONE) THEN "L" ELSE IF ~BLt(s.a, IONE) THEN "A" ELSE "N"
\* ---- oracle prices as the risk engine reads them (Fixed, Pyth push and Switchboard pull feeds) ------------------------------------------
\* pyth_price_components_to_i80f48: the integer times 10^expo, one truncating division or one flooring multiplication
PythToFix(n, expo) == IF expo = 0 THEN FOfBig(n) ELSE IF expo < 0 THEN FDiv(FOfBig(n), Exp10(-expo)) ELSE FMul(FOfBig(n), Exp10(expo))
\* PythPushOraclePriceFeed::get_confidence_interval: 2.12 sigma, refused beyond the bank's maximum (default 10 %), capped at 5 %
ImplPythConf(o, useEma, maxconf) ==
  LET c == FMul(PythToFix(IF useEma THEN o.ema_conf ELSE o.conf, o.expo), IC_CONF_INTERVAL_MULTIPLE)
      p == PythToFix(IF useEma THEN o.ema ELSE o.price, o.expo)
      mc == IF BIsPos(maxconf) THEN FOfBig(maxconf) ELSE IC_U32_MAX_DIV_10
      maxc == FDiv(FMul(p, mc), IC_U32_MAX)
  IN IF BGt(c, maxc) THEN E("OracleMaxConfidenceExceeded") ELSE [v |-> BMin(c, FMul(p, IC_MAX_CONF_INTERVAL))]
\* what the engine knows about a bank's price at time `now`: whether the feed loads at all (load = "ok" or the error),
\* the time-weighted and the real-time price, and for each its confidence interval (or the error asking for it raises)
\* SwitchboardPullPriceFeed: the 10^18-scaled value (truncating division), 1.96 sigma, same maximum and cap; one price for both types
ImplSwbConf(o, maxconf) ==
  LET c == FMul(FDiv(FOfBig(o.swb_std), Exp10(18)), IC_STD_DEV_MULTIPLE)
      p == FDiv(FOfBig(o.swb_value), Exp10(18))
      mc == IF BIsPos(maxconf) THEN FOfBig(maxconf) ELSE IC_U32_MAX_DIV_10
      maxc == FDiv(FMul(p, mc), IC_U32_MAX)
  IN IF BGt(c, maxc) THEN E("OracleMaxConfidenceExceeded") ELSE [v |-> BMin(c, FMul(p, IC_MAX_CONF_INTERVAL))]
ImplPx(b, oracles, now) ==
  IF b.cfg.oracle_setup \notin {3, 4} \/ ~Has(oracles, b.cfg.oracle_keys[1]) THEN
     [load |-> "ok", pTW |-> b.cfg.fixed_price, pRT |-> b.cfg.fixed_price, cTW |-> [v |-> BZero], cRT |-> [v |-> BZero]]
  ELSE IF b.cfg.oracle_setup = 4 THEN
     LET o == oracles[b.cfg.oracle_keys[1]]
         load == IF ~o.owner_ok THEN "SwitchboardWrongAccountOwner"
                 ELSE IF BGt(BSub(now, o.ts), BOfInt(b.cfg.oracle_max_age)) THEN "SwitchboardStalePrice" ELSE "ok"
         p == FDiv(FOfBig(o.swb_value), Exp10(18))
         c == ImplSwbConf(o, b.cfg.oracle_max_conf)
     IN [load |-> load, pTW |-> p, pRT |-> p, cTW |-> c, cRT |-> c]
  ELSE LET o == oracles[b.cfg.oracle_keys[1]]
           maxAge == IF b.cfg.oracle_max_age = 0 THEN IC_MAX_PYTH_ORACLE_AGE ELSE BOfInt(b.cfg.oracle_max_age)
           load == IF ~o.owner_ok THEN "PythPushWrongAccountOwner"
                   ELSE IF BLt(BAdd(o.ts, maxAge), now) THEN "PythPushStalePrice" ELSE "ok"
       IN [load |-> load, pTW |-> PythToFix(o.ema, o.expo), pRT |-> PythToFix(o.price, o.expo),
           cTW |-> ImplPythConf(o, TRUE, b.cfg.oracle_max_conf), cRT |-> ImplPythConf(o, FALSE, b.cfg.oracle_max_conf)]
\* spl-single-pool collateral (StakedWithPythPush): the SOL feed's spot and time-weighted price multiplied by the pool's
\* delegated stake less the permanent one SOL and divided by the LST supply - integer arithmetic on the raw feed values,
\* division last and truncating; the confidence values are NOT rescaled (they stay those of one SOL).  Check order of the
\* adapter: supply > 0, stake >= 1 SOL, feed owner, feed age.
IC_LAMPORTS_PER_SOL == BOfInt(1000000000)
ImplPxStaked(b, oracles, pools, now) ==
  LET o == oracles[b.cfg.oracle_keys[1]]
      P == {pn \in DOMAIN pools : pools[pn].mint = b.cfg.oracle_keys[2] /\ pools[pn].sol_pool = b.cfg.oracle_keys[3]}
      pl == pools[CHOOSE pn \in P : TRUE]
      maxAge == IF b.cfg.oracle_max_age = 0 THEN IC_MAX_PYTH_ORACLE_AGE ELSE BOfInt(b.cfg.oracle_max_age)
      load == IF BIsZero(pl.supply) THEN "ZeroSupplyInStakePool"
              ELSE IF BLt(pl.stake, IC_LAMPORTS_PER_SOL) THEN "MathError"
              ELSE IF ~o.owner_ok THEN "StakedPythPushWrongAccountOwner"
              ELSE IF BLt(BAdd(o.ts, maxAge), now) THEN "PythPushStalePrice" ELSE "ok"
      adj == BSub(pl.stake, IC_LAMPORTS_PER_SOL)
      Sc(x) == IF load = "ok" THEN BTruncDiv(BMul(x, adj), pl.supply) ELSE x
      o2 == [o EXCEPT !.price = Sc(o.price), !.ema = Sc(o.ema)]
  IN [load |-> load, pTW |-> PythToFix(o2.ema, o.expo), pRT |-> PythToFix(o2.price, o.expo),
      cTW |-> ImplPythConf(o2, TRUE, b.cfg.oracle_max_conf), cRT |-> ImplPythConf(o2, FALSE, b.cfg.oracle_max_conf)]
ImplPxP(b, oracles, pools, now) ==
  IF b.cfg.oracle_setup = 5 /\ Has(oracles, b.cfg.oracle_keys[1])
     /\ (\E pn \in DOMAIN pools : pools[pn].mint = b.cfg.oracle_keys[2] /\ pools[pn].sol_pool = b.cfg.oracle_keys[3])
  THEN ImplPxStaked(b, oracles, pools, now)
  ELSE ImplPx(b, oracles, now)
PxOf(b) == IF Has(b, "px") THEN b.px
           ELSE [load |-> "ok", pTW |-> b.cfg.fixed_price, pRT |-> b.cfg.fixed_price, cTW |-> [v |-> BZero], cRT |-> [v |-> BZero]]
\* banks annotated with their prices (transient: never part of a state that is emitted or compared)
WithPx(banks, oracles, now) == [bn \in DOMAIN banks |-> banks[bn] @@ [px |-> ImplPx(banks[bn], oracles, now)]]
WithPxP(banks, oracles, pools, now) == [bn \in DOMAIN banks |-> banks[bn] @@ [px |-> ImplPxP(banks[bn], oracles, pools, now)]]

\* ---- e-mode: the reconciled configuration of the banks the account borrows from (reconcile_emode_configs) -----------
EmEntries(b) == {i \in DOMAIN b.emode.entries : b.emode.entries[i].tag # 0}
ImplEmode(banks, bal) ==
  LET D == {bal[i].bank : i \in {j \in DOMAIN bal : IsActive(bal[j]) /\ ~BLt(bal[j].l, IONE)}}
      TagsOf(bn) == {banks[bn].emode.entries[i].tag : i \in EmEntries(banks[bn])}
      common == IF D = {} THEN {} ELSE {t \in UNION {TagsOf(bn) : bn \in D} : \A bn \in D : t \in TagsOf(bn)}
      Ent(bn, t) == banks[bn].emode.entries[CHOOSE i \in EmEntries(banks[bn]) : banks[bn].emode.entries[i].tag = t]
      MinOf(S) == CHOOSE x \in S : \A y \in S : BLe(x, y)
  IN [t \in common |-> [init |-> MinOf({Ent(bn, t).init : bn \in D}), maint |-> MinOf({Ent(bn, t).maint : bn \in D})]]

\* weighted (asset, liability) value of one slot, or the error the valuation raises; req in {"Init","Maint","Equity"};
\* em: the reconciled e-mode configuration (tag -> weights).  calc_weighted_asset_value / calc_weighted_liab_value.
\* balances of Drift-backed banks (asset tag 4) are kept in Drift's 9-decimal scaled units (get_balance_decimals)
BalDecI(b) == IF b.cfg.asset_tag = 4 THEN 9 ELSE b.dec
SlotValue(b, s, req, em) ==
  LET side == SideOf(s) px == PxOf(b)
      p == IF req = "Maint" THEN px.pRT ELSE px.pTW
      c == IF req = "Maint" THEN px.cRT ELSE px.cTW
  IN
  IF side = "A" THEN
     IF b.cfg.risk_tier = 1 THEN <<BZero, BZero>>
     ELSE IF b.cfg.op_state = OP_REDUCE_ONLY /\ req = "Init" THEN <<BZero, BZero>>
     ELSE IF px.load # "ok" THEN (IF req = "Init" THEN <<BZero, BZero>> ELSE E(px.load))
     ELSE IF IsErr(c) THEN c
     ELSE LET low == BSub(p, c.v)
              bw == IF req = "Init" THEN b.cfg.aw_init ELSE IF req = "Maint" THEN b.cfg.aw_maint ELSE FOne
              t == b.emode.tag
              w0 == IF t # 0 /\ t \in DOMAIN em
                    THEN BMax(bw, IF req = "Init" THEN em[t].init ELSE IF req = "Maint" THEN em[t].maint ELSE FOne)
                    ELSE bw
              w == IF req = "Init" /\ ~BIsZero(b.cfg.init_limit)
                   THEN LET tv == CalcValueNoW(AssetAmount(b, b.tas), low, BalDecI(b)) lim == FOfBig(b.cfg.init_limit) IN
                        IF BGt(tv, lim) THEN FMul(w0, FDiv(lim, tv)) ELSE w0
                   ELSE w0
          IN <<CalcValue(AssetAmount(b, s.a), low, BalDecI(b), w), BZero>>
  ELSE IF side = "L" THEN
     IF px.load # "ok" THEN E(px.load)
     ELSE IF IsErr(c) THEN c
     ELSE LET w == IF req = "Init" THEN b.cfg.lw_init ELSE IF req = "Maint" THEN b.cfg.lw_maint ELSE FOne IN
          <<BZero, CalcValue(LiabAmount(b, s.l), BAdd(p, c.v), BalDecI(b), w)>>
  ELSE <<BZero, BZero>>
RECURSIVE HealthSum(_, _, _, _, _)
HealthSum(banks, bal, i, req, em) ==
  IF i > Len(bal) THEN <<BZero, BZero>>
  ELSE IF ~IsActive(bal[i]) THEN HealthSum(banks, bal, i + 1, req, em)
  ELSE LET v == SlotValue(banks[bal[i].bank], bal[i], req, em) IN
       IF IsErr(v) THEN v
       ELSE LET rest == HealthSum(banks, bal, i + 1, req, em) IN
            IF IsErr(rest) THEN rest ELSE <<BAdd(v[1], rest[1]), BAdd(v[2], rest[2])>>
\* (assets, liabilities) or the first error in slot order
HealthComponents(banks, bal, req) == HealthSum(banks, bal, 1, req, ImplEmode(banks, bal))
\* check_account_init_health -> "ok" or error name
ImplInitHealth(banks, bal) ==
  LET h == HealthComponents(banks, bal, "Init")
      debts == {i \in DOMAIN bal : IsActive(bal[i]) /\ ~BLt(bal[i].l, IONE)}
      iso == {i \in debts : banks[bal[i].bank].cfg.risk_tier = 1}
  IN IF IsErr(h) THEN h.err
     ELSE IF BLt(h[1], h[2]) THEN "RiskEngineInitRejected"
     ELSE IF iso # {} /\ Cardinality(debts) # 1 THEN "IsolatedAccountIllegalState"
     ELSE "ok"

BankStateErr(b, kind) ==
  IF b.cfg.op_state = OP_KILLED THEN "BankKilledByBankruptcy"
  ELSE IF kind = "PausedOrReduce" /\ b.cfg.op_state = OP_PAUSED THEN "BankPaused"
  ELSE IF kind = "PausedOrReduce" /\ b.cfg.op_state = OP_REDUCE_ONLY THEN "BankReduceOnly"
  ELSE IF kind = "Paused" /\ b.cfg.op_state = OP_PAUSED THEN "BankPaused"
  ELSE "ok"
TagsErr(b, bal) ==
  LET S == {i \in DOMAIN bal : IsActive(bal[i])}
      hasDef == \E i \in S : bal[i].tag \in {0, 3, 4, 5}
      hasStk == \E i \in S : bal[i].tag = 2
  IN IF b.cfg.asset_tag \in {0, 3, 4, 5} /\ hasStk THEN "AssetTagMismatch"
     ELSE IF b.cfg.asset_tag = 2 /\ hasDef THEN "AssetTagMismatch" ELSE "ok"

\* ---- Token-2022 transfer fee (utils::calculate_pre_fee_amount, spl-token-2022 TransferFee::calculate_fee) ---------
CeilDivB(n, d) == BFloorDiv(BSub(BAdd(n, d), BOne), d)
\* fee withheld from a transfer of y tokens of mint record m ([fee_bps, max_fee])
TokFee(m, y) == IF m.fee_bps = 0 \/ BIsZero(y) THEN BZero ELSE BMin(m.max_fee, CeilDivB(BMul(y, BOfInt(m.fee_bps)), BOfInt(10000)))
\* amount to send so that x arrives
PreFee(m, x) ==
  IF m.fee_bps = 0 THEN x
  ELSE IF BIsZero(x) THEN BZero
  ELSE IF m.fee_bps = 10000 THEN BAdd(m.max_fee, x)
  ELSE LET raw == CeilDivB(BMul(x, BOfInt(10000)), BOfInt(10000 - m.fee_bps)) IN
       IF BGe(BSub(raw, x), m.max_fee) THEN BAdd(x, m.max_fee) ELSE raw
PostFee(m, y) == BSub(y, TokFee(m, y))
\* token transfer of y from account f to account t (fee withheld on the receiving account)
Xfer(tok, m, f, t, y) ==
  LET fee == TokFee(m, y) IN
  [tok EXCEPT ![f] = [@ EXCEPT !.amount = BSub(@, y)],
              ![t] = [@ EXCEPT !.amount = BAdd(@, BSub(y, fee)), !.withheld = BAdd(@, fee)]]
=============================================================================
