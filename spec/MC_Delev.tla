------------------------------ MODULE MC_Delev ------------------------------
(* Model-checking instance of Delev.tla from setups/windmodel.json: A1 (40 tokens of B1 at $1 against 9.9 B2 at $2), the risk
   admin's wallet funded in both mints, a liquidation record for A1.  Limits of 1, 2 and 5 dollars; time steps of an hour, a
   day less a second, a day, and two and a half days. *)
EXTENDS Delev
DvCases == {<<"A1", "B1", "B2">>}
DvNone == {}
=============================================================================
