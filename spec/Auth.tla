------------------------------- MODULE Auth -------------------------------
(***************************************************************************)
(* C08: TLC enumerates the authorization matrix: every instruction of the  *)
(* table x {unmodified, every signer identity, signature missing, every    *)
(* bound-or-free slot x every same-typed foreign object}, in the normal    *)
(* account state and with the account frozen.  Each cell is one transition *)
(* into a sink state, emitted for replay through marginfi::entry from a    *)
(* world with two fully populated groups.                                  *)
(***************************************************************************)
EXTENDS PropsAuth, IOUtils, FiniteSets

Base0 == JsonDeserialize(IOEnv.AUTH_BASE)      \* op -> sequence of base action records

VARIABLES mode, sid
vars == <<mode, sid>>

SignerSlot(op) ==
  LET S == {i \in DOMAIN AuthOps[op].slots : AuthOps[op].slots[i][2] = "signer"} IN
  IF S = {} THEN 0 ELSE CHOOSE i \in S : \A j \in S : i <= j

\* apply modifier record m to instruction k of the op's base transaction
Action(op, m, variant, who) ==
  LET ixs == Base0[op] k == AuthOps[op].k + 1
      marked == [cell |-> op, mode |-> mode, variant |-> variant, who |-> who]
  IN IF Len(ixs) = 1 THEN marked @@ m @@ ixs[1]
     ELSE marked @@ [op |-> "tx", ixs |-> [ixs EXCEPT ![k] = m @@ @]]

\* who signs: the override field is "receiver" for end_liq (the receiver is the signer), "signer" otherwise
SignMod(op, id) == IF op = "end_liq" THEN [receiver |-> id] ELSE [signer |-> id]

Emit(a, exp) ==
  /\ mode' = "sink"
  /\ sid' = TLCGet(1)
  /\ TLCSet(1, TLCGet(1) + 1)
  /\ PrintT("EDGE " \o ToString(sid) \o " " \o ToString(TLCGet(1) - 1) \o " " \o ToJson(a @@ [exp |-> exp]))

OpsIn(m) == IF m = "frozen" THEN FrozenOps ELSE AuthOpNames

BaseCell(op) == Emit(Action(op, <<>>, "base", "-"), IF mode = "frozen" /\ op \in FrozenOps THEN "err" ELSE "ok")
SignerCell(op, id) ==
  /\ SignerSlot(op) # 0
  /\ Emit(Action(op, SignMod(op, id), "signer", id), IF Entitled(op, id, mode) THEN "ok" ELSE "err")
\* (in a multi-instruction transaction signer privileges are per account for the whole message, so dropping
\*  the flag on one instruction is not observable: single-instruction cells only)
NoSignCell(op) ==
  /\ SignerSlot(op) # 0
  /\ AuthOps[op].nix = 1
  /\ Emit(Action(op, [nosign |-> <<SignerSlot(op) - 1>>], "nosign", "-"), "err")
SubstCell(op, i, c) ==
  Emit(Action(op, [subst |-> <<<<i - 1, c>>>>], "subst", "-"), "err")

\* a coherent foreign bundle: the other group's bank together with its own vaults and vault authorities
\* (single substitutions of one of them are already rejected by the PDA/has_one cross-checks; the bundle
\*  isolates the "bank belongs to this group" binding)
BundleName(kind) ==
  CASE kind \in {"bank", "bank2", "bank_g"} -> "X1"
    [] kind \in {"vliq", "vliq2"} -> "X1.liq"
    [] kind = "vins" -> "X1.ins"
    [] kind = "vfee" -> "X1.fee"
    [] kind \in {"aliq", "aliq2"} -> "X1.liq_auth"
    [] kind = "ains" -> "X1.ins_auth"
    [] kind = "afee" -> "X1.fee_auth"
    [] OTHER -> ""
BundleSlots(op) == {i \in DOMAIN AuthOps[op].slots : BundleName(AuthOps[op].slots[i][2]) # ""}
RECURSIVE BundleSeq(_, _)
BundleSeq(op, S) ==
  IF S = {} THEN <<>>
  ELSE LET i == CHOOSE x \in S : \A y \in S : x <= y IN
       <<<<i - 1, BundleName(AuthOps[op].slots[i][2])>>>> \o BundleSeq(op, S \ {i})
BundleCell(op) ==
  /\ \E i \in DOMAIN AuthOps[op].slots : AuthOps[op].slots[i][2] \in {"bank", "bank2", "bank_g"}
  /\ Emit(Action(op, [subst |-> BundleSeq(op, BundleSlots(op))], "bundle", "-"), "err")

\* a coherent foreign pair: another group together with that group's own staked settings (each alone is rejected by the
\* has_one cross-check; the pair isolates the "bank belongs to this group" binding of the remaining slots)
GBundleName(kind) == CASE kind = "group" -> "G2" [] kind = "ssettings" -> "G2.staked" [] OTHER -> ""
GBundleSlots(op) == {i \in DOMAIN AuthOps[op].slots : GBundleName(AuthOps[op].slots[i][2]) # ""}
RECURSIVE GBundleSeq(_, _)
GBundleSeq(op, S) ==
  IF S = {} THEN <<>>
  ELSE LET i == CHOOSE x \in S : \A y \in S : x <= y IN
       <<<<i - 1, GBundleName(AuthOps[op].slots[i][2])>>>> \o GBundleSeq(op, S \ {i})
GBundleCell(op) ==
  /\ \E i \in DOMAIN AuthOps[op].slots : AuthOps[op].slots[i][2] = "ssettings"
  /\ \E i \in DOMAIN AuthOps[op].slots : AuthOps[op].slots[i][2] = "group"
  /\ Emit(Action(op, [subst |-> GBundleSeq(op, GBundleSlots(op))], "gbundle", "-"), "err")

Freeze ==
  /\ mode = "base"
  /\ mode' = "frozen"
  /\ sid' = TLCGet(1)
  /\ TLCSet(1, TLCGet(1) + 1)
  /\ PrintT("EDGE " \o ToString(sid) \o " " \o ToString(TLCGet(1) - 1) \o " " \o ToJson([op |-> "tx", ixs |-> <<[op |-> "freeze", acct |-> "A1", frozen |-> TRUE], [op |-> "freeze", acct |-> "A7", frozen |-> TRUE]>>, exp |-> "ok"]))

Init == mode = "base" /\ sid = 0 /\ TLCSet(1, 1)
Next ==
  /\ mode \in {"base", "frozen"}
  /\ \/ Freeze
     \/ \E op \in OpsIn(mode) :
          \/ BaseCell(op)
          \/ \E id \in {AuthIdentities[i] : i \in DOMAIN AuthIdentities} : SignerCell(op, id)
          \/ NoSignCell(op)
          \/ BundleCell(op)
          \/ GBundleCell(op)
          \/ \E i \in DOMAIN AuthOps[op].slots :
               \E j \in DOMAIN AuthCand[AuthOps[op].slots[i][2]] : SubstCell(op, i, AuthCand[AuthOps[op].slots[i][2]][j])
Spec == Init /\ [][Next]_vars
View == <<mode, sid>>
=============================================================================
