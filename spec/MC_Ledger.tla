----------------------------- MODULE MC_Ledger -----------------------------
(* Model-checking instances of Ledger.tla (constants that a .cfg cannot express). *)
EXTENDS Ledger
NoTuples == {}
RiskLiq == {<<"A2", "A1", "B1", "B2">>}
RiskPrices == {<<"B1", 1, 2>>, <<"B1", 1, 100000000>>}
RiskBk == {<<"A1", "B2", "admin">>, <<"A1", "B2", "U2">>}
RiskPricesT == {<<"B1", 1, 2>>, <<"B1", 9, 10>>, <<"B1", 1, 100000000>>, <<"B2", 3, 1>>}
RiskBkT == {<<"A1", "B2", "admin">>, <<"A1", "B2", "riskadmin">>, <<"A1", "B2", "U2">>}
\* long random walks (tlc -simulate): the edge counter is set once, at start-up, so that edge ids stay unique across behaviours
ASSUME TLCSet(1, 1)
InitSim == /\ st = InitState /\ acc = C02AccNext(C02Acc0, InitState, [ev |-> "reset"], InitState)
           /\ acc7 = C07Acc0 /\ sid = 0 /\ depth = 0
SpecSim == InitSim /\ [][Next]_vars
WalkLiq == {<<"A2", "A1", "B1", "B2">>, <<"A3", "A1", "B1", "B2">>}
WalkPrices == {<<"B1", 1, 2>>, <<"B1", 9, 10>>, <<"B1", 1, 1>>, <<"B2", 3, 1>>, <<"B2", 2, 1>>}
=============================================================================
