----------------------------- MODULE MC_Ledger -----------------------------
(* Model-checking instances of Ledger.tla (constants that a .cfg cannot express). *)
EXTENDS Ledger
NoTuples == {}
RiskLiq == {<<"A2", "A1", "B1", "B2">>}
RiskPrices == {<<"B1", 1, 2>>, <<"B1", 1, 100000000>>}
RiskBk == {<<"A1", "B2", "admin">>, <<"A1", "B2", "U2">>}
RiskPricesT == {<<"B1", 1, 2>>, <<"B1", 9, 10>>, <<"B1", 1, 100000000>>, <<"B2", 3, 1>>}
RiskBkT == {<<"A1", "B2", "admin">>, <<"A1", "B2", "riskadmin">>, <<"A1", "B2", "U2">>}
=============================================================================
