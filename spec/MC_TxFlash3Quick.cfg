SPECIFICATION Spec
CONSTANTS
  Alphabet <- Flash3Alphabet
  MaxLen = 4
  NeedOneOf <- NeedSfl3
CHECK_DEADLOCK FALSE
