------------------------------ MODULE TxShape ------------------------------
(***************************************************************************)
(* C10 / C11: all instruction lists up to a bounded length over an         *)
(* alphabet of relevant instruction kinds (receivership start/end for an   *)
(* unhealthy and a healthy account, withdraw/repay by the receiver, other  *)
(* marginfi instructions, compute budget, allow-listed and unknown         *)
(* programs, CPI-wrapped start/end; flash-loan start with every end index, *)
(* ends, in-bracket borrow beyond the health limit, repay-all, liquidation *)
(* of an account inside its own flash loan).  Each list is one atomic      *)
(* transaction: the model simulates it instruction by instruction with the *)
(* introspection rules of ix_utils.rs / liquidate_start.rs / flashloan.rs  *)
(* and predicts commit or abort; every list is replayed on the real        *)
(* program.                                                                *)
(***************************************************************************)
EXTENDS PropsTx, IOUtils

CONSTANTS Alphabet,      \* set of symbol names
          MaxLen,        \* all lists up to this length
          NeedOneOf      \* lists of length MaxLen are kept only if they contain one of these symbols ({} = keep all)

VARIABLES phase, sid
vars == <<phase, sid>>

\* ---- symbols -> actions ------------------------------------------------------------------------
SflIdx(sym) == CASE sym = "SFL2_0" -> 0 [] sym = "SFL2_1" -> 1 [] sym = "SFL2_2" -> 2 [] sym = "SFL2_3" -> 3 [] sym = "SFL2_4" -> 4
                 [] sym = "SFL3_1" -> 1 [] sym = "SFL3_2" -> 2 [] sym = "SFL3_3" -> 3 [] sym = "SFL3_4" -> 4 [] OTHER -> -1
IsSfl2(sym) == sym \in {"SFL2_0", "SFL2_1", "SFL2_2", "SFL2_3", "SFL2_4"}
IsSfl3(sym) == sym \in {"SFL3_1", "SFL3_2", "SFL3_3", "SFL3_4"}
\* A6 holds no position at all: its end instruction is sent without any bank / price accounts
IsSfl6(sym) == sym \in {"SFL6_1", "SFL6_2", "SFL6_3"}
Sfl6Idx(sym) == CASE sym = "SFL6_1" -> 1 [] sym = "SFL6_2" -> 2 [] sym = "SFL6_3" -> 3
\* end-index arguments far beyond any transaction (the argument is a u64): 2^16 + k, 2^32 + k, 2^64 - 1
IsSflW(sym) == sym \in {"SFLW_65536", "SFLW_65537", "SFLW_65538", "SFLW_4294967297", "SFLW_MAX"}
SflWide(sym) == CASE sym = "SFLW_65536" -> "65536" [] sym = "SFLW_65537" -> "65537" [] sym = "SFLW_65538" -> "65538"
                  [] sym = "SFLW_4294967297" -> "4294967297" [] sym = "SFLW_MAX" -> "18446744073709551615"
Act(sym) ==
  CASE sym = "CB" -> [op |-> "foreign", program |-> "prog.compute"]
    [] sym = "JUP" -> [op |-> "foreign", program |-> "prog.jup"]
    [] sym = "UNK" -> [op |-> "foreign", program |-> "prog.unknown"]
    \* venue-program instructions: the whitelisted refreshes, another instruction of a venue program, and a whitelisted
    \* refresh discriminator sent to a different (allow-listed) program
    [] sym = "KREF" -> [op |-> "kamino_refresh", reserve |-> "KR1"]
    [] sym = "DREF" -> [op |-> "drift_refresh", market |-> "DM1"]
    [] sym = "KOTH" -> [op |-> "foreign", program |-> "prog.kamino", disc |-> "request_elevation_group"]
    [] sym = "JREF" -> [op |-> "foreign", program |-> "prog.jup", disc |-> "refresh_reserve"]
    [] sym = "START3" -> [op |-> "start_liq", acct |-> "A3", receiver |-> "liquidator"]
    [] sym = "START2" -> [op |-> "start_liq", acct |-> "A2", receiver |-> "liquidator"]
    [] sym = "END3" -> [op |-> "end_liq", acct |-> "A3", receiver |-> "liquidator"]
    [] sym = "END2" -> [op |-> "end_liq", acct |-> "A2", receiver |-> "liquidator"]
    [] sym = "W3" -> [op |-> "withdraw", acct |-> "A3", bank |-> "B2", amount |-> 1, signer |-> "liquidator"]
    [] sym = "R3" -> [op |-> "repay", acct |-> "A3", bank |-> "B1", amount |-> 100, signer |-> "liquidator"]
    [] sym = "START4" -> [op |-> "start_liq", acct |-> "A4", receiver |-> "liquidator"]
    \* the same instructions with a byte trailing their (empty) argument list: still a start / an end
    [] sym = "PSTART3" -> [op |-> "start_liq", acct |-> "A3", receiver |-> "liquidator", pad |-> 1]
    [] sym = "PSTART4" -> [op |-> "start_liq", acct |-> "A4", receiver |-> "liquidator", pad |-> 1]
    [] sym = "PEND3" -> [op |-> "end_liq", acct |-> "A3", receiver |-> "liquidator", pad |-> 3]
    [] sym = "END4" -> [op |-> "end_liq", acct |-> "A4", receiver |-> "liquidator"]
    [] sym = "W4" -> [op |-> "withdraw", acct |-> "A4", bank |-> "B3", amount |-> 1, signer |-> "liquidator"]
    [] sym = "R4" -> [op |-> "repay", acct |-> "A4", bank |-> "B1", amount |-> 100, signer |-> "liquidator"]
    [] sym = "DEP1" -> [op |-> "deposit", acct |-> "A1", bank |-> "B1", amount |-> 5]
    [] sym = "INITREC" -> [op |-> "init_liq_record", acct |-> "A6"]
    [] sym = "CSTART3" -> [op |-> "start_liq", acct |-> "A3", receiver |-> "liquidator", cpi |-> TRUE]
    [] sym = "CEND3" -> [op |-> "end_liq", acct |-> "A3", receiver |-> "liquidator", cpi |-> TRUE]
    [] IsSfl2(sym) -> [op |-> "start_fl", acct |-> "A2", end_index |-> SflIdx(sym)]
    [] IsSfl3(sym) -> [op |-> "start_fl", acct |-> "A3", end_index |-> SflIdx(sym)]
    [] IsSflW(sym) -> [op |-> "start_fl", acct |-> "A2", end_index |-> 0, end_index_wide |-> SflWide(sym)]
    [] sym = "EFL2" -> [op |-> "end_fl", acct |-> "A2"]
    [] sym = "EFL3" -> [op |-> "end_fl", acct |-> "A3"]
    [] IsSfl6(sym) -> [op |-> "start_fl", acct |-> "A6", end_index |-> Sfl6Idx(sym)]
    [] sym = "EFL6" -> [op |-> "end_fl", acct |-> "A6"]
    [] sym = "EFL1" -> [op |-> "end_fl", acct |-> "A1"]
    [] sym = "EFL1X2" -> [op |-> "end_fl", acct |-> "A1", extra_rem |-> <<"A2">>]    \* another account's end that merely mentions A2
    [] sym = "CSFL2" -> [op |-> "start_fl", acct |-> "A2", end_index |-> 2, cpi |-> TRUE]
    [] sym = "CEFL2" -> [op |-> "end_fl", acct |-> "A2", cpi |-> TRUE]
    [] sym = "BIGB2" -> [op |-> "borrow", acct |-> "A2", bank |-> "B1", amount |-> BOfStr("4600000000")]
    [] sym = "REPALL2" -> [op |-> "repay", acct |-> "A2", bank |-> "B1", amount |-> 0, all |-> TRUE]
    [] sym = "LIQ3" -> [op |-> "liquidate", liquidator |-> "A1", liquidatee |-> "A3", asset_bank |-> "B2", liab_bank |-> "B1", amount |-> 1000]
    [] sym = "DEPBIG3" -> [op |-> "deposit", acct |-> "A3", bank |-> "B2", amount |-> 1000000000]

IsStart(sym) == sym \in {"START3", "START2", "START4", "PSTART3", "PSTART4"}
IsEnd(sym) == sym \in {"END3", "END2", "END4", "PEND3"}
\* the account a receivership symbol acts on (A3 and A4 are unhealthy and have a liquidation record; A2 is healthy)
SymAcct(sym) == IF sym \in {"START4", "END4", "W4", "R4", "PSTART4"} THEN "A4" ELSE IF sym \in {"START2", "END2"} THEN "A2" ELSE "A3"
RecvAccts == {"A3", "A4"}
IsCpiSym(sym) == sym \in {"CSTART3", "CEND3", "CSFL2", "CEFL2"}
VenueSyms == {"KREF", "DREF", "KOTH", "JREF"}
IsMrgn(sym) == sym \notin ({"CB", "JUP", "UNK"} \cup VenueSyms) /\ ~IsCpiSym(sym)
ProgAllowed(sym) == sym # "UNK" /\ ~IsCpiSym(sym)      \* top-level program in the receivership allow-list
RecvInside(sym) == IsStart(sym) \/ IsEnd(sym) \/ sym \in {"INITREC", "W3", "R3", "W4", "R4"}

\* liquidate_start.rs::validate_instructions for the start at position i of list L
RECURSIVE FirstOk(_, _, _)
FirstOk(L, k, seen) ==       \* validate_ix_first
  IF k > Len(L) THEN seen
  ELSE IF L[k] = "CB" THEN FirstOk(L, k + 1, seen)
  ELSE IF ~seen THEN (IF IsStart(L[k]) THEN FirstOk(L, k + 1, TRUE) ELSE IF L[k] \in {"INITREC", "KREF", "DREF"} THEN FirstOk(L, k + 1, FALSE) ELSE FALSE)
  ELSE IF IsStart(L[k]) THEN FALSE ELSE FirstOk(L, k + 1, TRUE)
ValidateStart(L, i) ==
  /\ \A k \in DOMAIN L : ProgAllowed(L[k])
  /\ FirstOk(L, 1, FALSE)
  /\ IsEnd(L[Len(L)])
  /\ \A k \in DOMAIN L : IsMrgn(L[k]) => RecvInside(L[k])
  /\ i < Len(L)

\* ---- sequential simulation of one transaction ----------------------------------------------------
S0 == [ok |-> TRUE, recv |-> {}, fl2 |-> FALSE, fl3 |-> FALSE, fl6 |-> FALSE, nW |-> [a \in RecvAccts |-> 0], nR |-> [a \in RecvAccts |-> 0],
       big2 |-> FALSE, debt2 |-> TRUE, healthy3 |-> FALSE, rec6 |-> FALSE]
Fail(s) == [s EXCEPT !.ok = FALSE]
Step(L, i, s) ==
  LET sym == L[i] IN
  CASE sym \in {"CB", "JUP", "UNK", "DEP1", "EFL1", "EFL1X2"} \cup VenueSyms -> s
    [] sym = "INITREC" -> IF s.rec6 THEN Fail(s) ELSE [s EXCEPT !.rec6 = TRUE]
    [] sym \in {"START3", "START4", "PSTART3", "PSTART4"} ->
         LET a == SymAcct(sym) IN
         IF a \in s.recv \/ (a = "A3" /\ (s.fl3 \/ s.healthy3)) \/ ~ValidateStart(L, i) THEN Fail(s)
         ELSE [s EXCEPT !.recv = @ \cup {a}, !.nW[a] = 0, !.nR[a] = 0]
    [] sym = "START2" -> Fail(s)                                  \* A2 is healthy (and can only be unhealthy inside its own flash loan)
    [] sym \in {"END3", "END4", "PEND3"} ->
         LET a == SymAcct(sym) IN
         IF a \in s.recv /\ (s.nW[a] = 0 \/ s.nR[a] >= 1) THEN [s EXCEPT !.recv = @ \ {a}] ELSE Fail(s)
    [] sym = "END2" -> Fail(s)
    [] sym \in {"W3", "W4"} -> IF SymAcct(sym) \in s.recv THEN [s EXCEPT !.nW[SymAcct(sym)] = @ + 1] ELSE Fail(s)
    [] sym \in {"R3", "R4"} -> IF SymAcct(sym) \in s.recv THEN [s EXCEPT !.nR[SymAcct(sym)] = @ + 1] ELSE Fail(s)
    [] IsCpiSym(sym) -> Fail(s)
    [] IsSflW(sym) -> Fail(s)                                      \* no transaction has an instruction at such an index
    [] IsSfl2(sym) -> LET idx == SflIdx(sym) + 1 IN
                      IF idx > i /\ idx <= Len(L) /\ (idx <= Len(L) => L[idx] = "EFL2") /\ ~s.fl2 THEN [s EXCEPT !.fl2 = TRUE] ELSE Fail(s)
    [] IsSfl3(sym) -> LET idx == SflIdx(sym) + 1 IN
                      IF idx > i /\ idx <= Len(L) /\ (idx <= Len(L) => L[idx] = "EFL3") /\ ~s.fl3 /\ "A3" \notin s.recv THEN [s EXCEPT !.fl3 = TRUE] ELSE Fail(s)
    [] IsSfl6(sym) -> LET idx == Sfl6Idx(sym) + 1 IN
                      IF idx > i /\ idx <= Len(L) /\ (idx <= Len(L) => L[idx] = "EFL6") /\ ~s.fl6 THEN [s EXCEPT !.fl6 = TRUE] ELSE Fail(s)
    [] sym = "EFL6" -> [s EXCEPT !.fl6 = FALSE]                   \* an account without positions is healthy
    [] sym = "EFL2" -> IF s.big2 THEN Fail(s) ELSE [s EXCEPT !.fl2 = FALSE]
    [] sym = "EFL3" -> IF s.healthy3 /\ "A3" \notin s.recv THEN [s EXCEPT !.fl3 = FALSE] ELSE Fail(s)
    [] sym = "BIGB2" -> IF s.fl2 /\ ~s.big2 THEN [s EXCEPT !.big2 = TRUE, !.debt2 = TRUE] ELSE Fail(s)
    [] sym = "REPALL2" -> IF s.debt2 THEN [s EXCEPT !.big2 = FALSE, !.debt2 = FALSE] ELSE Fail(s)
    [] sym = "LIQ3" -> IF s.fl3 \/ "A3" \in s.recv \/ s.healthy3 THEN Fail(s) ELSE s
    [] sym = "DEPBIG3" -> IF "A3" \in s.recv THEN Fail(s) ELSE [s EXCEPT !.healthy3 = TRUE]
RECURSIVE Sim(_, _, _)
Sim(L, i, s) == IF i > Len(L) \/ ~s.ok THEN s ELSE Sim(L, i + 1, Step(L, i, s))
Commits(L) == Sim(L, 1, S0).ok

Lists == UNION {[1..n -> Alphabet] : n \in 1..MaxLen}
Keep(L) == Len(L) < MaxLen \/ NeedOneOf = {} \/ \E k \in DOMAIN L : L[k] \in NeedOneOf

TxAction(L) == [op |-> "tx", ixs |-> [k \in DOMAIN L |-> Act(L[k])], exp |-> IF Commits(L) THEN "ok" ELSE "err"]

\* the model's own guarantee: a committing list containing a receivership start is in the language of C10,
\* and every committing flash-loan start names a later matching end (checked through the same predicates the
\* trace validator uses, applied to the instruction list alone)
ShapeOk(L) ==
  Commits(L) =>
    /\ (\E k \in DOMAIN L : IsStart(L[k])) =>
         LET i == CHOOSE x \in DOMAIN L : IsStart(L[x]) IN
         /\ \A k \in DOMAIN L : (IsStart(L[k]) => k = i)
         /\ \A k \in 1..(i - 1) : L[k] \in {"CB", "INITREC", "KREF", "DREF"}
         /\ L[i] \in {"START3", "START4", "PSTART3", "PSTART4"} /\ IsEnd(L[Len(L)]) /\ SymAcct(L[Len(L)]) = SymAcct(L[i])
         /\ \A k \in (i + 1)..(Len(L) - 1) : L[k] \in ({"CB", "JUP", "INITREC"} \cup VenueSyms) \/ (L[k] \in {"W3", "R3", "W4", "R4"} /\ SymAcct(L[k]) = SymAcct(L[i]))
    /\ \A k \in DOMAIN L : IsSfl2(L[k]) => (SflIdx(L[k]) + 1 > k /\ L[SflIdx(L[k]) + 1] = "EFL2")

Emit(L) ==
  /\ phase' = "sink"
  /\ Chk("C10", "model_committed_shape_in_language", 0, ShapeOk(L), [list |-> L]) = TRUE
  /\ sid' = TLCGet(1)
  /\ TLCSet(1, TLCGet(1) + 1)
  /\ PrintT("EDGE " \o ToString(sid) \o " " \o ToString(TLCGet(1) - 1) \o " " \o ToJson(TxAction(L)))

Init == phase = "root" /\ sid = 0 /\ TLCSet(1, 1)
Next == phase = "root" /\ \E L \in Lists : (Keep(L) = TRUE) /\ Emit(L)
Spec == Init /\ [][Next]_vars
=============================================================================
