---------------------------- MODULE PropsPanic ----------------------------
(***************************************************************************)
(* C15 (emergency pause is bounded) and the pause half of C14, as          *)
(* predicates over (pre, event, post, accumulator).                        *)
(***************************************************************************)
EXTENDS Base

PFlag(p) == p.flags % 2 = 1
\* time until which the protocol is paused according to a PanicState / cache record
Until(p, now) == IF PFlag(p) THEN BAdd(p.start, PAUSE_SECS) ELSE now
InForce(p, now) == PFlag(p) /\ BLt(now, BAdd(p.start, PAUSE_SECS))

\* financial set of C14 (instructions that move funds or change positions), by action name
FinancialOps == {"deposit", "withdraw", "borrow", "repay", "liquidate", "bankruptcy", "collect_fees",
                 "withdraw_fees", "withdraw_fees_perm", "withdraw_insurance", "withdraw_emissions",
                 "withdraw_emissions_perm", "transfer_account"}

GroupOfAction(s, a) ==
  IF Has(a, "bank") /\ Has(s.banks, a.bank) THEN s.banks[a.bank].group
  ELSE IF Has(a, "liab_bank") /\ Has(s.banks, a.liab_bank) THEN s.banks[a.liab_bank].group
  ELSE IF Has(a, "acct") /\ Has(s.accts, a.acct) THEN s.accts[a.acct].group
  ELSE "none"

\* accumulator: successful pauses since the daily counter was last reset, the stored reset stamp, and the *time at which* the
\* counter was last reset (a reset is an event: the step at which the stored stamp changes or the daily count falls back)
\* ... and the latest start any protocol-wide pause ever had (what a group's users may be held to, whatever the group's copy says)
C15Acc0 == [pauses |-> 0, reset |-> BZero, have |-> FALSE, at |-> BZero, haveAt |-> FALSE, lastStart |-> BZero, haveStart |-> FALSE]
C15LastStart(acc, p) ==
  IF PFlag(p) THEN [s |-> IF acc.haveStart THEN BMax(acc.lastStart, p.start) ELSE p.start, have |-> TRUE]
  ELSE [s |-> acc.lastStart, have |-> acc.haveStart]
C15ResetEvent(acc, pre, e, post) ==
  \/ (acc.have /\ post.fee.panic.reset # acc.reset)
  \/ (Has(pre.fee, "panic") /\ post.fee.panic.daily < pre.fee.panic.daily)
  \/ (Has(pre.fee, "panic") /\ e.ev = "panic_pause" /\ Ok(e) /\ post.fee.panic.daily <= pre.fee.panic.daily)
C15AccNext(acc, pre, e, post) ==
  IF ~Has(post.fee, "panic") THEN acc
  ELSE LET r == post.fee.panic.reset
           changed == C15ResetEvent(acc, pre, e, post)
           n0 == IF changed \/ ~acc.have THEN 0 ELSE acc.pauses
       IN [pauses |-> n0 + (IF e.ev = "panic_pause" /\ Ok(e) THEN 1 ELSE 0), reset |-> r, have |-> TRUE,
           at |-> IF changed THEN post.clock.ts ELSE acc.at, haveAt |-> acc.haveAt \/ changed,
           lastStart |-> C15LastStart(acc, post.fee.panic).s, haveStart |-> C15LastStart(acc, post.fee.panic).have]

C15(pre, e, post, acc, line) ==
  IF ~Has(post.fee, "panic") \/ ~Has(pre.fee, "panic") THEN TRUE ELSE
  LET now == post.clock.ts
      pp == pre.fee.panic
      qp == post.fee.panic
      acc2 == C15AccNext(acc, pre, e, post)
  IN
  /\ Chk("C15", "b_never_more_than_60min_ahead", line,
         PFlag(qp) => BLe(BSub(BAdd(qp.start, PAUSE_SECS), now), HOUR_SECS), [start |-> qp.start, now |-> now])
  /\ Chk("C15", "b_cache_never_more_than_60min_ahead", line,
         \A g \in DOMAIN post.groups :
            PFlag(post.groups[g].panic_cache) =>
               BLe(BSub(BAdd(post.groups[g].panic_cache.start, PAUSE_SECS), now), HOUR_SECS), [now |-> now])
  /\ (e.ev = "panic_pause" /\ Ok(e)) =>
       /\ Chk("C15", "a_pause_extends_by_at_most_30min", line,
              BLe(Until(qp, now), BAdd(BMax(Until(pp, now), now), PAUSE_SECS)),
              [pre_until |-> Until(pp, now), post_until |-> Until(qp, now), now |-> now])
       /\ Chk("C15", "a_pause_sets_flag", line, PFlag(qp), [x |-> 0])
  /\ Chk("C15", "c_at_most_3_pauses_between_resets", line, acc2.pauses <= 3, [pauses |-> acc2.pauses])
  /\ Chk("C15", "c_resets_24h_apart", line,
         (acc.have /\ qp.reset # acc.reset) => BGe(BSub(qp.reset, acc.reset), DAY_SECS),
         [old |-> acc.reset, new |-> qp.reset])
  \* ... measured between the moments at which resets happen, whatever stamp the program stores for them
  /\ Chk("C15", "c_reset_events_24h_apart", line,
         (acc.haveAt /\ C15ResetEvent(acc, pre, e, post)) => BGe(BSub(now, acc.at), DAY_SECS),
         [previous_reset_at |-> acc.at, now |-> now])
  /\ (e.ev = "panic_unpause_perm" /\ Plain(e.a)) =>
       Chk("C15", "d_expired_pause_can_be_cleared_by_anyone", line,
           (PFlag(pp) /\ BGe(now, BAdd(pp.start, PAUSE_SECS))) => Ok(e), [err |-> e.err])
  /\ (e.ev = "panic_unpause" /\ Plain(e.a)) =>
       Chk("C15", "e_admin_unpause_never_fails_while_flag_set", line, PFlag(pp) => Ok(e), [err |-> e.err])
  /\ (e.ev \in {"panic_unpause", "panic_unpause_perm"} /\ Ok(e)) =>
       Chk("C15", "unpause_clears_flag", line, ~PFlag(qp), [x |-> 0])
  /\ (e.ev \in FinancialOps /\ ~Ok(e) /\ e.err = "ProtocolPaused") =>
       LET g == GroupOfAction(pre, e.a) IN
       Chk("C15", "d_blocked_only_while_pause_in_force", line,
           g # "none" /\ Has(pre.groups, g) /\ InForce(pre.groups[g].panic_cache, now), [group |-> g, now |-> now])
  \* ... judged on the protocol's own pauses, not on the group's copy: a user is held for "protocol paused" only within 30 minutes
  \* of the start of some protocol-wide pause (a copy that was stamped later than the pause it copies would hold users longer)
  /\ (e.ev \in FinancialOps /\ ~Ok(e) /\ e.err = "ProtocolPaused") =>
       LET ls == C15LastStart(acc, pp) IN
       Chk("C15", "d_held_only_within_30min_of_a_protocol_pause_start", line,
           ls.have /\ BLt(now, BAdd(ls.s, PAUSE_SECS)), [now |-> now, last_pause_start |-> ls.s])
  /\ (e.ev = "propagate_fee" /\ Ok(e) /\ Has(e.a, "group") /\ Has(post.groups, e.a.group) /\ PFlag(post.groups[e.a.group].panic_cache)) =>
       LET ls == C15LastStart(acc, qp) IN
       Chk("C15", "propagation_never_stamps_a_pause_later_than_it_started", line,
           ls.have /\ BLe(post.groups[e.a.group].panic_cache.start, ls.s), [group |-> e.a.group, cache_start |-> post.groups[e.a.group].panic_cache.start])

\* pause half of C14: while the (cached) pause is in force every financial instruction is refused
C14Pause(pre, e, post, line) ==
  /\ (e.ev \in FinancialOps) =>
       LET g == GroupOfAction(pre, e.a) IN
       /\ (g # "none" /\ Has(pre.groups, g) /\ InForce(pre.groups[g].panic_cache, post.clock.ts)) =>
            Chk("C14", "refused_while_paused", line, ~Ok(e), [op |-> e.ev, group |-> g])
       \* ... and accepted again as soon as the pause has run out, whether or not anybody refreshed the group's copy
       /\ (~Ok(e) /\ e.err = "ProtocolPaused") =>
            Chk("C14", "not_refused_for_pause_once_it_ran_out", line,
                g # "none" /\ Has(pre.groups, g) /\ InForce(pre.groups[g].panic_cache, post.clock.ts), [op |-> e.ev, group |-> g])
  \* the pause "in force for a group" is the protocol-wide one: propagation hands the group an exact copy of it
  /\ (e.ev = "propagate_fee" /\ Ok(e) /\ Has(e.a, "group") /\ Has(post.groups, e.a.group)) =>
       Chk("C14", "group_receives_an_exact_copy_of_the_protocol_pause", line,
           /\ post.groups[e.a.group].panic_cache.flags = post.fee.panic.flags
           /\ post.groups[e.a.group].panic_cache.start = post.fee.panic.start,
           [group |-> e.a.group, cache_start |-> post.groups[e.a.group].panic_cache.start, global_start |-> post.fee.panic.start])
=============================================================================
