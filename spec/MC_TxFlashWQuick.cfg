SPECIFICATION Spec
CONSTANTS
  Alphabet <- FlashWAlphabet
  MaxLen = 3
  NeedOneOf <- NeedSflW
CHECK_DEADLOCK FALSE
