------------------------------- MODULE Config -------------------------------
(***************************************************************************)
(* C13, entry paths of bank configuration.  One bank of the authorization  *)
(* world (projected initial state) is re-configured through every path     *)
(* that writes weights or e-mode entries: full configure with any subset   *)
(* of {initial, maintenance liability weight, asset weights, risk tier,    *)
(* oracle max age}, e-mode configure with entry sets, e-mode clone from a  *)
(* second bank.  The model accepts a request iff the configuration it      *)
(* would leave satisfies the reference validity predicate (ConfigValid of  *)
(* PropsRisk) as a whole - whatever was or was not part of the request -   *)
(* and keeps the accepted configuration as its state, so sequences such as *)
(* "entries first, then only the maintenance liability weight" are         *)
(* explored.  Weights are dyadic rationals (exact in I80F48) chosen on both *)
(* sides of the leverage caps.  Every transition is checked against C13    *)
(* and emitted for replay.                                                 *)
(***************************************************************************)
EXTENDS Impl, PropsAdmin, IOUtils

CONSTANTS BankN,       \* the bank under configuration
          FromN,       \* the bank e-mode settings are cloned from
          MaxDepth
VARIABLES st, sid, depth
vars == <<st, sid, depth>>

InitState == JsonDeserialize(IOEnv.INIT_STATE)
Fx(n, d) == BFloorDiv(BMul(BOfInt(n), TWO48), BOfInt(d))

\* ---- request alphabets -------------------------------------------------------------------------
LwInit == {Fx(33, 32), Fx(17, 16), Fx(5, 4)}
LwMaint == {Fx(1, 1), Fx(33, 32), Fx(17, 16), Fx(9, 8)}
Patches ==
  {[lw_maint |-> x] : x \in LwMaint} \cup {[lw_init |-> y] : y \in LwInit}
  \cup {[lw_init |-> Fx(5, 4), lw_maint |-> x] : x \in {Fx(33, 32), Fx(9, 8)}}
  \cup {[risk_tier |-> 1], [risk_tier |-> 1, aw_init |-> BZero, aw_maint |-> BZero], [risk_tier |-> 0],
        [oracle_max_age |-> 5], [oracle_max_age |-> 10],
        [aw_init |-> Fx(15, 16), aw_maint |-> Fx(7, 8)], [aw_init |-> Fx(7, 8), aw_maint |-> Fx(15, 16)], [aw_maint |-> Fx(33, 16)],
        \* limits travel with the weights in the same request: they have no bearing on what is a coherent configuration
        [borrow_limit |-> BZero], [borrow_limit |-> BZero, lw_maint |-> Fx(1, 2)], [borrow_limit |-> BZero, lw_init |-> Fx(5, 4), lw_maint |-> Fx(7, 4)],
        [borrow_limit |-> BOfInt(1000000), lw_maint |-> Fx(1, 2)], [deposit_limit |-> BZero, aw_init |-> Fx(9, 8)],
        [borrow_limit |-> BZero, lw_init |-> Fx(17, 16), lw_maint |-> Fx(33, 32)]}
Ent(t, i, m) == [tag |-> t, flags |-> 0, init |-> i, maint |-> m]
EntrySets ==
  {<<>>,
   <<Ent(5, Fx(15, 16), Fx(1, 1))>>,
   <<Ent(5, Fx(1, 2), Fx(1, 2))>>,
   <<Ent(5, Fx(1, 1), Fx(17, 16))>>,
   <<Ent(5, Fx(15, 16), Fx(7, 8))>>,
   <<Ent(5, Fx(1, 2), Fx(1, 2)), Ent(7, Fx(15, 16), Fx(1, 1))>>,
   <<Ent(5, Fx(1, 2), Fx(1, 2)), Ent(5, Fx(1, 4), Fx(1, 4))>>}
EmptyEnt == Ent(0, BZero, BZero)
Slots(ents) == [i \in 1..10 |-> IF i <= Len(ents) THEN ents[i] ELSE EmptyEnt]

\* ---- the would-be configuration and its validity -----------------------------------------------
B == st.banks[BankN]
G == st.groups[B.group]
Has2(p, f) == f \in DOMAIN p
Patched(b, p) ==
  [b EXCEPT !.cfg = [@ EXCEPT !.lw_init = IF Has2(p, "lw_init") THEN p.lw_init ELSE @,
                              !.lw_maint = IF Has2(p, "lw_maint") THEN p.lw_maint ELSE @,
                              !.aw_init = IF Has2(p, "aw_init") THEN p.aw_init ELSE @,
                              !.aw_maint = IF Has2(p, "aw_maint") THEN p.aw_maint ELSE @,
                              !.risk_tier = IF Has2(p, "risk_tier") THEN p.risk_tier ELSE @,
                              !.borrow_limit = IF Has2(p, "borrow_limit") THEN p.borrow_limit ELSE @,
                              !.deposit_limit = IF Has2(p, "deposit_limit") THEN p.deposit_limit ELSE @,
                              !.oracle_max_age = IF Has2(p, "oracle_max_age") THEN p.oracle_max_age ELSE @]]
WithEntries(b, slots) == [b EXCEPT !.emode = [@ EXCEPT !.entries = slots]]
AllValid(b) == LET v == ConfigValid(b, G) IN v.weights /\ v.isolated /\ v.age /\ v.curve /\ v.emode

Ev(a, r) == [ev |-> a.op, a |-> a, amt |-> BZero, res |-> IF r = "ok" THEN "ok" ELSE "err", err |-> IF r = "ok" THEN "" ELSE r]
ObsCfg(b) == [cfg |-> [lw_init |-> b.cfg.lw_init, lw_maint |-> b.cfg.lw_maint, aw_init |-> b.cfg.aw_init, aw_maint |-> b.cfg.aw_maint,
                       risk_tier |-> b.cfg.risk_tier, oracle_max_age |-> b.cfg.oracle_max_age,
                       borrow_limit |-> b.cfg.borrow_limit, deposit_limit |-> b.cfg.deposit_limit]]
Do(a, r, post) ==
  LET e == Ev(a, r) IN
  /\ st' = post /\ depth' = depth + 1
  /\ C13(st, e, post, 0) = TRUE
  /\ sid' = TLCGet(1)
  /\ TLCSet(1, TLCGet(1) + 1)
  /\ PrintT("EDGE " \o ToString(sid) \o " " \o ToString(TLCGet(1) - 1) \o " " \o
            ToJson(a @@ [exp |-> r] @@ (IF r = "ok" THEN [obs |-> [banks |-> [b \in {BankN} |-> ObsCfg(post.banks[b])]]] ELSE <<>>)))

CfgBank(p) ==
  LET a == [op |-> "configure_bank", bank |-> BankN, cfg |-> p]
      b2 == Patched(B, p)
  IN IF AllValid(b2) THEN Do(a, "ok", [st EXCEPT !.banks[BankN] = b2]) ELSE Do(a, "err", st)
CfgEmode(ents) ==
  LET a == [op |-> "configure_emode", bank |-> BankN, tag |-> B.emode.tag, entries |-> ents]
      b2 == WithEntries(B, Slots(ents))
  IN IF AllValid(b2) THEN Do(a, "ok", [st EXCEPT !.banks[BankN] = b2]) ELSE Do(a, "err", st)
CloneEmode ==
  LET a == [op |-> "clone_emode", from |-> FromN, to |-> BankN]
      b2 == [B EXCEPT !.emode = [@ EXCEPT !.entries = st.banks[FromN].emode.entries, !.tag = st.banks[FromN].emode.tag]]
  IN IF AllValid(b2) THEN Do(a, "ok", [st EXCEPT !.banks[BankN] = b2]) ELSE Do(a, "err", st)

Init == st = InitState /\ sid = 0 /\ depth = 0 /\ TLCSet(1, 1)
Next ==
  /\ depth < MaxDepth
  /\ \/ \E p \in Patches : CfgBank(p)
     \/ \E es \in EntrySets : CfgEmode(es)
     \/ CloneEmode
Spec == Init /\ [][Next]_vars
View == <<[cfg |-> ObsCfg(B), ents |-> B.emode.entries, tag |-> B.emode.tag], depth>>
=============================================================================
