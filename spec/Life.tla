-------------------------------- MODULE Life --------------------------------
(***************************************************************************)
(* Account life cycle on top of the ledger (C16, C02; feeds C07, C08):     *)
(* closing an account, moving it to a new account under the same           *)
(* authority, and everything the ledger offers in between - so TLC walks   *)
(* through "collateral seized completely, debt left, close / move /        *)
(* settle", "bankrupt, then move, then close", "emptied by withdraw-all,   *)
(* then close", ... in every order up to the depth bound.  close_account   *)
(* is refused unless every balance slot is empty on both sides and the     *)
(* account is neither frozen, disabled, in a flash loan nor in             *)
(* receivership (MarginfiAccount::can_be_closed, close.rs); a transfer     *)
(* copies positions and flags to the new account, empties and disables     *)
(* the old one, once (transfer_account.rs).  A moved account keeps being   *)
(* exercised under its new name (withdraw-all, repay-all, close).          *)
(***************************************************************************)
EXTENDS Ledger

CONSTANTS LifeAccts     \* accounts offered to close_account / transfer_account

IEMPTY == IONE    \* IC_EMPTY_BALANCE_THRESHOLD, emitted from the program's constant by the consts stage
SideNone(s) == BLt(s.a, IEMPTY) /\ BLt(s.l, IEMPTY)
AddBitL(flags, b) == IF Bit(flags, b) THEN flags ELSE SortSeq(Append(flags, b), LAMBDA x, y : x < y)
MovedAccts == {x \in DOMAIN st.accts : st.accts[x].mig_from # "none"}

CloseAccount(an) ==
  LET a == [op |-> "close_account", acct |-> an] ac == st.accts[an] IN
  IF Bit(ac.flags, ACC_FROZEN) THEN Fail(a, "AccountFrozen")
  ELSE IF Bit(ac.flags, ACC_DISABLED) \/ Bit(ac.flags, ACC_FLASHLOAN) \/ Bit(ac.flags, ACC_RECEIVERSHIP)
          \/ ~(\A i \in DOMAIN ac.bal : ac.bal[i].act = 0 \/ SideNone(ac.bal[i])) THEN Fail(a, "IllegalAction")
  ELSE Do(a, "ok", [st EXCEPT !.accts = [x \in (DOMAIN @) \ {an} |-> @[x]]], <<>>)

Transfer(an) ==
  LET nm == "N." \o an \o "." \o ToString(depth)
      old == st.accts[an]
      a == [op |-> "transfer_account", acct |-> an, new_acct |-> nm, new_authority |-> old.auth]
  IN IF Bit(old.flags, ACC_FLASHLOAN) THEN Fail(a, "AccountInFlashloan")
     ELSE IF Bit(old.flags, ACC_RECEIVERSHIP) THEN Fail(a, "ForbiddenIx")
     ELSE IF old.mig_to # "none" THEN Fail(a, "AccountAlreadyMigrated")
     ELSE LET new == [old EXCEPT !.mig_from = an, !.mig_to = "none", !.liq_rec = "none"]
              src == [old EXCEPT !.mig_to = nm, !.flags = AddBitL(old.flags, ACC_DISABLED),
                                 !.bal = [k \in DOMAIN old.bal |-> [act |-> 0, clean |-> TRUE]]]
              post == [st EXCEPT !.accts = (nm :> new) @@ [@ EXCEPT ![an] = src]]
          IN Do(a, "ok", post,
                [accts |-> (nm :> [auth |-> old.auth, group |-> old.group, mig_from |-> an, mig_to |-> "none", flags |-> old.flags,
                                   bal |-> [i \in DOMAIN old.bal |-> ObsSlot(old.bal[i])]])
                           @@ (an :> [mig_to |-> nm, flags |-> AddBitL(old.flags, ACC_DISABLED), bal |-> [k \in DOMAIN old.bal |-> [act |-> 0]]])])

NextL ==
  \/ Next
  \/ /\ depth < MaxDepth
     /\ \/ \E an \in (LifeAccts \cap DOMAIN st.accts) \cup MovedAccts : CloseAccount(an) \/ Transfer(an)
        \/ \E an \in MovedAccts, bn \in BankNames : Withdraw(an, bn, 0, TRUE) \/ Repay(an, bn, 0, TRUE) \/ CloseBalance(an, bn)
SpecL == Init /\ [][NextL]_vars
=============================================================================
