------------------------------- MODULE Integ -------------------------------
(***************************************************************************)
(* C20: the conversion functions of type-crate/price.rs and of the Kamino, *)
(* Solend and Drift mocks crates, transcribed with exact integers, applied *)
(* to operand tuples from overflow-boundary alphabets; the laws of the     *)
(* property are checked on the transcription, and every tuple is replayed  *)
(* through the real functions with the predicted result compared.          *)
(***************************************************************************)
EXTENDS Impl, PropsInteg

VARIABLES phase, sid
vars == <<phase, sid>>

P2(n) == BPow2(n)
AU == {BZero, BOne, BOfInt(2), BOfInt(999), BOfInt(1000000), BSub(P2(32), BOne), BAdd(P2(32), BOne), BSub(P2(63), BOne), BAdd(P2(63), BOne),
       BSub(P2(64), BOfInt(2)), BSub(P2(64), BOne), BPow10(18)}
AI == {BNeg(BOne), BNeg(P2(63)), BZero, BOne, BOfInt(1000000), BSub(P2(63), BOne), BPow10(15)}
\* I80F48 values (raw bits): 0, 1 ulp, 1/3, 1, 3/2, 10^6, 2^40, 2^70, max
AF == {BZero, BOne, BTruncDiv(FOne, BOfInt(3)), FOne, BAdd(FOne, BShr(FOne, 1)), FOfBig(BPow10(6)), FOfBig(P2(40)), FOfBig(P2(30)), BSub(P2(127), BOne)}
ACum == {BZero, BOne, BPow10(10), BAdd(BPow10(10), BPow10(9)), P2(64), BSub(P2(127), BOne)}
ADec == {0, 6, 9, 19, 20}
AI80 == {BNeg(BAdd(P2(79), BOne)), BNeg(P2(79)), BNeg(BOne), BZero, BOne, BSub(P2(79), BOne), P2(79), BSub(P2(80), BOne), P2(80)}
AU2 == {BZero, BOne, BOfInt(1000000), BSub(P2(64), BOne)}
\* U68F60 bit patterns: 0, 1 ulp, just below/at 2^12 (the dropped bits), 1.0, 10^6, 2^66, near the top of the 127 bits the harness can pass
ASF == {BZero, BOne, BSub(P2(12), BOne), P2(12), P2(60), BMul(BPow10(6), P2(60)), P2(126), BSub(P2(127), BOne)}
ASF2 == {BZero, BOne, BSub(P2(12), BOne), P2(60), BMul(BOfInt(3), P2(59))}
\* 10^18-scaled decimals (u128; its integer part can never reach the 2^79 limit the function guards against): 0, 1 wei,
\* just below 1.0, 1.0, 1.5, 10^12 tokens, the largest value the harness can pass
AWAD == {BZero, BOne, BSub(BPow10(18), BOne), BPow10(18), BMul(BOfInt(15), BPow10(17)), BPow10(30), BSub(P2(127), BOne)}

N(x) == IF x = None THEN [def |-> FALSE] ELSE [def |-> TRUE, v |-> x]
FMulC(a, b) == IF a = None \/ b = None THEN None ELSE FChk(BShr(BMul(a, b), 48))
FDivC(a, b) == IF a = None \/ b = None THEN None ELSE IF BIsZero(b) THEN None ELSE FChk(BTruncDiv(BShl(a, 48), b))
ToRange(x, lo, hi) == IF x = None THEN None ELSE LET f == BShr(x, 48) IN IF BLt(f, lo) \/ BGt(f, hi) THEN None ELSE f
ImplC2L(c, liq, col) == IF BIsZero(col) THEN None ELSE ToRange(FDivC(FMulC(BShl(c, 48), liq), col), BZero, U64MX)
ImplL2C(l, liq, col) == IF BIsZero(liq) THEN None ELSE ToRange(FDivC(FMulC(BShl(l, 48), col), liq), BZero, U64MX)
ImplAdjI64(r, ratio) == IF BLt(r, I64MIN) \/ BGt(r, I64MAX) THEN None ELSE ToRange(FMulC(BShl(r, 48), ratio), I64MIN, I64MAX)
ImplAdjU64(r, ratio) == ToRange(FMulC(BShl(r, 48), ratio), BZero, U64MX)
ImplAdjI128(r, ratio) ==
  IF BLt(r, BNeg(P2(79))) \/ BGt(r, BSub(P2(79), BOne)) THEN None ELSE ToRange(FMulC(BShl(r, 48), ratio), BNeg(P2(127)), BSub(P2(127), BOne))
ImplRatio(liq, col) == IF BIsZero(col) THEN None ELSE FDivC(liq, col)
ImplAdjSup(p, liq, col) == LET r == ImplRatio(liq, col) IN IF r = None THEN None ELSE ImplAdjI64(p, r)
\* kamino / solend: supplies scaled by 10^decimals, then the same conversion
ImplScaled(avail, supply, dec) ==
  IF dec > 23 THEN None ELSE <<FDivC(BShl(avail, 48), IC_EXP_10[dec + 1]), FDivC(BShl(supply, 48), IC_EXP_10[dec + 1])>>
ImplResC2L(c, avail, supply, dec) == LET s == ImplScaled(avail, supply, dec) IN IF s = None \/ s[1] = None \/ s[2] = None THEN None ELSE ImplC2L(c, s[1], s[2])
ImplResL2C(l, avail, supply, dec) == LET s == ImplScaled(avail, supply, dec) IN IF s = None \/ s[1] = None \/ s[2] = None THEN None ELSE ImplL2C(l, s[1], s[2])
U128MX == BSub(P2(128), BOne)
ImplDriftBal(a, cum, dec, up) ==
  IF dec > 19 THEN None
  ELSE LET m == BMul(a, BPow10(19 - dec)) IN
       IF BGt(m, U128MX) \/ BIsZero(cum) THEN None
       ELSE LET q == BFloorDiv(m, cum) IN
            IF BGt(q, U64MX) THEN None
            ELSE IF up /\ ~BIsZero(q) THEN (IF BGe(q, U64MX) THEN None ELSE BAdd(q, BOne)) ELSE q
ImplDriftWd(sb, cum, dec) ==
  IF dec > 19 THEN None
  ELSE LET m == BMul(sb, cum) IN
       IF BGt(m, U128MX) THEN None ELSE LET q == BFloorDiv(m, BPow10(19 - dec)) IN IF BGt(q, U64MX) THEN None ELSE q
ImplDriftAdj(raw, cum, lo, hi) ==
  IF BIsNeg(raw) THEN None
  ELSE LET m == BMul(raw, cum) IN IF BGt(m, U128MX) THEN None ELSE LET q == BFloorDiv(m, PREC10) IN IF BGt(q, hi) THEN None ELSE q

Emit(f, a, res, a2, res2) ==
  LET act0 == [op |-> "integ", fn |-> f, args |-> a]
      act == IF a2 = <<>> THEN act0 ELSE act0 @@ [args2 |-> a2]
      out == IF a2 = <<>> THEN [r |-> N(res)] ELSE [r |-> N(res), r2 |-> N(res2)]
      e == [ev |-> "integ", a |-> act, res |-> "ok", err |-> "", out |-> out]
  IN /\ phase' = "sink"
     /\ C20(<<>>, e, <<>>, 0) = TRUE
     /\ sid' = TLCGet(1)
     /\ TLCSet(1, TLCGet(1) + 1)
     /\ PrintT("EDGE " \o ToString(sid) \o " " \o ToString(TLCGet(1) - 1) \o " " \o ToJson(act @@ [exp |-> "ok", obs |-> [out |-> out]]))
EmitStale(f, a, b) ==
  LET act == [op |-> "integ", fn |-> f, args |-> a]
      out == [r |-> [def |-> TRUE, b |-> b]]
      e == [ev |-> "integ", a |-> act, res |-> "ok", err |-> "", out |-> out]
  IN /\ phase' = "sink"
     /\ C20(<<>>, e, <<>>, 0) = TRUE
     /\ sid' = TLCGet(1)
     /\ TLCSet(1, TLCGet(1) + 1)
     /\ PrintT("EDGE " \o ToString(sid) \o " " \o ToString(TLCGet(1) - 1) \o " " \o ToJson(act @@ [exp |-> "ok", obs |-> [out |-> out]]))

RoundTrip(l, liq, col) == LET c == ImplL2C(l, liq, col) IN IF c = None THEN None ELSE ImplC2L(c, liq, col)
Init == phase = "root" /\ sid = 0 /\ TLCSet(1, 1)
Next ==
  /\ phase = "root"
  /\ \/ \E c \in AU, liq \in AF, col \in AF :
          \/ Emit("ty.c2l", <<c, liq, col>>, ImplC2L(c, liq, col), <<>>, None)
          \/ Emit("ty.l2c", <<c, liq, col>>, ImplL2C(c, liq, col), <<>>, None)
          \/ Emit("ty.roundtrip", <<c, liq, col>>, RoundTrip(c, liq, col), <<>>, None)
     \/ \E r \in AI, r2 \in AI, ratio \in AF, ratio2 \in AF :
          /\ BLe(r, r2) /\ BLe(ratio, ratio2) /\ ~BIsNeg(r)
          /\ \/ Emit("ty.adj_i64", <<r, ratio>>, ImplAdjI64(r, ratio), <<r2, ratio2>>, ImplAdjI64(r2, ratio2))
             \/ Emit("ty.adj_i128", <<r, ratio>>, ImplAdjI128(r, ratio), <<r2, ratio2>>, ImplAdjI128(r2, ratio2))
     \/ \E r \in AI, ratio \in AF : BIsNeg(r) /\ Emit("ty.adj_i64", <<r, ratio>>, ImplAdjI64(r, ratio), <<>>, None)
     \* the 80-bit integer range of I80F48 itself, from both sides
     \/ \E r \in AI80, r2 \in AI80, ratio \in {BOne, FOne, BAdd(FOne, BShr(FOne, 1))} :
          /\ BLe(r, r2) /\ ~BIsNeg(r)
          /\ Emit("ty.adj_i128", <<r, ratio>>, ImplAdjI128(r, ratio), <<r2, ratio>>, ImplAdjI128(r2, ratio))
     \/ \E r \in AI80, ratio \in {BOne, FOne} : BIsNeg(r) /\ Emit("ty.adj_i128", <<r, ratio>>, ImplAdjI128(r, ratio), <<>>, None)
     \* composition of the reserves' total supply
     \/ \E x \in ASF : Emit("kamino.sf", <<x>>, BFloorDiv(x, BPow2(12)), <<>>, None)
     \/ \E av \in AU2, bo \in ASF, pf \in ASF2, rf \in ASF2, pr \in ASF2 :
          LET a == <<av, bo, pf, rf, pr>> bits == KaminoTotalBits(a) IN
          Emit("kamino.total", a, IF InI80(bits) THEN bits ELSE None, <<>>, None)
     \/ \E x \in AWAD : Emit("solend.wad", <<x>>, IF WadDefined(x) THEN WadBits(x) ELSE None, <<>>, None)
     \/ \E av \in AU2, bo \in AWAD, pf \in AWAD :
          LET a == <<av, bo, pf>> bits == SolendTotalBits(a) IN
          Emit("solend.total", a, IF WadDefined(bo) /\ WadDefined(pf) /\ InI80(bits) THEN bits ELSE None, <<>>, None)
     \/ \E r \in AU, ratio \in AF : Emit("ty.adj_u64", <<r, ratio>>, ImplAdjU64(r, ratio), <<>>, None)
     \/ \E p \in AI, liq \in AF, col \in AF : ~BIsNeg(p) /\ Emit("ty.adj_sup_i64", <<p, liq, col>>, ImplAdjSup(p, liq, col), <<>>, None)
     \/ \E c \in AU, av \in AU, sup \in AU, d \in {0, 6, 9, 19, 23} :
          \/ Emit("kamino.c2l", <<c, av, sup, BOfInt(d)>>, ImplResC2L(c, av, sup, d), <<>>, None)
          \/ Emit("solend.l2c", <<c, av, sup, BOfInt(d)>>, ImplResL2C(c, av, sup, d), <<>>, None)
          \/ Emit("kamino.roundtrip", <<c, av, sup, BOfInt(d)>>,
                  LET x == ImplResL2C(c, av, sup, d) IN IF x = None THEN None ELSE ImplResC2L(x, av, sup, d), <<>>, None)
     \/ \E a \in AU, cum \in ACum, d \in ADec :
          \/ Emit("drift.inc", <<a, cum, BOfInt(d)>>, ImplDriftBal(a, cum, d, FALSE), <<>>, None)
          \/ Emit("drift.dec", <<a, cum, BOfInt(d)>>, ImplDriftBal(a, cum, d, TRUE), <<>>, None)
          \/ Emit("drift.wd", <<a, cum, BOfInt(d)>>, ImplDriftWd(a, cum, d), <<>>, None)
     \/ \E p \in AI, cum \in ACum :
          \/ Emit("drift.adj_i64", <<p, cum>>, ImplDriftAdj(p, cum, I64MIN, I64MAX), <<>>, None)
          \/ Emit("drift.adj_i128", <<p, cum>>, ImplDriftAdj(p, cum, BNeg(P2(127)), BSub(P2(127), BOne)), <<>>, None)
     \/ \E s \in {BZero, BOne, BOfInt(7)}, t \in {BZero, BOne, BOfInt(7), BOfInt(8)} :
          \/ EmitStale("kamino.stale", <<s, t>>, BLt(s, t)) \/ EmitStale("solend.stale", <<s, t>>, BLt(s, t)) \/ EmitStale("drift.stale", <<s, t>>, BLt(s, t))
Spec == Init /\ [][Next]_vars
=============================================================================
