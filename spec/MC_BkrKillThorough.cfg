SPECIFICATION SpecB
CONSTANTS
  Accts = {"A1", "A2", "A3"}
  BankNames = {"B1", "B2"}
  Amounts = {40000000}
  Ticks = {}
  LiqTriples <- BqNone
  Prices <- BqPricesK
  BkCases <- BqLiq
  BkrSigners = {"admin", "riskadmin", "U2"}
  BkrBanks <- BqBanks
  InsLevels = {1, 990000000}
  OptIns = {TRUE, FALSE}
  After <- BqAfter
  BkrStates = {0, 1, 2, 3}
  MaxDepth = 5
VIEW ViewB
CHECK_DEADLOCK FALSE
