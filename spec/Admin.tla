------------------------------- MODULE Admin -------------------------------
(***************************************************************************)
(* C12: the bank flag word and the frozen-settings rule under the          *)
(* delegated-admin instructions.  One bank of the authorization world      *)
(* (projected initial state), actions: setup / update emissions with       *)
(* arbitrary flag words, configure_bank (freeze, permissionless bad debt,  *)
(* tokenless repayments, a weight and a limit), limits-only, interest-only,*)
(* forced tokenless-repay-complete.  TLC explores all sequences to a       *)
(* bounded depth, checks C12 on each transition and emits them for replay. *)
(***************************************************************************)
EXTENDS Impl, PropsAdmin, IOUtils

CONSTANTS BankN, MaxDepth
VARIABLES st, sid, depth
vars == <<st, sid, depth>>

InitState == JsonDeserialize(IOEnv.INIT_STATE)
Words == {{}, {0}, {1}, {0, 1}, {2}, {3}, {4}, {1, 3}, {0, 6}, {63}}
RECURSIVE SetToSortedSeq(_)
SetToSortedSeq(S) == IF S = {} THEN <<>> ELSE LET m == CHOOSE x \in S : \A y \in S : x <= y IN <<m>> \o SetToSortedSeq(S \ {m})
RECURSIVE WordBig(_)
WordBig(S) == IF S = {} THEN BZero ELSE LET m == CHOOSE x \in S : TRUE IN BAdd(BPow2(m), WordBig(S \ {m}))
FlagSet(b) == SeqToSet(b.flags)
WithFlags(b, S) == [b EXCEPT !.flags = SetToSortedSeq(S)]
EmisBits == {0, 1}
GroupBits == {2, 3, 5, 6}

Ev(a, r) == [ev |-> a.op, a |-> a, amt |-> BZero, res |-> IF r = "ok" THEN "ok" ELSE "err", err |-> IF r = "ok" THEN "" ELSE r]
Do(a, r, post) ==
  LET e == Ev(a, r) IN
  /\ st' = post /\ depth' = depth + 1
  /\ (C12(st, e, post, C12Acc0, 0) /\ C13(st, e, post, 0)) = TRUE
  /\ sid' = TLCGet(1)
  /\ TLCSet(1, TLCGet(1) + 1)
  /\ PrintT("EDGE " \o ToString(sid) \o " " \o ToString(TLCGet(1) - 1) \o " " \o
            ToJson(a @@ [exp |-> r] @@ (IF r = "ok" THEN [obs |-> [banks |-> [b \in {BankN} |->
                 [flags |-> post.banks[b].flags, emis_rate |-> post.banks[b].emis_rate, emis_mint |-> post.banks[b].emis_mint,
                  cfg |-> [deposit_limit |-> post.banks[b].cfg.deposit_limit, init_limit |-> post.banks[b].cfg.init_limit,
                           aw_init |-> post.banks[b].cfg.aw_init, op_state |-> post.banks[b].cfg.op_state]]]]] ELSE <<>>)))
Fail(a, err) == Do(a, err, st)
B == st.banks[BankN]
Frozen == Bit(B.flags, BANK_FREEZE)

SetupEmissions(w) ==
  LET a == [op |-> "setup_emissions", bank |-> BankN, mint |-> "ME", flags |-> WordBig(w), rate |-> 7, total |-> 1000] IN
  IF B.emis_mint # "none" THEN Fail(a, "A0")      \* the emissions vault PDA already exists: `init` fails in the system program
  ELSE IF ~(w \subseteq EmisBits) THEN Fail(a, "panic")
  ELSE LET b2 == [WithFlags(B, (FlagSet(B) \ EmisBits) \cup w) EXCEPT !.emis_mint = "ME", !.emis_rate = BOfInt(7), !.emis_rem = FOfInt(1000)]
           vault == BankN \o ".emis_vault.ME"
           src == "emisadmin.ME"
           tok2 == [t \in (DOMAIN st.tok) \cup {vault} |->
                      IF t = vault THEN [mint |-> "ME", owner |-> BankN \o ".emis_auth.ME", amount |-> BOfInt(1000), withheld |-> BZero]
                      ELSE IF t = src THEN [st.tok[t] EXCEPT !.amount = BSub(@, BOfInt(1000))] ELSE st.tok[t]]
       IN Do(a, "ok", [st EXCEPT !.banks[BankN] = b2, !.tok = tok2])
UpdateEmissions(w) ==
  LET a == [op |-> "update_emissions", bank |-> BankN, mint |-> "ME", flags |-> WordBig(w)] IN
  IF B.emis_mint = "none" THEN Fail(a, "A3012")
  ELSE IF ~(w \subseteq EmisBits) THEN Fail(a, "EmissionsUpdateError")
  ELSE Do(a, "ok", [st EXCEPT !.banks[BankN] = WithFlags(B, (FlagSet(B) \ EmisBits) \cup w)])
SetBit(S, bit, v) == IF v THEN S \cup {bit} ELSE S \ {bit}
ConfigureBank(fr, pm, tk, lim) ==
  LET cfg == [deposit_limit |-> lim] @@ (IF fr = "none" THEN <<>> ELSE [freeze |-> fr = "t"])
             @@ (IF pm = "none" THEN <<>> ELSE [permissionless_bad_debt |-> pm = "t"])
             @@ (IF tk = "none" THEN <<>> ELSE [tokenless_allowed |-> tk = "t"]) @@ [aw_init |-> "1/4"]
      a == [op |-> "configure_bank", bank |-> BankN, cfg |-> cfg]
  IN IF Frozen THEN Do(a, "ok", [st EXCEPT !.banks[BankN].cfg.deposit_limit = BOfInt(lim)])
     ELSE LET s1 == IF pm = "none" THEN FlagSet(B) ELSE SetBit(FlagSet(B), BANK_PERMISSIONLESS_BAD_DEBT, pm = "t")
              s2 == IF fr = "none" THEN s1 ELSE SetBit(s1, BANK_FREEZE, fr = "t")
              s3 == IF tk = "none" THEN s2 ELSE SetBit(s2, BANK_TOKENLESS_ALLOWED, tk = "t")
              b2 == [WithFlags(B, s3) EXCEPT !.cfg.deposit_limit = BOfInt(lim), !.cfg.aw_init = FDiv(FOfInt(1), FOfInt(4))]
          IN Do(a, "ok", [st EXCEPT !.banks[BankN] = b2])
ConfigureLimits(lim) ==
  LET a == [op |-> "configure_limits", bank |-> BankN, deposit_limit |-> lim, init_limit |-> lim + 1] IN
  Do(a, "ok", IF Frozen THEN [st EXCEPT !.banks[BankN].cfg.deposit_limit = BOfInt(lim)]
              ELSE [st EXCEPT !.banks[BankN].cfg.deposit_limit = BOfInt(lim), !.banks[BankN].cfg.init_limit = BOfInt(lim + 1)])
TokenlessComplete ==
  LET a == [op |-> "tokenless_complete", bank |-> BankN] IN
  Do(a, "ok", IF Bit(B.flags, BANK_TOKENLESS_ALLOWED) THEN [st EXCEPT !.banks[BankN] = WithFlags(B, FlagSet(B) \cup {BANK_TOKENLESS_COMPLETE})] ELSE st)

Init == st = InitState /\ sid = 0 /\ depth = 0 /\ TLCSet(1, 1)
Next ==
  /\ depth < MaxDepth
  /\ \/ \E w \in Words : SetupEmissions(w) \/ UpdateEmissions(w)
     \/ \E fr \in {"none", "t", "f"}, pm \in {"none", "t"}, tk \in {"none", "t", "f"}, lim \in {12345} : ConfigureBank(fr, pm, tk, lim)
     \/ \E lim \in {777} : ConfigureLimits(lim)
     \/ TokenlessComplete
Spec == Init /\ [][Next]_vars
View == <<st.banks[BankN].flags, st.banks[BankN].emis_mint, st.banks[BankN].cfg.deposit_limit, st.banks[BankN].cfg.init_limit, st.banks[BankN].cfg.aw_init, depth>>
=============================================================================
