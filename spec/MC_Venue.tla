------------------------------ MODULE MC_Venue ------------------------------
(* Model-checking instance of Venue.tla (constants a .cfg cannot express). *)
EXTENDS Venue
NoTuples == {}
NoBanks == {}
SBankSet == {"SB1", "SB2", "SB3"}
DBankSet == {"DB1", "DB2", "DB3"}
\* cumulative deposit interest values: 11.0, 10.000000007, 30.0 (precision 10^10)
DCumSet == {<<1, 0, 11>>, <<1, 7, 10>>, <<1, 0, 30>>}
=============================================================================
