------------------------------ MODULE MC_Venue ------------------------------
(* Model-checking instance of Venue.tla (constants a .cfg cannot express). *)
EXTENDS Venue
NoTuples == {}
=============================================================================
