SPECIFICATION SpecO
CONSTANTS
  Accts = {"A1"}
  BankNames = {"B1", "B2", "B3", "B4", "B7"}
  Amounts = {1000003}
  Ticks = {3600}
  StaleTicks = {30, 3600}
  LiqTriples <- RoNone
  Prices <- RoNone
  BkCases <- RoNone
  OracleVariants <- RoOV
  SwbVariants <- RoSV
  EmodeSets <- RoNone
  RiskPatches <- RoNone
  BoundaryPairs <- RoNone
  BorrowCap = 1000000000
  RecvCases <- RoCases
  Repays = {1, 10000000}
  FixedSeizes = {1, 1000000}
  SeizeCap = 1000000001
  OpStates = {}
  MaxDepth = 4
VIEW ViewR
CHECK_DEADLOCK FALSE
