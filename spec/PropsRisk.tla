----------------------------- MODULE PropsRisk -----------------------------
(***************************************************************************)
(* Reference semantics of oracle prices and account health in exact        *)
(* rationals, and the properties that rest on them:                        *)
(*   C04 risk gate, C05 classic liquidation, C07 bankruptcy, C09 oracle    *)
(*   safety, C13 accepted configurations, C14 operational-state gating.    *)
(***************************************************************************)
EXTENDS PropsLedger

\* ---- oracle reference -----------------------------------------------------------------------
SETUP_PYTH == 3
SETUP_SWB == 4
SETUP_FIXED == 8
K_PYTH == RMake(BOfInt(53), BOfInt(25))       \* 2.12: Pyth confidence -> 95% interval
K_SWB == RMake(BOfInt(49), BOfInt(25))        \* 1.96: std-dev -> 95% interval
CAP5 == RMake(BOfInt(1), BOfInt(20))          \* confidence capped at 5% of the price
E18 == BPow10(18)
TINY == RMul(RInt(64), U)

Scale10(n, expo) == IF expo >= 0 THEN ROfBig(BMul(n, BPow10(expo))) ELSE RMake(n, BPow10(-expo))
MaxAge(b) == IF b.cfg.oracle_max_age = 0 /\ b.cfg.oracle_setup = SETUP_PYTH THEN 60 ELSE b.cfg.oracle_max_age
MaxConfRatio(b) == RMake(IF BIsZero(b.cfg.oracle_max_conf) THEN BOfInt(429496730) ELSE b.cfg.oracle_max_conf, U32MAX)

\* the account presented in oracle slot i (1-based) of bank bn: the recorded action may substitute slot 1 by name
\* (oracle_sub: "bank" -> oracle) or any slot by its 0-based index (oracle_sub_slots: "bank" -> ("0" -> .., "1" -> .., "2" -> ..))
PresentedSlot(e, bn, b, i) ==
  IF Has(e.a, "oracle_sub_slots") /\ Has(e.a.oracle_sub_slots, bn) /\ Has(e.a.oracle_sub_slots[bn], ToString(i - 1))
  THEN e.a.oracle_sub_slots[bn][ToString(i - 1)]
  ELSE IF i = 1 /\ Has(e.a, "oracle_sub") /\ Has(e.a.oracle_sub, bn) THEN e.a.oracle_sub[bn]
  ELSE b.cfg.oracle_keys[i]
PresentedOracle(e, bn, b) == PresentedSlot(e, bn, b, 1)

\* spl-single-pool collateral: SOL price x (delegated stake - 1 SOL) / LST supply, integer arithmetic on the raw Pyth price
SETUP_STAKED == 5
LAMPORTS_PER_SOL == BOfInt(1000000000)
PoolsOf(s) == IF Has(s, "pools") THEN s.pools ELSE <<>>
PoolFor(s, mint, solpool) == {pn \in DOMAIN PoolsOf(s) : s.pools[pn].mint = mint /\ s.pools[pn].sol_pool = solpool}

\* Kamino-backed collateral (setup 6): the Pyth price and confidence of the underlying token, multiplied by the reserve's
\* liquidity-per-collateral ratio.  The ratio is taken exactly as the adapter computes it (both supplies divided by
\* 10^decimals, then divided, all in I80F48; whether that ratio is faithful to the venue is C20's business), a reserve
\* that was not refreshed in the current slot makes the price unusable.
SETUP_KAMINO_PYTH == 6
ReservesOf(s) == IF Has(s, "reserves") THEN s.reserves ELSE <<>>
Shr12(x) == BFloorDiv(x, BPow2(12))
\* Solend-backed collateral (setup 11) works the same way on Solend's reserve: total = available + borrowed - fees, the two
\* 10^18-scaled components converted to I80F48 the way decimal_to_i80f48 does (integer part, then the remainder's 48 bits)
SETUP_SOLEND_PYTH == 11
SolendWadBits(w) == BAdd(BMul(BFloorDiv(w, BPow10(18)), TWO48), BFloorDiv(BMul(BMod(w, BPow10(18)), TWO48), BPow10(18)))
IsSolendReserve(r) == Has(r, "kind") /\ r.kind = "solend"
ReserveTotalBits(r) ==
  IF IsSolendReserve(r) THEN BSub(BAdd(BMul(r.avail, TWO48), SolendWadBits(r.borrowed_wads)), SolendWadBits(r.fees_wads))
  ELSE BSub(BSub(BSub(BAdd(BMul(r.avail, TWO48), Shr12(r.borrowed_sf)), Shr12(r.protocol_sf)), Shr12(r.referrer_sf)), Shr12(r.pending_sf))
TruncDiv(a, b) == IF BIsNeg(a) THEN BNeg(BFloorDiv(BNeg(a), b)) ELSE BFloorDiv(a, b)
ReserveRatioBits(r) ==
  LET sc == BPow10(r.dec)
      liqS == TruncDiv(ReserveTotalBits(r), sc)
      colS == BFloorDiv(BMul(r.supply, TWO48), sc)
  IN IF BIsZero(colS) THEN TWO48 ELSE TruncDiv(BMul(liqS, TWO48), colS)
KaminoAdj(raw, ratioBits) == BFloorDiv(BMul(raw, ratioBits), TWO48)

\* Drift-backed collateral (setup 9): Pyth price and confidence multiplied by the market's cumulative deposit interest
\* (10^10 = 1.0), integer arithmetic; a market whose interest was not brought up to the current second is unusable.
SETUP_DRIFT_PYTH == 9
MarketsOf(s) == IF Has(s, "markets") THEN s.markets ELSE <<>>
DriftAdj(raw, cum) == BFloorDiv(BMul(raw, cum), BPow10(10))
\* the Switchboard variants of the three venue-backed setups: the same exchange rate applied to the feed's 10^18-scaled
\* value and standard deviation (Kamino / Solend: through I80F48, which holds integers below 2^79 only; Drift: in u128)
SETUP_KAMINO_SWB == 7
SETUP_DRIFT_SWB == 10
SETUP_SOLEND_SWB == 12
KamLike == {SETUP_KAMINO_PYTH, SETUP_SOLEND_PYTH, SETUP_KAMINO_SWB, SETUP_SOLEND_SWB}
SolLike == {SETUP_SOLEND_PYTH, SETUP_SOLEND_SWB}
DriLike == {SETUP_DRIFT_PYTH, SETUP_DRIFT_SWB}
SwbLike == {SETUP_KAMINO_SWB, SETUP_DRIFT_SWB, SETUP_SOLEND_SWB}

\* Price record for bank bn as presented in event e at state s.  ptype in {"RT","TW"}.
\* usable in {"yes","no","maybe"} ("maybe" = within rounding of the confidence threshold: don't care)
RefPrice(s, e, bn, ptype) ==
  LET b == s.banks[bn] setup == b.cfg.oracle_setup now == s.clock.ts IN
  IF setup = SETUP_FIXED THEN [usable |-> "yes", known |-> TRUE, p |-> R(b.cfg.fixed_price), ci |-> RZero]
  ELSE IF setup \notin ({SETUP_PYTH, SETUP_SWB, SETUP_STAKED} \cup KamLike \cup DriLike) THEN [usable |-> "maybe", known |-> FALSE, p |-> RZero, ci |-> RZero]
  ELSE IF setup \in DriLike /\ ~Has(MarketsOf(s), b.cfg.oracle_keys[2]) THEN [usable |-> "maybe", known |-> FALSE, p |-> RZero, ci |-> RZero]
  ELSE IF setup \in KamLike /\ ~Has(ReservesOf(s), b.cfg.oracle_keys[2]) THEN [usable |-> "maybe", known |-> FALSE, p |-> RZero, ci |-> RZero]
  ELSE
  LET key == b.cfg.oracle_keys[1] pres == PresentedOracle(e, bn, b)
      staked == setup = SETUP_STAKED
      kam == setup \in KamLike
      dri == setup \in DriLike
      pools == IF staked THEN PoolFor(s, b.cfg.oracle_keys[2], b.cfg.oracle_keys[3]) ELSE {}
      slotsOk == /\ staked => (PresentedSlot(e, bn, b, 2) = b.cfg.oracle_keys[2] /\ PresentedSlot(e, bn, b, 3) = b.cfg.oracle_keys[3])
                 /\ (kam \/ dri) => PresentedSlot(e, bn, b, 2) = b.cfg.oracle_keys[2]
  IN
  IF pres # key \/ ~Has(s.oracles, key) \/ ~slotsOk THEN [usable |-> "no", known |-> TRUE, p |-> RZero, ci |-> RZero]
  ELSE IF staked /\ pools = {} THEN [usable |-> "maybe", known |-> FALSE, p |-> RZero, ci |-> RZero]
  ELSE
  LET o == s.oracles[key]
      pool == IF staked THEN s.pools[CHOOSE pn \in pools : TRUE] ELSE [stake |-> BZero, supply |-> BOne, state |-> "stake"]
      res == IF kam THEN s.reserves[b.cfg.oracle_keys[2]] ELSE [slot |-> BZero, owner_ok |-> TRUE]
      ratio == IF kam THEN ReserveRatioBits(res) ELSE TWO48
      mkt == IF dri THEN s.markets[b.cfg.oracle_keys[2]] ELSE [ts |-> BZero, owner_ok |-> TRUE, cum |-> BPow10(10)]
      poolOk == /\ staked => (pool.state = "stake" /\ BIsPos(pool.supply) /\ BGe(pool.stake, LAMPORTS_PER_SOL))
                \* the reserve must be the venue's account and refreshed in the current slot; a negative ratio is an arithmetic failure
                /\ kam => (res.owner_ok /\ BGe(res.slot, s.clock.slot) /\ ~BIsNeg(ratio) /\ (IsSolendReserve(res) <=> setup \in SolLike))
                \* (a 10^18-scaled feed value of 2^79 or more does not fit the fixed-point type the adjustment goes through)
                /\ (kam /\ setup \in SwbLike /\ o.kind = "swb") =>
                     (BLt(o.swb_value, BPow2(79)) /\ BLt(o.swb_std, BPow2(79))
                      /\ BLt(KaminoAdj(o.swb_value, ratio), BPow2(79)) /\ BLt(KaminoAdj(o.swb_std, ratio), BPow2(79)))
                \* (the Pyth variants go through I80F48 back into 64-bit integers)
                /\ (kam /\ setup \notin SwbLike /\ o.kind = "pyth") =>
                     (BLt(KaminoAdj(o.price, ratio), BPow2(63)) /\ BLt(KaminoAdj(o.ema, ratio), BPow2(63))
                      /\ BLt(KaminoAdj(o.conf, ratio), BPow2(64)) /\ BLt(KaminoAdj(o.ema_conf, ratio), BPow2(64)))
                /\ dri => (mkt.owner_ok /\ BGe(mkt.ts, s.clock.ts))
      \* raw integer price scaled by the pool's exchange rate (truncating division, as the adapter does before anything else)
      Adj(raw) == IF staked /\ poolOk THEN BFloorDiv(BMul(raw, BSub(pool.stake, LAMPORTS_PER_SOL)), pool.supply)
                  ELSE IF kam /\ poolOk THEN KaminoAdj(raw, ratio)
                  ELSE IF dri /\ poolOk THEN DriftAdj(raw, mkt.cum) ELSE raw
      AdjC(raw) == IF kam /\ poolOk THEN KaminoAdj(raw, ratio) ELSE IF dri /\ poolOk THEN DriftAdj(raw, mkt.cum) ELSE raw
      kindOk == (setup \in {SETUP_PYTH, SETUP_STAKED, SETUP_KAMINO_PYTH, SETUP_DRIFT_PYTH, SETUP_SOLEND_PYTH} /\ o.kind = "pyth")
                \/ (setup \in ({SETUP_SWB} \cup SwbLike) /\ o.kind = "swb")
      authentic == kindOk /\ o.owner_ok /\ o.discr_ok /\ o.live /\ (o.kind = "pyth" => o.verif_ok) /\ poolOk
      age == BSub(now, o.ts)
      fresh == BLe(age, BOfInt(MaxAge(b)))
      p == IF o.kind = "pyth" THEN Scale10(Adj(IF ptype = "RT" THEN o.price ELSE o.ema), o.expo) ELSE RMake(AdjC(o.swb_value), E18)
      c0 == IF o.kind = "pyth" THEN RMul(Scale10(AdjC(IF ptype = "RT" THEN o.conf ELSE o.ema_conf), o.expo), K_PYTH)
            ELSE RMul(RMake(AdjC(o.swb_std), E18), K_SWB)
      maxc == RMul(p, MaxConfRatio(b))
      slackc == RMul(TINY, RAdd(ROne, RAdd(RAbs(p), c0)))
      conf == IF RLe(c0, RSub(maxc, slackc)) THEN "yes" ELSE IF RGt(c0, RAdd(maxc, slackc)) THEN "no" ELSE "maybe"
      ci == RMin(c0, RMul(p, CAP5))
  IN IF ~authentic \/ ~fresh THEN [usable |-> "no", known |-> TRUE, p |-> p, ci |-> ci]
     ELSE [usable |-> conf, known |-> TRUE, p |-> p, ci |-> ci]

Low(pr) == RSub(pr.p, pr.ci)
High(pr) == RAdd(pr.p, pr.ci)

\* ---- health reference -----------------------------------------------------------------------
\* balances of Drift-backed banks are kept in Drift's 9-decimal scaled units, all others in the mint's decimals
BalDec(b) == IF b.cfg.asset_tag = 4 THEN 9 ELSE b.dec
Dec(b) == ROfBig(BPow10(BalDec(b)))
PT(req) == IF req = "Maint" THEN "RT" ELSE "TW"
DebtSlots(a) == {i \in ActiveSlots(a) : BGe(a.bal[i].l, FONE)}
EntrySet(b) == {i \in DOMAIN b.emode.entries : b.emode.entries[i].tag # 0}
HasEntry(b, t) == \E i \in EntrySet(b) : b.emode.entries[i].tag = t
EntryOf(b, t) == b.emode.entries[CHOOSE i \in EntrySet(b) : b.emode.entries[i].tag = t]
\* reconciled e-mode weight for collateral tag t across the banks the account borrows from; "none" if not common
EmodeWeight(s, a, t, req) ==
  LET D == DebtSlots(a) IN
  IF D = {} \/ t = 0 \/ ~(\A i \in D : HasEntry(s.banks[a.bal[i].bank], t)) THEN [has |-> FALSE, w |-> RZero]
  ELSE LET ws == {R(IF req = "Init" THEN EntryOf(s.banks[a.bal[i].bank], t).init ELSE EntryOf(s.banks[a.bal[i].bank], t).maint) : i \in D}
       IN [has |-> TRUE, w |-> CHOOSE w \in ws : \A w2 \in ws : RLe(w, w2)]

\* value of slot i of account a; mode "fav" = most favourable reading of don't-cares, "unfav" = least favourable
\* returns [av, lv, tolw, bad] : asset value, liability value, tolerance weight, liability-without-price flag
SlotRef(s, e, a, i, req, mode) ==
  LET sl == a.bal[i] b == s.banks[sl.bank]
      pr == RefPrice(s, e, sl.bank, PT(req))
      usable == pr.usable = "yes" \/ (pr.usable = "maybe" /\ mode = "fav")
      assetAmt == RMul(R(sl.a), R(b.asv))
      liabAmt == RMul(R(sl.l), R(b.lsv))
      isDebt == BGe(sl.l, FONE)
      isAsset == ~isDebt /\ BGe(sl.a, FONE)
      subA == ~BIsZero(sl.a) /\ BLt(sl.a, FONE)        \* sub-threshold: don't care
      subL == ~BIsZero(sl.l) /\ BLt(sl.l, FONE)
      countA == isAsset \/ (mode = "fav" /\ (subA \/ (isDebt /\ ~BIsZero(sl.a))))
      countL == isDebt \/ (mode = "unfav" /\ subL)
      bankW == IF req = "Init" THEN R(b.cfg.aw_init) ELSE IF req = "Maint" THEN R(b.cfg.aw_maint) ELSE ROne
      ew == IF req = "Equity" THEN [has |-> FALSE, w |-> RZero] ELSE EmodeWeight(s, a, b.emode.tag, req)
      w0 == IF ew.has THEN RMax(bankW, ew.w) ELSE bankW
      lowp == Low(pr)
      tv == RDiv(RMul(RefAssets(b), lowp), Dec(b))
      lim == ROfBig(b.cfg.init_limit)
      w == IF req = "Init" /\ ~BIsZero(b.cfg.init_limit) /\ RGt(tv, lim) THEN RMul(w0, RDiv(lim, tv)) ELSE w0
      zeroed == b.cfg.risk_tier = 1 \/ (req = "Init" /\ b.cfg.op_state = OP_REDUCE_ONLY) \/ (req = "Init" /\ ~usable)
      av == IF countA /\ ~zeroed /\ usable THEN RDiv(RMul(RMul(assetAmt, w), lowp), Dec(b)) ELSE RZero
      lw == IF req = "Init" THEN R(b.cfg.lw_init) ELSE IF req = "Maint" THEN R(b.cfg.lw_maint) ELSE ROne
      lv == IF countL /\ usable THEN RDiv(RMul(RMul(liabAmt, lw), High(pr)), Dec(b)) ELSE RZero
      \* allowance weight: unweighted position value (every fixed-point step loses < 1 ulp of a factor <= weight * price)
      tolw == RAdd(ROne, RMul(RDiv(RAdd(assetAmt, liabAmt), Dec(b)),
                              RMul(RAdd(ROne, RAdd(RAbs(pr.p), pr.ci)), RAdd(RInt(2), RAdd(w0, lw)))))
  IN [av |-> av, lv |-> lv, tolw |-> tolw,
      liabNoPrice |-> isDebt /\ ~usable /\ pr.known,
      known |-> pr.known,
      nonpos |-> pr.known /\ usable /\ (isDebt \/ isAsset) /\ ~RIsPos(pr.p)]

HealthRef(s, e, a, req, mode) ==
  LET S == ActiveSlots(a)
      recs == [i \in S |-> SlotRef(s, e, a, i, req, mode)]
  IN [av |-> FoldSet(LAMBDA i, x : RAdd(recs[i].av, x), RZero, S),
      lv |-> FoldSet(LAMBDA i, x : RAdd(recs[i].lv, x), RZero, S),
      tol |-> RMul(TINY, FoldSet(LAMBDA i, x : RAdd(recs[i].tolw, x), ROne, S)),
      liabNoPrice |-> \E i \in S : recs[i].liabNoPrice,
      known |-> \A i \in S : recs[i].known,
      nonpos |-> \E i \in S : recs[i].nonpos]
Health(h) == RSub(h.av, h.lv)

\* ---- C04 -----------------------------------------------------------------------------------
IsoDebts(s, a) == {i \in DebtSlots(a) : s.banks[a.bal[i].bank].cfg.risk_tier = 1}
FDivBits(x, y) == BTruncDiv(BShl(x, 48), y)
\* hypothetical account: liability shares of bank bn increased by dl (raw bits), asset shares decreased by da
Hypo(s, a, bn, dl, da) ==
  LET i == CHOOSE k \in DOMAIN a.bal : (a.bal[k].act = 1 /\ a.bal[k].bank = bn) \/
                 (~(\E j \in DOMAIN a.bal : a.bal[j].act = 1 /\ a.bal[j].bank = bn) /\ a.bal[k].act = 0)
      cur == IF a.bal[i].act = 1 THEN a.bal[i]
             ELSE [act |-> 1, bank |-> bn, key |-> s.banks[bn].key, tag |-> s.banks[bn].cfg.asset_tag, a |-> BZero, l |-> BZero, emis |-> BZero, lu |-> BZero]
  IN [a EXCEPT !.bal[i] = [cur EXCEPT !.l = BAdd(@, dl), !.a = BSub(@, da)]]

C04(pre, e, post, line) ==
  (e.ev \in {"borrow", "withdraw", "kamino_withdraw", "drift_withdraw", "solend_withdraw"} /\ Has(pre.accts, e.a.acct) /\ Has(pre.banks, e.a.bank)) =>
    LET an == e.a.acct bn == e.a.bank ap == pre.accts[an] b == pre.banks[bn] IN
    /\ (Ok(e) /\ ~Bit(ap.flags, ACC_FLASHLOAN) /\ ~Bit(ap.flags, ACC_RECEIVERSHIP)) =>
         LET a == post.accts[an] h == HealthRef(post, e, a, "Init", "fav") IN
         h.known =>
           /\ Chk("C04", "initial_health_nonnegative_after_success", line, RGe(Health(h), RNeg(h.tol)),
                  [acct |-> an, ev |-> e.ev, assets_num |-> h.av[1], assets_den |-> h.av[2], liabs_num |-> h.lv[1], liabs_den |-> h.lv[2]])
           /\ Chk("C04", "debt_is_never_valued_without_a_usable_price", line, ~h.liabNoPrice, [acct |-> an])
           /\ Chk("C04", "isolated_debt_is_the_only_debt", line,
                  IsoDebts(post, a) = {} \/ Cardinality(DebtSlots(a)) = 1, [acct |-> an])
    /\ (~Ok(e) /\ e.ev \in {"borrow", "withdraw"} /\ e.err = "RiskEngineInitRejected" /\ Plain(e.a) /\ b.last_update = pre.clock.ts
         /\ Has(pre.mints, b.mint) /\ pre.mints[b.mint].fee_bps = 0 /\ BIsZero(b.cfg.init_limit)) =>
         LET slot == SlotsOf(ap, bn)
             curA == PosBits(ap, bn, "a") curL == PosBits(ap, bn, "l")
             x == BShl(e.amt, 48)
             fee == BShr(BMul(x, b.cfg.ir.orig_fee), 48)
             isAll == Has(e.a, "all") /\ e.a.all = TRUE
             simple == IF e.ev = "borrow" THEN BIsZero(curA)
                       ELSE (isAll /\ BIsZero(curL)) \/ (~isAll /\ BGe(BShr(BMul(curA, b.asv), 48), x) /\ BIsZero(curL))
             a2 == IF e.ev = "borrow" THEN Hypo(pre, ap, bn, FDivBits(BAdd(x, fee), b.lsv), BZero)
                   ELSE IF isAll THEN Hypo(pre, ap, bn, BZero, curA)
                   ELSE Hypo(pre, ap, bn, BZero, FDivBits(x, b.asv))
             h == HealthRef(pre, e, a2, "Init", "unfav")
         IN (simple /\ h.known /\ ~h.liabNoPrice) =>
            Chk("C04", "never_rejected_when_clearly_healthy", line, RLe(Health(h), h.tol),
                [acct |-> an, ev |-> e.ev, health_num |-> Health(h)[1], health_den |-> Health(h)[2]])

\* every position the maintenance assessment reads a price for (debts, and deposits in collateral-tier banks) has a usable one
HoldingsPriced(s, e, a, ptype) ==
  \A i \in ActiveSlots(a) :
     LET pr == RefPrice(s, e, a.bal[i].bank, ptype) IN
     (pr.known /\ (BGe(a.bal[i].l, FONE) \/ (BGe(a.bal[i].a, FONE) /\ s.banks[a.bal[i].bank].cfg.risk_tier = 0))) => pr.usable # "no"

\* ---- EXT (beyond the listed properties): the health cache an instruction leaves behind ---------
\* pulse_health, borrow and withdraw store the risk engine's own totals in the account.  They must be the reference
\* valuation of the positions the instruction left (initial requirement; pulse_health also maintenance and equity),
\* the "healthy" bit must say what the stored totals say, and the stamp must be the current time.  Reported under the
\* label EXT: a failure is printed as drift of the specification, never as a violation of a listed property.
HC_HEALTHY == 1
ExtWithin(x, lo, hi, tol) == RGe(x, RSub(lo, tol)) /\ RLe(x, RAdd(hi, tol))
ExtHealthReq(post, e, a, hcA, hcL, req, name, line) ==
  LET f == HealthRef(post, e, a, req, "fav") u == HealthRef(post, e, a, req, "unfav") IN
  (f.known /\ u.known) =>
    Chk("EXT", name, line, ExtWithin(R(hcA), u.av, f.av, f.tol) /\ ExtWithin(R(hcL), f.lv, u.lv, u.tol),
        [acct |-> e.a.acct, ev |-> e.ev, cached_assets |-> hcA, cached_liabs |-> hcL])
EXTHealth(pre, e, post, line) ==
  (Ok(e) /\ e.ev \in {"pulse_health", "borrow", "withdraw"} /\ Has(e.a, "acct") /\ Has(post.accts, e.a.acct)
   /\ ~Bit(post.accts[e.a.acct].flags, ACC_FLASHLOAN) /\ ~Bit(post.accts[e.a.acct].flags, ACC_RECEIVERSHIP)
   /\ (Has(pre.accts, e.a.acct) => ~Bit(pre.accts[e.a.acct].flags, ACC_RECEIVERSHIP))) =>
    LET a == post.accts[e.a.acct] hc == a.health IN
    /\ Chk("EXT", "health_cache_stamped_now", line, hc.ts = post.clock.ts, [acct |-> e.a.acct, ev |-> e.ev])
    /\ (hc.internal_err = 0 /\ hc.mrgn_err \in {0, 6009}) =>
         /\ ExtHealthReq(post, e, a, hc.av, hc.lv, "Init", "health_cache_initial_totals_match_reference", line)
         \* (borrow / withdraw: the initial check's verdict, assets >= liabilities; pulse_health overwrites the bit with the
         \*  maintenance verdict, which is strict: an empty account is reported as not healthy)
         /\ (e.ev # "pulse_health") =>
              Chk("EXT", "health_cache_healthy_bit_says_what_the_totals_say", line, ((hc.flags % 2) = HC_HEALTHY) <=> BGe(hc.av, hc.lv),
                  [acct |-> e.a.acct, flags |-> hc.flags])
         /\ (e.ev = "pulse_health" /\ hc.mrgn_err = 0 /\ hc.liq_err \in {0, 6068}) =>
              /\ ExtHealthReq(post, e, a, hc.avm, hc.lvm, "Maint", "health_cache_maintenance_totals_match_reference", line)
              /\ Chk("EXT", "health_cache_healthy_bit_says_what_the_totals_say", line, ((hc.flags % 2) = HC_HEALTHY) <=> BGt(hc.avm, hc.lvm),
                     [acct |-> e.a.acct, flags |-> hc.flags])
              /\ Chk("EXT", "health_cache_liquidation_verdict_matches_the_bit", line, (hc.liq_err = 6068) <=> ((hc.flags % 2) = HC_HEALTHY),
                     [acct |-> e.a.acct, flags |-> hc.flags, liq_err |-> hc.liq_err])
         /\ (e.ev = "pulse_health" /\ hc.mrgn_err = 0 /\ hc.liq_err \in {0, 6068} /\ hc.bk_err \in {0, 6013}) =>
              ExtHealthReq(post, e, a, hc.ave, hc.lve, "Equity", "health_cache_equity_totals_match_reference", line)

\* ---- C05 classic liquidation ----------------------------------------------------------------
P95 == RMake(BOfInt(19), BOfInt(20))
P975 == RMake(BOfInt(39), BOfInt(40))
P025 == RMake(BOfInt(1), BOfInt(40))
C05(pre, e, post, line) ==
  (e.ev = "liquidate" /\ Ok(e)) =>
    LET lee == e.a.liquidatee lor == e.a.liquidator abn == e.a.asset_bank lbn == e.a.liab_bank
        ab == pre.banks[abn] lb == pre.banks[lbn] abq == post.banks[abn] lbq == post.banks[lbn]
        \* the handler first brings both banks' interest up to now: evaluate the "before" health at those share values
        preA == [pre EXCEPT !.banks = [bn \in DOMAIN pre.banks |->
                   IF bn \in {abn, lbn} THEN [pre.banks[bn] EXCEPT !.asv = post.banks[bn].asv, !.lsv = post.banks[bn].lsv] ELSE pre.banks[bn]]]
        hPre == HealthRef(preA, e, pre.accts[lee], "Maint", "unfav")
        hPreF == HealthRef(preA, e, pre.accts[lee], "Maint", "fav")
        hPost == HealthRef(post, e, post.accts[lee], "Maint", "unfav")
        hPostF == HealthRef(post, e, post.accts[lee], "Maint", "fav")
        hLor == HealthRef(post, e, post.accts[lor], "Init", "fav")
        pa == RefPrice(pre, e, abn, "RT") pl == RefPrice(pre, e, lbn, "RT")
        q == ROfBig(e.amt)
        V == RDiv(RMul(q, Low(pa)), Dec(ab))                       \* seized value at the low-biased spot price
        X == RDiv(RMul(V, Dec(lb)), High(pl))                      \* in liability tokens at the high-biased spot price
        relief == RMul(R(BSub(PosBits(pre.accts[lee], lbn, "l"), PosBits(post.accts[lee], lbn, "l"))), R(lbq.lsv))
        lorFall == RSub(NetPos(pre.accts[lor], lbn, lbq), NetPos(post.accts[lor], lbn, lbq))
        dIns == ROfBig(BSub(TokGross(post, lbq.vault_ins), TokGross(pre, lb.vault_ins)))   \* incl. transfer fee withheld on arrival
        dBucket == R(BSub(lbq.fee_ins, lb.fee_ins))
        \* allowance: conversions on both banks, plus relative error of the price chain
        \* value is truncated at 2^-48 dollars before being converted into liability tokens: allow that, scaled by tokens per dollar
        \* and prices themselves carry an absolute 2^-48 error, i.e. a relative error u/p that matters for tiny prices
        tolX == RAdd(RMul(RInt(4), TolConv(lb, lbq)),
                     RMul(TINY, RAdd(ROne, RAdd(RMul(X, RAdd(ROne, RAdd(RDiv(ROne, RMax(Low(pa), TINY)), RDiv(ROne, RMax(High(pl), TINY))))),
                                              RDiv(Dec(lb), RMax(High(pl), TINY))))))
        noAccrual == lb.last_update = pre.clock.ts
    IN
    (hPre.known /\ hPost.known /\ hLor.known /\ pa.known /\ pl.known) =>
    /\ Chk("C05", "liquidatee_was_unhealthy", line, RLt(Health(hPre), hPre.tol), [acct |-> lee])
    \* "was negative beforehand" cannot be established while a deposit the assessment counts has no usable price (C09: the
    \* assessment fails instead of guessing - reading such a deposit as worthless would make a healthy account liquidatable)
    /\ Chk("C05", "health_before_assessed_on_usable_prices_of_every_holding", line,
           HoldingsPriced(pre, e, pre.accts[lee], "RT"), [acct |-> lee])
    /\ Chk("C05", "health_strictly_improves", line, RGt(RAdd(Health(hPostF), hPostF.tol), RSub(Health(hPre), hPre.tol)),
           [acct |-> lee, pre_num |-> Health(hPre)[1], pre_den |-> Health(hPre)[2], post_num |-> Health(hPostF)[1], post_den |-> Health(hPostF)[2]])
    /\ Chk("C05", "still_not_healthy_afterwards", line, RLe(Health(hPost), hPost.tol), [acct |-> lee])
    /\ Chk("C05", "repaid_debt_did_not_become_deposit", line, BLt(PosBits(post.accts[lee], lbn, "a"), FONE), [acct |-> lee])
    /\ Chk("C05", "seized_collateral_did_not_become_debt", line, BLe(PosBits(post.accts[lee], abn, "l"), PosBits(pre.accts[lee], abn, "l")), [acct |-> lee])   \* taking collateral never opens (even a sub-unit) debt
    \* (the collateral bank's debt total may fall - a liquidator who owes in that bank repays with what it seizes - but never rises)
    /\ (abn # lbn) => Chk("C05", "seizing_opens_no_debt_in_the_collateral_bank", line, BLe(abq.tls, ab.tls), [bank |-> abn])
    /\ Chk("C05", "liquidator_remains_initially_healthy", line, RGe(Health(hLor), RNeg(hLor.tol)), [acct |-> lor])
    /\ Chk("C05", "prices_usable_and_positive", line,
           pa.usable # "no" /\ pl.usable # "no" /\ RIsPos(Low(pa)) /\ RIsPos(High(pl)), [asset_bank |-> abn, liab_bank |-> lbn])
    /\ (pa.usable # "no" /\ pl.usable # "no" /\ RIsPos(Low(pa)) /\ RIsPos(High(pl))) =>
         /\ Chk("C05", "liquidatee_relief_is_95_percent", line, RLe(RAbs(RSub(relief, RMul(P95, X))), tolX),
                [relief_num |-> relief[1], relief_den |-> relief[2], x_num |-> X[1], x_den |-> X[2]])
         /\ Chk("C05", "liquidator_pays_975_percent", line, RLe(RAbs(RSub(lorFall, RMul(P975, X))), tolX),
                [fall_num |-> lorFall[1], fall_den |-> lorFall[2], x_num |-> X[1], x_den |-> X[2]])
         /\ Chk("C05", "insurance_gets_whole_tokens_of_25_percent", line,
                RLe(RAbs(RSub(dIns, RMul(P025, X))), RAdd(ROne, tolX)) /\ RLe(dIns, RAdd(RMul(P025, X), tolX)), [bank |-> lbn])
         /\ noAccrual =>
              Chk("C05", "insurance_fraction_goes_to_outstanding_fees", line,
                  RLe(RAbs(RSub(RAdd(dIns, dBucket), RMul(P025, X))), tolX), [bank |-> lbn])

\* ---- C07 bankruptcy --------------------------------------------------------------------------
BANKRUPT_USD == RMake(BOfInt(1), BOfInt(10))
\* history: banks shut by a bankruptcy, and per bank whether its admin *asked for* permissionless settlement (the flag as
\* first seen, then the value of every accepted explicit request) - "opted in" is a decision, not a bit that happens to be set
C07Acc0 == [killed |-> {}, optin |-> <<>>]
C07AccNext(acc, pre, e, post) ==
  LET seen == DOMAIN acc.optin
      asked == e.ev = "configure_bank" /\ Ok(e) /\ Has(e.a, "bank") /\ Has(e.a, "cfg") /\ Has(e.a.cfg, "permissionless_bad_debt")
               /\ Has(pre.banks, e.a.bank) /\ ~Bit(pre.banks[e.a.bank].flags, BANK_FREEZE)
  IN [killed |-> acc.killed \cup {bn \in DOMAIN post.banks : post.banks[bn].cfg.op_state = OP_KILLED},
      optin |-> [bn \in DOMAIN post.banks |->
                   IF asked /\ e.a.bank = bn THEN e.a.cfg.permissionless_bad_debt = TRUE
                   ELSE IF bn \in seen THEN acc.optin[bn]
                   ELSE Bit(post.banks[bn].flags, BANK_PERMISSIONLESS_BAD_DEBT)]]

\* the same state with isolated-tier banks read as collateral-tier ones: the program values a deposit in an isolated-tier
\* bank at zero for every purpose, the unweighted ("equity") valuation included
VisIso(s) == [s EXCEPT !.banks = [bn \in DOMAIN s.banks |->
                IF s.banks[bn].cfg.risk_tier = 1 THEN [s.banks[bn] EXCEPT !.cfg = [@ EXCEPT !.risk_tier = 0]] ELSE s.banks[bn]]]
C07(pre, e, post, acc, line) ==
  /\ (e.ev = "bankruptcy" /\ Ok(e)) =>
       LET an == e.a.acct bn == e.a.bank a == pre.accts[an] b == pre.banks[bn] q == post.banks[bn] g == pre.groups[b.group]
           h == HealthRef(pre, e, a, "Equity", "unfav")
           hasIso == \E i \in ActiveSlots(a) : BGe(a.bal[i].a, FONE) /\ pre.banks[a.bal[i].bank].cfg.risk_tier = 1
           hx == HealthRef(VisIso(pre), e, a, "Equity", "unfav")
           hf == HealthRef(pre, e, a, "Equity", "fav")
           signer == IF Has(e.a, "signer") THEN e.a.signer ELSE g.admin
           lsh == PosBits(a, bn, "l")
           bad == RMul(R(lsh), R(q.lsv))                       \* debt after bringing interest up to date
           insPre == ROfBig(TokAmt(pre, b.vault_ins)) insPost == ROfBig(TokAmt(post, q.vault_ins))
           insOut == RSub(insPre, insPost)
           liqIn == ROfBig(BSub(TokAmt(post, q.vault_liq), TokAmt(pre, b.vault_liq)))
           feeMint == Has(pre.mints, b.mint) /\ pre.mints[b.mint].fee_bps > 0
           \* what the whole insurance vault can deliver: its balance, on a transfer-fee mint net of the fee in force (basis
           \* points, capped at the mint's maximum fee)
           insAmtB == TokAmt(pre, b.vault_ins)
           feeAllB == IF feeMint THEN BMin(pre.mints[b.mint].max_fee,
                                           BFloorDiv(BAdd(BMul(insAmtB, BOfInt(pre.mints[b.mint].fee_bps)), BOfInt(9999)), BOfInt(10000)))
                      ELSE BZero
           reachR == ROfBig(BSub(insAmtB, feeAllB))
           covered == RMin(bad, reachR)
           soc == RSub(bad, covered)
           net(x) == RAdd(RSub(RefAssets(x), RefLiabs(x)), RefFees(x))
           dNet == RSub(net(q), net(b))
           tol == RAdd(TolOp(pre, post, bn), RMul(U, RAdd(R(b.tas), RInt(2))))
       IN
       \* "assets worth less than ten cents" can only be established from usable prices of everything the account holds
       /\ Chk("C07", "every_holding_priced_before_write_off", line,
              \A i \in ActiveSlots(a) :
                 LET pr == RefPrice(pre, e, a.bal[i].bank, "TW") IN
                 (pr.known /\ (BGe(a.bal[i].l, FONE) \/ (BGe(a.bal[i].a, FONE) /\ pre.banks[a.bal[i].bank].cfg.risk_tier = 0))) => pr.usable # "no",
              [acct |-> an])
       /\ (h.known) =>
            /\ Chk("C07", "assets_worth_less_than_liabilities", line, RLt(RSub(h.av, h.tol), RAdd(h.lv, h.tol)), [acct |-> an])
            /\ Chk("C07", "assets_worth_less_than_ten_cents", line, RLt(RSub(h.av, h.tol), BANKRUPT_USD), [acct |-> an])
            \* "unweighted assets" are all of the account's deposits at their price, whatever tier the bank is in
            /\ (hasIso /\ hx.known) =>
                 Chk("C07", "deposits_in_isolated_tier_banks_are_assets_too", line,
                     RLt(RSub(hx.av, hx.tol), BANKRUPT_USD) /\ RLt(RSub(hx.av, hx.tol), RAdd(hx.lv, hx.tol)),
                     [acct |-> an, bankrupt_when_isolated_tier_deposits_are_ignored |->
                        (RLt(RSub(h.av, h.tol), BANKRUPT_USD) /\ RLt(RSub(h.av, h.tol), RAdd(h.lv, h.tol)))])
            /\ Chk("C07", "account_owes_in_this_bank", line, RGt(RMul(R(lsh), R(b.lsv)), RSub(EPS, U)), [acct |-> an, bank |-> bn])
            /\ Chk("C07", "only_admins_unless_permissionless", line,
                   Bit(b.flags, BANK_PERMISSIONLESS_BAD_DEBT) \/ signer \in {g.admin, g.risk_admin}, [signer |-> signer])
            /\ (Has(acc.optin, bn) /\ signer \notin {g.admin, g.risk_admin}) =>
                 Chk("C07", "permissionless_only_where_the_admin_opted_in", line, acc.optin[bn], [signer |-> signer, bank |-> bn])
            /\ Chk("C07", "not_in_flashloan_or_receivership", line, ~Bit(a.flags, ACC_FLASHLOAN) /\ ~Bit(a.flags, ACC_RECEIVERSHIP), [acct |-> an])
            /\ Chk("C07", "account_disabled_and_debt_cleared", line,
                   Bit(post.accts[an].flags, ACC_DISABLED) /\ RLt(RMul(R(PosBits(post.accts[an], bn, "l")), R(q.lsv)), EPS), [acct |-> an])
            /\ Chk("C07", "depositor_shares_untouched", line,
                   \A x \in DOMAIN pre.accts : PosBits(pre.accts[x], bn, "a") = PosBits(post.accts[x], bn, "a"), [bank |-> bn])
            /\ Chk("C07", "share_value_never_negative", line, ~BIsNeg(q.asv), [bank |-> bn])
            /\ Chk("C07", "insurance_pays_first_up_to_its_balance", line,
                   \* whatever insurance could cover was taken from the insurance vault (within one token of rounding up)
                   \* (transfer-fee mint: the liquidity vault must receive the covered part of the bad debt, up to the token the
                   \* handler rounds by; the insurance vault pays that plus the fee)
                   IF feeMint THEN RGe(RAdd(liqIn, ROne), covered) /\ RLe(liqIn, RAdd(covered, RInt(2))) /\ RLe(insOut, insPre)
                   ELSE RGe(RAdd(insOut, tol), covered) /\ RLe(insOut, RAdd(covered, RAdd(ROne, tol))) /\ liqIn = insOut,
                   [bank |-> bn, ins_out |-> insOut[1], covered_num |-> covered[1], covered_den |-> covered[2]])
            \* depositors (one common share value, shares untouched) lose exactly the uncovered amount:
            \* net claims (deposits - debt + fees) move by exactly what insurance covered (interest accrued in the same
            \* instruction conserves net claims, C06)
            /\ (~BIsZero(q.asv)) =>
                 Chk("C07", "remainder_socialized_exactly_and_pro_rata", line, RLe(RAbs(RSub(dNet, covered)), tol),
                     [bank |-> bn, soc_num |-> soc[1], soc_den |-> soc[2], dnet_num |-> dNet[1], dnet_den |-> dNet[2]])
            /\ (BIsZero(q.asv) /\ ~BIsZero(b.asv)) =>
                 Chk("C07", "share_value_zeroed_only_when_deposits_consumed", line, RGe(RAdd(soc, tol), RefAssets(b)), [bank |-> bn])
            /\ Chk("C07", "wiped_out_bank_is_shut", line, (BIsZero(q.asv) /\ ~BIsZero(b.tas)) => q.cfg.op_state = OP_KILLED, [bank |-> bn])
  /\ (IsProgramEvent(e)) =>
       \A bn \in acc.killed :
         Has(post.banks, bn) =>
           /\ Chk("C07", "killed_bank_stays_killed", line, post.banks[bn].cfg.op_state = OP_KILLED, [bank |-> bn, ev |-> e.ev])
           /\ (e.ev \in {"deposit", "withdraw", "borrow", "repay", "bankruptcy"} /\ Has(e.a, "bank") /\ e.a.bank = bn) =>
                Chk("C07", "killed_bank_refuses_financial_instructions", line, ~Ok(e), [bank |-> bn, ev |-> e.ev])
           /\ (e.ev = "liquidate" /\ (e.a.asset_bank = bn \/ e.a.liab_bank = bn)) =>
                Chk("C07", "killed_bank_refuses_financial_instructions", line, ~Ok(e), [bank |-> bn, ev |-> e.ev])

\* ---- C09 oracle safety ----------------------------------------------------------------------
\* A price "influenced a decision" observably when (i) the bank's price cache was refreshed by the
\* instruction, (ii) a liquidation / bankruptcy assessment succeeded, (iii) a borrow/withdraw was accepted
\* (covered by C04's reference, which zeroes unusable collateral and refuses unpriced debt).
C09(pre, e, post, line) ==
  /\ (IsProgramEvent(e) /\ Ok(e)) =>
       \A bn \in (DOMAIN post.banks) \cap (DOMAIN pre.banks) :
         LET b == pre.banks[bn] q == post.banks[bn] IN
         (q.cache.price_ts # b.cache.price_ts \/ q.cache.price # b.cache.price) =>
           \* (the cache is refreshed at the end of the instruction: a venue reserve is read as the instruction, or an earlier
           \*  instruction of the same transaction, left it)
           LET preV0 == IF Has(post, "reserves") /\ Has(pre, "reserves") THEN [pre EXCEPT !.reserves = post.reserves] ELSE pre
               preV == IF Has(post, "markets") /\ Has(pre, "markets") THEN [preV0 EXCEPT !.markets = post.markets] ELSE preV0
               pr == RefPrice(preV, e, bn, "RT") IN
           pr.known =>
             /\ Chk("C09", "cached_price_only_from_usable_oracle", line, pr.usable # "no", [bank |-> bn, ev |-> e.ev])
             /\ (pr.usable # "no") =>
                  /\ Chk("C09", "cached_price_is_the_reported_price", line,
                         RLe(RAbs(RSub(R(q.cache.price), pr.p)), RMul(TINY, RAdd(ROne, RAbs(pr.p)))), [bank |-> bn])
                  /\ Chk("C09", "confidence_scaled_to_95_and_capped_at_5_percent", line,
                         RLe(RAbs(RSub(R(q.cache.price_conf), pr.ci)), RMul(TINY, RAdd(ROne, RAdd(RAbs(pr.p), pr.ci)))), [bank |-> bn])
  \* an accepted borrow / withdrawal: a position whose price is unusable (stale, substituted, unauthentic, confidence beyond
  \* the maximum, venue reserve not refreshed) counted for nothing - the account is initially healthy without it
  /\ (e.ev \in {"borrow", "withdraw", "kamino_withdraw", "drift_withdraw", "solend_withdraw"} /\ Ok(e) /\ Has(e.a, "acct") /\ Has(post.accts, e.a.acct)) =>
       LET a == post.accts[e.a.acct]
           bad == {i \in ActiveSlots(a) : BGe(a.bal[i].a, FOne) /\ LET pr == RefPrice(post, e, a.bal[i].bank, "TW") IN pr.known /\ pr.usable = "no"}
           hasDebt == \E i \in ActiveSlots(a) : BGe(a.bal[i].l, FOne)
           h == HealthRef(post, e, a, "Init", "fav")
       IN (bad # {} /\ hasDebt /\ h.known /\ ~Bit(a.flags, ACC_FLASHLOAN) /\ ~Bit(a.flags, ACC_RECEIVERSHIP)) =>
          Chk("C09", "position_with_unusable_price_counts_for_nothing", line, RGe(Health(h), RNeg(h.tol)), [acct |-> e.a.acct, ev |-> e.ev])
  /\ (e.ev = "liquidate" /\ Ok(e)) =>
       LET pa == RefPrice(pre, e, e.a.asset_bank, "RT") pl == RefPrice(pre, e, e.a.liab_bank, "RT")
           h == HealthRef(pre, e, pre.accts[e.a.liquidatee], "Maint", "fav") IN
       (pa.known /\ pl.known /\ h.known) =>
         /\ Chk("C09", "liquidation_needs_usable_positive_prices", line,
                pa.usable # "no" /\ pl.usable # "no" /\ RIsPos(pa.p) /\ RIsPos(pl.p), [asset_bank |-> e.a.asset_bank])
         /\ Chk("C09", "liquidation_assessment_needs_all_debt_priced", line, ~h.liabNoPrice, [acct |-> e.a.liquidatee])
         /\ Chk("C09", "liquidation_assessment_needs_every_holding_priced", line,
                HoldingsPriced(pre, e, pre.accts[e.a.liquidatee], "RT"), [acct |-> e.a.liquidatee])
  /\ (e.ev = "bankruptcy" /\ Ok(e)) =>
       LET a == pre.accts[e.a.acct] IN
       Chk("C09", "bankruptcy_assessment_needs_usable_prices", line,
           \A i \in ActiveSlots(a) :
              LET pr == RefPrice(pre, e, a.bal[i].bank, "TW") IN
              (pr.known /\ (BGe(a.bal[i].l, FONE) \/ (BGe(a.bal[i].a, FONE) /\ pre.banks[a.bal[i].bank].cfg.risk_tier = 0))) => pr.usable # "no",
           [acct |-> e.a.acct])
  \* taking an account into receivership is a liquidation assessment too: the start measures the maintenance health (spot prices)
  \* and snapshots the equity (time-weighted prices), so every holding those valuations read needs a usable price of both kinds
  \* (transactions that first bring a venue up to date are left out: the prices they are assessed on are not those of the pre-state)
  /\ (e.ev = "tx" /\ Ok(e) /\ (\E k \in 1..Len(e.a.ixs) : e.a.ixs[k].op = "start_liq") /\ (\A k \in 1..Len(e.a.ixs) : e.a.ixs[k].op \notin VenueRefreshOps)) =>
       \A k \in 1..Len(e.a.ixs) :
         (e.a.ixs[k].op = "start_liq" /\ Has(e.a.ixs[k], "acct") /\ Has(pre.accts, e.a.ixs[k].acct)) =>
           Chk("C09", "receivership_assessment_needs_every_holding_priced", line,
               HoldingsPriced(pre, e, pre.accts[e.a.ixs[k].acct], "RT") /\ HoldingsPriced(pre, e, pre.accts[e.a.ixs[k].acct], "TW"), [acct |-> e.a.ixs[k].acct])
  /\ (e.ev = "withdraw" /\ Ok(e) /\ Has(pre.accts, e.a.acct) /\ Bit(pre.accts[e.a.acct].flags, ACC_RECEIVERSHIP)) =>
       LET pr == RefPrice(pre, e, e.a.bank, "RT") IN
       pr.known => Chk("C09", "receivership_withdraw_needs_usable_positive_price", line, pr.usable # "no" /\ RIsPos(Low(pr)), [bank |-> e.a.bank])

\* ---- C13 accepted configurations ------------------------------------------------------------
RTWO == RInt(2)
CurveValid(ir) ==
  IF ir.curve_type = 1 THEN
    LET P == ir.points
        used == {i \in DOMAIN P : ~BIsZero(P[i][1])}
    IN /\ \A i \in DOMAIN P : BIsZero(P[i][1]) => BIsZero(P[i][2])                     \* padding is (0,0)
       /\ \A i \in DOMAIN P, j \in DOMAIN P : (i < j /\ BIsZero(P[i][1])) => BIsZero(P[j][1])   \* padding only at the end
       /\ \A i \in used, j \in used : (i < j) => (BLt(P[i][1], P[j][1]) /\ BLe(P[i][2], P[j][2]))
       /\ BLe(ir.zero, ir.hundred)
       /\ \A i \in used : BLe(ir.zero, P[i][2]) /\ BLe(P[i][2], ir.hundred)
  ELSE /\ BIsPos(ir.opt_util) /\ BLt(ir.opt_util, FONE) /\ BIsPos(ir.plateau) /\ BIsPos(ir.max_rate) /\ BLt(ir.plateau, ir.max_rate)
LeverageOk(w, lw, capU32) ==
  \* 1/(1 - w/lw) <= cap  with cap = capU32/U32MAX*100 ;  requires w < lw
  /\ RLt(w, lw)
  /\ RLe(RDiv(ROne, RSub(ROne, RDiv(w, lw))), RAdd(RMul(RMake(capU32, U32MAX), RInt(100)), RMul(RInt(4096), U)))
ConfigValid(b, g) ==
  LET c == b.cfg awi == R(c.aw_init) awm == R(c.aw_maint) lwi == R(c.lw_init) lwm == R(c.lw_maint)
      ents == {i \in DOMAIN b.emode.entries : b.emode.entries[i].tag # 0}
  IN [weights |-> RGe(awi, RZero) /\ RLe(awi, ROne) /\ RLe(awi, awm) /\ RLe(awm, RTWO) /\ RGe(lwm, ROne) /\ RLe(lwm, lwi),
      isolated |-> (c.risk_tier = 1) => (BIsZero(c.aw_init) /\ BIsZero(c.aw_maint)),
      age |-> c.oracle_max_age >= 10,
      curve |-> CurveValid(c.ir),
      emode |-> /\ \A i \in ents : LET en == b.emode.entries[i] IN
                      /\ ~BIsNeg(en.init) /\ BLe(en.init, en.maint)
                      /\ LeverageOk(R(en.init), lwi, g.emode_max_init) /\ LeverageOk(R(en.maint), lwm, g.emode_max_maint)
                /\ \A i \in ents, j \in ents : (i # j) => b.emode.entries[i].tag # b.emode.entries[j].tag]
ConfigOps == {"add_bank", "add_bank_kamino", "add_bank_drift", "add_bank_solend", "configure_bank", "configure_interest", "configure_limits", "configure_emode", "clone_emode", "propagate_staked", "migrate_curve"}
C13(pre, e, post, line) ==
  /\ (IsProgramEvent(e) /\ Ok(e)) =>
       \A bn \in DOMAIN post.banks :
         LET q == post.banks[bn] g == post.groups[q.group]
             changed == ~Has(pre.banks, bn) \/ pre.banks[bn].cfg # q.cfg \/ pre.banks[bn].emode # q.emode
         IN (changed /\ q.cfg.asset_tag \in {0, 1, 2, 3, 4, 5}) =>
            LET v == ConfigValid(q, g) IN
            /\ Chk("C13", "weights_coherent", line, v.weights, [bank |-> bn, ev |-> e.ev])
            /\ Chk("C13", "isolated_has_zero_asset_weights", line, v.isolated, [bank |-> bn, ev |-> e.ev])
            /\ Chk("C13", "oracle_max_age_at_least_minimum", line, v.age, [bank |-> bn, ev |-> e.ev, age |-> q.cfg.oracle_max_age])
            /\ Chk("C13", "curve_valid", line, v.curve, [bank |-> bn, ev |-> e.ev])
            /\ Chk("C13", "emode_entries_coherent_and_leverage_bounded", line, v.emode, [bank |-> bn, ev |-> e.ev])
  /\ (IsProgramEvent(e) /\ Ok(e)) =>
       \A bn \in (DOMAIN post.banks) \cap (DOMAIN pre.banks) :
         LET b == pre.banks[bn] q == post.banks[bn] IN
         /\ (b.cfg.op_state = OP_KILLED) => Chk("C13", "killed_state_never_left", line, q.cfg.op_state = OP_KILLED, [bank |-> bn, ev |-> e.ev])
         /\ (b.cfg.op_state # OP_KILLED /\ q.cfg.op_state = OP_KILLED) =>
              Chk("C13", "killed_state_entered_only_by_bankruptcy", line, e.ev = "bankruptcy", [bank |-> bn, ev |-> e.ev])
  \* consequence: at equal spot/EMA prices and zero confidence, initially healthy implies maintenance healthy
  /\ (IsProgramEvent(e) /\ Ok(e) /\ e.ev \in {"borrow", "withdraw", "pulse_health"}) =>
       LET an == e.a.acct a == post.accts[an]
           flat == \A i \in ActiveSlots(a) :
                     LET b == post.banks[a.bal[i].bank] IN
                     \/ b.cfg.oracle_setup = SETUP_FIXED
                     \/ (b.cfg.oracle_setup = SETUP_SWB /\ Has(post.oracles, b.cfg.oracle_keys[1]) /\ BIsZero(post.oracles[b.cfg.oracle_keys[1]].swb_std))
                     \/ (b.cfg.oracle_setup = SETUP_PYTH /\ Has(post.oracles, b.cfg.oracle_keys[1])
                         /\ LET o == post.oracles[b.cfg.oracle_keys[1]] IN o.price = o.ema /\ BIsZero(o.conf) /\ BIsZero(o.ema_conf))
           hi == HealthRef(post, e, a, "Init", "unfav")
           hm == HealthRef(post, e, a, "Maint", "fav")
           noReduce == \A i \in ActiveSlots(a) : post.banks[a.bal[i].bank].cfg.op_state = OP_OPERATIONAL
       IN (flat /\ hi.known /\ hm.known /\ noReduce /\ ~hi.liabNoPrice) =>
          Chk("C13", "initially_healthy_implies_maintenance_healthy", line,
              RGe(Health(hi), hi.tol) => RGe(Health(hm), RNeg(hm.tol)), [acct |-> an])
  \* the same consequence for what the program decides: at equal spot / time-weighted prices and zero confidence an
  \* account that passes the initial-margin check (reference valuation, least favourable reading, beyond the allowance)
  \* cannot be liquidated
  /\ (e.ev = "liquidate" /\ Ok(e) /\ Has(pre.accts, e.a.liquidatee)) =>
       LET an == e.a.liquidatee a == pre.accts[an]
           preA == [pre EXCEPT !.banks = [bn \in DOMAIN pre.banks |->
                      IF Has(post.banks, bn) THEN [pre.banks[bn] EXCEPT !.asv = post.banks[bn].asv, !.lsv = post.banks[bn].lsv] ELSE pre.banks[bn]]]
           flat == \A i \in ActiveSlots(a) :
                     LET b == pre.banks[a.bal[i].bank] IN
                     \/ b.cfg.oracle_setup = SETUP_FIXED
                     \/ (b.cfg.oracle_setup = SETUP_SWB /\ Has(pre.oracles, b.cfg.oracle_keys[1]) /\ BIsZero(pre.oracles[b.cfg.oracle_keys[1]].swb_std))
                     \/ (b.cfg.oracle_setup = SETUP_PYTH /\ Has(pre.oracles, b.cfg.oracle_keys[1])
                         /\ LET o == pre.oracles[b.cfg.oracle_keys[1]] IN o.price = o.ema /\ BIsZero(o.conf) /\ BIsZero(o.ema_conf))
           hi == HealthRef(preA, e, a, "Init", "unfav")
       IN (flat /\ hi.known /\ ~hi.liabNoPrice) =>
          Chk("C13", "account_that_passes_the_initial_check_cannot_be_liquidated", line, RLt(Health(hi), hi.tol),
              [acct |-> an, init_health_num |-> Health(hi)[1], init_health_den |-> Health(hi)[2]])

\* ---- C14 operational-state gating ------------------------------------------------------------
C14Bank(pre, e, post, line) ==
  LET gate(bn, refusedIn) ==
        (Has(pre.banks, bn) /\ pre.banks[bn].cfg.op_state \in refusedIn) =>
           Chk("C14", "refused_in_bank_state", line, ~Ok(e), [bank |-> bn, ev |-> e.ev, state |-> pre.banks[bn].cfg.op_state])
      notBlamed(bn) ==
        (Has(pre.banks, bn) /\ pre.banks[bn].cfg.op_state = OP_REDUCE_ONLY) =>
           Chk("C14", "reduce_only_still_allows_withdraw_and_repay", line, e.err \notin {"BankReduceOnly", "BankPaused"}, [bank |-> bn, ev |-> e.ev])
  IN
  /\ (e.ev \in {"deposit", "borrow"}) => gate(e.a.bank, {OP_PAUSED, OP_REDUCE_ONLY, OP_KILLED})
  /\ (e.ev \in {"withdraw", "repay"}) => (gate(e.a.bank, {OP_PAUSED, OP_KILLED}) /\ notBlamed(e.a.bank))
  /\ (e.ev = "bankruptcy") => gate(e.a.bank, {OP_PAUSED, OP_KILLED})
  /\ (e.ev = "liquidate") => (gate(e.a.asset_bank, {OP_PAUSED, OP_KILLED}) /\ gate(e.a.liab_bank, {OP_PAUSED, OP_KILLED}))
  \* deposits in a reduce-only bank count for nothing toward new borrowing (with or without an e-mode weight):
  \* the reference valuation zeroes them for the initial requirement, so an accepted borrow / withdrawal must be
  \* initially healthy without them
  /\ (e.ev \in {"borrow", "withdraw"} /\ Ok(e) /\ Has(post.accts, e.a.acct)) =>
       LET a == post.accts[e.a.acct]
           ro == {i \in ActiveSlots(a) : BGe(a.bal[i].a, FONE) /\ post.banks[a.bal[i].bank].cfg.op_state = OP_REDUCE_ONLY}
           hasDebt == \E i \in ActiveSlots(a) : BGe(a.bal[i].l, FONE)
           h == HealthRef(post, e, a, "Init", "fav")
       IN (ro # {} /\ hasDebt /\ h.known /\ ~Bit(a.flags, ACC_FLASHLOAN) /\ ~Bit(a.flags, ACC_RECEIVERSHIP)) =>
          Chk("C14", "reduce_only_deposits_count_for_nothing_toward_new_borrowing", line, RGe(Health(h), RNeg(h.tol)), [acct |-> e.a.acct, ev |-> e.ev])
  \* ... but they still count when the account is assessed for liquidation or for a bad-debt write-off: with its reduce-only
  \* deposits valued like any other (maintenance weights / unweighted), a liquidated account was unhealthy and a written-off
  \* account was worth less than its debt and less than ten cents
  /\ (e.ev \in {"liquidate", "bankruptcy"} /\ Ok(e)) =>
       LET an == IF e.ev = "liquidate" THEN e.a.liquidatee ELSE e.a.acct IN
       (Has(pre.accts, an)) =>
         LET a == pre.accts[an]
             ro == {i \in ActiveSlots(a) : BGe(a.bal[i].a, FONE) /\ pre.banks[a.bal[i].bank].cfg.op_state = OP_REDUCE_ONLY}
             preA == [pre EXCEPT !.banks = [bn \in DOMAIN pre.banks |->
                        IF Has(post.banks, bn) THEN [pre.banks[bn] EXCEPT !.asv = post.banks[bn].asv, !.lsv = post.banks[bn].lsv] ELSE pre.banks[bn]]]
             hm == HealthRef(preA, e, a, "Maint", "unfav")
             hq == HealthRef(pre, e, a, "Equity", "unfav")
         IN (ro # {}) =>
            /\ (e.ev = "liquidate" /\ hm.known) =>
                 Chk("C14", "reduce_only_deposits_still_count_when_liquidation_is_assessed", line, RLt(Health(hm), hm.tol), [acct |-> an])
            /\ (e.ev = "bankruptcy" /\ hq.known) =>
                 Chk("C14", "reduce_only_deposits_still_count_when_bad_debt_is_assessed", line,
                     RLt(RSub(hq.av, hq.tol), BANKRUPT_USD) /\ RLt(RSub(hq.av, hq.tol), RAdd(hq.lv, hq.tol)), [acct |-> an])
=============================================================================
