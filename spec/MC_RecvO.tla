------------------------------ MODULE MC_RecvO ------------------------------
(* Model-checking instance of RecvO.tla from setups/recvoracle.json (the RiskCfg world plus a liquidation record for A1 and a
   funded receiver): A1 holds 100 B1 (Pyth O1, $2) and 1 B2 (Switchboard O2, $50) and owes 80 B3 (Pyth O3, $1). *)
EXTENDS RecvO
RoCases == {<<"A1", "B1", "B3", "liquidator">>, <<"A1", "B2", "B3", "liquidator">>}
RoOV == {<<"O1", 50000000, 0, 50000000, 0>>,                     \* $0.5: unhealthy
         <<"O1", 60000000, 1000000, 58000000, 400000>>,          \* $0.6 / 0.58, different confidences: unhealthy
         <<"O1", 90000000, 0, 90000000, 0>>,                     \* $0.9: still healthy
         <<"O1", 50000000, 2250000, 50000000, 2250000>>,         \* 4.5 % x 2.12: capped at 5 %
         <<"O1", 50000000, 2250000, 62000000, 300000>>,          \* spot confidence capped at 5 % of the spot price, time-weighted price well above
         <<"O1", 50000000, 3000000, 50000000, 100000>>,          \* spot confidence beyond the maximum
         <<"O3", 104000000, 0, 100000000, 0>>}
RoSV == {<<"O2", "20000000000000000001", "0">>}
RoNone == {}
=============================================================================
