------------------------------- MODULE Fix -------------------------------
(***************************************************************************)
(* I80F48 fixed point (the `fixed` crate, v1.28) as raw-bit Bigs.          *)
(* checked_mul floors; checked_div truncates toward zero; to_num floors.   *)
(* These semantics are conformance-checked against the real crate          *)
(* (check `substrate`).  None == "None" models a failed checked op.        *)
(***************************************************************************)
EXTENDS Big

FRAC == 48
TWO48 == BPow2(48)
I128MAX == BSub(BPow2(127), BOne)
I128MIN == BNeg(BPow2(127))
U64MAX == BSub(BPow2(64), BOne)
None == <<>>     \* (a failed checked operation; the empty tuple compares with Bigs and records)

InI128(x) == BLe(I128MIN, x) /\ BLe(x, I128MAX)
FChk(x) == IF InI128(x) THEN x ELSE None

FZero == BZero
FOne == TWO48
FOfInt(n) == BShl(BOfInt(n), 48)              \* small TLC integer
FOfBig(b) == BShl(b, 48)                      \* integer-valued Big -> I80F48 bits
FAdd(a, b) == BAdd(a, b)
FSub(a, b) == BSub(a, b)
FMul(a, b) == BShr(BMul(a, b), 48)            \* floor
FDiv(a, b) == BTruncDiv(BShl(a, 48), b)       \* trunc toward zero; b # 0
FFloor(a) == BShl(BShr(a, 48), 48)
FCeil(a) == BNeg(BShl(BShr(BNeg(a), 48), 48))
FFrac(a) == BSub(a, FFloor(a))
FToInt(a) == BShr(a, 48)                      \* floor, as integer-valued Big
FLt(a, b) == BLt(a, b)
FLe(a, b) == BLe(a, b)
FMin(a, b) == BMin(a, b)
FMax(a, b) == BMax(a, b)

\* exact rational value of I80F48 bits
RFx(a) == RMake(a, TWO48)
\* I80F48!(lit) for decimal literal n/d: nearest (ties irrelevant for our constants), as the macro rounds to nearest
FLit(n, d) == BFloorDiv(BAdd(BMul(BShl(BOfInt(n), 48), BOfInt(2)), BOfInt(d)), BMul(BOfInt(d), BOfInt(2)))
ULP == <<BOne, TWO48>>                        \* 2^-48 as a rational
=============================================================================
