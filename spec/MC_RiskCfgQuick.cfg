SPECIFICATION SpecR
CONSTANTS
  Accts = {"A1"}
  BankNames = {"B1", "B2", "B3", "B4", "B7"}
  Amounts = {1000003}
  Ticks = {3600}
  StaleTicks = {30, 3600}
  LiqTriples <- LiqR
  Prices <- NoTuplesR
  BkCases <- NoTuplesR
  OracleVariants <- OV
  SwbVariants <- SV
  EmodeSets <- ES
  RiskPatches <- RP
  BoundaryPairs <- BP
  BorrowCap = 1000000000
  MaxDepth = 2
VIEW ViewR
CHECK_DEADLOCK FALSE
