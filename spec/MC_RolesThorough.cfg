SPECIFICATION Spec
CONSTANTS
  MaxDepth = 2
  ProbeAll = FALSE
VIEW View
CHECK_DEADLOCK FALSE
