SPECIFICATION SpecW
CONSTANTS
  Accts = {"A1", "A2", "A3"}
  BankNames = {"B1", "B2"}
  Amounts = {1, 1000003}
  Ticks = {31536000}
  LiqTriples <- WNone
  Prices <- WNone
  BkCases <- WNone
  WindBank = "B2"
  Borrowers = {"A1"}
  Lenders = {"A2", "A3"}
  RiskWallet = "riskadmin"
  MaxDepth = 5
VIEW ViewW
CHECK_DEADLOCK FALSE
