SPECIFICATION Spec
CONSTANTS
  Accts = {"A1", "A2"}
  BankNames = {"B1", "B2"}
  Amounts = {1, 1000003, 40000000}
  Ticks = {3600, 31536000}
  MaxDepth = 3
VIEW View
CHECK_DEADLOCK FALSE
