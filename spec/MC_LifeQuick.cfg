SPECIFICATION SpecL
CONSTANTS
  Accts = {"A1", "A2"}
  BankNames = {"B1", "B2"}
  Amounts = {1, 40000000}
  Ticks = {}
  LiqTriples <- LifeLiq
  Prices <- LifePrices
  BkCases <- LifeBk
  LifeAccts <- LifeSet
  MaxDepth = 3
VIEW View
CHECK_DEADLOCK FALSE
