SPECIFICATION Spec
CONSTANTS
  Alphabet <- FlashAlphabet
  MaxLen = 3
  NeedOneOf <- NeedSfl
CHECK_DEADLOCK FALSE
