------------------------------- MODULE Panic -------------------------------
(***************************************************************************)
(* The emergency-pause automaton (state/panic_state.rs, panic_pause.rs,    *)
(* panic_unpause.rs, propagate_fee_state.rs, MarginfiGroup::              *)
(* is_protocol_paused), one action per instruction, transcribed from the   *)
(* implementation (Impl defs).  Times are absolute unix seconds, the VIEW      *)
(* keeps only ages relative to `now`, capped just beyond the largest       *)
(* constant, so TLC explores the finite region graph exhaustively.         *)
(* Every explored transition is emitted as an edge for replay.             *)
(***************************************************************************)
EXTENDS PropsPanic, Sequences, PanicImpl

CONSTANTS TickSet,      \* allowed clock advances (seconds)
          Groups        \* group names, e.g. {"G1"}

T0 == 1700000000

VARIABLES now, ps, cache, acc, sid
vars == <<now, ps, cache, acc, sid>>

PS0 == [flags |-> 0, daily |-> 0, consec |-> 0, start |-> 0, reset |-> 0]
C0 == [flags |-> 0, start |-> 0]

\* ---- implementation-shaped definitions -------------------------------------------------------
\* (ImplIsExpired, ImplUnpause, ImplUnpauseIfExpired, ImplCanPause, ImplPause, ImplGroupPaused: module PanicImpl, shared with PanicInd.tla)

\* ---- projection-shaped state for the property predicates ------------------------------------
S(t, p, c) ==
  [clock |-> [ts |-> BOfInt(t)],
   fee |-> [panic |-> [flags |-> p.flags, daily |-> p.daily, consec |-> p.consec,
                       start |-> BOfInt(p.start), reset |-> BOfInt(p.reset)]],
   groups |-> [g \in Groups |-> [panic_cache |-> [flags |-> c[g].flags, start |-> BOfInt(c[g].start)]]],
   banks |-> [b \in {"PB." \o g : g \in Groups} |-> [group |-> CHOOSE g \in Groups : b = "PB." \o g]],   \* one probe bank per group
   accts |-> <<>>]

Ev(name, a, ok, err) == [ev |-> name, a |-> a, res |-> IF ok THEN "ok" ELSE "err", err |-> err]

\* one transition: state update + property predicates on (pre, event, post) + edge emission
Do(e, t2, p2, c2) ==
  LET pre == S(now, ps, cache) post == S(t2, p2, c2) IN
  /\ now' = t2 /\ ps' = p2 /\ cache' = c2
  /\ acc' = C15AccNext(acc, pre, e, post)
  /\ (C15(pre, e, post, acc, 0) /\ C14Pause(pre, e, post, 0)) = TRUE
  /\ sid' = TLCGet(1)
  /\ TLCSet(1, TLCGet(1) + 1)
  /\ PrintT("EDGE " \o ToString(sid) \o " " \o ToString(TLCGet(1) - 1) \o " " \o
            ToJson(e.a @@ [exp |-> IF e.res = "ok" THEN "ok" ELSE e.err, obs |-> [fee |-> post.fee, groups |-> post.groups]]))

Tick(d) == Do(Ev("tick", [op |-> "tick", dt |-> d], TRUE, ""), now + d, ps, cache)
Pause ==
  LET r == ImplPause(ps, now) IN
  Do(Ev("panic_pause", [op |-> "panic_pause"], r[1], "PauseLimitExceeded"), now, r[2], cache)
Unpause ==
  IF ps.flags = 0 THEN Do(Ev("panic_unpause", [op |-> "panic_unpause"], FALSE, "ProtocolNotPaused"), now, ps, cache)
  ELSE Do(Ev("panic_unpause", [op |-> "panic_unpause"], TRUE, ""), now, ImplUnpause(ImplUnpauseIfExpired(ps, now)), cache)
UnpausePerm ==
  IF ps.flags = 0 THEN Do(Ev("panic_unpause_perm", [op |-> "panic_unpause_perm"], FALSE, "ProtocolNotPaused"), now, ps, cache)
  ELSE IF ~ImplIsExpired(ps, now) THEN Do(Ev("panic_unpause_perm", [op |-> "panic_unpause_perm"], FALSE, "PauseLimitExceeded"), now, ps, cache)
  ELSE Do(Ev("panic_unpause_perm", [op |-> "panic_unpause_perm"], TRUE, ""), now, ImplUnpause(ps), cache)
Propagate(g) ==
  Do(Ev("propagate_fee", [op |-> "propagate_fee", group |-> g], TRUE, ""), now, ps,
     [cache EXCEPT ![g] = [flags |-> ps.flags, start |-> ps.start]])
\* a financial instruction on group g (replayed as a 1-unit deposit into the group's probe bank)
Probe(g) ==
  LET blocked == ImplGroupPaused(cache[g], now) IN
  Do(Ev("deposit", [op |-> "deposit", acct |-> "A." \o g, bank |-> "PB." \o g, amount |-> 1], ~blocked, "ProtocolPaused"), now, ps, cache)

Init == now = T0 /\ ps = PS0 /\ cache = [g \in Groups |-> C0] /\ acc = C15Acc0 /\ sid = 0 /\ TLCSet(1, 1)
Next == \/ \E d \in TickSet : Tick(d)
        \/ Pause \/ Unpause \/ UnpausePerm
        \/ \E g \in Groups : Propagate(g) \/ Probe(g)
Spec == Init /\ [][Next]_vars

\* ---- region abstraction ---------------------------------------------------------------------
Cap(x, lo, hi) == IF x < lo THEN lo ELSE IF x > hi THEN hi ELSE x
RelStart(p) == IF p.flags = 0 THEN 99999 ELSE Cap(p.start - now, -PAUSE, 2 * PAUSE)
View == <<ps.flags, ps.daily, ps.consec, RelStart(ps), Cap(now - ps.reset, 0, DAY),
          [g \in Groups |-> <<cache[g].flags, RelStart(cache[g])>>], acc.pauses>>

\* design-level invariants of the automaton itself (checked by TLC on the model)
TypeOK == ps.flags \in {0, 1} /\ ps.daily \in 0..MAXD /\ ps.consec \in 0..MAXC
BoundedAhead == ps.flags = 1 => ps.start + PAUSE - now <= 2 * PAUSE
=============================================================================
