SPECIFICATION Spec
CONSTANTS
  BankN = "B2"
  MaxDepth = 3
VIEW View
CHECK_DEADLOCK FALSE
