SPECIFICATION Spec
CONSTANTS
  Alphabet <- Flash6Alphabet
  MaxLen = 3
  NeedOneOf <- NeedSfl6
CHECK_DEADLOCK FALSE
