-------------------------------- MODULE Caps --------------------------------
(***************************************************************************)
(* Caps and utilization with values (C17): on top of the ledger actions    *)
(* the limit admin moves a bank's deposit limit, borrow limit and          *)
(* collateral-value cap (configure_bank_limits_only) above, onto and under *)
(* what the bank currently holds; interest moves the totals towards and    *)
(* past the limits; and in every reachable state TLC computes by bisection *)
(* over the ledger's own evaluation functions                              *)
(*   - the largest deposit the program accepts (deposit limit, wallet),    *)
(*   - the largest borrow it accepts (borrow limit, utilization, vault     *)
(*     liquidity, initial health - incl. the collateral-value cap),        *)
(*   - the largest withdrawal a lender can make (utilization, liquidity),  *)
(* emitting each maximum with its successor and the predicted error, and   *)
(* the `up to limit' deposit with the amount the program will actually     *)
(* take (remaining capacity measured after the accrual; zero capacity is a *)
(* successful no-op).  Every transition is replayed on the real program    *)
(* and judged by C17 (and the other ledger properties) - bank.rs           *)
(* change_asset_shares / change_liability_shares / check_utilization_ratio *)
(* / get_remaining_deposit_capacity, deposit.rs, borrow.rs, withdraw.rs.   *)
(***************************************************************************)
EXTENDS Ledger

CONSTANTS CapBanks,     \* banks whose limits move
          CapAccts,     \* <<account, bank>> pairs whose deposit boundary is computed
          BorAccts,     \* <<account, bank>> pairs whose borrow boundary is computed
          WdAccts,      \* <<account, bank>> pairs whose withdrawal boundary is computed
          DepLimits, BorLimits, InitLimits,   \* values the limit admin may set (native units / dollars); -1 = leave
          UpToAmounts,  \* amounts asked with deposit_up_to_limit
          CapTop        \* upper end of the bisections

\* configure_bank_limits_only (limit admin): -1 = not supplied
SetLimits(bn, dep, bor, ini) ==
  LET a == [op |-> "configure_limits", bank |-> bn]
           @@ (IF dep < 0 THEN <<>> ELSE [deposit_limit |-> dep]) @@ (IF bor < 0 THEN <<>> ELSE [borrow_limit |-> bor])
           @@ (IF ini < 0 THEN <<>> ELSE [init_limit |-> ini])
      b == st.banks[bn] frozen == Bit(b.flags, BANK_FREEZE)
      c1 == [b.cfg EXCEPT !.deposit_limit = IF dep < 0 THEN @ ELSE BOfInt(dep), !.borrow_limit = IF bor < 0 THEN @ ELSE BOfInt(bor),
                          !.init_limit = IF ini < 0 \/ frozen THEN @ ELSE BOfInt(ini)]
      post == [st EXCEPT !.banks[bn].cfg = c1]
  IN Do(a, "ok", post, [banks |-> [x \in {bn} |-> [cfg |-> [deposit_limit |-> c1.deposit_limit, borrow_limit |-> c1.borrow_limit, init_limit |-> c1.init_limit]]]])

DepositUpTo(an, bn, amt) ==
  LET a == [op |-> "deposit", acct |-> an, bank |-> bn, amount |-> amt, up_to_limit |-> TRUE]
      ev == DepositEval(an, bn, amt, TRUE)
  IN IF ev.r = "ok" THEN Do(a, "ok", ev.post, ev.obs) ELSE Fail(a, ev.r)

\* kind in {"deposit", "borrow", "withdraw"}
EvalK(kind, an, bn, x) ==
  IF kind = "deposit" THEN DepositEval(an, bn, x, FALSE) ELSE IF kind = "borrow" THEN BorrowEval(an, bn, x) ELSE WithdrawEval(an, bn, x, FALSE)
ActK(kind, an, bn, x) ==
  IF kind = "deposit" THEN Deposit(an, bn, x) ELSE IF kind = "borrow" THEN Borrow(an, bn, x) ELSE Withdraw(an, bn, x, FALSE)
RECURSIVE BisectK(_, _, _, _, _)
BisectK(kind, an, bn, lo, hi) ==
  IF hi - lo <= 1 THEN lo
  ELSE LET mid == lo + (hi - lo) \div 2 IN
       IF EvalK(kind, an, bn, mid).r = "ok" THEN BisectK(kind, an, bn, mid, hi) ELSE BisectK(kind, an, bn, lo, mid)
Boundary(kind, an, bn) ==
  IF EvalK(kind, an, bn, 1).r # "ok" THEN ActK(kind, an, bn, 1)
  ELSE IF EvalK(kind, an, bn, CapTop).r = "ok" THEN ActK(kind, an, bn, CapTop)
  ELSE LET m == BisectK(kind, an, bn, 1, CapTop) IN \E x \in {m, m + 1} : ActK(kind, an, bn, x)

NextC ==
  /\ depth < MaxDepth
  /\ \/ \E d \in Ticks : Tick(d)
     \/ \E bn \in CapBanks : Accrue(bn)
     \/ \E bn \in CapBanks, dep \in DepLimits : SetLimits(bn, dep, -1, -1)
     \/ \E bn \in CapBanks, bor \in BorLimits : SetLimits(bn, -1, bor, -1)
     \/ \E bn \in CapBanks, ini \in InitLimits : SetLimits(bn, -1, -1, ini)
     \/ \E c \in CapAccts : Boundary("deposit", c[1], c[2])
     \/ \E c \in CapAccts, x \in UpToAmounts : DepositUpTo(c[1], c[2], x)
     \/ \E c \in BorAccts : Boundary("borrow", c[1], c[2])
     \/ \E c \in WdAccts : Boundary("withdraw", c[1], c[2])
     \/ \E c \in BorAccts, amt \in Amounts : Repay(c[1], c[2], amt, FALSE)
     \/ \E c \in WdAccts, amt \in Amounts : Withdraw(c[1], c[2], amt, FALSE)

SpecC == Init /\ [][NextC]_vars
ViewC == <<View, [b \in BankNames |-> <<st.banks[b].cfg.deposit_limit, st.banks[b].cfg.borrow_limit, st.banks[b].cfg.init_limit>>]>>
=============================================================================
