---------------------------- MODULE MC_Substrate ----------------------------
(* Differential test of the BigInteger override against the pure TLA+ bodies
   on small values, plus algebraic laws on large values. *)
EXTENDS Fix, TLC
VARIABLE x
Small == {-1000000007, -65537, -3, -1, 0, 1, 2, 7, 48, 999999999, 1000000000, 1000000001, 2000000011}
PureAdd(a, b) == a + b
Init == x = 0
Next == x' = x
AssumeOverrides ==
  /\ \A a \in Small, b \in Small :
       /\ BToInt(BOfInt(a)) = a
       /\ BLe(BOfInt(a), BOfInt(b)) = (a <= b)
       /\ BLt(BOfInt(a), BOfInt(b)) = (a < b)
       /\ BCmp(BOfInt(a), BOfInt(b)) = (IF a < b THEN -1 ELSE IF a = b THEN 0 ELSE 1)
  /\ \A a \in {-30011, -3, -1, 0, 1, 2, 7, 48, 30000} , b \in {-30011, -3, -1, 1, 2, 7, 48, 30000} :
       /\ BAdd(BOfInt(a), BOfInt(b)) = BOfInt(a + b)
       /\ BSub(BOfInt(a), BOfInt(b)) = BOfInt(a - b)
       /\ BMul(BOfInt(a), BOfInt(b)) = BOfInt(a * b)
       /\ b > 0 => BFloorDiv(BOfInt(a), BOfInt(b)) = BOfInt(a \div b)
       /\ b > 0 => BMod(BOfInt(a), BOfInt(b)) = BOfInt(a % b)
       /\ BAdd(BMul(BTruncDiv(BOfInt(a), BOfInt(b)), BOfInt(b)), BSub(BOfInt(a), BMul(BTruncDiv(BOfInt(a), BOfInt(b)), BOfInt(b)))) = BOfInt(a)
       /\ BLe(BAbs(BMul(BTruncDiv(BOfInt(a), BOfInt(b)), BOfInt(b))), BAbs(BOfInt(a)))
  /\ LET big == BPow2(100) big2 == BAdd(BPow10(30), BOfInt(7)) IN
       /\ BSub(BAdd(big, big2), big2) = big
       /\ BFloorDiv(BMul(big, big2), big2) = big
       /\ BMod(BAdd(BMul(big, big2), BOfInt(5)), big2) = BOfInt(5)
       /\ BShr(BShl(big2, 48), 48) = big2
       /\ BOfStr("1267650600228229401496703205376") = big
       /\ BShow(big) = "1267650600228229401496703205376"
       /\ BFloorDiv(BNeg(BOfInt(7)), BOfInt(2)) = BOfInt(-4)
       /\ BTruncDiv(BNeg(BOfInt(7)), BOfInt(2)) = BOfInt(-3)
       /\ FMul(FOfInt(3), FOfInt(5)) = FOfInt(15)
       /\ FDiv(FOfInt(15), FOfInt(5)) = FOfInt(3)
       /\ FMul(BNeg(BOne), BOne) = BNeg(BOne)        \* -2^-96 floors to -1 ulp
       /\ FDiv(BNeg(BOne), FOfInt(2)) = BZero        \* trunc toward zero
       /\ RAdd(RMake(BOfInt(1), BOfInt(3)), RMake(BOfInt(1), BOfInt(6))) = RMake(BOfInt(1), BOfInt(2))
       /\ RLt(RMake(BOfInt(-1), BOfInt(3)), RZero)
       /\ RFloor(RMake(BOfInt(-7), BOfInt(2))) = BOfInt(-4)
       /\ RCeil(RMake(BOfInt(-7), BOfInt(2))) = BOfInt(-3)
       /\ FLit(1, 40) = BOfStr("7036874417766")      \* I80F48!(0.025) bits, checked vs crate by hx-fix
ASSUME AssumeOverrides
Spec == Init /\ [][Next]_x
=============================================================================
