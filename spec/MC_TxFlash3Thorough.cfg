SPECIFICATION Spec
CONSTANTS
  Alphabet <- Flash3Alphabet
  MaxLen = 5
  NeedOneOf <- NeedSfl3
CHECK_DEADLOCK FALSE
