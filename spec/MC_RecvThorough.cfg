SPECIFICATION SpecV
CONSTANTS
  Accts = {"A1"}
  BankNames = {"B1", "B2"}
  Amounts = {1, 1000003}
  Ticks = {31536000}
  LiqTriples <- RvLiq
  Prices <- RvPricesT
  BkCases <- RvNone
  RecvCases <- RvCases
  Repays = {1, 1000, 100000000, 500000000, 990000000}
  FixedSeizes = {1, 40000000}
  SeizeCap = 40000001
  OpStates = {2}
  MaxDepth = 4
VIEW View
CHECK_DEADLOCK FALSE
