SPECIFICATION SpecP
CONSTANTS
  Accts = {"A1", "A3"}
  BankNames = {"B1"}
  Amounts = {1000003}
  Ticks = {86400, 31536000}
  LiqTriples <- NoTuplesP
  Prices <- NoTuplesP
  BkCases <- NoTuplesP
  PayAccts = {"A1", "A3"}
  PayBanks = {"B1"}
  FeeAmounts = {1, 100000, 100000000}
  Strangers = {"U2"}
  DestWallets = {"U2"}
  FeeDests = {"U2.M1", "U2.M2"}
  EmisWords <- EmisWordsQ
  EmisRates = {0, 9000000}
  EmisTopUps = {5000000, 50000000}
  MaxDepth = 4
VIEW ViewP
CHECK_DEADLOCK FALSE
