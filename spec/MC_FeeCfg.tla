------------------------------ MODULE MC_FeeCfg ------------------------------
(* Model-checking instance of FeeCfg.tla from setups/payoutmodel.json (B1 lent and borrowed for half a year with every fee kind,
   program fees 1/64 fixed + 1/32 of the base rate copied into G1 and switched on). *)
EXTENDS FeeCfg
FcNone == {}
FcEdits == {<<"feewallet2", 1, 16, 1, 8>>, <<"feewallet", 0, 1, 0, 1>>}
FcBorrows == {<<"A1", "B1", 1000003>>}
=============================================================================
