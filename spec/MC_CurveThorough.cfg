SPECIFICATION Spec
CONSTANTS
  NPoints = 3
CHECK_DEADLOCK FALSE
