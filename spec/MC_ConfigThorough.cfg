SPECIFICATION Spec
CONSTANTS
  BankN = "B2"
  FromN = "B3"
  MaxDepth = 5
VIEW View
CHECK_DEADLOCK FALSE
