SPECIFICATION Spec
CONSTANTS
  Alphabet <- Recv2Alphabet
  MaxLen = 4
  NeedOneOf <- NeedStart34
CHECK_DEADLOCK FALSE
