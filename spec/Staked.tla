------------------------------- MODULE Staked -------------------------------
(***************************************************************************)
(* Staked collateral (spl-single-pool LST banks) with values: C04 C05 C09   *)
(* C13, beyond them the settings life cycle.  On top of the ledger actions  *)
(* and the feed / clock actions of RiskCfg.tla the environment moves the    *)
(* pool (rewards, slashing, the delegation falling to or below the          *)
(* permanent one SOL, dilution of the LST supply), the group admin edits    *)
(* the group-wide staked settings (weights, collateral-value cap, feed age, *)
(* risk tier - refused unless coherent) and anybody propagates them to a    *)
(* staked bank (refused when the copied feed age is below the minimum, or  *)
(* when the SOL feed was swapped and the new one is not passed along).     *)
(* The LST price is transcribed as the adapter computes it (module Impl:    *)
(* raw spot / time-weighted feed value x (delegated stake - 1 SOL) /        *)
(* supply, truncating, confidence NOT rescaled; check order supply, stake,  *)
(* owner, age).  In every reachable state TLC computes by bisection the     *)
(* largest SOL borrow against the LST collateral, the largest withdrawal of *)
(* it and the largest seizure a liquidator may take, and emits each with    *)
(* its successor and the predicted error for replay on the real program.    *)
(***************************************************************************)
EXTENDS RiskCfg

CONSTANTS StakeMoves,      \* set of <<pool, delegated stake (decimal string)>>
          Dilutions,       \* set of <<pool, LST mint, amount minted to an outside holder>>
          SettingsEdits,   \* set of edit records (aw |-> <<in, id, mn, md>>, max_age, init_limit, risk_tier)
          SettingsName,    \* name of the group's staked-settings account in the projection
          StakedBanks,     \* banks the settings may be propagated to
          WdPairs,         \* set of <<account, bank>> whose withdrawal boundary is located
          WdCap,
          SLiqCases,       \* set of <<liquidator, liquidatee, asset bank, liab bank>>
          SLiqProbes, SLiqTop

SetStake(v) ==
  LET a == [op |-> "set_stake", pool |-> v[1], stake |-> v[2]]
      post == [st EXCEPT !.pools[v[1]].stake = BOfStr(v[2])]
  IN Do(a, "ok", post, [pools |-> (v[1] :> [stake |-> BOfStr(v[2])])])

Dilute(v) ==
  LET a == [op |-> "fund", user |-> "outside", mint |-> v[2], amount |-> v[3]]
      post == [st EXCEPT !.pools[v[1]].supply = BAdd(@, BOfInt(v[3]))]
  IN Do(a, "ok", post, [pools |-> (v[1] :> [supply |-> post.pools[v[1]].supply])])

\* ---- edit_staked_settings (group admin): set what is given, then StakedSettings::validate
Patch(p) ==
  (IF Has(p, "aw") THEN [aw_init |-> Fx2(p.aw[1], p.aw[2]), aw_maint |-> Fx2(p.aw[3], p.aw[4])] ELSE <<>>)
  @@ (IF Has(p, "max_age") THEN [max_age |-> p.max_age] ELSE <<>>)
  @@ (IF Has(p, "init_limit") THEN [init_limit |-> p.init_limit] ELSE <<>>)
  @@ (IF Has(p, "risk_tier") THEN [risk_tier |-> p.risk_tier] ELSE <<>>)
  @@ (IF Has(p, "oracle") THEN [oracle |-> p.oracle] ELSE <<>>)
SettingsValid(s) ==
  /\ ~BIsNeg(s.aw_init) /\ BLe(s.aw_init, FOne)
  /\ BGe(s.aw_maint, s.aw_init)
  /\ BLe(s.aw_maint, BAdd(FOne, FOne))
  /\ (s.risk_tier = 1) => (BIsZero(s.aw_init) /\ BIsZero(s.aw_maint))
EditSettings(p) ==
  LET q == Patch(p)
      a == [op |-> "edit_staked_settings", group |-> st.staked[SettingsName].group] @@ q
      s0 == st.staked[SettingsName]
      s1 == [s0 EXCEPT !.aw_init = IF Has(q, "aw_init") THEN q.aw_init ELSE @,
                       !.aw_maint = IF Has(q, "aw_maint") THEN q.aw_maint ELSE @,
                       !.oracle_max_age = IF Has(q, "max_age") THEN q.max_age ELSE @,
                       !.init_limit = IF Has(q, "init_limit") THEN BOfInt(q.init_limit) ELSE @,
                       !.risk_tier = IF Has(q, "risk_tier") THEN q.risk_tier ELSE @,
                       !.oracle = IF Has(q, "oracle") THEN q.oracle ELSE @]
      post == [st EXCEPT !.staked[SettingsName] = s1]
  IN IF SettingsValid(s1)
     THEN Do(a, "ok", post, [staked |-> (SettingsName :> [aw_init |-> s1.aw_init, aw_maint |-> s1.aw_maint, oracle_max_age |-> s1.oracle_max_age,
                                                           init_limit |-> s1.init_limit, risk_tier |-> s1.risk_tier, oracle |-> s1.oracle])])
     ELSE Fail(a, "InvalidConfig")

\* ---- propagate_staked_settings (anybody): copy; if the SOL feed changed, the new feed has to be passed along and is validated
\* (one account, the key the settings name, a price update account); then BankConfig::validate
Propagate(bn, give) ==
  LET s == st.staked[SettingsName] b == st.banks[bn]
      a == [op |-> "propagate_staked", bank |-> bn] @@ (IF give THEN [oracle |-> s.oracle] ELSE <<>>)
      changed == s.oracle # b.cfg.oracle_keys[1]
      c1 == [b.cfg EXCEPT !.aw_init = s.aw_init, !.aw_maint = s.aw_maint, !.deposit_limit = s.deposit_limit,
                          !.init_limit = s.init_limit, !.oracle_max_age = s.oracle_max_age, !.risk_tier = s.risk_tier,
                          !.oracle_keys = [@ EXCEPT ![1] = s.oracle]]
      post == [st EXCEPT !.banks[bn].cfg = c1]
  IN IF changed /\ ~give THEN Fail(a, "WrongNumberOfOracleAccounts")
     ELSE IF ~SettingsValid(s) THEN Fail(a, "InvalidConfig")
     ELSE IF s.oracle_max_age < 10 THEN Fail(a, "InvalidOracleSetup")
     ELSE Do(a, "ok", post, [banks |-> (bn :> [cfg |-> [aw_init |-> c1.aw_init, aw_maint |-> c1.aw_maint, deposit_limit |-> c1.deposit_limit,
                                                         init_limit |-> c1.init_limit, oracle_max_age |-> c1.oracle_max_age, risk_tier |-> c1.risk_tier,
                                                         oracle_keys |-> c1.oracle_keys]])])

\* ---- the exact boundary of a withdrawal of collateral
RECURSIVE BisectW(_, _, _, _)
BisectW(an, bn, lo, hi) ==
  IF hi - lo <= 1 THEN lo
  ELSE LET mid == lo + (hi - lo) \div 2 IN
       IF WithdrawEval(an, bn, mid, FALSE).r = "ok" THEN BisectW(an, bn, mid, hi) ELSE BisectW(an, bn, lo, mid)
BoundaryWithdraw(an, bn) ==
  IF WithdrawEval(an, bn, WdCap, FALSE).r # "RiskEngineInitRejected" THEN Withdraw(an, bn, WdCap, FALSE)
  ELSE LET m == BisectW(an, bn, 0, WdCap) IN \E x \in {m, m + 1} : x > 0 /\ Withdraw(an, bn, x, FALSE)

\* ---- the largest seizure of LST collateral
SEval(t, q) == LiquidateEval(t[1], t[2], t[3], t[4], q)
SAct(t, q) == Liquidate(t[1], t[2], t[3], t[4], q)
RECURSIVE BisectS(_, _, _)
BisectS(t, lo, hi) ==
  IF hi - lo <= 1 THEN lo
  ELSE LET mid == lo + (hi - lo) \div 2 IN IF SEval(t, mid).r = "ok" THEN BisectS(t, mid, hi) ELSE BisectS(t, lo, mid)
BoundarySeize(t) ==
  LET oks == {p \in SLiqProbes : SEval(t, p).r = "ok"} IN
  IF oks = {} \/ SEval(t, SLiqTop).r = "ok" THEN SAct(t, SLiqTop)
  ELSE LET lo == CHOOSE p \in oks : \A x \in oks : x <= p
           m == BisectS(t, lo, SLiqTop)
       IN \E x \in {m, m + 1} : SAct(t, x)

NextS ==
  /\ depth < MaxDepth
  /\ \/ \E d \in Ticks : TickR(d, TRUE)
     \/ \E d \in StaleTicks : TickR(d, FALSE)
     \/ \E v \in OracleVariants : SetOracle(v)
     \/ \E v \in StakeMoves : SetStake(v)
     \/ \E v \in Dilutions : Dilute(v)
     \/ \E p \in SettingsEdits : EditSettings(p)
     \/ \E bn \in StakedBanks, give \in BOOLEAN : Propagate(bn, give)
     \/ \E p \in BoundaryPairs : BoundaryBorrow(p[1], p[2])
     \/ \E p \in WdPairs : BoundaryWithdraw(p[1], p[2])
     \/ \E t \in SLiqCases : BoundarySeize(t)
     \/ \E t \in SLiqCases, q \in SLiqProbes : SAct(t, q)
     \/ \E an \in Accts, bn \in StakedBanks, amt \in Amounts : Deposit(an, bn, amt)
SpecS == Init /\ [][NextS]_vars

Pools == IF Has(st, "pools") THEN st.pools ELSE <<>>
ViewS == <<ViewR, [p \in DOMAIN Pools |-> <<Pools[p].stake, Pools[p].supply>>], st.staked,
           [b \in StakedBanks |-> <<st.banks[b].cfg.aw_init, st.banks[b].cfg.aw_maint, st.banks[b].cfg.oracle_max_age, st.banks[b].cfg.risk_tier, st.banks[b].cfg.oracle_keys[1]>>]>>
=============================================================================
