SPECIFICATION Spec
CONSTANTS
  Alphabet <- FlashAlphabet
  MaxLen = 4
  NeedOneOf <- NeedSfl
CHECK_DEADLOCK FALSE
