---------------------------- MODULE PropsAdmin ----------------------------
(***************************************************************************)
(* C12 least privilege (field masks per delegated-admin instruction,       *)
(* frozen settings, deleverage bracket and daily limit) and C19 fees and   *)
(* emissions reach only their destinations in exactly accrued amounts.     *)
(***************************************************************************)
EXTENDS PropsRisk

\* ---- C12 ------------------------------------------------------------------------------------
ChangedTop(b, q) == {f \in DOMAIN q : b[f] # q[f]}
ChangedCfg(b, q) == {f \in DOMAIN q.cfg : b.cfg[f] # q.cfg[f]}
FlagDiff(b, q) == (SeqToSet(b.flags) \ SeqToSet(q.flags)) \cup (SeqToSet(q.flags) \ SeqToSet(b.flags))

\* allowed changes of the *target* bank record per delegated-admin instruction: <<top-level fields, cfg fields, flag bits>>
Remit(ev) ==
  CASE ev = "configure_interest" -> <<{"cfg"}, {"ir"}, {}>>
    [] ev = "configure_limits" -> <<{"cfg"}, {"deposit_limit", "borrow_limit", "init_limit"}, {}>>
    [] ev = "configure_emode" -> <<{"emode"}, {}, {}>>
    [] ev = "clone_emode" -> <<{"emode"}, {}, {}>>
    [] ev \in {"setup_emissions", "update_emissions"} -> <<{"emis_rate", "emis_rem", "emis_mint", "flags"}, {}, {BANK_EMIS_BORROW, BANK_EMIS_LEND}>>
    [] ev = "write_metadata" -> <<{}, {}, {}>>
    [] ev = "tokenless_complete" -> <<{"flags"}, {}, {BANK_TOKENLESS_COMPLETE}>>
    [] OTHER -> <<{}, {}, {}>>
DelegatedOps == {"configure_interest", "configure_limits", "configure_emode", "clone_emode", "setup_emissions", "update_emissions",
                 "write_metadata", "tokenless_complete"}
TargetBank(e) == IF e.ev = "clone_emode" THEN e.a.to ELSE e.a.bank

FrozenSensitiveOps == {"configure_bank", "configure_interest", "configure_limits", "configure_oracle", "set_fixed_price"}
FrozenCfgFields == {"aw_init", "aw_maint", "lw_init", "lw_maint", "oracle_setup", "oracle_keys", "oracle_max_age", "oracle_max_conf",
                    "fixed_price", "ir", "risk_tier", "init_limit", "op_state"}

C12Acc0 == [day |-> <<>>]
IsDelevTx(e) == e.ev = "tx" /\ Len(e.a.ixs) >= 2 /\ e.a.ixs[1].op = "start_delev"
\* dollar value (low-biased spot price) of everything that left liquidity vaults in the transaction
TxWithdrawnValue(pre, e, post) ==
  FoldSet(LAMBDA bn, x :
            LET b == pre.banks[bn] q == post.banks[bn]
                out == BSub(TokAmt(pre, b.vault_liq), TokAmt(post, q.vault_liq))
                pr == RefPrice(pre, e, bn, "RT")
            IN IF BIsPos(out) /\ pr.known THEN RAdd(x, RDiv(RMul(ROfBig(out), Low(pr)), Dec(b))) ELSE x,
          RZero, (DOMAIN pre.banks) \cap (DOMAIN post.banks))
NWithdraws(e) == Cardinality({i \in DOMAIN e.a.ixs : e.a.ixs[i].op = "withdraw"})
\* accumulator per group: the daily window as the statement means it - it opens at the first forced withdrawal that comes a
\* full day or more after the previous window opened (or when the limit is (re)configured), whatever stamp the program keeps
\* for it - with the exact value withdrawn in that window and the number of withdraw instructions (each may round its
\* whole-dollar value down by < 1).  The program's own stamp is read once, when a group is first seen.
C12Win0(acc, pre, g) == IF Has(acc.day, g) THEN acc.day[g] ELSE [win |-> pre.groups[g].delev.reset, v |-> RZero, n |-> 0]
C12AccNext(acc, pre, e, post) ==
  IF IsDelevTx(e) /\ Ok(e) /\ Has(pre.accts, e.a.ixs[1].acct) THEN
     LET g == pre.accts[e.a.ixs[1].acct].group
         now == post.clock.ts
         c0 == C12Win0(acc, pre, g)
         cur == IF BGe(BSub(now, c0.win), DAY_SECS) THEN [win |-> now, v |-> RZero, n |-> 0] ELSE c0
     IN [day |-> (g :> [win |-> cur.win, v |-> RAdd(cur.v, TxWithdrawnValue(pre, e, post)), n |-> cur.n + NWithdraws(e)]) @@ acc.day]
  ELSE IF e.ev = "delev_limit" /\ Ok(e) /\ Has(e.a, "group") /\ Has(pre.groups, e.a.group) THEN
     LET g == e.a.group c0 == C12Win0(acc, pre, g) IN
     [day |-> (g :> [c0 EXCEPT !.win = post.clock.ts]) @@ acc.day]
  ELSE acc

C12(pre, e, post, acc, line) ==
  /\ (e.ev \in DelegatedOps /\ Ok(e) /\ Has(pre.banks, TargetBank(e))) =>
       LET tb == TargetBank(e) b == pre.banks[tb] q == post.banks[tb] rm == Remit(e.ev) IN
       /\ Chk("C12", "only_fields_in_remit_change", line,
              \* (the derived rate/price cache and the update stamp are not configuration and are not constrained here)
              (ChangedTop(b, q) \ {"cache", "last_update"}) \subseteq rm[1] /\ ChangedCfg(b, q) \subseteq rm[2],
              [ev |-> e.ev, bank |-> tb, changed |-> ChangedTop(b, q), changed_cfg |-> ChangedCfg(b, q)])
       /\ Chk("C12", "no_other_flag_touched", line, FlagDiff(b, q) \subseteq rm[3],
              [ev |-> e.ev, bank |-> tb, flag_bits_changed |-> FlagDiff(b, q), pre_flags |-> b.flags, post_flags |-> q.flags])
       /\ Chk("C12", "no_other_bank_group_or_account_touched", line,
              /\ \A bn \in (DOMAIN post.banks) \ {tb} : Has(pre.banks, bn) /\ pre.banks[bn] = post.banks[bn]
              /\ post.accts = pre.accts /\ post.groups = pre.groups /\ post.fee = pre.fee,
              [ev |-> e.ev, bank |-> tb])
       /\ Chk("C12", "no_vault_or_wallet_touched", line,
              \A t \in DOMAIN post.tok :
                 (Has(pre.tok, t) /\ pre.tok[t] = post.tok[t])
                 \/ (e.ev \in {"setup_emissions", "update_emissions"} /\ Has(e.a, "mint") /\ post.tok[t].mint = e.a.mint),
              [ev |-> e.ev])
  /\ (e.ev \in FrozenSensitiveOps /\ Ok(e) /\ Has(pre.banks, e.a.bank) /\ Bit(pre.banks[e.a.bank].flags, BANK_FREEZE)) =>
       LET b == pre.banks[e.a.bank] q == post.banks[e.a.bank] IN
       Chk("C12", "frozen_settings_unchanged", line, ChangedCfg(b, q) \cap FrozenCfgFields = {} /\ b.emode = q.emode,
           [ev |-> e.ev, bank |-> e.a.bank, changed_cfg |-> ChangedCfg(b, q)])
  /\ (IsProgramEvent(e) /\ Ok(e)) =>
       \A bn \in (DOMAIN post.banks) \cap (DOMAIN pre.banks) :
         Bit(pre.banks[bn].flags, BANK_FREEZE) =>
           Chk("C12", "freeze_never_lifted", line, Bit(post.banks[bn].flags, BANK_FREEZE), [ev |-> e.ev, bank |-> bn])
  \* forced deleverage: bracket health and the daily dollar limit
  /\ (IsDelevTx(e) /\ Ok(e)) =>
       LET an == e.a.ixs[1].acct
           g == pre.accts[an].group
           acc2 == C12AccNext(acc, pre, e, post)
           lim == post.groups[g].delev.limit
           h0 == HealthRef(pre, e, pre.accts[an], "Maint", "fav")
           h1 == HealthRef(post, e, post.accts[an], "Maint", "fav")
       IN /\ Chk("C12", "deleverage_leaves_no_marker", line,
                 ~Bit(post.accts[an].flags, ACC_RECEIVERSHIP) /\ ~Bit(post.accts[an].flags, ACC_DELEVERAGE), [acct |-> an])
          /\ (h0.known /\ h1.known) =>
               Chk("C12", "deleverage_cannot_worsen_health", line, RGe(RAdd(Health(h1), h1.tol), RSub(Health(h0), h0.tol)), [acct |-> an])
          /\ (~BIsZero(lim) /\ Has(acc2.day, g)) =>
               Chk("C12", "daily_deleverage_limit_respected", line,
                   RLe(RSub(acc2.day[g].v, ROfInt(acc2.day[g].n)), RAdd(ROfBig(lim), ROne)),
                   [group |-> g, limit |-> lim, value_num |-> acc2.day[g].v[1], value_den |-> acc2.day[g].v[2]])

\* ---- C19 fees -------------------------------------------------------------------------------
\* program fees go to the token account of the wallet the global fee state names now (not of a copy cached earlier)
FeeAtaName(pre, b) == "ata." \o pre.fee.wallet \o "." \o b.mint
C19(pre, e, post, line) ==
  /\ (e.ev = "collect_fees" /\ Ok(e) /\ Has(pre.banks, e.a.bank)) =>
       LET bn == e.a.bank b == pre.banks[bn] q == post.banks[bn]
           avail0 == ROfBig(TokAmt(pre, b.vault_liq))
           fi == R(b.fee_ins) fg == R(b.fee_grp) fp == R(b.fee_prog)
           ti == ROfBig(RFloor(RMin(fi, avail0)))
           tg == ROfBig(RFloor(RMin(fg, RSub(avail0, ti))))
           tp == ROfBig(RFloor(RMin(fp, RSub(RSub(avail0, ti), tg))))
           ata == FeeAtaName(pre, b)
           d(t) == ROfBig(BSub(TokGross(post, t), TokGross(pre, t)))
           moved == {t \in DOMAIN post.tok : ~Has(pre.tok, t) \/ pre.tok[t] # post.tok[t]}
       IN /\ Chk("C19", "whole_token_part_of_each_bucket_moves", line,
                 d(b.vault_ins) = ti /\ d(b.vault_fee) = tg /\ d(ata) = tp /\ d(b.vault_liq) = RNeg(RAdd(ti, RAdd(tg, tp))),
                 [bank |-> bn, ti |-> ti[1], tg |-> tg[1], tp |-> tp[1], d_ins |-> d(b.vault_ins)[1], d_fee |-> d(b.vault_fee)[1], d_ata |-> d(ata)[1]])
          /\ Chk("C19", "buckets_fall_by_exactly_their_transfer", line,
                 RSub(fi, R(q.fee_ins)) = ti /\ RSub(fg, R(q.fee_grp)) = tg /\ RSub(fp, R(q.fee_prog)) = tp, [bank |-> bn])
          /\ Chk("C19", "nothing_else_moves", line,
                 moved \subseteq {b.vault_liq, b.vault_ins, b.vault_fee, ata}
                 /\ ChangedTop(b, q) \subseteq {"fee_ins", "fee_grp", "fee_prog", "cache", "last_update"} /\ post.accts = pre.accts,
                 [bank |-> bn, moved |-> moved, changed |-> ChangedTop(b, q)])
  \* fee and insurance vaults are drawn down only by the group admin, by anyone into the fixed destination, or by bankruptcy cover
  /\ (IsProgramEvent(e) /\ Ok(e) /\ e.ev # "tx") =>
       \A bn \in (DOMAIN post.banks) \cap (DOMAIN pre.banks) :
         LET b == pre.banks[bn] q == post.banks[bn] g == pre.groups[b.group]
             signer == IF Has(e.a, "signer") THEN e.a.signer ELSE g.admin
             dfee == BSub(TokAmt(post, q.vault_fee), TokAmt(pre, b.vault_fee))
             dins == BSub(TokAmt(post, q.vault_ins), TokAmt(pre, b.vault_ins))
         IN /\ BIsNeg(dfee) =>
                 Chk("C19", "fee_vault_drawn_only_by_admin_or_to_fixed_destination", line,
                     \/ (e.ev = "withdraw_fees" /\ e.a.bank = bn /\ signer = g.admin)
                     \/ (e.ev = "withdraw_fees_perm" /\ e.a.bank = bn /\ b.fees_dest # "none"
                         /\ BSub(TokGross(post, b.fees_dest), TokGross(pre, b.fees_dest)) = BNeg(dfee)),
                     [bank |-> bn, ev |-> e.ev, signer |-> signer])
            /\ BIsNeg(dins) =>
                 Chk("C19", "insurance_vault_drawn_only_by_admin_or_bankruptcy", line,
                     \/ (e.ev = "withdraw_insurance" /\ e.a.bank = bn /\ signer = g.admin)
                     \/ (e.ev = "bankruptcy" /\ e.a.bank = bn),
                     [bank |-> bn, ev |-> e.ev, signer |-> signer])
  \* emissions
  /\ (IsProgramEvent(e) /\ Ok(e) /\ e.ev # "tx") =>
       \A bn \in (DOMAIN post.banks) \cap (DOMAIN pre.banks) :
         LET b == pre.banks[bn] q == post.banks[bn]
             sumE(s) == FoldSet(LAMBDA an, x : BAdd(PosBits(s.accts[an], bn, "emis"), x), BZero, DOMAIN s.accts)
             dOut == BSub(sumE(post), sumE(pre))
             dRem == BSub(q.emis_rem, b.emis_rem)
         IN /\ Chk("C19", "emissions_remaining_never_negative", line, ~BIsNeg(q.emis_rem), [bank |-> bn])
            /\ (e.ev \notin {"setup_emissions", "update_emissions", "withdraw_emissions", "withdraw_emissions_perm", "close_balance",
                             "transfer_account", "purge"} /\ ~(Has(e.a, "all") /\ e.a.all = TRUE)) =>
                 Chk("C19", "credited_emissions_come_out_of_the_funded_remainder", line, BAdd(dOut, dRem) = BZero,
                     [bank |-> bn, ev |-> e.ev, d_outstanding |-> dOut, d_remaining |-> dRem])
  /\ (IsProgramEvent(e) /\ Ok(e) /\ e.ev # "tx") =>
       \A an \in (DOMAIN post.accts) \cap (DOMAIN pre.accts) :
         LET a == pre.accts[an] a2 == post.accts[an] IN
         (a # a2 /\ e.ev \notin {"withdraw_emissions", "withdraw_emissions_perm", "transfer_account"}) =>
           \A i \in ActiveSlots(a), j \in ActiveSlots(a2) :
             (a.bal[i].bank = a2.bal[j].bank /\ Has(pre.banks, a.bal[i].bank)) =>
               LET b == pre.banks[a.bal[i].bank]
                   dE == R(BSub(a2.bal[j].emis, a.bal[i].emis))
                   period == ROfBig(BSub(post.clock.ts, a.bal[i].lu))
                   \* position size at the share values after the instruction's own accrual (upper bound on both sides)
                   amt == RMax(RMul(R(a.bal[i].a), R(post.banks[a.bal[i].bank].asv)), RMul(R(a.bal[i].l), R(post.banks[a.bal[i].bank].lsv)))
                   bound == RDiv(RMul(RMul(period, RDiv(amt, Dec(b))), ROfBig(b.emis_rate)), YEAR)
               IN Chk("C19", "emissions_proportional_to_size_time_rate", line,
                      RGe(dE, RZero) /\ RLe(dE, RAdd(bound, RMul(TINY, RAdd(ROne, bound)))),
                      [acct |-> an, bank |-> a.bal[i].bank, ev |-> e.ev, de_num |-> dE[1], de_den |-> dE[2], bound_num |-> bound[1], bound_den |-> bound[2]])
  \* "in proportion to position size, time and rate" from below: an instruction that works on a position whose side is
  \* earning (its emissions flag is on), with enough funded remainder, credits the full product - the position's size taken
  \* on its own side (a debt at the liability share value, a deposit at the asset share value) - less fixed-point truncation
  /\ (e.ev \in {"deposit", "withdraw", "borrow", "repay", "settle_emissions"} /\ Ok(e) /\ Has(e.a, "acct") /\ Has(e.a, "bank")
      /\ Has(pre.accts, e.a.acct) /\ Has(post.accts, e.a.acct) /\ Has(pre.banks, e.a.bank) /\ Has(post.banks, e.a.bank)) =>
       LET a == pre.accts[e.a.acct] a2 == post.accts[e.a.acct] bn == e.a.bank b == pre.banks[bn] q == post.banks[bn] IN
       \A i \in ActiveSlots(a), j \in ActiveSlots(a2) :
         (a.bal[i].bank = bn /\ a2.bal[j].bank = bn) =>
           LET sl == a.bal[i]
               side == IF BGe(sl.l, FONE) THEN "L" ELSE IF BGe(sl.a, FONE) THEN "A" ELSE "N"
               earning == (side = "A" /\ Bit(b.flags, BANK_EMIS_LEND)) \/ (side = "L" /\ Bit(b.flags, BANK_EMIS_BORROW))
               touched == e.ev = "settle_emissions" \/ sl.a # a2.bal[j].a \/ sl.l # a2.bal[j].l
               period == ROfBig(BSub(post.clock.ts, sl.lu))
               amt == IF side = "L" THEN RMul(R(sl.l), R(q.lsv)) ELSE RMul(R(sl.a), R(q.asv))
               rate == ROfBig(b.emis_rate)
               due == RDiv(RMul(RMul(period, RDiv(amt, Dec(b))), rate), YEAR)
               tol == RMul(TINY, RAdd(ROne, RAdd(due, RMul(RAdd(ROne, RDiv(period, YEAR)), rate))))
               dE == R(BSub(a2.bal[j].emis, sl.emis))
           IN (earning /\ touched /\ BGe(sl.lu, BOfStr("1681989983")) /\ BGt(post.clock.ts, sl.lu) /\ RGe(R(b.emis_rem), RAdd(due, tol))) =>
              Chk("C19", "emissions_credited_in_full_for_size_time_rate", line, RGe(dE, RSub(due, tol)),
                  [acct |-> e.a.acct, bank |-> bn, ev |-> e.ev, side |-> side, de_num |-> dE[1], de_den |-> dE[2], due_num |-> due[1], due_den |-> due[2]])
  \* "in proportion to ... time": the time a position accrues for runs from its last interaction, so every instruction
  \* that works on a position restarts that position's clock, whether or not the position was earning at that moment
  /\ (e.ev \in {"deposit", "withdraw", "borrow", "repay", "settle_emissions"} /\ Ok(e) /\ Has(e.a, "acct") /\ Has(e.a, "bank") /\ Has(post.accts, e.a.acct)) =>
       LET a2 == post.accts[e.a.acct] IN
       \A j \in ActiveSlots(a2) :
         \* (an instruction that returns before touching the position, e.g. a deposit of nothing, is no interaction)
         (a2.bal[j].bank = e.a.bank /\ (e.ev = "settle_emissions" \/ ~Has(pre.accts, e.a.acct)
            \/ PosBits(pre.accts[e.a.acct], e.a.bank, "a") # PosBits(a2, e.a.bank, "a") \/ PosBits(pre.accts[e.a.acct], e.a.bank, "l") # PosBits(a2, e.a.bank, "l"))) =>
           Chk("C19", "position_clock_restarts_at_every_interaction", line, a2.bal[j].lu = post.clock.ts,
               [acct |-> e.a.acct, bank |-> e.a.bank, ev |-> e.ev, last_update |-> a2.bal[j].lu, now |-> post.clock.ts])
  /\ (e.ev \in {"withdraw_emissions", "withdraw_emissions_perm"} /\ Ok(e) /\ Has(pre.banks, e.a.bank) /\ Has(pre.accts, e.a.acct)) =>
       LET bn == e.a.bank b == pre.banks[bn] a == pre.accts[e.a.acct]
           ev_vault == bn \o ".emis_vault." \o b.emis_mint
           out == BSub(TokAmt(pre, ev_vault), TokAmt(post, ev_vault))
           gainers == {t \in DOMAIN post.tok : post.tok[t].mint = b.emis_mint /\ t # ev_vault /\
                          BIsPos(BSub(TokGross(post, t), IF Has(pre.tok, t) THEN TokGross(pre, t) ELSE BZero))}
           permDest == "ata." \o a.emis_dest \o "." \o b.emis_mint
           signer == IF Has(e.a, "signer") THEN e.a.signer ELSE a.auth
       IN /\ Chk("C19", "emissions_paid_to_exactly_one_destination", line, Cardinality(gainers) <= 1 /\ (BIsPos(out) => Cardinality(gainers) = 1), [bank |-> bn])
          /\ (e.ev = "withdraw_emissions_perm") =>
               Chk("C19", "permissionless_payout_only_to_registered_destination", line,
                   a.emis_dest # "none" /\ gainers \subseteq {permDest}, [acct |-> e.a.acct, gainers |-> gainers, expected |-> permDest])
          /\ (e.ev = "withdraw_emissions") =>
               Chk("C19", "payout_only_with_authority_signature", line, signer = a.auth \/ Bit(a.flags, ACC_FROZEN), [acct |-> e.a.acct, signer |-> signer])
          /\ Chk("C19", "payout_is_whole_part_of_outstanding", line,
                 LET sl == {i \in ActiveSlots(a) : a.bal[i].bank = bn} IN
                 \A i \in sl : RLe(ROfBig(out), RAdd(R(a.bal[i].emis), RAdd(ROne,
                        RDiv(RMul(RMul(ROfBig(BSub(post.clock.ts, a.bal[i].lu)),
                             RDiv(RMax(RMul(R(a.bal[i].a), R(post.banks[bn].asv)), RMul(R(a.bal[i].l), R(post.banks[bn].lsv))), Dec(b))), ROfBig(b.emis_rate)), YEAR)))),
                 [acct |-> e.a.acct, bank |-> bn, out |-> out])
=============================================================================
