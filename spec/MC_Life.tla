------------------------------ MODULE MC_Life ------------------------------
(* Model-checking instance of Life.tla: the borrower at its limit of the risk seed (setups/riskmodel.json), a collateral
   price that halves or collapses, liquidation of 1 unit / part / all of the collateral, settlement, closing, moving. *)
EXTENDS Life
LifeLiq == {<<"A2", "A1", "B1", "B2">>}
LifePrices == {<<"B1", 1, 2>>, <<"B1", 1, 100000000>>}
LifeBk == {<<"A1", "B2", "admin">>}
LifeSet == {"A1", "A2"}
=============================================================================
