SPECIFICATION SpecV
CONSTANTS
  Accts = {"A1"}
  BankNames = {"B1", "B2"}
  Amounts = {1000003}
  Ticks = {}
  LiqTriples <- RvLiq
  Prices <- RvPrices
  BkCases <- RvNone
  RecvCases <- RvCases
  Repays = {1, 100000000, 990000000}
  FixedSeizes = {1}
  SeizeCap = 40000001
  OpStates = {2}
  MaxDepth = 3
VIEW View
CHECK_DEADLOCK FALSE
