SPECIFICATION SpecC
CONSTANTS
  Accts = {"A1", "A2", "A3"}
  BankNames = {"B1", "B2"}
  Amounts = {1000003}
  Ticks = {86400, 31536000}
  LiqTriples <- NoTuplesC
  Prices <- NoTuplesC
  BkCases <- NoTuplesC
  CapBanks = {"B1"}
  CapAccts <- CapAcctsQ
  BorAccts <- BorAcctsQ
  WdAccts <- WdAcctsQ
  DepLimits = {0, 70000000, 72000000, 100000000}
  BorLimits = {0, 15000000, 17000000}
  InitLimits = {0, 20, 50}
  UpToAmounts = {1, 5000000, 2000000000}
  CapTop = 2000000000
  MaxDepth = 3
VIEW ViewC
CHECK_DEADLOCK FALSE
