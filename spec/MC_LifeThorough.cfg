SPECIFICATION SpecL
CONSTANTS
  Accts = {"A1", "A2"}
  BankNames = {"B1", "B2"}
  Amounts = {1, 1000003, 40000000}
  Ticks = {31536000}
  LiqTriples <- LifeLiq
  Prices <- LifePrices
  BkCases <- LifeBk
  LifeAccts <- LifeSet
  MaxDepth = 4
VIEW View
CHECK_DEADLOCK FALSE
