--------------------------------- MODULE Bkr ---------------------------------
(***************************************************************************)
(* Bankruptcy with values (C07): from the risk seed (a borrower at its     *)
(* limit) the collateral becomes worthless or nearly so, the insurance     *)
(* vault is funded below / exactly at / above the bad debt, the group      *)
(* admin opts the bank into and out of permissionless settlement, and the  *)
(* debt is settled by the group admin, the risk admin and a stranger:      *)
(* cover from the insurance vault as far as it reaches (net of a Token-    *)
(* 2022 fee where there is one), the rest taken off the deposit share      *)
(* value, the bank killed when its deposits are consumed, the account      *)
(* disabled - all predicted bit for bit by Ledger.Bankruptcy (a            *)
(* transcription of handle_bankruptcy.rs / Bank::socialize_loss).          *)
(* Afterwards lenders withdraw at the reduced share value, deposits into a *)
(* killed bank are refused, the borrower's remaining collateral can be     *)
(* seized or withdrawn, and a second settlement is attempted.  Every       *)
(* transition is replayed on the real program and judged by C07 (and the   *)
(* ledger properties).                                                     *)
(***************************************************************************)
EXTENDS Ledger

CONSTANTS BkrSigners,   \* who tries to settle
          BkrBanks,     \* set of <<account, debt bank>>
          InsLevels,    \* amounts donated to the insurance vault
          OptIns,       \* values the admin may give the permissionless flag
          After,        \* set of <<account, bank, amount>>: deposits / withdrawals tried afterwards
          BkrStates     \* operational states the admin may ask for

\* tokens donated straight to the insurance vault (environment)
FundIns(bn, amt) ==
  LET a == [op |-> "fund_vault", mint |-> st.banks[bn].mint, dst |-> st.banks[bn].vault_ins, amount |-> amt]
      v == st.banks[bn].vault_ins
      post == [st EXCEPT !.tok[v].amount = BAdd(@, BOfInt(amt))]
  IN Do(a, "ok", post, Obs(post, {}, {}, {v}))

\* configure_bank{permissionless_bad_debt_settlement}: group admin; a frozen bank keeps its flags
OptIn(bn, on) ==
  LET a == [op |-> "configure_bank", bank |-> bn, cfg |-> [permissionless_bad_debt |-> on]]
      b == st.banks[bn]
      fl == IF Bit(b.flags, BANK_FREEZE) THEN b.flags
            ELSE IF on THEN (IF Bit(b.flags, BANK_PERMISSIONLESS_BAD_DEBT) THEN b.flags
                             ELSE SortSeq(b.flags \o <<BANK_PERMISSIONLESS_BAD_DEBT>>, LAMBDA x, y : x < y))
            ELSE SelectSeq(b.flags, LAMBDA x : x # BANK_PERMISSIONLESS_BAD_DEBT)
      post == [st EXCEPT !.banks[bn].flags = fl]
  IN Do(a, "ok", post, [banks |-> [x \in {bn} |-> [flags |-> fl]]])

\* configure_bank{operational_state}: the group admin moves a bank between paused / operational / reduce-only; "killed by bankruptcy"
\* cannot be asked for, and a bank that is in that state stays in it whatever is asked for
SetState(bn, s) ==
  LET a == [op |-> "configure_bank", bank |-> bn, cfg |-> [op_state |-> s]]
      post == [st EXCEPT !.banks[bn].cfg.op_state = s]
  IN IF s = OP_KILLED THEN Fail(a, "Unauthorized")
     ELSE IF st.banks[bn].cfg.op_state = OP_KILLED THEN Fail(a, "BankKilledByBankruptcy")
     ELSE Do(a, "ok", post, [banks |-> (bn :> [cfg |-> [op_state |-> s]])])

NextB ==
  /\ depth < MaxDepth
  /\ \/ \E d \in Ticks : Tick(d)
     \/ \E p \in Prices : SetPrice(p[1], p[2], p[3])
     \/ \E c \in BkrBanks, x \in InsLevels : FundIns(c[2], x)
     \/ \E c \in BkrBanks, on \in OptIns : OptIn(c[2], on)
     \/ \E c \in BkrBanks, s \in BkrStates : SetState(c[2], s)
     \/ \E c \in BkrBanks, sg \in BkrSigners : Bankruptcy(c[1], c[2], sg)
     \/ \E u \in After : Deposit(u[1], u[2], u[3]) \/ Withdraw(u[1], u[2], u[3], FALSE)
     \/ \E u \in After : Withdraw(u[1], u[2], 0, TRUE)
     \/ \E t \in LiqTriples, q \in Amounts : Liquidate(t[1], t[2], t[3], t[4], q)

SpecB == Init /\ [][NextB]_vars
ViewB == <<View, [b \in BankNames |-> <<st.banks[b].flags, st.banks[b].cfg.op_state>>]>>
=============================================================================
