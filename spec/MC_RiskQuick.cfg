SPECIFICATION Spec
CONSTANTS
  Accts = {"A1"}
  BankNames = {"B1", "B2"}
  Amounts = {1, 1000003, 40000000}
  Ticks = {31536000}
  LiqTriples <- RiskLiq
  Prices <- RiskPrices
  BkCases <- RiskBk
  MaxDepth = 3
VIEW View
CHECK_DEADLOCK FALSE
