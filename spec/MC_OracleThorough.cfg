SPECIFICATION Spec
CONSTANTS
  MaxDoctor = 3
VIEW View
CHECK_DEADLOCK FALSE
