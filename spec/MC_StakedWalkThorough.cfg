SPECIFICATION SpecSimS
CONSTANTS
  Accts = {"A1"}
  BankNames = {"BSOL", "SB1", "SB2"}
  Amounts = {50000003}
  Ticks = {3600}
  StaleTicks = {30, 3600}
  LiqTriples <- NoTuplesS
  Prices <- NoTuplesS
  BkCases <- NoTuplesS
  OracleVariants <- OVS
  SwbVariants <- NoTuplesS
  EmodeSets <- NoTuplesS
  RiskPatches <- NoTuplesS
  BoundaryPairs <- BPS
  BorrowCap = 2000000000
  StakeMoves <- SM
  Dilutions <- DL
  SettingsEdits <- SE
  SettingsName = "G1.staked"
  StakedBanks = {"SB1"}
  WdPairs <- WDP
  WdCap = 900000000
  SLiqCases <- SLC
  SLiqProbes = {1, 1000}
  SLiqTop = 1000000001
  MaxDepth = 60
CHECK_DEADLOCK FALSE
