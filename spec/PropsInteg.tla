---------------------------- MODULE PropsInteg ----------------------------
(***************************************************************************)
(* C20: integration exchange-rate math never overstates value and fails    *)
(* closed.  Events: ev = "integ", e.a.fn names the function, e.a.args its  *)
(* integer arguments (I80F48 arguments as raw bits), e.out.r the result    *)
(* ([def |-> TRUE, v |-> n] or [def |-> FALSE]); e.out.r2 the result for   *)
(* e.a.args2 (a second, component-wise larger argument tuple) when given.  *)
(***************************************************************************)
EXTENDS PropsCurve

I64MAX == BSub(BPow2(63), BOne)
I64MIN == BNeg(BPow2(63))
U64MX == BSub(BPow2(64), BOne)
Def(r) == r.def
\* reserve-level conversions first divide both supplies by 10^decimals in I80F48 (truncating each by < 1 ulp); the exchange
\* rate they use can therefore exceed the exact one by at most this factor (see known finding F4)
ScaledUp(avail, supply, dec) ==
  LET sc == BPow10(dec)
      liqHi == RDiv(ROfBig(avail), ROfBig(sc))
      colLo == RMake(BFloorDiv(BMul(supply, TWO48), sc), TWO48)
  IN IF RIsZero(colLo) THEN RZero ELSE RDiv(liqHi, colLo)
PREC10 == BPow10(10)

\* reference value (exact rational) of a function application, or "undef" when a divisor is zero
IntegRef(f, a) ==
  CASE f \in {"ty.c2l"} -> IF BIsZero(a[3]) THEN [ok |-> FALSE] ELSE [ok |-> TRUE, x |-> RMul(ROfBig(a[1]), RDiv(R(a[2]), R(a[3])))]
    [] f \in {"ty.l2c"} -> IF BIsZero(a[2]) THEN [ok |-> FALSE] ELSE [ok |-> TRUE, x |-> RMul(ROfBig(a[1]), RDiv(R(a[3]), R(a[2])))]
    [] f \in {"ty.adj_i64", "ty.adj_u64", "ty.adj_i128"} -> [ok |-> TRUE, x |-> RMul(ROfBig(a[1]), R(a[2]))]
    [] f = "ty.adj_sup_i64" -> IF BIsZero(a[3]) THEN [ok |-> FALSE] ELSE [ok |-> TRUE, x |-> RMul(ROfBig(a[1]), RDiv(R(a[2]), R(a[3])))]
    [] f \in {"kamino.c2l", "solend.c2l"} -> IF BIsZero(a[3]) THEN [ok |-> FALSE] ELSE [ok |-> TRUE, x |-> RMul(ROfBig(a[1]), RMake(a[2], a[3]))]
    [] f \in {"kamino.l2c", "solend.l2c"} -> IF BIsZero(a[2]) THEN [ok |-> FALSE] ELSE [ok |-> TRUE, x |-> RMul(ROfBig(a[1]), RMake(a[3], a[2]))]
    [] f \in {"drift.inc", "drift.dec"} -> IF BIsZero(a[2]) \/ BToInt(a[3]) > 19 THEN [ok |-> FALSE]
                                            ELSE [ok |-> TRUE, x |-> RMake(BMul(a[1], BPow10(19 - BToInt(a[3]))), a[2])]
    [] f = "drift.wd" -> IF BToInt(a[3]) > 19 THEN [ok |-> FALSE] ELSE [ok |-> TRUE, x |-> RMake(BMul(a[1], a[2]), BPow10(19 - BToInt(a[3])))]
    [] f \in {"drift.adj_i64", "drift.adj_u64", "drift.adj_i128"} -> [ok |-> TRUE, x |-> RMake(BMul(a[1], a[2]), PREC10)]
    [] OTHER -> [ok |-> FALSE]
RangeOf(f) ==
  CASE f \in {"ty.adj_i64", "ty.adj_sup_i64", "drift.adj_i64"} -> <<I64MIN, I64MAX>>
    [] f \in {"ty.adj_i128", "drift.adj_i128"} -> <<BNeg(BPow2(127)), BSub(BPow2(127), BOne)>>
    [] OTHER -> <<BZero, U64MX>>
ValueFns == {"ty.c2l", "ty.l2c", "ty.adj_i64", "ty.adj_u64", "ty.adj_i128", "ty.adj_sup_i64", "kamino.c2l", "kamino.l2c", "solend.c2l", "solend.l2c",
             "drift.inc", "drift.dec", "drift.wd", "drift.adj_i64", "drift.adj_u64", "drift.adj_i128"}
RoundTrips == {"ty.roundtrip", "kamino.roundtrip", "solend.roundtrip", "drift.roundtrip"}
StaleFns == {"kamino.stale", "solend.stale", "drift.stale"}

\* ---- composition of a reserve's total supply (the numerator of its exchange rate) -------------------------
P60 == BPow2(60)
WADB == BPow10(18)
I80MAXBITS == BSub(BPow2(127), BOne)
\* Kamino: available + borrowed - protocol fees - referrer fees - pending referrer fees (the four U68F60 terms are
\* cut to 48 fractional bits first)
KaminoTotalExact(a) == RAdd(ROfBig(a[1]), RMake(BSub(BSub(BSub(a[2], a[3]), a[4]), a[5]), P60))
KaminoTotalBits(a) == BSub(BSub(BSub(BAdd(BMul(a[1], TWO48), BFloorDiv(a[2], BPow2(12))), BFloorDiv(a[3], BPow2(12))), BFloorDiv(a[4], BPow2(12))), BFloorDiv(a[5], BPow2(12)))
\* Solend: available + borrowed - protocol fees (two 10^18-scaled terms)
WadBits(x) == BFloorDiv(BMul(x, TWO48), WADB)
WadDefined(x) == BLe(BFloorDiv(x, WADB), BSub(BPow2(79), BOne))
SolendTotalBits(a) == BSub(BAdd(BMul(a[1], TWO48), WadBits(a[2])), WadBits(a[3]))
InI80(bits) == BLe(BNeg(BPow2(127)), bits) /\ BLe(bits, I80MAXBITS)

C20Compose(f, a, r, line) ==
  /\ (f = "kamino.sf") => Chk("C20", "u68f60_to_i80f48_drops_only_the_low_12_bits", line, Def(r) /\ r.v = BFloorDiv(a[1], BPow2(12)), [fn |-> f, args |-> a])
  /\ (f = "kamino.total") =>
       /\ (Def(r)) => Chk("C20", "total_supply_is_the_sum_of_its_components", line,
                          r.v = KaminoTotalBits(a) /\ RLe(RAbs(RSub(R(r.v), KaminoTotalExact(a))), RMul(RInt(4), U)), [fn |-> f, args |-> a, got |-> r.v])
       /\ (~InI80(KaminoTotalBits(a))) => Chk("C20", "out_of_range_result_fails_closed", line, ~Def(r), [fn |-> f, args |-> a])
  /\ (f = "solend.wad") =>
       /\ (Def(r)) => Chk("C20", "wad_conversion_exact_to_48_bits", line, WadDefined(a[1]) /\ r.v = WadBits(a[1]), [fn |-> f, args |-> a, got |-> r.v])
       /\ (~WadDefined(a[1])) => Chk("C20", "out_of_range_result_fails_closed", line, ~Def(r), [fn |-> f, args |-> a])
  /\ (f = "solend.total") =>
       /\ (Def(r)) => Chk("C20", "total_supply_is_the_sum_of_its_components", line, r.v = SolendTotalBits(a), [fn |-> f, args |-> a, got |-> r.v])
       /\ (~WadDefined(a[2]) \/ ~WadDefined(a[3]) \/ ~InI80(SolendTotalBits(a))) => Chk("C20", "out_of_range_result_fails_closed", line, ~Def(r), [fn |-> f, args |-> a])
  /\ (f = "kamino.full.c2l" /\ Def(r) /\ ~BIsZero(a[7]) /\ RIsPos(KaminoTotalExact(SubSeq(a, 2, 6)))) =>
       LET tot == KaminoTotalExact(SubSeq(a, 2, 6))
           sc == BPow10(BToInt(a[8]))
           colLo == RMake(BFloorDiv(BMul(a[7], TWO48), sc), TWO48)
           rateUp == IF RIsZero(colLo) THEN RZero ELSE RDiv(RDiv(RAdd(tot, RMul(RInt(4), U)), ROfBig(sc)), colLo)
       IN Chk("C20", "never_overstates_value", line, RLe(ROfBig(r.v), RMul(ROfBig(a[1]), RDiv(tot, ROfBig(a[7])))),
              [fn |-> f, args |-> a, got |-> r.v, explained_by_scaled_supply_truncation |-> RLe(ROfBig(r.v), RMul(ROfBig(a[1]), rateUp))])

\* a result is never a wrapped value: with non-negative operands it is non-negative
NonNegArgs(a) == \A i \in DOMAIN a : ~BIsNeg(a[i])

C20One(f, a, r, line) ==
  /\ C20Compose(f, a, r, line)
  /\ (f \in ValueFns /\ Def(r) /\ NonNegArgs(a)) => Chk("C20", "no_wrapped_value", line, ~BIsNeg(r.v), [fn |-> f, args |-> a, got |-> r.v])
  /\ (f \in ValueFns) =>
       LET ref == IntegRef(f, a) rng == RangeOf(f) IN
       /\ (~ref.ok) => Chk("C20", "zero_divisor_or_unsupported_decimals_fail_closed", line, ~Def(r), [fn |-> f, args |-> a])
       /\ (ref.ok /\ Def(r)) =>
            /\ Chk("C20", "never_overstates_value", line,
                   IF f = "drift.dec" THEN RLe(ROfBig(r.v), RAdd(ref.x, ROne)) ELSE RLe(ROfBig(r.v), ref.x),
                   [fn |-> f, args |-> a, got |-> r.v,
                    explained_by_scaled_supply_truncation |->
                       IF f \in {"kamino.c2l", "solend.c2l"} THEN RLe(ROfBig(r.v), RMul(ROfBig(a[1]), ScaledUp(a[2], a[3], BToInt(a[4]))))
                       ELSE IF f \in {"kamino.l2c", "solend.l2c"} THEN RLe(ROfBig(r.v), RMul(ROfBig(a[1]), ScaledUp(a[3], a[2], BToInt(a[4]))))
                       ELSE FALSE])
            /\ Chk("C20", "result_within_target_type", line, BLe(rng[1], r.v) /\ BLe(r.v, rng[2]), [fn |-> f, args |-> a, got |-> r.v])
            /\ (f = "drift.dec") => Chk("C20", "drift_withdraw_burns_at_least_what_deposit_mints", line,
                                        RGe(ROfBig(r.v), ROfBig(RFloor(ref.x))) /\ (RIsPos(ROfBig(RFloor(ref.x))) => RGt(ROfBig(r.v), ROfBig(RFloor(ref.x)))),
                                        [fn |-> f, args |-> a, got |-> r.v])
            /\ (f = "drift.inc") => Chk("C20", "drift_deposit_mints_floor", line, r.v = RFloor(ref.x), [fn |-> f, args |-> a, got |-> r.v])
       \* (judged on the functions whose operands are exact; the reserve-level wrappers delegate to them after scaling)
       /\ (ref.ok /\ f \notin {"kamino.c2l", "kamino.l2c", "solend.c2l", "solend.l2c", "ty.adj_sup_i64"}
           /\ (RGt(ROfBig(RFloor(ref.x)), RAdd(ROfBig(rng[2]), ROne)) \/ RLt(ref.x, RSub(ROfBig(rng[1]), ROne)))) =>
            Chk("C20", "out_of_range_result_fails_closed", line, ~Def(r), [fn |-> f, args |-> a])
  /\ (f \in RoundTrips /\ Def(r)) =>
       Chk("C20", "round_trip_never_yields_more", line, BLe(r.v, a[1]) /\ ~BIsNeg(r.v),
           [fn |-> f, args |-> a, got |-> r.v, explained_by_scaled_supply_truncation |-> f \in {"kamino.roundtrip", "solend.roundtrip"}])
  /\ (f \in StaleFns) =>
       Chk("C20", "stale_iff_not_refreshed_now", line, Def(r) /\ (r.b = BLt(a[1], a[2])), [fn |-> f, args |-> a])

\* "A venue reserve or market that was not refreshed in the current slot or second is treated as stale", judged on what the
\* program decides (not only on the staleness helpers): a bank priced through a venue whose reserve (Kamino, Solend: slot) or
\* market (Drift: second) was last brought up to date before now has no usable price - whatever the age of the feed it is
\* applied to.  Accepted borrowing / withdrawing: positions in such banks count for nothing; liquidation, bankruptcy and
\* receivership assessments of an account holding such a position fail; no price of such a bank is cached.
VenueBehind(s, bn) ==
  LET b == s.banks[bn] setup == b.cfg.oracle_setup k == b.cfg.oracle_keys[2] IN
  \/ (setup \in KamLike /\ Has(ReservesOf(s), k) /\ BLt(s.reserves[k].slot, s.clock.slot))
  \/ (setup \in DriLike /\ Has(MarketsOf(s), k) /\ BLt(s.markets[k].ts, s.clock.ts))
VenueHeld(s, a) == {i \in ActiveSlots(a) : (BGe(a.bal[i].a, FONE) \/ BGe(a.bal[i].l, FONE)) /\ VenueBehind(s, a.bal[i].bank)}
C20Venue(pre, e0, e, post, line) ==
  /\ (e.ev \in {"borrow", "withdraw", "kamino_withdraw", "drift_withdraw", "solend_withdraw"} /\ Ok(e) /\ Has(e.a, "acct") /\ Has(post.accts, e.a.acct)) =>
       LET a == post.accts[e.a.acct]
           hasDebt == \E i \in ActiveSlots(a) : BGe(a.bal[i].l, FONE)
           h == HealthRef(post, e, a, "Init", "fav")
       IN (VenueHeld(post, a) # {} /\ hasDebt /\ h.known /\ ~Bit(a.flags, ACC_FLASHLOAN) /\ ~Bit(a.flags, ACC_RECEIVERSHIP)) =>
          Chk("C20", "position_in_a_venue_not_refreshed_now_counts_for_nothing", line, RGe(Health(h), RNeg(h.tol)), [acct |-> e.a.acct, ev |-> e.ev])
  \* (e0 is the event as recorded, e its effective instruction: a transaction that first brings the venue up to date is judged
  \*  on its last instruction for the clauses that read the post-state only)
  /\ (e0.ev = "liquidate" /\ Ok(e) /\ Has(pre.accts, e.a.liquidatee)) =>
       Chk("C20", "no_liquidation_assessment_on_a_venue_not_refreshed_now", line,
           {i \in VenueHeld(pre, pre.accts[e.a.liquidatee]) : BGe(pre.accts[e.a.liquidatee].bal[i].l, FONE) \/ pre.banks[pre.accts[e.a.liquidatee].bal[i].bank].cfg.risk_tier = 0} = {},
           [acct |-> e.a.liquidatee])
  /\ (e0.ev = "bankruptcy" /\ Ok(e) /\ Has(pre.accts, e.a.acct)) =>
       Chk("C20", "no_bankruptcy_assessment_on_a_venue_not_refreshed_now", line,
           {i \in VenueHeld(pre, pre.accts[e.a.acct]) : BGe(pre.accts[e.a.acct].bal[i].l, FONE) \/ pre.banks[pre.accts[e.a.acct].bal[i].bank].cfg.risk_tier = 0} = {},
           [acct |-> e.a.acct])
  /\ (e.ev = "tx" /\ Ok(e) /\ (\A k \in 1..Len(e.a.ixs) : e.a.ixs[k].op \notin VenueRefreshOps)) =>
       \A k \in 1..Len(e.a.ixs) :
         (e.a.ixs[k].op = "start_liq" /\ Has(e.a.ixs[k], "acct") /\ Has(pre.accts, e.a.ixs[k].acct)) =>
           Chk("C20", "no_receivership_assessment_on_a_venue_not_refreshed_now", line,
               {i \in VenueHeld(pre, pre.accts[e.a.ixs[k].acct]) : BGe(pre.accts[e.a.ixs[k].acct].bal[i].l, FONE) \/ pre.banks[pre.accts[e.a.ixs[k].acct].bal[i].bank].cfg.risk_tier = 0} = {},
               [acct |-> e.a.ixs[k].acct])
  /\ (IsProgramEvent(e) /\ Ok(e)) =>
       \A bn \in (DOMAIN post.banks) \cap (DOMAIN pre.banks) :
         (post.banks[bn].cache.price_ts # pre.banks[bn].cache.price_ts \/ post.banks[bn].cache.price # pre.banks[bn].cache.price) =>
           \* (the cache is written at the end of the instruction: the venue is read as the instruction left it)
           LET s0 == IF Has(post, "reserves") /\ Has(pre, "reserves") THEN [pre EXCEPT !.reserves = post.reserves] ELSE pre
               s1 == IF Has(post, "markets") /\ Has(pre, "markets") THEN [s0 EXCEPT !.markets = post.markets] ELSE s0 IN
           Chk("C20", "no_price_cached_from_a_venue_not_refreshed_now", line, ~VenueBehind(s1, bn), [bank |-> bn, ev |-> e.ev])

C20(pre, e, post, line) ==
  /\ (e.ev # "integ") => C20Venue(pre, e, Eff(e), post, line)
  /\ (e.ev = "integ" /\ Ok(e)) =>
       /\ C20One(e.a.fn, e.a.args, e.out.r, line)
       /\ (Has(e.a, "args2") /\ Has(e.out, "r2")) =>
            /\ C20One(e.a.fn, e.a.args2, e.out.r2, line)
            /\ (e.a.fn \in {"ty.adj_i64", "ty.adj_u64", "ty.adj_i128", "ty.adj_sup_i64", "drift.adj_i64", "drift.adj_u64", "drift.adj_i128"}
                /\ Def(e.out.r) /\ Def(e.out.r2)) =>
                 Chk("C20", "adjusted_price_monotone_in_price_and_rate", line, BLe(e.out.r.v, e.out.r2.v),
                     [fn |-> e.a.fn, args |-> e.a.args, args2 |-> e.a.args2, v1 |-> e.out.r.v, v2 |-> e.out.r2.v])
=============================================================================
