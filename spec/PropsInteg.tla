---------------------------- MODULE PropsInteg ----------------------------
(***************************************************************************)
(* C20: integration exchange-rate math never overstates value and fails    *)
(* closed.  Events: ev = "integ", e.a.fn names the function, e.a.args its  *)
(* integer arguments (I80F48 arguments as raw bits), e.out.r the result    *)
(* ([def |-> TRUE, v |-> n] or [def |-> FALSE]); e.out.r2 the result for   *)
(* e.a.args2 (a second, component-wise larger argument tuple) when given.  *)
(***************************************************************************)
EXTENDS PropsCurve

I64MAX == BSub(BPow2(63), BOne)
I64MIN == BNeg(BPow2(63))
U64MX == BSub(BPow2(64), BOne)
Def(r) == r.def
\* reserve-level conversions first divide both supplies by 10^decimals in I80F48 (truncating each by < 1 ulp); the exchange
\* rate they use can therefore exceed the exact one by at most this factor (see known finding F4)
ScaledUp(avail, supply, dec) ==
  LET sc == BPow10(dec)
      liqHi == RDiv(ROfBig(avail), ROfBig(sc))
      colLo == RMake(BFloorDiv(BMul(supply, TWO48), sc), TWO48)
  IN IF RIsZero(colLo) THEN RZero ELSE RDiv(liqHi, colLo)
PREC10 == BPow10(10)

\* reference value (exact rational) of a function application, or "undef" when a divisor is zero
IntegRef(f, a) ==
  CASE f \in {"ty.c2l"} -> IF BIsZero(a[3]) THEN [ok |-> FALSE] ELSE [ok |-> TRUE, x |-> RMul(ROfBig(a[1]), RDiv(R(a[2]), R(a[3])))]
    [] f \in {"ty.l2c"} -> IF BIsZero(a[2]) THEN [ok |-> FALSE] ELSE [ok |-> TRUE, x |-> RMul(ROfBig(a[1]), RDiv(R(a[3]), R(a[2])))]
    [] f \in {"ty.adj_i64", "ty.adj_u64", "ty.adj_i128"} -> [ok |-> TRUE, x |-> RMul(ROfBig(a[1]), R(a[2]))]
    [] f = "ty.adj_sup_i64" -> IF BIsZero(a[3]) THEN [ok |-> FALSE] ELSE [ok |-> TRUE, x |-> RMul(ROfBig(a[1]), RDiv(R(a[2]), R(a[3])))]
    [] f \in {"kamino.c2l", "solend.c2l"} -> IF BIsZero(a[3]) THEN [ok |-> FALSE] ELSE [ok |-> TRUE, x |-> RMul(ROfBig(a[1]), RMake(a[2], a[3]))]
    [] f \in {"kamino.l2c", "solend.l2c"} -> IF BIsZero(a[2]) THEN [ok |-> FALSE] ELSE [ok |-> TRUE, x |-> RMul(ROfBig(a[1]), RMake(a[3], a[2]))]
    [] f \in {"drift.inc", "drift.dec"} -> IF BIsZero(a[2]) \/ BToInt(a[3]) > 19 THEN [ok |-> FALSE]
                                            ELSE [ok |-> TRUE, x |-> RMake(BMul(a[1], BPow10(19 - BToInt(a[3]))), a[2])]
    [] f = "drift.wd" -> IF BToInt(a[3]) > 19 THEN [ok |-> FALSE] ELSE [ok |-> TRUE, x |-> RMake(BMul(a[1], a[2]), BPow10(19 - BToInt(a[3])))]
    [] f \in {"drift.adj_i64", "drift.adj_u64", "drift.adj_i128"} -> [ok |-> TRUE, x |-> RMake(BMul(a[1], a[2]), PREC10)]
    [] OTHER -> [ok |-> FALSE]
RangeOf(f) ==
  CASE f \in {"ty.adj_i64", "ty.adj_sup_i64", "drift.adj_i64"} -> <<I64MIN, I64MAX>>
    [] f \in {"ty.adj_i128", "drift.adj_i128"} -> <<BNeg(BPow2(127)), BSub(BPow2(127), BOne)>>
    [] OTHER -> <<BZero, U64MX>>
ValueFns == {"ty.c2l", "ty.l2c", "ty.adj_i64", "ty.adj_u64", "ty.adj_i128", "ty.adj_sup_i64", "kamino.c2l", "kamino.l2c", "solend.c2l", "solend.l2c",
             "drift.inc", "drift.dec", "drift.wd", "drift.adj_i64", "drift.adj_u64", "drift.adj_i128"}
RoundTrips == {"ty.roundtrip", "kamino.roundtrip", "solend.roundtrip", "drift.roundtrip"}
StaleFns == {"kamino.stale", "solend.stale", "drift.stale"}

C20One(f, a, r, line) ==
  /\ (f \in ValueFns) =>
       LET ref == IntegRef(f, a) rng == RangeOf(f) IN
       /\ (~ref.ok) => Chk("C20", "zero_divisor_or_unsupported_decimals_fail_closed", line, ~Def(r), [fn |-> f, args |-> a])
       /\ (ref.ok /\ Def(r)) =>
            /\ Chk("C20", "never_overstates_value", line,
                   IF f = "drift.dec" THEN RLe(ROfBig(r.v), RAdd(ref.x, ROne)) ELSE RLe(ROfBig(r.v), ref.x),
                   [fn |-> f, args |-> a, got |-> r.v,
                    explained_by_scaled_supply_truncation |->
                       IF f \in {"kamino.c2l", "solend.c2l"} THEN RLe(ROfBig(r.v), RMul(ROfBig(a[1]), ScaledUp(a[2], a[3], BToInt(a[4]))))
                       ELSE IF f \in {"kamino.l2c", "solend.l2c"} THEN RLe(ROfBig(r.v), RMul(ROfBig(a[1]), ScaledUp(a[3], a[2], BToInt(a[4]))))
                       ELSE FALSE])
            /\ Chk("C20", "result_within_target_type", line, BLe(rng[1], r.v) /\ BLe(r.v, rng[2]), [fn |-> f, args |-> a, got |-> r.v])
            /\ (f = "drift.dec") => Chk("C20", "drift_withdraw_burns_at_least_what_deposit_mints", line,
                                        RGe(ROfBig(r.v), ROfBig(RFloor(ref.x))) /\ (RIsPos(ROfBig(RFloor(ref.x))) => RGt(ROfBig(r.v), ROfBig(RFloor(ref.x)))),
                                        [fn |-> f, args |-> a, got |-> r.v])
            /\ (f = "drift.inc") => Chk("C20", "drift_deposit_mints_floor", line, r.v = RFloor(ref.x), [fn |-> f, args |-> a, got |-> r.v])
       \* (judged on the functions whose operands are exact; the reserve-level wrappers delegate to them after scaling)
       /\ (ref.ok /\ f \notin {"kamino.c2l", "kamino.l2c", "solend.c2l", "solend.l2c", "ty.adj_sup_i64"}
           /\ (RGt(ROfBig(RFloor(ref.x)), RAdd(ROfBig(rng[2]), ROne)) \/ RLt(ref.x, RSub(ROfBig(rng[1]), ROne)))) =>
            Chk("C20", "out_of_range_result_fails_closed", line, ~Def(r), [fn |-> f, args |-> a])
  /\ (f \in RoundTrips /\ Def(r)) =>
       Chk("C20", "round_trip_never_yields_more", line, BLe(r.v, a[1]) /\ ~BIsNeg(r.v),
           [fn |-> f, args |-> a, got |-> r.v, explained_by_scaled_supply_truncation |-> f \in {"kamino.roundtrip", "solend.roundtrip"}])
  /\ (f \in StaleFns) =>
       Chk("C20", "stale_iff_not_refreshed_now", line, Def(r) /\ (r.b = BLt(a[1], a[2])), [fn |-> f, args |-> a])

C20(pre, e, post, line) ==
  (e.ev = "integ" /\ Ok(e)) =>
    /\ C20One(e.a.fn, e.a.args, e.out.r, line)
    /\ (Has(e.a, "args2") /\ Has(e.out, "r2")) =>
         /\ C20One(e.a.fn, e.a.args2, e.out.r2, line)
         /\ (e.a.fn \in {"ty.adj_i64", "ty.adj_u64", "ty.adj_i128", "ty.adj_sup_i64", "drift.adj_i64", "drift.adj_u64", "drift.adj_i128"}
             /\ Def(e.out.r) /\ Def(e.out.r2)) =>
              Chk("C20", "adjusted_price_monotone_in_price_and_rate", line, BLe(e.out.r.v, e.out.r2.v),
                  [fn |-> e.a.fn, args |-> e.a.args, args2 |-> e.a.args2, v1 |-> e.out.r.v, v2 |-> e.out.r2.v])
=============================================================================
