SPECIFICATION SpecL
CONSTANTS
  Accts = {"A1", "A2", "A3"}
  BankNames = {"B1", "B2"}
  Amounts = {}
  Ticks = {31536000}
  LiqTriples <- LqNone
  Prices <- LqPrices
  BkCases <- LqBk
  LiqCases <- LqCases
  LiqProbes = {1, 1000003}
  LiqTop = 100000000
  TopUps <- LqTopUps
  MaxDepth = 3
VIEW View
CHECK_DEADLOCK FALSE
