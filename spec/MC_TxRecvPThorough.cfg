SPECIFICATION Spec
CONSTANTS
  Alphabet <- RecvPAlphabet
  MaxLen = 5
  NeedOneOf <- NeedStartP
CHECK_DEADLOCK FALSE
