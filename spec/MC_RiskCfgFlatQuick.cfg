SPECIFICATION SpecR
CONSTANTS
  Accts = {"A1"}
  BankNames = {"B1", "B2", "B3", "B4"}
  Amounts = {1000003}
  Ticks = {}
  StaleTicks = {}
  LiqTriples <- LiqR
  Prices <- NoTuplesR
  BkCases <- NoTuplesR
  OracleVariants <- NoTuplesR
  SwbVariants <- NoTuplesR
  EmodeSets <- ESF
  RiskPatches <- NoTuplesR
  BoundaryPairs <- BPF
  BorrowCap = 1000000000
  MaxDepth = 3
VIEW ViewR
CHECK_DEADLOCK FALSE
