------------------------------ MODULE MC_Flash ------------------------------
(* Model-checking instance of Flash.tla from setups/riskmodel.json: A2 lends 30 tokens of B2 ($2) and owes nothing, A1 sits at
   its borrowing limit (40 tokens of B1 at $1 against 9.9 B2); borrow brackets draw on B1 resp. B2, withdrawals on the collateral. *)
EXTENDS Flash
FlCases == {<<"A2", "B1", "B2">>, <<"A1", "B2", "B1">>}
FlPrices == {<<"B1", 1, 2>>, <<"B2", 3, 1>>, <<"B1", 5, 4>>}
FlNone == {}
=============================================================================
