-------------------------------- MODULE Wind --------------------------------
(***************************************************************************)
(* Winding a bank down (C01's sanctioned write-off, C02's "a bank can only *)
(* be closed when no account holds more than dust", C12's "the risk admin  *)
(* only what deleveraging needs"; feeds C08 C16).  On top of the ledger    *)
(* actions: the admin allows token-less repayments on a bank; the risk     *)
(* admin repays a borrower's whole debt inside a deleverage bracket        *)
(* [start_deleverage, repay_all, end_deleverage] - without tokens when the *)
(* bank is flagged, out of its own wallet otherwise; the bank is declared  *)
(* complete (by the risk admin, or by the repayment that clears the last   *)
(* debt); lenders withdraw what is left in the vault ("first come, first   *)
(* served"); the risk admin purges lenders' positions; the admin closes    *)
(* the bank.  Every step is refused unless its precondition holds          *)
(* (repay.rs, withdraw.rs, purge_delev_balance.rs, configure_bank_lite.rs, *)
(* close_bank.rs), in every order TLC can reach within the depth bound.    *)
(***************************************************************************)
EXTENDS Ledger

CONSTANTS WindBank,      \* the bank being wound down
          Borrowers,     \* accounts whose debt the risk admin repays in a deleverage bracket
          Lenders,       \* accounts whose positions are purged / who withdraw what is left
          RiskWallet     \* name of the risk admin's wallet

H2(r, s) == [r |-> r, s |-> s]
AddFl(flags, b) == IF Bit(flags, b) THEN flags ELSE SortSeq(Append(flags, b), LAMBDA x, y : x < y)
DelFl(flags, b) == SelectSeq(flags, LAMBDA x : x # b)
BankThere(bn) == Has(st.banks, bn)

\* ---- admin: allow token-less repayments (configure_bank) ------------------------------------------
Allow(bn, on) ==
  LET a == [op |-> "configure_bank", bank |-> bn, cfg |-> [tokenless_allowed |-> on]]
      fl == IF on THEN AddFl(st.banks[bn].flags, BANK_TOKENLESS_ALLOWED) ELSE DelFl(st.banks[bn].flags, BANK_TOKENLESS_ALLOWED)
      post == [st EXCEPT !.banks[bn].flags = fl]
  IN Do(a, "ok", post, [banks |-> (bn :> [flags |-> fl])])

\* ---- risk admin: declare the repayments complete -------------------------------------------------
Complete(bn) ==
  LET a == [op |-> "tokenless_complete", bank |-> bn]
      b == st.banks[bn]
      fl == IF Bit(b.flags, BANK_TOKENLESS_ALLOWED) THEN AddFl(b.flags, BANK_TOKENLESS_COMPLETE) ELSE b.flags
      post == [st EXCEPT !.banks[bn].flags = fl]
  IN Do(a, "ok", post, [banks |-> (bn :> [flags |-> fl])])

\* ---- risk admin: [start_deleverage, repay_all, end_deleverage] ------------------------------------
DelevRepayAll(an, bn) ==
  LET a == [op |-> "tx", ixs |-> <<[op |-> "start_delev", acct |-> an, signer |-> RiskWallet],
                                   [op |-> "repay", acct |-> an, bank |-> bn, amount |-> 0, all |-> TRUE, signer |-> RiskWallet],
                                   [op |-> "end_delev", acct |-> an, signer |-> RiskWallet]>>]
      ac == st.accts[an] b0 == st.banks[bn] g == st.groups[b0.group]
  IN IF Bit(ac.flags, ACC_DISABLED) \/ Bit(ac.flags, ACC_FLASHLOAN) \/ Bit(ac.flags, ACC_RECEIVERSHIP) THEN Fail(a, "err")
     ELSE LET h0 == HealthComponents(Px(st.banks), ac.bal, "Maint") IN
     IF IsErr(h0) THEN Fail(a, h0.err)
     ELSE LET se == BankStateErr(b0, "Paused") IN
     IF se # "ok" THEN Fail(a, se)
     ELSE LET b1 == ImplAccrue(b0, g, Now) IN
     IF IsErr(b1) THEN Fail(a, b1.err)
     ELSE LET i == FindSlot(ac.bal, bn) IN
     IF i = 0 THEN Fail(a, "BankAccountNotFound")
     ELSE LET r == ImplRepayAll(b1, ac.bal, i, Now) IN
     IF IsErr(r) THEN Fail(a, r.err)
     ELSE LET tokenless == Bit(b1.flags, BANK_TOKENLESS_ALLOWED)
              pay == IF tokenless THEN BZero ELSE PreFee(MintOf(bn), r.pay)
              ut == RiskWallet \o "." \o b0.mint
          IN IF ~tokenless /\ BLt(TokOf(st, ut), pay) THEN Fail(a, "A1")
             ELSE LET fl == IF tokenless /\ BLt(BAbs(r.b.tls), BMul(IEPS, BOfInt(10))) THEN AddFl(r.b.flags, BANK_TOKENLESS_COMPLETE) ELSE r.b.flags
                      b2 == ImplUpdateCache([r.b EXCEPT !.flags = fl], Now)
                      bal2 == SortBal(r.bal)
                      banks2 == [st.banks EXCEPT ![bn] = b2]
                      h1 == HealthComponents(Px(banks2), bal2, "Maint")
                  IN IF IsErr(h1) THEN Fail(a, h1.err)
                     ELSE IF BGt(BSub(h0[1], h0[2]), BSub(h1[1], h1[2])) THEN Fail(a, "WorseHealthPostLiquidation")
                     ELSE LET post == [st EXCEPT !.banks = banks2, !.accts[an].bal = bal2,
                                                !.tok = IF tokenless THEN @ ELSE Xfer(@, MintOf(bn), ut, b2.vault_liq, pay)]
                          IN Do(a, "ok", post, Obs(post, {bn}, {an}, {b2.vault_liq}) @@ [banks |-> (bn :> (ObsBank(b2) @@ [flags |-> fl]))])

\* ---- risk admin: purge a lender's position --------------------------------------------------------
Purge(an, bn) ==
  LET a == [op |-> "purge", acct |-> an, bank |-> bn]
      b == st.banks[bn] ac == st.accts[an]
      i == FindSlot(ac.bal, bn)
  IN IF ~Bit(b.flags, BANK_TOKENLESS_COMPLETE) THEN Fail(a, "ForbiddenIx")
     ELSE IF i = 0 THEN Fail(a, "BankAccountNotFound")
     ELSE IF BGt(BAbs(ac.bal[i].l), IEPS) THEN Fail(a, "OperationWithdrawOnly")
     ELSE LET sh == ac.bal[i].a
              b2 == [b EXCEPT !.lend_cnt = IF @ > 0 THEN @ - 1 ELSE 0, !.tas = BSub(@, sh)]
              post == [st EXCEPT !.banks[bn] = b2, !.accts[an].bal = SortBal([ac.bal EXCEPT ![i] = EmptySlot])]
          IN Do(a, "ok", post, Obs(post, {bn}, {an}, {}))

\* ---- lenders: withdraw; once the bank is complete they get what is left in the vault ---------------
WithdrawW(an, bn, amt, all) ==
  LET a == [op |-> "withdraw", acct |-> an, bank |-> bn, amount |-> amt, all |-> all]
      b0 == st.banks[bn] ac == st.accts[an] g == st.groups[b0.group]
      se == BankStateErr(b0, "Paused")
  IN IF Disabled(an) THEN Fail(a, "AccountDisabled")
     ELSE IF se # "ok" THEN Fail(a, se)
     ELSE LET b1 == ImplAccrue(b0, g, Now) IN
          IF IsErr(b1) THEN Fail(a, b1.err)
          ELSE LET i == FindSlot(ac.bal, bn) IN
               IF i = 0 THEN Fail(a, "BankAccountNotFound")
               ELSE LET pre == PreFee(MintOf(bn), BOfInt(amt))
                        r == IF all THEN ImplWithdrawAll(b1, ac.bal, i, Now) ELSE ImplDecrease(b1, ac.bal, i, FOfBig(pre), "WithdrawOnly", Now) IN
                    IF IsErr(r) THEN Fail(a, r.err)
                    ELSE LET want == IF all THEN r.pay ELSE pre
                             vault == TokOf(st, b1.vault_liq)
                             pay == IF Bit(b1.flags, BANK_TOKENLESS_COMPLETE) THEN BMin(want, vault) ELSE want
                         IN IF BLt(vault, pay) THEN Fail(a, "A1")
                            ELSE LET b2 == ImplUpdateCache(r.b, Now)
                                     bal2 == SortBal(r.bal)
                                     banks2 == [st.banks EXCEPT ![bn] = b2]
                                     h == ImplInitHealth(Px(banks2), bal2)
                                     ut == UserTok(an, bn)
                                 IN IF h # "ok" THEN Fail(a, h)
                                    ELSE LET post == [st EXCEPT !.banks = banks2, !.accts[an].bal = bal2,
                                                        !.tok = Xfer(@, MintOf(bn), b2.vault_liq, ut, pay)]
                                         IN Do(a, "ok", post, Obs(post, {bn}, {an}, {ut, b2.vault_liq}))

\* ---- deposits and borrows are refused on a bank flagged for token-less repayments (account constraints of the two
\* instructions: "prevents the footgun where the admin forgot to put a deleveraging bank into reduce-only mode")
DepositW(an, bn, amt) ==
  IF Bit(st.banks[bn].flags, BANK_TOKENLESS_ALLOWED)
  THEN Fail([op |-> "deposit", acct |-> an, bank |-> bn, amount |-> amt], "BankReduceOnly") ELSE Deposit(an, bn, amt)
BorrowW(an, bn, amt) ==
  IF Bit(st.banks[bn].flags, BANK_TOKENLESS_ALLOWED)
  THEN Fail([op |-> "borrow", acct |-> an, bank |-> bn, amount |-> amt], "ForbiddenIx") ELSE Borrow(an, bn, amt)

\* ---- admin: close the bank -------------------------------------------------------------------------
CloseBank(bn) ==
  LET a == [op |-> "close_bank", bank |-> bn] b == st.banks[bn] IN
  IF ~Bit(b.flags, BANK_CLOSE_ENABLED) \/ b.lend_cnt # 0 \/ b.borrow_cnt # 0
     \/ ~BLt(BAbs(b.tas), IEPS) \/ ~BLt(BAbs(b.tls), IEPS) \/ ~BLt(BAbs(b.emis_rem), IEPS) THEN Fail(a, "BankCannotClose")
  ELSE Do(a, "ok", [st EXCEPT !.banks = [x \in (DOMAIN @) \ {bn} |-> @[x]]], <<>>)

NextW ==
  /\ depth < MaxDepth
  /\ BankThere(WindBank)
  /\ \/ \E d \in Ticks : Tick(d)
     \/ \E on \in BOOLEAN : Allow(WindBank, on)
     \/ Complete(WindBank)
     \/ \E an \in Borrowers : DelevRepayAll(an, WindBank)
     \/ \E an \in Lenders \cup Borrowers : Purge(an, WindBank)
     \/ \E an \in Lenders, amt \in Amounts : WithdrawW(an, WindBank, amt, FALSE)
     \/ \E an \in Lenders : WithdrawW(an, WindBank, 0, TRUE)
     \/ \E an \in Lenders, amt \in Amounts : DepositW(an, WindBank, amt) \/ BorrowW(an, WindBank, amt)
     \/ Accrue(WindBank) \/ CollectFees(WindBank) \/ CloseBank(WindBank)
SpecW == Init /\ [][NextW]_vars

ViewW == <<st.clock.ts, [b \in DOMAIN st.banks |-> <<ObsBank(st.banks[b]), st.banks[b].flags>>], [a \in DOMAIN st.accts |-> ObsAcct(st.accts[a])],
           [t \in DOMAIN st.tok |-> <<st.tok[t].amount, st.tok[t].withheld>>], [a \in DOMAIN st.accts |-> st.accts[a].flags], depth>>
=============================================================================
