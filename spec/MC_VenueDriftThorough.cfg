SPECIFICATION VSpec
CONSTANTS
  Accts = {"A1"}
  BankNames = {"KB1", "DB1", "DB2", "DB3"}
  Amounts = {1}
  Ticks = {1}
  LiqTriples <- NoTuples
  Prices <- NoTuples
  BkCases <- NoTuples
  MaxDepth = 4
  KBanks = {"KB1"}
  KAmounts = {1000}
  KBorrowed <- NoTuples
  KMaxDepth = 4
  SBanks <- NoBanks
  SAmounts = {0}
  SBorrowed <- NoTuples
  DBanks <- DBankSet
  DAmounts = {0, 1, 3, 1000, 123457, 900001}
  DCums <- DCumSet
VIEW VView
CHECK_DEADLOCK FALSE
