-------------------------------- MODULE RecvO --------------------------------
(***************************************************************************)
(* Receivership with values on oracle-priced banks (C10, with C09): the    *)
(* brackets of Recv.tla on the world of RiskCfg.tla - collateral priced by *)
(* a Pyth push feed (spot and time-weighted price differ, both carry a     *)
(* confidence interval) and by a Switchboard feed, debt priced by a Pyth   *)
(* feed.  The start measures maintenance health on spot prices and         *)
(* snapshots equity on time-weighted prices, both with collateral marked   *)
(* down and debt marked up by the confidence interval; the receiver's      *)
(* withdrawal needs a positive low-biased spot price; the end compares the *)
(* equity seized with the equity repaid.  Feeds move (drops to either side *)
(* of the maintenance limit, a confidence interval at the cap, one beyond  *)
(* the bank's maximum: every assessment fails), age without being          *)
(* republished (stale: start, withdraw and end fail), and for every        *)
(* repayment TLC computes the largest seizure from each collateral bank    *)
(* with which the bracket commits, emitted with its successor.             *)
(***************************************************************************)
EXTENDS Recv, RiskCfg

NextO ==
  /\ depth < MaxDepth
  /\ \/ \E d \in Ticks : TickR(d, TRUE)
     \/ \E d \in StaleTicks : TickR(d, FALSE)
     \/ \E v \in OracleVariants : SetOracle(v)
     \/ \E v \in SwbVariants : SetSwb(v)
     \/ \E c \in RecvCases, rep \in Repays, f \in BOOLEAN : BoundaryBracket(c, rep, f)
     \/ \E c \in RecvCases, rep \in Repays, x \in FixedSeizes : Bracket(c, rep, x, FALSE)
SpecO == Init /\ [][NextO]_vars
=============================================================================
