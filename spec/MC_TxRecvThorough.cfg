SPECIFICATION Spec
CONSTANTS
  Alphabet <- RecvAlphabet
  MaxLen = 5
  NeedOneOf <- NeedStart
CHECK_DEADLOCK FALSE
