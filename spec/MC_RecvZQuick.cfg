SPECIFICATION SpecV
CONSTANTS
  Accts = {"A1"}
  BankNames = {"B1", "B2", "B3", "B4"}
  Amounts = {1000003}
  Ticks = {}
  LiqTriples <- RvNone
  Prices <- RvPricesZ
  BkCases <- RvNone
  RecvCases <- RvCasesZ
  Repays = {1, 100000000}
  FixedSeizes = {1, 1000000}
  SeizeCap = 40000001
  OpStates = {}
  MaxDepth = 2
VIEW View
CHECK_DEADLOCK FALSE
