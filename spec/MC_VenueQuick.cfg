SPECIFICATION VSpec
CONSTANTS
  Accts = {"A1"}
  BankNames = {"KB1", "KB2", "KB3"}
  Amounts = {1}
  Ticks = {1}
  LiqTriples <- NoTuples
  Prices <- NoTuples
  BkCases <- NoTuples
  MaxDepth = 3
  KBanks = {"KB1", "KB2", "KB3"}
  KAmounts = {0, 1, 3, 1000, 900001, 1255640255}
  KBorrowed = {0, 5, 2000000}
  KMaxDepth = 3
  SBanks <- NoBanks
  SAmounts = {0}
  SBorrowed <- NoTuples
  DBanks <- NoBanks
  DAmounts = {0}
  DCums <- NoTuples
VIEW VView
CHECK_DEADLOCK FALSE
