------------------------------- MODULE Gate -------------------------------
(***************************************************************************)
(* C14: the gating matrix.  Financial instructions (deposit, withdraw,     *)
(* borrow, repay) crossed with the bank's operational state, the global    *)
(* pause (with its expiry) and the order in which the pause state is       *)
(* propagated to the group's cache.  The pause automaton is the one of     *)
(* Panic.tla; the operational state is changed by the group admin.         *)
(***************************************************************************)
EXTENDS PropsRisk, PropsPanic, Sequences, PanicImpl

CONSTANTS TickSet
T0 == 1700000000
VARIABLES now, ps, cache, op, acc, sid
vars == <<now, ps, cache, op, acc, sid>>

\* (ImplIsExpired, ImplUnpause, ImplUnpauseIfExpired, ImplCanPause, ImplPause, ImplGroupPaused: module PanicImpl, shared with PanicInd.tla)

S(t, p, c, o) ==
  [clock |-> [ts |-> BOfInt(t)],
   fee |-> [panic |-> [flags |-> p.flags, daily |-> p.daily, consec |-> p.consec, start |-> BOfInt(p.start), reset |-> BOfInt(p.reset)]],
   groups |-> [g \in {"G1"} |-> [panic_cache |-> [flags |-> c.flags, start |-> BOfInt(c.start)]]],
   banks |-> [b \in {"PB.G1"} |-> [group |-> "G1", cfg |-> [op_state |-> o]]],
   accts |-> <<>>]
Ev(name, a, ok, err) == [ev |-> name, a |-> a, res |-> IF ok THEN "ok" ELSE "err", err |-> IF ok THEN "" ELSE err]

Do(e, t2, p2, c2, o2) ==
  LET pre == S(now, ps, cache, op) post == S(t2, p2, c2, o2) IN
  /\ now' = t2 /\ ps' = p2 /\ cache' = c2 /\ op' = o2
  /\ acc' = C15AccNext(acc, pre, e, post)
  /\ (C15(pre, e, post, acc, 0) /\ C14Pause(pre, e, post, 0) /\ C14Bank(pre, e, post, 0)) = TRUE
  /\ sid' = TLCGet(1)
  /\ TLCSet(1, TLCGet(1) + 1)
  /\ PrintT("EDGE " \o ToString(sid) \o " " \o ToString(TLCGet(1) - 1) \o " " \o
            ToJson(e.a @@ [exp |-> IF e.res = "ok" THEN "ok" ELSE e.err]))

Tick(d) == Do(Ev("tick", [op |-> "tick", dt |-> d], TRUE, ""), now + d, ps, cache, op)
Pause == LET r == ImplPause(ps, now) IN Do(Ev("panic_pause", [op |-> "panic_pause"], r[1], "PauseLimitExceeded"), now, r[2], cache, op)
Unpause ==
  IF ps.flags = 0 THEN Do(Ev("panic_unpause", [op |-> "panic_unpause"], FALSE, "ProtocolNotPaused"), now, ps, cache, op)
  ELSE Do(Ev("panic_unpause", [op |-> "panic_unpause"], TRUE, ""), now, ImplUnpause(ps), cache, op)
Propagate == Do(Ev("propagate_fee", [op |-> "propagate_fee", group |-> "G1"], TRUE, ""), now, ps, [flags |-> ps.flags, start |-> ps.start], op)
SetOp(o) == Do(Ev("configure_bank", [op |-> "configure_bank", bank |-> "PB.G1", cfg |-> [op_state |-> o]], TRUE, ""), now, ps, cache, o)
\* which error a probe of kind k meets first
ProbeErr(k) ==
  IF ImplGroupPaused(cache, now) THEN "ProtocolPaused"
  ELSE IF op = OP_PAUSED THEN "BankPaused"
  ELSE IF op = OP_REDUCE_ONLY /\ k \in {"deposit", "borrow"} THEN "BankReduceOnly"
  ELSE "ok"
Probe(k) ==
  LET a == IF k \in {"deposit", "withdraw"} THEN [op |-> k, acct |-> "A.G1", bank |-> "PB.G1", amount |-> 1]
           ELSE [op |-> k, acct |-> "A2", bank |-> "PB.G1", amount |-> 1]
      r == ProbeErr(k)
  IN Do(Ev(k, a, r = "ok", r), now, ps, cache, op)

Init == /\ now = T0 /\ ps = [flags |-> 0, daily |-> 0, consec |-> 0, start |-> 0, reset |-> 0]
        /\ cache = [flags |-> 0, start |-> 0] /\ op = OP_OPERATIONAL /\ acc = C15Acc0 /\ sid = 0 /\ TLCSet(1, 1)
Next == \/ \E d \in TickSet : Tick(d)
        \/ Pause \/ Unpause \/ Propagate
        \/ \E o \in {OP_PAUSED, OP_OPERATIONAL, OP_REDUCE_ONLY} : SetOp(o)
        \/ \E k \in {"deposit", "withdraw", "borrow", "repay"} : Probe(k)
Spec == Init /\ [][Next]_vars

Cap(x, lo, hi) == IF x < lo THEN lo ELSE IF x > hi THEN hi ELSE x
RelStart(p) == IF p.flags = 0 THEN 99999 ELSE Cap(p.start - now, -PAUSE, 2 * PAUSE)
\* the daily counters matter only through "can pause": keep them but cap the reset age coarsely (30 min grain beyond a day is irrelevant)
View == <<ps.flags, ps.daily, ps.consec, RelStart(ps), Cap(now - ps.reset, 0, DAY), cache.flags, RelStart(cache), op, acc.pauses>>
=============================================================================
