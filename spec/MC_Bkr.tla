------------------------------- MODULE MC_Bkr -------------------------------
(* Model-checking instance of Bkr.tla from setups/riskmodel.json: A1 holds 40 B1 against 9.9 B2 (990000000 native units);
   B2 is lent by A2 (30) and A3 (12).  Insurance levels: a token's worth, exactly the debt, more than the debt. *)
EXTENDS Bkr
BqBanks == {<<"A1", "B2">>}
BqPrices == {<<"B1", 1, 100000000>>, <<"B1", 1, 500>>}
BqAfter == {<<"A2", "B2", 1000003>>, <<"A1", "B1", 1000003>>}
BqLiq == {<<"A2", "A1", "B1", "B2">>}
\* the "kill" instance (setups/bkrkill.json): A2 is the only lender of B2 and lent exactly what A1 borrowed, so an uncovered
\* write-off consumes every deposit and shuts the bank; afterwards the admin asks for every operational state
BqNone == {}
BqPricesK == {<<"B1", 1, 100000000>>}
=============================================================================
