SPECIFICATION Spec
CONSTANTS
  Alphabet <- Flash6Alphabet
  MaxLen = 4
  NeedOneOf <- NeedSfl6
CHECK_DEADLOCK FALSE
