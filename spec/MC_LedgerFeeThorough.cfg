SPECIFICATION Spec
CONSTANTS
  Accts = {"A1", "A2"}
  BankNames = {"B1", "B2"}
  Amounts = {1, 1000003}
  Ticks = {3600, 31536000}
  LiqTriples <- NoTuples
  Prices <- NoTuples
  BkCases <- NoTuples
  MaxDepth = 4
VIEW View
CHECK_DEADLOCK FALSE
