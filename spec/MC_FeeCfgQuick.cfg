SPECIFICATION SpecF
CONSTANTS
  Accts = {"A1", "A3"}
  BankNames = {"B1"}
  Amounts = {}
  Ticks = {31536000}
  LiqTriples <- FcNone
  Prices <- FcNone
  BkCases <- FcNone
  FeeGroup = "G1"
  FeeEdits <- FcEdits
  FeeSigners = {"feeadmin", "admin"}
  FeeBanks = {"B1"}
  FeeBorrows <- FcBorrows
  MaxDepth = 4
VIEW ViewF
CHECK_DEADLOCK FALSE
