------------------------------- MODULE MC_Liq -------------------------------
(* Model-checking instance of Liq.tla from setups/riskmodel.json: A1 holds 40 B1 ($1, maintenance weight 7/8) against 9.9 B2
   ($2, maintenance liability weight 5/4); liquidators A2 (lends 30 B2) and A3 (lends 50 B1 and 12 B2). *)
EXTENDS Liq
LqCases == {<<"A2", "A1", "B1", "B2">>, <<"A3", "A1", "B1", "B2">>}
LqPrices == {<<"B1", 7, 10>>, <<"B1", 1, 2>>, <<"B1", 1, 20>>, <<"B2", 3, 1>>}
LqPricesT == {<<"B1", 7, 10>>, <<"B1", 5, 8>>, <<"B1", 1, 2>>, <<"B1", 1, 20>>, <<"B1", 1, 100000000>>, <<"B2", 3, 1>>, <<"B2", 5, 2>>}
LqBk == {<<"A1", "B2", "admin">>}
LqTopUps == {<<"A1", "B1", 1000003>>, <<"A1", "B2", 100000000>>}
LqNone == {}
=============================================================================
