------------------------------- MODULE Base -------------------------------
(***************************************************************************)
(* Shared vocabulary of the specification: the abstract state is a record  *)
(* with the sections produced by the projection (clock, fee, groups,       *)
(* banks, accts, tok, liqrec, oracles, mints, ...).  All operators here    *)
(* take explicit state records, never spec variables, so the same          *)
(* definitions serve the model-checking instances and the trace spec.      *)
(***************************************************************************)
EXTENDS Fix, TLC, Json

Has(r, k) == k \in DOMAIN r
Get(r, k, d) == IF k \in DOMAIN r THEN r[k] ELSE d
\* flag words are sequences of set bit indices
Bit(flags, i) == \E j \in DOMAIN flags : flags[j] = i
SeqToSet(s) == {s[i] : i \in DOMAIN s}

\* Reporting: a failed clause prints one FAIL line (parsed by the orchestrator) and evaluates to TRUE,
\* so a trace is always checked to its end and every violation is reported with its clause name.
Chk(prop, clause, line, cond, info) ==
  IF cond THEN TRUE
  ELSE PrintT("FAIL " \o ToJson([property |-> prop, clause |-> clause, line |-> line, info |-> info]))

\* constants of the property statements (hand-written, exact)
PAUSE_SECS == BOfInt(1800)
HOUR_SECS == BOfInt(3600)
DAY_SECS == BOfInt(86400)

\* account flag bits / bank flag bits (type-crate constants; named here for the properties)
ACC_DISABLED == 0
ACC_FLASHLOAN == 1
ACC_RECEIVERSHIP == 4
ACC_DELEVERAGE == 5
ACC_FROZEN == 6
BANK_EMIS_BORROW == 0
BANK_EMIS_LEND == 1
BANK_PERMISSIONLESS_BAD_DEBT == 2
BANK_FREEZE == 3
BANK_CLOSE_ENABLED == 4
BANK_TOKENLESS_ALLOWED == 5
BANK_TOKENLESS_COMPLETE == 6
OP_PAUSED == 0
OP_OPERATIONAL == 1
OP_REDUCE_ONLY == 2
OP_KILLED == 3

\* an action without adversarial modifiers (signer override, substitution, cpi wrapping, ...)
Plain(a) == ~Has(a, "signer") /\ ~Has(a, "subst") /\ ~Has(a, "nosign") /\ ~Has(a, "cpi")
            /\ ~Has(a, "rem") /\ ~Has(a, "oracle_sub") /\ ~Has(a, "extra_rem")

Ok(e) == e.res = "ok"

\* A transaction whose leading instructions only bring venue state up to date (instructions of the venue programs: no
\* marginfi state is involved) is judged as its last instruction - on a real cluster that is the only way to use a
\* venue-backed position once time has passed.
VenueRefreshOps == {"drift_refresh", "kamino_refresh", "solend_refresh"}
Eff(e) ==
  IF e.ev = "tx" /\ Len(e.a.ixs) >= 2 /\ (\A k \in 1..(Len(e.a.ixs) - 1) : e.a.ixs[k].op \in VenueRefreshOps)
  THEN [e EXCEPT !.ev = e.a.ixs[Len(e.a.ixs)].op, !.a = e.a.ixs[Len(e.a.ixs)]]
  ELSE e
=============================================================================
