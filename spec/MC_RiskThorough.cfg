SPECIFICATION Spec
CONSTANTS
  Accts = {"A1"}
  BankNames = {"B1", "B2"}
  Amounts = {1, 1000003, 20000000, 40000000}
  Ticks = {31536000}
  LiqTriples <- RiskLiq
  Prices <- RiskPricesT
  BkCases <- RiskBkT
  MaxDepth = 4
VIEW View
CHECK_DEADLOCK FALSE
