----------------------------- MODULE MC_RiskCfg -----------------------------
(* Model-checking instance of RiskCfg.tla (constants that a .cfg cannot express). *)
EXTENDS RiskCfg
\* feed alphabets at exponent -8: O1 prices collateral B1 ($2), O3 prices the debt banks ($1)
OV == {<<"O1", 200000000, 1000000, 196000000, 800000>>,      \* spot above EMA, different confidences
       <<"O1", 50000000, 0, 50000000, 0>>,                     \* a drop to a quarter, exact price
       <<"O1", 60000000, 0, 60000000, 0>>,                     \* a drop after which the account is healthy only thanks to the e-mode maintenance weight
       <<"O1", 200000000, 9000000, 200000000, 9000000>>,       \* 4.5 % confidence x 2.12 = 9.5 %: capped at 5 %
       <<"O1", 200000000, 12000000, 200000000, 1000000>>,      \* spot confidence beyond the maximum, EMA confidence fine
       <<"O1", 50000000, 2250000, 62000000, 300000>>,          \* a drop; spot confidence at the 5 % cap (of the SPOT price), time-weighted price well above spot
       <<"O3", 100000000, 200000, 101000000, 300000>>,
       <<"O3", 104000000, 0, 100000000, 0>>}
SV == {<<"O2", "50000000000000000000", "1500000000000000000">>,     \* 3 % std dev x 1.96 = 5.9 %: capped at 5 %
       <<"O2", "20000000000000000001", "0">>,                        \* a drop, a value that does not divide evenly
       <<"O2", "50000000000000000000", "2600000000000000000">>}     \* 5.2 % x 1.96 beyond the 10 % maximum
ES == {<<"B3", <<>>>>,
       <<"B3", <<<<5, 7, 10, 4, 5>>>>>>,                        \* tag 5: 0.7 / 0.8
       <<"B3", <<<<5, 3, 8, 1, 2>>, <<7, 9, 10, 19, 20>>>>>>,   \* tag 5 below the bank's own weight, tag 7 above
       <<"B3", <<<<5, 1, 10, 1, 10>>>>>>,                       \* tag 5 far below the bank's own weights: they still apply (max)
       <<"B4", <<<<5, 13, 20, 3, 4>>>>>>,                       \* the second debt bank agrees on tag 5 with other weights
       <<"B4", <<>>>>}
RP == {<<"B1", [op_state |-> 2]>>, <<"B1", [op_state |-> 1]>>, <<"B1", [init_limit |-> 100]>>, <<"B1", [init_limit |-> 0]>>}
\* B4 and B7 are plain debt banks (no e-mode entries) whose keys lie above / below B3's: the account's debts are read in either order
BP == {<<"A1", "B3">>, <<"A1", "B4">>, <<"A1", "B7">>}
LiqR == {<<"A2", "A1", "B1", "B3">>}
NoTuplesR == {}
\* the "flat" instance (spot = time-weighted price, zero confidence): e-mode entry sets, the borrow boundary, then liquidation attempts
ESF == {<<"B3", <<>>>>, <<"B3", <<<<5, 1, 10, 1, 10>>>>>>, <<"B3", <<<<5, 3, 8, 1, 2>>>>>>, <<"B3", <<<<5, 7, 10, 4, 5>>>>>>}
BPF == {<<"A1", "B3">>}
=============================================================================
