SPECIFICATION Spec
CONSTANTS
  Alphabet <- Recv2Alphabet
  MaxLen = 5
  NeedOneOf <- NeedStart34
CHECK_DEADLOCK FALSE
