------------------------------- MODULE Big -------------------------------
(***************************************************************************)
(* Exact unbounded integers for TLC.  A Big is a tuple <<sign, l0, l1,..>> *)
(* (sign in {-1,0,1}; little-endian limbs base 10^9; canonical; zero is    *)
(* <<0>>), so TLA+ equality is numeric equality.  TLC evaluates these      *)
(* operators through the Java module override verif.BigOverrides           *)
(* (java.math.BigInteger).  The TLA+ bodies below give their meaning on    *)
(* values that fit a TLC integer (|v| < 2^31) and are used to test the     *)
(* override differentially (MC_Substrate).                                 *)
(***************************************************************************)
EXTENDS Integers, Sequences

LOCAL B9 == 1000000000

BOfInt(n) ==
  IF n = 0 THEN <<0>>
  ELSE LET m == IF n < 0 THEN -n ELSE n
           s == IF n < 0 THEN -1 ELSE 1
       IN IF m < B9 THEN <<s, m>> ELSE <<s, m % B9, m \div B9>>

BToInt(b) ==
  IF b[1] = 0 THEN 0
  ELSE b[1] * (b[2] + (IF Len(b) >= 3 THEN b[3] * B9 ELSE 0))

BFitsInt(b) == Len(b) <= 2 \/ (Len(b) = 3 /\ b[3] <= 1)

BAdd(a, b) == BOfInt(BToInt(a) + BToInt(b))
BSub(a, b) == BOfInt(BToInt(a) - BToInt(b))
BMul(a, b) == BOfInt(BToInt(a) * BToInt(b))
BFloorDiv(a, b) == BOfInt(BToInt(a) \div BToInt(b))          \* TLA+ \div floors
BMod(a, b) == BOfInt(BToInt(a) % BToInt(b))
BNeg(a) == BOfInt(-BToInt(a))
BAbs(a) == IF BToInt(a) < 0 THEN BNeg(a) ELSE a
BTruncDiv(a, b) ==                                           \* rounds toward zero
  LET x == BToInt(a) y == BToInt(b)
      ax == IF x < 0 THEN -x ELSE x
      ay == IF y < 0 THEN -y ELSE y
      q == ax \div ay
  IN BOfInt(IF (x < 0) = (y < 0) THEN q ELSE -q)
BCmp(a, b) == IF BToInt(a) < BToInt(b) THEN -1 ELSE IF BToInt(a) = BToInt(b) THEN 0 ELSE 1
BLe(a, b) == BToInt(a) <= BToInt(b)
BLt(a, b) == BToInt(a) < BToInt(b)
BMin(a, b) == IF BLe(a, b) THEN a ELSE b
BMax(a, b) == IF BLe(a, b) THEN b ELSE a
RECURSIVE IPow(_, _)
IPow(x, n) == IF n = 0 THEN 1 ELSE x * IPow(x, n - 1)
BPow2(n) == BOfInt(IPow(2, n))
BPow10(n) == BOfInt(IPow(10, n))
BShl(a, n) == BOfInt(BToInt(a) * IPow(2, n))
BShr(a, n) == BOfInt(BToInt(a) \div IPow(2, n))
RECURSIVE IGcd(_, _)
IGcd(x, y) == IF y = 0 THEN x ELSE IGcd(y, x % y)
BGcd(a, b) == BOfInt(IGcd(BToInt(BAbs(a)), BToInt(BAbs(b))))
BOfStr(s) == <<0>>          \* override only
BShow(a) == "?"             \* override only
BIsBig(v) == TRUE           \* override only

BZero == <<0>>
BOne == <<1, 1>>
BGe(a, b) == BLe(b, a)
BGt(a, b) == BLt(b, a)
BSign(a) == a[1]
BIsZero(a) == a[1] = 0
BIsNeg(a) == a[1] = -1
BIsPos(a) == a[1] = 1

RECURSIVE BSumSeq(_)
BSumSeq(s) == IF s = <<>> THEN BZero ELSE BAdd(Head(s), BSumSeq(Tail(s)))

(***************************************************************************)
(* Exact rationals <<num, den>> over Big, den > 0, lowest terms.           *)
(***************************************************************************)
RNorm(r) ==
  LET g == BGcd(r[1], r[2])
      n == IF BIsZero(g) THEN r[1] ELSE BFloorDiv(r[1], g)
      d == IF BIsZero(g) THEN r[2] ELSE BFloorDiv(r[2], g)
  IN IF BIsNeg(d) THEN <<BNeg(n), BNeg(d)>> ELSE <<n, d>>

ROfBig(b) == <<b, BOne>>
ROfInt(n) == <<BOfInt(n), BOne>>
RMake(n, d) == RNorm(<<n, d>>)
RZero == <<BZero, BOne>>
ROne == <<BOne, BOne>>
RAdd(a, b) == RNorm(<<BAdd(BMul(a[1], b[2]), BMul(b[1], a[2])), BMul(a[2], b[2])>>)
RSub(a, b) == RNorm(<<BSub(BMul(a[1], b[2]), BMul(b[1], a[2])), BMul(a[2], b[2])>>)
RMul(a, b) == RNorm(<<BMul(a[1], b[1]), BMul(a[2], b[2])>>)
RDiv(a, b) == RNorm(<<BMul(a[1], b[2]), BMul(a[2], b[1])>>)
RNeg(a) == <<BNeg(a[1]), a[2]>>
RAbs(a) == <<BAbs(a[1]), a[2]>>
RLe(a, b) == BLe(BMul(a[1], b[2]), BMul(b[1], a[2]))
RLt(a, b) == BLt(BMul(a[1], b[2]), BMul(b[1], a[2]))
RGe(a, b) == RLe(b, a)
RGt(a, b) == RLt(b, a)
RMin(a, b) == IF RLe(a, b) THEN a ELSE b
RMax(a, b) == IF RLe(a, b) THEN b ELSE a
RFloor(a) == BFloorDiv(a[1], a[2])                 \* Big
RCeil(a) == BNeg(BFloorDiv(BNeg(a[1]), a[2]))      \* Big
RIsZero(a) == BIsZero(a[1])
RIsNeg(a) == BIsNeg(a[1])
RIsPos(a) == BIsPos(a[1])
RECURSIVE RSumSeq(_)
RSumSeq(s) == IF s = <<>> THEN RZero ELSE RAdd(Head(s), RSumSeq(Tail(s)))
=============================================================================
