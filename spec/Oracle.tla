------------------------------- MODULE Oracle -------------------------------
(***************************************************************************)
(* C09, exhaustively at the boundaries.  A world with a Pyth-priced and a  *)
(* Switchboard-priced collateral bank and a Pyth-priced debt bank; the     *)
(* model doctors one or two oracle accounts (publish time at max age - 1,  *)
(* max age, max age + 1; confidence just below, at and above the bank's    *)
(* maximum; zero price; wrong owner, wrong discriminator, partial          *)
(* verification) and then probes: a small borrow against each collateral,  *)
(* accepted exactly when the reference (PropsRisk.RefPrice) calls both the *)
(* collateral's and the debt's price usable.  Probes whose confidence lies *)
(* within rounding of the threshold are don't-cares and are not emitted.   *)
(***************************************************************************)
EXTENDS Impl, PropsAdmin, IOUtils

CONSTANTS MaxDoctor     \* how many oracle accounts are doctored before probing
VARIABLES st, sid, depth
vars == <<st, sid, depth>>
InitState == JsonDeserialize(IOEnv.INIT_STATE)

\* collateral bank -> the account holding only that collateral
Holder == [CP |-> "A1", CS |-> "A2"]
DebtBank == "D"
OracleOf(bn) == st.banks[bn].cfg.oracle_keys[1]
Oracles == {OracleOf("CP"), OracleOf("CS"), OracleOf(DebtBank)}
BankOfOracle(o) == CHOOSE bn \in {"CP", "CS", DebtBank} : OracleOf(bn) = o

\* ---- doctoring alphabet (per oracle, relative to its bank's limits) ------------------------------
AgesFor(bn) == LET m == MaxAge(st.banks[bn]) IN {0, m - 1, m, m + 1, m + 100000}
\* largest raw confidence still inside the bank's maximum: conf * K <= price * ratio
PythConfEdge(o, bn) == LET q == RMul(RMake(o.price, BOne), RDiv(MaxConfRatio(st.banks[bn]), K_PYTH)) IN RFloor(q)
SwbStdEdge(o, bn) == LET q == RMul(RMake(o.swb_value, BOne), RDiv(MaxConfRatio(st.banks[bn]), K_SWB)) IN RFloor(q)
ConfsFor(o, bn) ==
  IF o.kind = "pyth" THEN LET e == PythConfEdge(o, bn) IN {BZero, BSub(e, BOfInt(2)), e, BAdd(e, BOfInt(2)), BMul(e, BOfInt(3))}
  ELSE LET e == SwbStdEdge(o, bn) IN {BZero, BSub(e, BPow10(6)), e, BAdd(e, BPow10(6)), BMul(e, BOfInt(3))}

Ev(a, r) == [ev |-> a.op, a |-> a, amt |-> IF Has(a, "amount") THEN BOfInt(a.amount) ELSE BZero,
             res |-> IF r = "ok" THEN "ok" ELSE "err", err |-> IF r = "ok" THEN "" ELSE r]
Emit(a, exp, post, dnext) ==
  /\ st' = post /\ depth' = dnext
  /\ sid' = TLCGet(1)
  /\ TLCSet(1, TLCGet(1) + 1)
  /\ PrintT("EDGE " \o ToString(sid) \o " " \o ToString(TLCGet(1) - 1) \o " " \o ToJson(a @@ [exp |-> exp]))

\* environment step: rewrite the oracle account (the harness stamps publish time = now - age)
Doctor(o, patch, newrec) ==
  /\ depth < MaxDoctor
  /\ Emit([op |-> "set_oracle", oracle |-> o] @@ patch, "ok", [st EXCEPT !.oracles[o] = newrec], depth + 1)
DoctorAge(o) == \E ag \in AgesFor(BankOfOracle(o)) :
  Doctor(o, [age |-> ag], [st.oracles[o] EXCEPT !.ts = BSub(st.clock.ts, BOfInt(ag))])
DoctorConf(o) == \E c \in ConfsFor(st.oracles[o], BankOfOracle(o)) :
  IF st.oracles[o].kind = "pyth"
  THEN Doctor(o, [conf |-> c], [st.oracles[o] EXCEPT !.conf = c, !.ema_conf = c, !.ts = st.clock.ts])
  ELSE Doctor(o, [swb_std |-> c], [st.oracles[o] EXCEPT !.swb_std = c, !.ts = st.clock.ts])
DoctorFlag(o) ==
  \/ Doctor(o, [discr_ok |-> FALSE], [st.oracles[o] EXCEPT !.discr_ok = FALSE, !.ts = st.clock.ts])
  \/ Doctor(o, [owner |-> "stranger"], [st.oracles[o] EXCEPT !.owner_ok = FALSE, !.ts = st.clock.ts])
  \/ (st.oracles[o].kind = "pyth" /\ Doctor(o, [verif_ok |-> FALSE], [st.oracles[o] EXCEPT !.verif_ok = FALSE, !.ts = st.clock.ts]))
  \/ (st.oracles[o].kind = "pyth" /\ Doctor(o, [price |-> BZero], [st.oracles[o] EXCEPT !.price = BZero, !.ema = BZero, !.ts = st.clock.ts]))

\* probe: a small borrow against collateral bank cb (leaf)
Probe(cb) ==
  LET a == [op |-> "borrow", acct |-> Holder[cb], bank |-> DebtBank, amount |-> 1000]
      e == Ev(a, "ok")
      pc == RefPrice(st, e, cb, "TW") pcr == RefPrice(st, e, cb, "RT")
      pd == RefPrice(st, e, DebtBank, "TW") pdr == RefPrice(st, e, DebtBank, "RT")
      all == {pc.usable, pcr.usable, pd.usable, pdr.usable}
      \* a zero price gives the collateral no value (and can never size anything): treated as unusable here
      zero == RIsZero(pc.p) \/ RIsZero(pd.p)
  IN /\ depth >= 1 /\ depth <= MaxDoctor
     /\ "maybe" \notin all
     /\ Emit(a, IF all = {"yes"} /\ ~zero THEN "ok" ELSE "err", st, MaxDoctor + 1)

Init == st = InitState /\ sid = 0 /\ depth = 0 /\ TLCSet(1, 1)
Next ==
  \/ \E o \in Oracles : DoctorAge(o) \/ DoctorConf(o) \/ DoctorFlag(o)
  \/ \E cb \in {"CP", "CS"} : Probe(cb)
Spec == Init /\ [][Next]_vars
View == <<st.oracles, depth, sid>>
=============================================================================
