SPECIFICATION VSpec
CONSTANTS
  Accts = {"A1"}
  BankNames = {"SB1", "SB2", "SB3"}
  Amounts = {1}
  Ticks = {1}
  LiqTriples <- NoTuples
  Prices <- NoTuples
  BkCases <- NoTuples
  MaxDepth = 4
  KBanks <- NoBanks
  KAmounts = {0}
  KBorrowed <- NoTuples
  KMaxDepth = 4
  SBanks <- SBankSet
  SAmounts = {0, 1, 3, 1000, 900001, 1255640255}
  SBorrowed = {0, 5, 2000000}
  DBanks <- NoBanks
  DAmounts = {0}
  DCums <- NoTuples
VIEW VView
CHECK_DEADLOCK FALSE
