-------------------------------- MODULE Flash --------------------------------
(***************************************************************************)
(* Flash loans with values (C11; feeds C04 C17).  TxShape.tla decides      *)
(* which instruction lists may commit; this module decides how much may    *)
(* be taken inside a bracket.  One action is one atomic transaction        *)
(* [start_flashloan(end index), borrow x | withdraw w (, deposit d), end]  *)
(* simulated instruction by instruction with the implementation's own      *)
(* operation sequence: the start refuses disabled / flagged / frozen       *)
(* accounts and sets the flag, borrow and withdraw run without the risk    *)
(* check while the flag is set (every other rule - bank state, limits,     *)
(* utilization, vault liquidity - still applies), the end clears the flag  *)
(* and enforces the full initial-margin check (flashloan.rs, borrow.rs,    *)
(* withdraw.rs).  For every reachable state the model computes, by         *)
(* bisection, the largest borrow (and the largest collateral withdrawal)   *)
(* with which the bracket still commits, and emits the bracket with that   *)
(* amount and with the next one (expected to fail at the end instruction   *)
(* with RiskEngineInitRejected); a borrow beyond the limit followed by a   *)
(* deposit that restores health must commit.  Every bracket is replayed    *)
(* on the real program and judged by the C11 predicates.                   *)
(***************************************************************************)
EXTENDS Ledger

CONSTANTS FlashCases,   \* set of <<account, bank to borrow from, collateral bank>>
          TopUps,       \* deposits into the collateral bank placed between the borrow and the end
          FlashCap      \* upper end of the bisections (native units, < 2^31)

G2(r, s) == [r |-> r, s |-> s]
SetF(flags, b) == IF Bit(flags, b) THEN flags ELSE SortSeq(Append(flags, b), LAMBDA x, y : x < y)
ClrF(flags, b) == SelectSeq(flags, LAMBDA x : x # b)
UTok(s, an, bn) == s.accts[an].auth \o "." \o s.banks[bn].mint

StartS(s, an) ==
  LET f == s.accts[an].flags IN
  IF Bit(f, ACC_DISABLED) THEN G2("AccountDisabled", s)
  ELSE IF Bit(f, ACC_FLASHLOAN) THEN G2("IllegalFlashloan", s)
  ELSE IF Bit(f, ACC_RECEIVERSHIP) THEN G2("ForbiddenIx", s)
  ELSE IF Bit(f, ACC_FROZEN) THEN G2("AccountFrozen", s)
  ELSE G2("ok", [s EXCEPT !.accts[an].flags = SetF(@, ACC_FLASHLOAN)])

\* lending_account_borrow on state s; the risk check is skipped while the account is in a flash loan
BorrowS(s, an, bn, amt) ==
  LET b0 == s.banks[bn] ac == s.accts[an] g == s.groups[b0.group] IN
  IF Bit(ac.flags, ACC_DISABLED) \/ Bit(ac.flags, ACC_RECEIVERSHIP) THEN G2("AccountDisabled", s)
  ELSE LET b1 == ImplAccrue(b0, g, Now) IN
       IF IsErr(b1) THEN G2(b1.err, s)
       ELSE LET te == TagsErr(b1, ac.bal) se == BankStateErr(b1, "PausedOrReduce") IN
            IF te # "ok" THEN G2(te, s)
            ELSE IF se # "ok" THEN G2(se, s)
            ELSE LET foc == FindOrCreate(ac.bal, bn, b1.key, b1.cfg.asset_tag, Now) IN
                 IF IsErr(foc) THEN G2(foc.err, s)
                 ELSE LET preB == PreFee(s.mints[b0.mint], BOfInt(amt))
                          x == FOfBig(preB)
                          rate == b1.cfg.ir.orig_fee
                          fee == IF BIsZero(rate) THEN BZero ELSE FMul(x, rate)
                          r == ImplDecrease(b1, foc[1], foc[2], BAdd(x, fee), "BorrowOnly", Now)
                      IN IF IsErr(r) THEN G2(r.err, s)
                         ELSE IF BLt(TokOf(s, b1.vault_liq), preB) THEN G2("A1", s)
                         ELSE LET prate == g.fee_cache.rate
                                  pfee == IF BIsZero(prate) THEN BZero ELSE FMul(fee, prate)
                                  b2 == IF BIsZero(fee) THEN r.b
                                        ELSE [r.b EXCEPT !.fee_grp = BAdd(@, BSub(fee, pfee)), !.fee_prog = BAdd(@, pfee)]
                                  bal2 == SortBal(r.bal)
                                  h == IF Bit(ac.flags, ACC_FLASHLOAN) THEN "ok" ELSE ImplInitHealth(Px([s.banks EXCEPT ![bn] = b2]), bal2)
                              IN IF h # "ok" THEN G2(h, s)
                                 ELSE LET b3 == ImplUpdateCache(b2, Now) IN
                                      G2("ok", [s EXCEPT !.banks[bn] = b3, !.accts[an].bal = bal2,
                                                         !.tok = Xfer(@, s.mints[b0.mint], b3.vault_liq, UTok(s, an, bn), preB)])

WithdrawS(s, an, bn, amt) ==
  LET b0 == s.banks[bn] ac == s.accts[an] g == s.groups[b0.group] se == BankStateErr(b0, "Paused") IN
  IF Bit(ac.flags, ACC_DISABLED) THEN G2("AccountDisabled", s)
  ELSE IF se # "ok" THEN G2(se, s)
  ELSE LET b1 == ImplAccrue(b0, g, Now) IN
       IF IsErr(b1) THEN G2(b1.err, s)
       ELSE LET i == FindSlot(ac.bal, bn) IN
            IF i = 0 THEN G2("BankAccountNotFound", s)
            ELSE LET pre == PreFee(s.mints[b0.mint], BOfInt(amt))
                     r == ImplDecrease(b1, ac.bal, i, FOfBig(pre), "WithdrawOnly", Now) IN
                 IF IsErr(r) THEN G2(r.err, s)
                 ELSE IF BLt(TokOf(s, b1.vault_liq), pre) THEN G2("A1", s)
                 ELSE LET b2 == ImplUpdateCache(r.b, Now)
                          bal2 == SortBal(r.bal)
                          h == IF Bit(ac.flags, ACC_FLASHLOAN) THEN "ok" ELSE ImplInitHealth(Px([s.banks EXCEPT ![bn] = b2]), bal2)
                      IN IF h # "ok" THEN G2(h, s)
                         ELSE G2("ok", [s EXCEPT !.banks[bn] = b2, !.accts[an].bal = bal2,
                                                 !.tok = Xfer(@, s.mints[b0.mint], b2.vault_liq, UTok(s, an, bn), pre)])

DepositS(s, an, bn, amt) ==
  LET b0 == s.banks[bn] ac == s.accts[an] g == s.groups[b0.group]
      te == TagsErr(b0, ac.bal) se == BankStateErr(b0, "PausedOrReduce")
  IN IF te # "ok" THEN G2(te, s)
     ELSE IF se # "ok" THEN G2(se, s)
     ELSE IF Bit(ac.flags, ACC_DISABLED) \/ Bit(ac.flags, ACC_RECEIVERSHIP) THEN G2("AccountDisabled", s)
     ELSE LET b1 == ImplAccrue(b0, g, Now) IN
          IF IsErr(b1) THEN G2(b1.err, s)
          ELSE LET foc == FindOrCreate(ac.bal, bn, b1.key, b1.cfg.asset_tag, Now) IN
               IF IsErr(foc) THEN G2(foc.err, s)
               ELSE LET r == ImplIncrease(b1, foc[1], foc[2], FOfInt(amt), "DepositOnly", Now) IN
                    IF IsErr(r) THEN G2(r.err, s)
                    ELSE LET ut == UTok(s, an, bn) pay == PreFee(s.mints[b0.mint], BOfInt(amt)) IN
                         IF BLt(TokOf(s, ut), pay) THEN G2("A1", s)
                         ELSE LET b2 == ImplUpdateCache(r.b, Now) IN
                              G2("ok", [s EXCEPT !.banks[bn] = b2, !.accts[an].bal = SortBal(r.bal),
                                                 !.tok = Xfer(@, s.mints[b0.mint], ut, b2.vault_liq, pay)])

EndS(s, an) ==
  LET f == s.accts[an].flags IN
  IF Bit(f, ACC_DISABLED) THEN G2("AccountDisabled", s)
  ELSE IF Bit(f, ACC_RECEIVERSHIP) THEN G2("ForbiddenIx", s)
  ELSE IF Bit(f, ACC_FROZEN) THEN G2("AccountFrozen", s)
  ELSE LET h == ImplInitHealth(Px(s.banks), s.accts[an].bal) IN
       IF h # "ok" THEN G2(h, s) ELSE G2("ok", [s EXCEPT !.accts[an].flags = ClrF(@, ACC_FLASHLOAN)])

\* kind "B": [start, borrow x, end]   kind "W": [start, withdraw x (collateral), end]
\* kind "BD": [start, borrow x, deposit d into the collateral bank, end]
RECURSIVE RunS(_, _, _)
RunS(s, steps, i) ==     \* steps: sequence of operators already applied lazily through a tag
  IF i > Len(steps) THEN G2("ok", s)
  ELSE LET t == steps[i]
           r == CASE t[1] = "start" -> StartS(s, t[2])
                  [] t[1] = "borrow" -> BorrowS(s, t[2], t[3], t[4])
                  [] t[1] = "withdraw" -> WithdrawS(s, t[2], t[3], t[4])
                  [] t[1] = "deposit" -> DepositS(s, t[2], t[3], t[4])
                  [] t[1] = "end" -> EndS(s, t[2])
       IN IF r.r # "ok" THEN G2(r.r, st) ELSE RunS(r.s, steps, i + 1)
StepsOf(c, kind, x, d) ==
  LET an == c[1] IN
  <<<<"start", an>>>> \o
  (IF kind = "W" THEN <<<<"withdraw", an, c[3], x>>>> ELSE <<<<"borrow", an, c[2], x>>>>) \o
  (IF kind = "BD" THEN <<<<"deposit", an, c[3], d>>>> ELSE <<>>) \o <<<<"end", an>>>>
FlashEval(c, kind, x, d) == RunS(st, StepsOf(c, kind, x, d), 1)
FlashTx(c, kind, x, d) ==
  LET an == c[1] n == IF kind = "BD" THEN 3 ELSE 2 IN
  [op |-> "tx", ixs |-> <<[op |-> "start_fl", acct |-> an, end_index |-> n]>> \o
      (IF kind = "W" THEN <<[op |-> "withdraw", acct |-> an, bank |-> c[3], amount |-> x, all |-> FALSE]>>
       ELSE <<[op |-> "borrow", acct |-> an, bank |-> c[2], amount |-> x]>>) \o
      (IF kind = "BD" THEN <<[op |-> "deposit", acct |-> an, bank |-> c[3], amount |-> d]>> ELSE <<>>) \o
      <<[op |-> "end_fl", acct |-> an]>>]
FlashBracket(c, kind, x, d) ==
  LET ev == FlashEval(c, kind, x, d) a == FlashTx(c, kind, x, d) IN
  IF ev.r = "ok"
  THEN Do(a, "ok", ev.s, Obs(ev.s, {c[2], c[3]}, {c[1]}, {UTok(st, c[1], c[2]), UTok(st, c[1], c[3]), st.banks[c[2]].vault_liq, st.banks[c[3]].vault_liq}))
  ELSE Fail(a, ev.r)

RECURSIVE BisectF(_, _, _, _, _)
BisectF(c, kind, d, lo, hi) ==
  IF hi - lo <= 1 THEN lo
  ELSE LET mid == lo + (hi - lo) \div 2 IN
       IF FlashEval(c, kind, mid, d).r = "ok" THEN BisectF(c, kind, d, mid, hi) ELSE BisectF(c, kind, d, lo, mid)
BoundaryFlash(c, kind, d) ==
  LET one == FlashEval(c, kind, 1, d).r top == FlashEval(c, kind, FlashCap, d).r IN
  IF one # "ok" THEN FlashBracket(c, kind, 1, d)
  ELSE IF top = "ok" THEN FlashBracket(c, kind, FlashCap, d)
  ELSE LET m == BisectF(c, kind, d, 1, FlashCap) IN \E x \in {m, m + 1} : FlashBracket(c, kind, x, d)

NextF ==
  /\ depth < MaxDepth
  /\ \/ \E d \in Ticks : Tick(d)
     \/ \E p \in Prices : SetPrice(p[1], p[2], p[3])
     \/ \E c \in FlashCases, kind \in {"B", "W"} : BoundaryFlash(c, kind, 0)
     \/ \E c \in FlashCases, d \in TopUps : BoundaryFlash(c, "BD", d)
     \/ \E an \in Live, bn \in BankNames, amt \in Amounts : Deposit(an, bn, amt) \/ Borrow(an, bn, amt) \/ Repay(an, bn, amt, FALSE)
SpecF == Init /\ [][NextF]_vars
=============================================================================
