SPECIFICATION Spec
CONSTANTS
  NPoints = 2
CHECK_DEADLOCK FALSE
