SPECIFICATION Spec
CONSTANTS
  MaxDoctor = 2
VIEW View
CHECK_DEADLOCK FALSE
