SPECIFICATION SpecV
CONSTANTS
  Accts = {"A1", "A2", "A3", "A4"}
  BankNames = {"BD", "KB1", "SB1", "DB1"}
  Amounts = {1}
  Ticks = {1, 3600}
  StaleTicks = {7}
  LiqTriples <- NoTuplesV
  Prices <- NoTuplesV
  BkCases <- NoTuplesV
  MaxDepth = 3
  KBanks = {"KB1"}
  KAmounts = {1000}
  KBorrowed <- KBorV
  KMaxDepth = 3
  SBanks = {"SB1"}
  SAmounts = {0}
  SBorrowed <- SBorV
  DBanks = {"DB1"}
  DAmounts = {0}
  DCums <- DCumV
  OracleVariants <- OVV
  SwbVariants <- NoTuplesV
  EmodeSets <- NoTuplesV
  RiskPatches <- NoTuplesV
  BoundaryPairs <- BPV
  BorrowCap = 2000000000
  VLiqCases <- VLC
  VLiqProbes = {1, 1000}
  VLiqTop = 2100000000
VIEW ViewV
CHECK_DEADLOCK FALSE
