SPECIFICATION SpecSim
CONSTANTS
  Accts = {"A1", "A2", "A3"}
  BankNames = {"B1", "B2"}
  Amounts = {1, 999, 1000003, 7500000, 40000000}
  Ticks = {1, 3600, 2592000, 31536000}
  LiqTriples <- WalkLiq
  Prices <- WalkPrices
  BkCases <- NoTuples
  MaxDepth = 60
CHECK_DEADLOCK FALSE
