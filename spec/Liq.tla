--------------------------------- MODULE Liq ---------------------------------
(***************************************************************************)
(* Classic liquidation with values (C05): from the risk seed (a borrower   *)
(* at its limit, two possible liquidators - one lending in the debt bank,  *)
(* one lending in both banks) the collateral price falls to either side of *)
(* the maintenance limit, the debt price rises, interest accrues, the      *)
(* borrower tops up or repays; and in every reachable state TLC computes   *)
(* by bisection over the ledger's own evaluation of                        *)
(* lending_account_liquidate the largest seizure the program accepts       *)
(* (bounded by the liquidatee's balance, by "still not healthy afterwards",*)
(* by the debt that may not flip into a deposit, and by the liquidator's   *)
(* own initial health), emitting it with its successor and the predicted   *)
(* error, next to the smallest seizures (one native unit: the insurance    *)
(* share is below one token and stays in the fee bucket).  Afterwards the  *)
(* account may be settled as bankrupt.  Every transition is replayed on    *)
(* the real program and judged by C05 (and the ledger / risk properties).  *)
(***************************************************************************)
EXTENDS Ledger

CONSTANTS LiqCases,    \* set of <<liquidator, liquidatee, asset bank, liab bank>>
          LiqProbes,   \* small seizures tried as they are
          LiqTop,      \* upper end of the bisection
          TopUps       \* set of <<account, bank, amount>> deposits / repayments by the borrower

LEval(t, q) == LiquidateEval(t[1], t[2], t[3], t[4], q)
LAct(t, q) == Liquidate(t[1], t[2], t[3], t[4], q)
RECURSIVE BisectL(_, _, _)
BisectL(t, lo, hi) ==
  IF hi - lo <= 1 THEN lo
  ELSE LET mid == lo + (hi - lo) \div 2 IN
       IF LEval(t, mid).r = "ok" THEN BisectL(t, mid, hi) ELSE BisectL(t, lo, mid)
\* the largest accepted seizure above an accepted probe, with its successor
BoundaryLiq(t) ==
  LET oks == {p \in LiqProbes : LEval(t, p).r = "ok"} IN
  IF oks = {} THEN LAct(t, LiqTop)
  ELSE IF LEval(t, LiqTop).r = "ok" THEN LAct(t, LiqTop)
  ELSE LET lo == CHOOSE p \in oks : \A x \in oks : x <= p
           m == BisectL(t, lo, LiqTop)
       IN \E x \in {m, m + 1} : LAct(t, x)

NextL ==
  /\ depth < MaxDepth
  /\ \/ \E d \in Ticks : Tick(d)
     \/ \E p \in Prices : SetPrice(p[1], p[2], p[3])
     \/ \E t \in LiqCases : BoundaryLiq(t)
     \/ \E t \in LiqCases, q \in LiqProbes : LAct(t, q)
     \/ \E u \in TopUps : Deposit(u[1], u[2], u[3]) \/ Repay(u[1], u[2], u[3], FALSE)
     \/ \E c \in BkCases : Bankruptcy(c[1], c[2], c[3])

SpecL == Init /\ [][NextL]_vars
=============================================================================
