SPECIFICATION SpecD
CONSTANTS
  Accts = {"A1"}
  BankNames = {"B1", "B2"}
  Amounts = {1000003}
  Ticks = {3600, 86399, 86400, 216000}
  LiqTriples <- DvNone
  Prices <- DvNone
  BkCases <- DvNone
  RecvCases <- DvNone
  Repays = {}
  FixedSeizes = {1, 999999, 1000000}
  SeizeCap = 1
  OpStates = {}
  DelevCases <- DvCases
  DelevRepays = {1, 100000000, 300000000}
  Limits = {0, 1, 2, 5}
  RiskAdminW = "riskadmin"
  DelevCap = 40000001
  MaxDepth = 4
VIEW ViewD
CHECK_DEADLOCK FALSE
