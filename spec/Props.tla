------------------------------- MODULE Props -------------------------------
(***************************************************************************)
(* The twenty properties C01..C20 as predicates over explicit state        *)
(* records; dispatch for the trace spec (CheckStepP) and accumulators.     *)
(***************************************************************************)
EXTENDS PropsPanic, PropsInteg, PropsAuth

Acc0 == [c15 |-> C15Acc0, c02 |-> C02Acc0, c07 |-> C07Acc0, c12 |-> C12Acc0]
AccNext(acc, pre, e, post) ==
  [c15 |-> C15AccNext(acc.c15, pre, e, post),
   c02 |-> C02AccNext(acc.c02, pre, e, post),
   c07 |-> C07AccNext(acc.c07, pre, e, post),
   c12 |-> C12AccNext(acc.c12, pre, e, post)]

Wired == {"C01", "C02", "C03", "C04", "C05", "C06", "C07", "C08", "C09", "C10", "C11", "C12", "C13", "C14", "C15", "C16", "C17", "C18", "C19", "C20"}

\* invariants evaluated on a freshly reset state
CheckInvP(want, s, e, line) == TRUE

CheckStepP(want, pre, e, post, acc, line) ==
  /\ (want["C15"]) => C15(pre, e, post, acc.c15, line)
  /\ (want["C14"]) => (C14Pause(pre, e, post, line) /\ C14Bank(pre, e, post, line))
  /\ (want["C01"]) => C01(pre, e, post, line)
  /\ (want["C02"]) => C02(pre, e, post, acc.c02, line)
  /\ (want["C03"]) => C03(pre, e, post, line)
  /\ (want["C06"]) => C06(pre, e, post, line)
  /\ (want["C16"]) => C16(pre, e, post, line)
  /\ (want["C17"]) => C17(pre, e, post, line)
  /\ (want["C04"]) => C04(pre, e, post, line)
  /\ (want["C05"]) => C05(pre, e, post, line)
  /\ (want["C07"]) => C07(pre, e, post, acc.c07, line)
  /\ (want["C09"]) => C09(pre, e, post, line)
  /\ (want["C13"]) => C13(pre, e, post, line)
  /\ (want["C08"]) => C08(pre, e, post, line)
  /\ (want["C12"]) => C12(pre, e, post, acc.c12, line)
  /\ (want["C19"]) => C19(pre, e, post, line)
  /\ (want["C10"]) => C10(pre, e, post, line)
  /\ (want["C11"]) => C11(pre, e, post, line)
  /\ (want["C18"]) => C18(pre, e, post, line)
  /\ (want["C20"]) => C20(pre, e, post, line)
  \* guard against vacuity: a requested property without a predicate above is an error of the machinery
  /\ \A p \in DOMAIN want : (want[p] /\ p \notin Wired) => Chk("TOOL", "property_not_wired_into_trace_spec", line, FALSE, [property |-> p])
=============================================================================
