------------------------------- MODULE Props -------------------------------
(***************************************************************************)
(* The twenty properties C01..C20 as predicates over explicit state        *)
(* records; dispatch for the trace spec (CheckStep) and accumulators.      *)
(* `Want` (a string of property ids) is supplied by the extending module.  *)
(***************************************************************************)
EXTENDS PropsPanic

Acc0 == [c15 |-> C15Acc0]
AccNext(acc, pre, e, post) == [c15 |-> C15AccNext(acc.c15, pre, e, post)]

\* invariants evaluated on a freshly reset state
CheckInvP(want, s, e, line) == TRUE

CheckStepP(want, pre, e, post, acc, line) ==
  /\ (want["C15"]) => C15(pre, e, post, acc.c15, line)
  /\ (want["C14"]) => C14Pause(pre, e, post, line)
=============================================================================
