------------------------------- MODULE Props -------------------------------
(***************************************************************************)
(* The twenty properties C01..C20 as predicates over explicit state        *)
(* records; dispatch for the trace spec (CheckStepP) and accumulators.     *)
(***************************************************************************)
EXTENDS PropsPanic, PropsInteg, PropsAuth

Acc0 == [c15 |-> C15Acc0, c02 |-> C02Acc0, c07 |-> C07Acc0, c12 |-> C12Acc0]
AccNext(acc, pre, e, post) ==
  [c15 |-> C15AccNext(acc.c15, pre, e, post),
   c02 |-> C02AccNext(acc.c02, pre, e, post),
   c07 |-> C07AccNext(acc.c07, pre, e, post),
   c12 |-> C12AccNext(acc.c12, pre, e, post)]

\* C08, substituted price accounts (any of a bank's oracle slots replaced by an account that is not the configured
\* one): a liquidation that needs that price is refused; for borrowing and withdrawing the position behind it counts
\* as worth nothing (the reference valuation already treats a substituted account as unusable), so the account must be
\* initially healthy without it
SubstBanks(e) ==
  (IF Has(e.a, "oracle_sub") THEN DOMAIN e.a.oracle_sub ELSE {}) \cup (IF Has(e.a, "oracle_sub_slots") THEN DOMAIN e.a.oracle_sub_slots ELSE {})
RealSubst(pre, e, bn) ==
  Has(pre.banks, bn) /\ \E i \in 1..3 : PresentedSlot(e, bn, pre.banks[bn], i) # pre.banks[bn].cfg.oracle_keys[i]
C08Sub(pre, e, post, line) ==
  (Ok(e) /\ ~Has(e.a, "cell") /\ \E bn \in SubstBanks(e) : RealSubst(pre, e, bn)) =>
    /\ (e.ev = "liquidate") =>
         Chk("C08", "liquidation_with_substituted_price_account_rejected", line,
             ~(RealSubst(pre, e, e.a.asset_bank) \/ RealSubst(pre, e, e.a.liab_bank)), [asset_bank |-> e.a.asset_bank, liab_bank |-> e.a.liab_bank])
    /\ (e.ev \in {"borrow", "withdraw"} /\ Has(post.accts, e.a.acct) /\ ~Bit(post.accts[e.a.acct].flags, ACC_FLASHLOAN)
        /\ ~Bit(post.accts[e.a.acct].flags, ACC_RECEIVERSHIP)) =>
         LET h == HealthRef(post, e, post.accts[e.a.acct], "Init", "fav") IN
         (h.known /\ (e.ev = "borrow" \/ BIsPos(FoldSet(LAMBDA i, acc : BAdd(post.accts[e.a.acct].bal[i].l, acc), BZero, ActiveSlots(post.accts[e.a.acct]))))) =>
           Chk("C08", "substituted_price_account_contributes_no_value", line, RGe(Health(h), RNeg(h.tol)), [acct |-> e.a.acct, ev |-> e.ev])

Wired == {"C01", "C02", "C03", "C04", "C05", "C06", "C07", "C08", "C09", "C10", "C11", "C12", "C13", "C14", "C15", "C16", "C17", "C18", "C19", "C20"}

\* invariants evaluated on a freshly reset state
CheckInvP(want, s, e, line) == TRUE

CheckStepP(want, pre, e, post, acc, line) ==
  /\ (want["C15"]) => C15(pre, e, post, acc.c15, line)
  /\ (want["C14"]) => (C14Pause(pre, e, post, line) /\ C14Bank(pre, e, post, line))
  /\ (want["C01"]) => C01(pre, e, post, line)
  /\ (want["C02"]) => C02(pre, e, post, acc.c02, line)
  /\ (want["C03"]) => (C03(pre, e, post, line) /\ C03Venue(pre, e, post, line))
  /\ (want["C06"]) => C06(pre, e, post, line)
  /\ (want["C16"]) => C16(pre, e, post, line)
  /\ (want["C17"]) => C17(pre, e, post, line)
  /\ (want["C04"]) => C04(pre, Eff(e), post, line)
  /\ (want["C04"] \/ want["C09"]) => EXTHealth(pre, Eff(e), post, line)
  /\ (want["C05"]) => C05(pre, e, post, line)
  /\ (want["C07"]) => C07(pre, e, post, acc.c07, line)
  /\ (want["C09"]) => C09(pre, Eff(e), post, line)
  /\ (want["C13"]) => C13(pre, Eff(e), post, line)
  /\ (want["C08"]) => (C08(pre, e, post, line) /\ C08Sub(pre, e, post, line))
  /\ (want["C12"]) => (C12(pre, e, post, acc.c12, line) /\ C12Bracket(pre, e, post, line))
  /\ (want["C19"]) => C19(pre, e, post, line)
  /\ (want["C10"]) => C10(pre, e, post, line)
  /\ (want["C11"]) => C11(pre, e, post, line)
  /\ (want["C18"]) => (C18(pre, e, post, line) /\ C18Migrate(pre, e, post, line))
  /\ (want["C20"]) => C20(pre, e, post, line)
  \* guard against vacuity: a requested property without a predicate above is an error of the machinery
  /\ \A p \in DOMAIN want : (want[p] /\ p \notin Wired) => Chk("TOOL", "property_not_wired_into_trace_spec", line, FALSE, [property |-> p])
=============================================================================
