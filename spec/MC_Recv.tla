------------------------------ MODULE MC_Recv ------------------------------
(* Model-checking instance of Recv.tla from setups/recvmodel.json: borrower A1 (40 tokens of B1 at $1, debt of 9.9 B2 at $2)
   at its borrowing limit, a receiver wallet funded in both mints, a liquidation record for A1.  Collateral prices: 3/4
   (still healthy), 7/10 (just unhealthy), 1/2, 1/8 (assets worth exactly $5), 1/10 (below the close-out threshold). *)
EXTENDS Recv
RvCases == {<<"A1", "B1", "B2", "liquidator">>}
RvPrices == {<<"B1", 3, 4>>, <<"B1", 7, 10>>, <<"B1", 1, 2>>, <<"B1", 1, 8>>, <<"B1", 1, 10>>}
RvPricesT == RvPrices \cup {<<"B2", 3, 1>>, <<"B1", 124999, 1000000>>}
RvLiq == {<<"A2", "A1", "B1", "B2">>}
RvCasesZ == {<<"A1", "B1", "B2", "liquidator">>, <<"A1", "B3", "B2", "liquidator">>, <<"A1", "B4", "B2", "liquidator">>}
RvPricesZ == {<<"B1", 7, 10>>, <<"B1", 1, 2>>, <<"B1", 1, 10>>}
RvNone == {}
=============================================================================
