------------------------------ MODULE MC_Payout ------------------------------
(* Model-checking instance of Payout.tla from setups/payoutmodel.json: B1 (6 decimals, every fee kind, an emissions campaign
   on both sides funded with 30 ME, rate 2.5 ME per token-year) lent by A3 and borrowed by A1 for half a year, fees collected
   once (insurance vault, fee vault and the fee wallet's account hold tokens, the buckets keep their fractions), one hour later. *)
EXTENDS Payout
NoTuplesP == {}
EmisWordsQ == {{}, {0}, {1}, {0, 1}, {0, 3}}
=============================================================================
