SPECIFICATION SpecL
CONSTANTS
  Accts = {"A1", "A2", "A3"}
  BankNames = {"B1", "B2"}
  Amounts = {}
  Ticks = {31536000}
  LiqTriples <- LqNone
  Prices <- LqPricesT
  BkCases <- LqBk
  LiqCases <- LqCases
  LiqProbes = {1, 1000003}
  LiqTop = 100000000
  TopUps <- LqTopUps
  MaxDepth = 4
VIEW View
CHECK_DEADLOCK FALSE
