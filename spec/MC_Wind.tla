------------------------------ MODULE MC_Wind ------------------------------
(* Model-checking instance of Wind.tla from setups/windmodel.json: bank B2 with lenders A2 and A3 and borrower A1 (collateral in B1). *)
EXTENDS Wind
WNone == {}
=============================================================================
