SPECIFICATION Spec
CONSTANTS
  BankN = "B2"
  MaxDepth = 5
VIEW View
CHECK_DEADLOCK FALSE
