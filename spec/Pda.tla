-------------------------------- MODULE Pda --------------------------------
(***************************************************************************)
(* Account creation and migration, including the PDA-derived variants and  *)
(* the third-party id gate (growth beyond the listed properties; feeds C08 *)
(* and C16).  From the projected state of a seed world with two funded     *)
(* accounts, TLC explores: creating a PDA account for (authority, index,   *)
(* third-party id) called directly, through an unregistered wrapper        *)
(* program, or through the program registered for id 10001; migrating an   *)
(* account to a fresh keypair account or to a PDA account, signed by its   *)
(* authority, the group admin or a stranger; freezing.  The model predicts *)
(* the result in the program's own check order (`init` of the new account,  *)
(* then the Anchor constraints, then the handler: already migrated, then the *)
(* id gate) and the observable post-state (authority, index, id, migration *)
(* links, copied positions and flags, source disabled and emptied).        *)
(***************************************************************************)
EXTENDS PropsLedger, IOUtils, FiniteSets

CONSTANTS Sources,     \* accounts that can be migrated (created by the seed script, authority SrcAuth)
          Auths,       \* authorities for new accounts
          Idx, Tps,    \* account indices; third-party ids (NoTp = argument absent)
          Vias,        \* "direct", "wrapper" (unregistered program CPIs into marginfi), "mocks" (registered for 10001)
          Signers,     \* who signs a migration
          MaxDepth
SrcAuth == "U3"
Admin == "admin"
\* hand-written from the statement of the gate (constants.rs): ids below 10000 are free; above, the id needs a registered
\* program and the *top-level* instruction of the transaction must belong to that program
FREE_BELOW == 10000
NoTp == 70000      \* beyond u16: "no id given"
Registered(tp) == IF tp = 10001 THEN "mocks" ELSE "nobody"      \* the other registered ids belong to programs that do not exist here
Gate(tp, via) == tp = NoTp \/ tp < FREE_BELOW \/ (Registered(tp) # "nobody" /\ via = Registered(tp))
TpEff(tp) == IF tp = NoTp THEN 0 ELSE tp

VARIABLES st, ex, sid, depth
vars == <<st, ex, sid, depth>>
InitState == JsonDeserialize(IOEnv.INIT_STATE)

PName(auth, i, tp) == "P." \o auth \o "." \o ToString(i) \o "." \o ToString(TpEff(tp))
ViaMod(via) == IF via = "direct" THEN <<>> ELSE IF via = "wrapper" THEN [cpi |-> TRUE] ELSE [cpi_via |-> "mocks"]
PdaArg(i, tp) == IF tp = NoTp THEN [index |-> i] ELSE [index |-> i, third_party |-> tp]

Ev(a, r) == [ev |-> a.op, a |-> a, amt |-> BZero, res |-> IF r = "ok" THEN "ok" ELSE "err", err |-> IF r \in {"ok", "err"} THEN "" ELSE r]
Do(a, r, post, obs) ==
  LET e == Ev(a, r) IN
  /\ st' = post /\ depth' = depth + 1
  /\ (C16(st, e, post, 0) /\ C02(st, e, post, C02Acc0, 0)) = TRUE
  /\ sid' = TLCGet(1)
  /\ TLCSet(1, TLCGet(1) + 1)
  /\ PrintT("EDGE " \o ToString(sid) \o " " \o ToString(TLCGet(1) - 1) \o " " \o ToJson(a @@ [exp |-> r, obs |-> obs]))

\* ---- create a PDA account ------------------------------------------------------------------------
Tmpl == st.accts[CHOOSE s \in Sources : TRUE]
Fresh(auth, i, tp) ==
  [Tmpl EXCEPT !.auth = auth, !.flags = <<>>, !.mig_from = "none", !.mig_to = "none", !.index = i, !.third_party = TpEff(tp), !.emis_dest = "none",
               !.liq_rec = "none", !.bal = [k \in DOMAIN Tmpl.bal |-> [act |-> 0, clean |-> TRUE]]]
InitPda(auth, i, tp, via) ==
  LET nm == PName(auth, i, tp)
      a == ViaMod(via) @@ [op |-> "init_account", acct |-> nm, group |-> "G1", authority |-> auth, pda |-> PdaArg(i, tp)]
      r == IF nm \in ex THEN "err" ELSE IF ~Gate(tp, via) THEN "Unauthorized" ELSE "ok"
      o == [auth |-> auth, group |-> "G1", index |-> i, third_party |-> TpEff(tp), mig_from |-> "none", mig_to |-> "none", flags |-> <<>>]
  IN /\ ex' = IF r = "ok" THEN ex \cup {nm} ELSE ex
     /\ Do(a, r, IF r = "ok" THEN [st EXCEPT !.accts = (nm :> Fresh(auth, i, tp)) @@ @] ELSE st,
           IF r = "ok" THEN [accts |-> (nm :> o)] ELSE <<>>)

\* ---- migrate -------------------------------------------------------------------------------------
Frozen(s) == Bit(st.accts[s].flags, ACC_FROZEN)
Migrated(s) == st.accts[s].mig_to # "none"
\* Anchor constraints of the source account
SrcErr(s, sg) ==
  IF Frozen(s) /\ sg = SrcAuth THEN "E6103"   \* AccountFrozen (6103; the program's own code-to-name table does not list it)
  ELSE IF (IF Frozen(s) THEN sg # Admin ELSE sg # SrcAuth) THEN "Unauthorized"
  ELSE "ok"
AddBit(flags, b) == IF Bit(flags, b) THEN flags ELSE SortSeq(Append(flags, b), LAMBDA x, y : x < y)
\* post-state of a successful migration of s to the account named nm
Moved(s, nm, auth, i, tp) ==
  LET old == st.accts[s]
      new == [old EXCEPT !.auth = auth, !.mig_from = s, !.mig_to = "none", !.index = i, !.third_party = TpEff(tp)]
      src == [old EXCEPT !.mig_to = nm, !.flags = AddBit(old.flags, ACC_DISABLED), !.bal = [k \in DOMAIN old.bal |-> [act |-> 0, clean |-> TRUE]]]
  IN [st EXCEPT !.accts = (nm :> new) @@ [@ EXCEPT ![s] = src]]
MovedObs(s, nm, auth, i, tp) ==
  LET old == st.accts[s] IN
  [accts |-> (nm :> [auth |-> auth, group |-> "G1", index |-> i, third_party |-> TpEff(tp), mig_from |-> s, mig_to |-> "none", flags |-> old.flags,
                     bal |-> old.bal, emis_dest |-> old.emis_dest])
             @@ (s :> [mig_to |-> nm, flags |-> AddBit(old.flags, ACC_DISABLED), auth |-> old.auth,
                       bal |-> [k \in DOMAIN old.bal |-> [act |-> 0]]])]
SgMod(sg) == IF sg = SrcAuth THEN <<>> ELSE [signer |-> sg]

TransferPda(s, sg, auth, i, tp, via) ==
  LET nm == PName(auth, i, tp)
      a == ViaMod(via) @@ SgMod(sg) @@ [op |-> "transfer_account", acct |-> s, new_acct |-> nm, new_authority |-> auth, pda |-> PdaArg(i, tp)]
      c == SrcErr(s, sg)
      \* Anchor creates `init` accounts while it walks the account list, before any has_one / constraint expression is evaluated
      r == IF nm \in ex THEN "err"
           ELSE IF c # "ok" THEN c
           ELSE IF Migrated(s) THEN "AccountAlreadyMigrated"
           ELSE IF ~Gate(tp, via) THEN "Unauthorized" ELSE "ok"
  IN /\ ex' = IF r = "ok" THEN ex \cup {nm} ELSE ex
     /\ Do(a, r, IF r = "ok" THEN Moved(s, nm, auth, i, tp) ELSE st, IF r = "ok" THEN MovedObs(s, nm, auth, i, tp) ELSE <<>>)

\* keypair variant: the new account is a fresh key; its index and id stay 0
TransferKey(s, sg, auth) ==
  LET nm == "N." \o s \o "." \o ToString(depth)
      a == SgMod(sg) @@ [op |-> "transfer_account", acct |-> s, new_acct |-> nm, new_authority |-> auth]
      c == SrcErr(s, sg)
      r == IF c # "ok" THEN c ELSE IF Migrated(s) THEN "AccountAlreadyMigrated" ELSE "ok"
  IN /\ UNCHANGED ex
     /\ Do(a, r, IF r = "ok" THEN Moved(s, nm, auth, 0, NoTp) ELSE st, IF r = "ok" THEN MovedObs(s, nm, auth, 0, NoTp) ELSE <<>>)

Freeze(s, on) ==
  LET a == [op |-> "freeze", acct |-> s, frozen |-> on]
      fl == IF on THEN AddBit(st.accts[s].flags, ACC_FROZEN) ELSE SelectSeq(st.accts[s].flags, LAMBDA b : b # ACC_FROZEN)
  IN /\ UNCHANGED ex
     /\ Do(a, "ok", [st EXCEPT !.accts[s].flags = fl], [accts |-> (s :> [flags |-> fl])])

Init == st = InitState /\ ex = {} /\ sid = 0 /\ depth = 0 /\ TLCSet(1, 1)
Next ==
  /\ depth < MaxDepth
  /\ \/ \E auth \in Auths, i \in Idx, tp \in Tps, via \in Vias : InitPda(auth, i, tp, via)
     \/ \E s \in Sources, sg \in Signers, auth \in Auths, i \in Idx, tp \in Tps, via \in Vias : TransferPda(s, sg, auth, i, tp, via)
     \/ \E s \in Sources, sg \in Signers, auth \in Auths : TransferKey(s, sg, auth)
     \/ \E s \in Sources, on \in BOOLEAN : Freeze(s, on)
Spec == Init /\ [][Next]_vars
\* what decides future behaviour: which PDA accounts exist, and per source whether it is frozen / migrated
View == <<ex, [s \in Sources |-> <<Frozen(s), Migrated(s)>>], depth>>
=============================================================================
