SPECIFICATION SpecF
CONSTANTS
  Accts = {"A1", "A2"}
  BankNames = {"B1", "B2"}
  Amounts = {1, 1000003, 40000000}
  Ticks = {31536000}
  LiqTriples <- FlNone
  Prices <- FlPrices
  BkCases <- FlNone
  FlashCases <- FlCases
  TopUps = {1, 1000003, 500000000}
  FlashCap = 2000000000
  MaxDepth = 3
VIEW View
CHECK_DEADLOCK FALSE
