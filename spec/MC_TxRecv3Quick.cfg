SPECIFICATION Spec
CONSTANTS
  Alphabet <- Recv3Alphabet
  MaxLen = 4
  NeedOneOf <- NeedStart
CHECK_DEADLOCK FALSE
