----------------------------- MODULE PropsAuth -----------------------------
(***************************************************************************)
(* C08 authorization.  The matrix itself (signer role and binding class of *)
(* every account slot of every instruction) is AuthTable.tla, generated    *)
(* from tools/gen_auth.py (DESIGN.md Appendix B).  A recorded cell carries  *)
(* `cell` (instruction name in the table) and `mode` (account state).      *)
(***************************************************************************)
EXTENDS Base, AuthTable

FreeKinds == {"free", "signer", "payer", "new"}
FrozenOps == {"deposit", "withdraw", "close_balance", "liquidate", "withdraw_emissions"}
Holders(op) == {AuthRoles[AuthOps[op].role]} \cup {AuthRoles[AuthOps[op].also[i]] : i \in DOMAIN AuthOps[op].also}
Entitled(op, id, mode) ==
  IF AuthOps[op].role = "anyone" THEN TRUE
  ELSE IF mode = "frozen" /\ op \in FrozenOps THEN id = AuthRoles["admin"]
  ELSE id \in Holders(op)

\* the instruction record the cell's modifiers were applied to
CellIx(a) == IF a.op = "tx" THEN a.ixs[AuthOps[a.cell].k + 1] ELSE a

C08(pre, e, post, line) ==
  (Has(e.a, "cell")) =>
    LET op == e.a.cell mode == e.a.mode ix == CellIx(e.a) slots == AuthOps[op].slots IN
    /\ (Has(ix, "subst")) =>
         \A j \in DOMAIN ix.subst :
           LET idx == ix.subst[j][1] + 1 kind == slots[idx][2] IN
           (kind \notin FreeKinds) =>
             Chk("C08", "substituted_bound_account_rejected", line, ~Ok(e),
                 [cell |-> op, slot |-> slots[idx][1], kind |-> kind, substitute |-> ix.subst[j][2], mode |-> mode])
    /\ (Has(ix, "nosign")) =>
         Chk("C08", "missing_signature_rejected", line, ~Ok(e), [cell |-> op, mode |-> mode])
    /\ (e.a.variant = "signer") =>
         LET id == e.a.who IN
         /\ (~Entitled(op, id, mode)) =>
              Chk("C08", "non_entitled_signer_rejected", line, ~Ok(e), [cell |-> op, signer |-> id, mode |-> mode])
         /\ (Entitled(op, id, mode)) =>
              Chk("C08", "entitled_signer_accepted", line, Ok(e), [cell |-> op, signer |-> id, mode |-> mode, err |-> e.err])
    /\ (e.a.variant = "base") =>
         IF mode = "frozen" /\ op \in FrozenOps
         THEN Chk("C08", "authority_locked_out_while_frozen", line, ~Ok(e), [cell |-> op, mode |-> mode])
         ELSE Chk("C08", "unmodified_base_cell_accepted", line, Ok(e), [cell |-> op, mode |-> mode, err |-> e.err])
=============================================================================
