----------------------------- MODULE PropsAuth -----------------------------
(***************************************************************************)
(* C08 authorization.  The matrix itself (signer role and binding class of *)
(* every account slot of every instruction) is AuthTable.tla, generated    *)
(* from tools/gen_auth.py (DESIGN.md Appendix B).  A recorded cell carries  *)
(* `cell` (instruction name in the table) and `mode` (account state).      *)
(***************************************************************************)
EXTENDS Base, AuthTable, FiniteSets

FreeKinds == {"free", "signer", "payer", "new"}
FrozenOps == {"deposit", "withdraw", "close_balance", "liquidate", "withdraw_emissions", "kamino_deposit", "kamino_withdraw", "drift_deposit", "drift_withdraw", "solend_deposit", "solend_withdraw"}
Holders(op) == {AuthRoles[AuthOps[op].role]} \cup {AuthRoles[AuthOps[op].also[i]] : i \in DOMAIN AuthOps[op].also}
Entitled(op, id, mode) ==
  IF AuthOps[op].role = "anyone" THEN TRUE
  ELSE IF mode = "frozen" /\ op \in FrozenOps THEN id = AuthRoles["admin"]
  ELSE id \in Holders(op)

\* ---- who holds a role *now*: the seven group roles are read from the group account before the instruction
\* (cells always act in group G1), every other role of the table is fixed by the seed script
GroupRoleNames == {"admin", "risk_admin", "emode_admin", "curve_admin", "limit_admin", "emissions_admin", "metadata_admin"}
\* (AuthOps[op].grp: the group the cell's base action works in)
HolderIn(pre, op, role) ==
  LET g == AuthOps[op].grp IN
  IF role \in GroupRoleNames /\ Has(pre, "groups") /\ Has(pre.groups, g) THEN pre.groups[g][role] ELSE AuthRoles[role]
HoldersIn(pre, op) == {HolderIn(pre, op, AuthOps[op].role)} \cup {HolderIn(pre, op, AuthOps[op].also[i]) : i \in DOMAIN AuthOps[op].also}
EntitledIn(pre, op, id, mode) ==
  IF AuthOps[op].role = "anyone" THEN TRUE
  ELSE IF mode = "frozen" /\ op \in FrozenOps THEN id = HolderIn(pre, op, "admin")
  ELSE id \in HoldersIn(pre, op)

\* a successful group configuration leaves every role with exactly the key that was asked for
C08Roles(pre, e, post, line) ==
  (e.ev = "config_group" /\ Ok(e) /\ Has(e.a, "group") /\ Has(post.groups, e.a.group)) =>
    \A r \in GroupRoleNames :
      (Has(e.a, r)) =>
        Chk("C08", "role_is_held_by_the_key_the_admin_assigned", line, post.groups[e.a.group][r] = e.a[r],
            [group |-> e.a.group, role |-> r, asked |-> e.a[r], stored |-> post.groups[e.a.group][r]])

\* the instruction record the cell's modifiers were applied to
CellIx(a) == IF a.op = "tx" THEN a.ixs[AuthOps[a.cell].k + 1] ELSE a

\* migrating an account (to a keypair or a PDA account) moves all its balances to a new authority: only the authority's
\* signature allows it, or the group admin's while the account is frozen
C08Move(pre, e, post, line) ==
  (e.ev = "transfer_account" /\ Ok(e) /\ ~Has(e.a, "cell") /\ Has(pre, "accts") /\ Has(pre.accts, e.a.acct)) =>
    LET ac == pre.accts[e.a.acct]
        sg == IF Has(e.a, "signer") THEN e.a.signer ELSE ac.auth
        adm == pre.groups[ac.group].admin
    IN Chk("C08", "account_migrated_only_by_its_authority_or_by_the_admin_while_frozen", line,
           IF Bit(ac.flags, ACC_FROZEN) THEN sg = adm ELSE sg = ac.auth, [acct |-> e.a.acct, signer |-> sg])

\* ---- every recorded execution (not only the matrix cells): who signed an instruction that changes an account's balances.
\* The signer recorded with the action is the key that signed (default: the account's authority).
UserOps == {"deposit", "withdraw", "borrow", "repay", "close_balance", "withdraw_emissions", "kamino_deposit", "kamino_withdraw",
            "drift_deposit", "drift_withdraw", "solend_deposit", "solend_withdraw"}
ReceiverOps == {"withdraw", "repay", "kamino_withdraw", "drift_withdraw", "solend_withdraw"}
BracketStart == {"start_liq", "start_delev"}
BracketEnd == {"end_liq", "end_delev"}
SignerOfIx(st, ix) == IF Has(ix, "signer") THEN ix.signer ELSE st.accts[ix.acct].auth
EntitledUser(st, an, sg) ==
  LET ac == st.accts[an] IN
  IF Bit(ac.flags, ACC_FROZEN) THEN (Has(st.groups, ac.group) /\ sg = st.groups[ac.group].admin) ELSE sg = ac.auth
\* position k of list L lies strictly inside a bracket on account an that starts and ends in this very list
InsideBracket(L, k, an) ==
  /\ \E i \in 1..(k - 1) : /\ L[i].op \in BracketStart /\ Has(L[i], "acct") /\ L[i].acct = an
                            /\ \A j \in (i + 1)..(k - 1) : ~(L[j].op \in BracketEnd /\ Has(L[j], "acct") /\ L[j].acct = an)
  /\ \E j \in (k + 1)..Len(L) : L[j].op \in BracketEnd /\ Has(L[j], "acct") /\ L[j].acct = an
C08Signers(pre, e, post, line) ==
  /\ (Ok(e) /\ ~Has(e.a, "cell") /\ e.ev \in UserOps /\ Has(e.a, "acct") /\ Has(pre, "accts") /\ Has(pre.accts, e.a.acct) /\ ~Has(e.a, "nosign")) =>
       Chk("C08", "balances_change_only_with_the_entitled_signature", line, EntitledUser(pre, e.a.acct, SignerOfIx(pre, e.a)),
           [ev |-> e.ev, acct |-> e.a.acct, signer |-> SignerOfIx(pre, e.a), authority |-> pre.accts[e.a.acct].auth])
  /\ (Ok(e) /\ ~Has(e.a, "cell") /\ e.ev = "tx" /\ Has(pre, "accts")) =>
       LET L == e.a.ixs IN
       \A k \in DOMAIN L :
         (L[k].op \in UserOps /\ Has(L[k], "acct") /\ Has(pre.accts, L[k].acct) /\ ~Has(L[k], "nosign")) =>
           Chk("C08", "third_party_acts_only_strictly_inside_a_bracket_and_only_withdraws_or_repays", line,
               \/ EntitledUser(pre, L[k].acct, SignerOfIx(pre, L[k]))
               \/ (L[k].op \in ReceiverOps /\ InsideBracket(L, k, L[k].acct)),
               [ix |-> k, op |-> L[k].op, acct |-> L[k].acct, signer |-> SignerOfIx(pre, L[k])])
  \* whoever held an account in receivership / deleverage holds nothing once the transaction has committed
  /\ (Ok(e) /\ Has(post, "accts") /\ Has(post, "liqrec")) =>
       Chk("C08", "third_party_control_ends_with_the_transaction", line,
           /\ \A an \in DOMAIN post.accts : ~Bit(post.accts[an].flags, ACC_RECEIVERSHIP) /\ ~Bit(post.accts[an].flags, ACC_DELEVERAGE)
           /\ \A r \in DOMAIN post.liqrec : post.liqrec[r].receiver = "none", [ev |-> e.ev])

\* EXT (beyond the listed properties; printed as drift of the specification, never as a violation): groups are isolated from
\* each other - whatever a single instruction changes (banks, accounts, group records) belongs to one group
EXTGroups(pre, e, post, line) ==
  (Ok(e) /\ e.ev # "tx" /\ e.ev # "reset" /\ Has(pre, "banks") /\ Has(post, "banks") /\ Has(pre, "accts") /\ Has(post, "accts")
   /\ Has(pre, "groups") /\ Has(post, "groups")) =>
    LET cb == {b \in DOMAIN post.banks : ~Has(pre.banks, b) \/ pre.banks[b] # post.banks[b]}
        ca == {a \in DOMAIN post.accts : ~Has(pre.accts, a) \/ pre.accts[a] # post.accts[a]}
        cg == {g \in DOMAIN post.groups : ~Has(pre.groups, g) \/ pre.groups[g] # post.groups[g]}
        gs == {post.banks[b].group : b \in cb} \cup {post.accts[a].group : a \in ca} \cup cg
    IN Chk("EXT", "one_instruction_touches_one_group", line, Cardinality(gs) <= 1, [ev |-> e.ev, groups |-> gs])

C08(pre, e, post, line) ==
  /\ EXTGroups(pre, e, post, line)
  /\ C08Roles(pre, e, post, line)
  /\ C08Move(pre, e, post, line)
  /\ C08Signers(pre, e, post, line)
  /\ (Has(e.a, "cell")) =>
    LET op == e.a.cell mode == e.a.mode ix == CellIx(e.a) slots == AuthOps[op].slots IN
    /\ (Has(ix, "subst")) =>
         \A j \in DOMAIN ix.subst :
           LET idx == ix.subst[j][1] + 1 kind == slots[idx][2] IN
           (kind \notin FreeKinds) =>
             Chk("C08", "substituted_bound_account_rejected", line, ~Ok(e),
                 [cell |-> op, slot |-> slots[idx][1], kind |-> kind, substitute |-> ix.subst[j][2], mode |-> mode])
    /\ (Has(ix, "nosign")) =>
         Chk("C08", "missing_signature_rejected", line, ~Ok(e), [cell |-> op, mode |-> mode])
    /\ (e.a.variant = "signer") =>
         LET id == e.a.who IN
         /\ (~EntitledIn(pre, op, id, mode)) =>
              Chk("C08", "non_entitled_signer_rejected", line, ~Ok(e), [cell |-> op, signer |-> id, mode |-> mode])
         /\ (EntitledIn(pre, op, id, mode)) =>
              Chk("C08", "entitled_signer_accepted", line, Ok(e), [cell |-> op, signer |-> id, mode |-> mode, err |-> e.err])
    /\ (e.a.variant = "base") =>
         IF mode = "frozen" /\ op \in FrozenOps
         THEN Chk("C08", "authority_locked_out_while_frozen", line, ~Ok(e), [cell |-> op, mode |-> mode])
         ELSE Chk("C08", "unmodified_base_cell_accepted", line, Ok(e), [cell |-> op, mode |-> mode, err |-> e.err])
=============================================================================
