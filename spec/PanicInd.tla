----------------------------- MODULE PanicInd ------------------------------
(***************************************************************************)
(* C15 for unbounded time and unbounded histories: an inductive invariant  *)
(* of the pause automaton, discharged by Apalache                          *)
(*   Init => IndInv                    (length 0)                          *)
(*   IndInv /\ Next => IndInv'         (length 1 from IndInit)             *)
(*   IndInv => Bounded /\ step bounds  (same runs, --inv=Safety)           *)
(* Time advances by any natural number of seconds; the admin may pause or  *)
(* unpause at will; anyone may attempt the permissionless unpause.         *)
(***************************************************************************)
EXTENDS PanicImpl

VARIABLES
  \* @type: Int;
  now,
  \* @type: $pstate;
  ps,
  \* @type: Int;
  prevUntil,      \* "paused until" before the last step (0 when not paused)
  \* @type: Bool;
  lastWasPause    \* the last step was a successful pause

\* @type: ($pstate) => Int;
Until(p) == IF p.flags = 1 THEN p.start + PAUSE ELSE 0

Init ==
  /\ now \in Nat
  /\ ps = [flags |-> 0, daily |-> 0, consec |-> 0, start |-> 0, reset |-> 0]
  /\ prevUntil = 0 /\ lastWasPause = FALSE

Tick == \E d \in Nat : now' = now + d /\ ps' = ps /\ prevUntil' = Until(ps) /\ lastWasPause' = FALSE
Pause ==
  /\ now' = now /\ prevUntil' = Until(ps)
  /\ ps' = ImplPauseState(ps, now)
  /\ lastWasPause' = ImplPauseOk(ps, now)
Unpause ==
  /\ ps.flags = 1
  /\ now' = now /\ prevUntil' = Until(ps) /\ lastWasPause' = FALSE
  /\ ps' = ImplUnpause(ImplUnpauseIfExpired(ps, now))
UnpausePerm ==
  /\ ps.flags = 1 /\ ImplIsExpired(ps, now)
  /\ now' = now /\ prevUntil' = Until(ps) /\ lastWasPause' = FALSE
  /\ ps' = ImplUnpause(ps)
Next == Tick \/ Pause \/ Unpause \/ UnpausePerm

\* ---- the inductive invariant ----------------------------------------------------------------
IndInv ==
  /\ now >= 0
  /\ ps.flags \in {0, 1}
  /\ ps.daily \in 0..MAXD /\ ps.consec \in 0..MAXC
  /\ ps.reset >= 0 /\ ps.reset <= now /\ ps.start >= 0
  /\ (ps.flags = 0) => (ps.consec = 0 /\ ps.start = 0)
  /\ (ps.flags = 1) => (ps.consec >= 1 /\ ps.start <= now + PAUSE * (ps.consec - 1))
  /\ (ps.daily > 0) => TRUE
  /\ prevUntil >= 0
  /\ lastWasPause \in BOOLEAN
  \* step bounds carried as state: a successful pause moved "paused until" by at most 30 minutes beyond
  \* max(previous deadline, now)
  /\ lastWasPause => (ps.flags = 1 /\ Until(ps) <= (IF prevUntil > now THEN prevUntil ELSE now) + PAUSE)

\* an arbitrary state satisfying the invariant (start of the inductive step)
IndInit ==
  /\ now \in Int
  /\ \E f \in {0, 1}, d \in 0..MAXD, c \in 0..MAXC, st \in Int, rs \in Int :
        ps = [flags |-> f, daily |-> d, consec |-> c, start |-> st, reset |-> rs]
  /\ prevUntil \in Int
  /\ lastWasPause \in BOOLEAN
  /\ IndInv

\* ---- what C15 asks ---------------------------------------------------------------------------
Safety ==
  /\ Until(ps) <= now + 2 * PAUSE                     \* never scheduled to stay paused more than 60 minutes from now
  /\ ps.consec <= MAXC /\ ps.daily <= MAXD            \* at most three successful pauses per daily window
  /\ lastWasPause => Until(ps) <= (IF prevUntil > now THEN prevUntil ELSE now) + PAUSE
  /\ (ps.flags = 1 /\ now >= Until(ps)) => ImplIsExpired(ps, now)     \* a pause that ran out no longer blocks
=============================================================================
