SPECIFICATION Spec
