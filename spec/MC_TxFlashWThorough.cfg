SPECIFICATION Spec
CONSTANTS
  Alphabet <- FlashWAlphabet
  MaxLen = 4
  NeedOneOf <- NeedSflW
CHECK_DEADLOCK FALSE
