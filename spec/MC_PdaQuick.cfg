SPECIFICATION Spec
CONSTANTS
  Sources = {"S1", "S2"}
  Auths = {"U1", "U2"}
  Idx = {0, 1}
  Tps = {70000, 0, 9999, 10000, 10001, 11111}
  Vias = {"direct", "wrapper", "mocks"}
  Signers = {"U3", "admin", "stranger"}
  MaxDepth = 2
VIEW View
CHECK_DEADLOCK FALSE
