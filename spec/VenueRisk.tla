----------------------------- MODULE VenueRisk -----------------------------
(***************************************************************************)
(* Borrowing against venue-backed collateral (C04 C09 C20, with C05 C13).  *)
(* Three borrowers hold a Kamino, a Drift and a Solend position and owe in *)
(* a plain bank.  On top of the ledger the venues move: time passes (the   *)
(* reserve / market falls behind the slot / second and is stale until      *)
(* somebody refreshes it), the venue accrues interest (the exchange rate   *)
(* moves), the feeds move (spot / time-weighted price, confidence values - *)
(* which the adapters rescale by the same rate), feeds age without being   *)
(* refreshed.  The exchange-rate-adjusted prices are transcribed as the    *)
(* adapters compute them (Ledger.tla: ReservePx / MarketPx); in every      *)
(* reachable state TLC computes by bisection the largest borrow each       *)
(* account may take and emits it with its successor (expected to be        *)
(* refused for initial health) - or the error the adapter raises for a     *)
(* venue that is behind, whatever the age of the feed.                     *)
(***************************************************************************)
EXTENDS Venue, RiskCfg

\* a tick that moves second and slot, with or without republishing the feeds
VTick(d, refresh) ==
  LET a == IF refresh THEN [op |-> "tick", dt |-> d] ELSE [op |-> "tick", dt |-> d, refresh_oracles |-> FALSE]
      now2 == BAdd(Now, BOfInt(d))
      post == [st EXCEPT !.clock = [@ EXCEPT !.ts = now2, !.slot = BAdd(@, BOfInt(2 * d + 1))],
                         !.oracles = IF refresh THEN [o \in DOMAIN @ |-> [@[o] EXCEPT !.ts = now2]] ELSE @]
  IN Do(a, "ok", post, [clock |-> post.clock])

\* ---- classic liquidation of venue collateral: the largest seizure the program accepts, with its successor
CONSTANTS VLiqCases,     \* set of <<liquidator, liquidatee, asset bank, liab bank>>
          VLiqProbes, VLiqTop
VEval(t, q) == LiquidateEval(t[1], t[2], t[3], t[4], q)
VAct(t, q) == Liquidate(t[1], t[2], t[3], t[4], q)
RECURSIVE BisectV(_, _, _)
BisectV(t, lo, hi) ==
  IF hi - lo <= 1 THEN lo
  ELSE LET mid == lo + (hi - lo) \div 2 IN IF VEval(t, mid).r = "ok" THEN BisectV(t, mid, hi) ELSE BisectV(t, lo, mid)
BoundarySeizeV(t) ==
  LET oks == {p \in VLiqProbes : VEval(t, p).r = "ok"} IN
  IF oks = {} \/ VEval(t, VLiqTop).r = "ok" THEN VAct(t, VLiqTop)
  ELSE LET lo == CHOOSE p \in oks : \A x \in oks : x <= p
           m == BisectV(t, lo, VLiqTop)
       IN \E x \in {m, m + 1} : VAct(t, x)

NextV ==
  /\ depth < MaxDepth
  /\ \/ \E d \in Ticks : VTick(d, TRUE)
     \/ \E d \in StaleTicks : VTick(d, FALSE)
     \/ \E v \in OracleVariants : SetOracle(v)
     \/ \E v \in SwbVariants : SetSwb(v)
     \/ \E bn \in KBanks : KRefresh(bn)
     \/ \E bn \in KBanks, bor \in KBorrowed : KInterest(bn, bor)
     \/ \E bn \in SBanks : SRefresh(bn)
     \/ \E bn \in SBanks, bor \in SBorrowed : SInterest(bn, bor)
     \/ \E bn \in DBanks : DRefresh(bn)
     \/ \E bn \in DBanks, cum \in DCums : DInterest(bn, cum)
     \/ \E p \in BoundaryPairs : BoundaryBorrow(p[1], p[2])
     \/ \E t \in VLiqCases : BoundarySeizeV(t)
     \/ \E t \in VLiqCases, q \in VLiqProbes : VAct(t, q)
SpecV == Init /\ [][NextV]_vars

ViewV == <<VView, ViewR, [m \in DOMAIN MarketsOf(st) |-> <<st.markets[m].ts, st.markets[m].cum>>]>>
=============================================================================
