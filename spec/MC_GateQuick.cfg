SPECIFICATION Spec
CONSTANTS
  TickSet = {1800}
VIEW View
CHECK_DEADLOCK FALSE
