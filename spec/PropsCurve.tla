---------------------------- MODULE PropsCurve ----------------------------
(***************************************************************************)
(* C18: every accepted interest curve is usable, bounded, hits its points  *)
(* and is non-decreasing.  Events: ev = "curve" with the configuration in  *)
(* e.a and, when accepted, the rates the real calculator returned for an   *)
(* ascending sweep of utilizations in e.out.rates.                         *)
(***************************************************************************)
EXTENDS PropsTx

IrOfAction(a) ==
  IF Has(a, "legacy")
  THEN [curve_type |-> 0, opt_util |-> a.legacy.opt, plateau |-> a.legacy.plateau, max_rate |-> a.legacy.max,
        points |-> <<>>, zero |-> BZero, hundred |-> BZero]
  ELSE [curve_type |-> 1, points |-> a.points, zero |-> a.zero, hundred |-> a.hundred, opt_util |-> BZero, plateau |-> BZero, max_rate |-> BZero]

\* largest slope of any segment of the curve (rate per unit utilization), for the comparison allowance
SegSlope(x0, y0, x1, y1) == IF RLe(x1, x0) THEN RZero ELSE RDiv(RSub(y1, y0), RSub(x1, x0))
MaxSlope(ir) ==
  IF ir.curve_type # 1 THEN RAdd(RDiv(R(ir.plateau), R(ir.opt_util)), RDiv(RSub(R(ir.max_rate), R(ir.plateau)), RSub(ROne, R(ir.opt_util))))
  ELSE LET used == {i \in DOMAIN ir.points : ~BIsZero(ir.points[i][1])}
           X(i) == RUtil(ir.points[i][1]) Y(i) == RRate(ir.points[i][2])
           prevs(i) == {j \in used : j < i}
           PX(i) == IF prevs(i) = {} THEN RZero ELSE X(CHOOSE j \in prevs(i) : \A k \in prevs(i) : k <= j)
           PY(i) == IF prevs(i) = {} THEN RRate(ir.zero) ELSE Y(CHOOSE j \in prevs(i) : \A k \in prevs(i) : k <= j)
           lastX == IF used = {} THEN RZero ELSE X(CHOOSE j \in used : \A k \in used : k <= j)
           lastY == IF used = {} THEN RRate(ir.zero) ELSE Y(CHOOSE j \in used : \A k \in used : k <= j)
       IN FoldSet(LAMBDA i, m : RMax(m, SegSlope(PX(i), PY(i), X(i), Y(i))), SegSlope(lastX, lastY, ROne, RRate(ir.hundred)), used)

\* a bank that still carries the three-parameter curve is converted by migrate_curve (permissionless): what comes out is a
\* configuration the program has accepted for that bank - it must be a valid seven-point curve, and the same curve
\* (at 0, at the kink, at 100 %, and half way along both segments) up to the resolution of the u32 encoding
C18Migrate(pre, e, post, line) ==
  (e.ev = "migrate_curve" /\ Ok(e) /\ Has(e.a, "bank") /\ Has(pre.banks, e.a.bank) /\ Has(post.banks, e.a.bank)
   /\ pre.banks[e.a.bank].cfg.ir.curve_type = 0) =>
    LET o == pre.banks[e.a.bank].cfg.ir n == post.banks[e.a.bank].cfg.ir
        opt == R(o.opt_util)
        us == {RZero, opt, ROne, RDiv(opt, RInt(2)), RDiv(RAdd(opt, ROne), RInt(2))}
        tol == RMul(RMake(BOfInt(1), BOfInt(100000000)), RAdd(RInt(2), MaxSlope(o)))
    IN /\ Chk("C18", "migrated_curve_is_valid", line, n.curve_type = 1 /\ CurveValid(n), [bank |-> e.a.bank])
       /\ (n.curve_type = 1 /\ CurveValid(n) /\ CurveValid(o)) =>
            Chk("C18", "migrated_curve_is_the_same_curve", line,
                \A u \in us : RLe(RAbs(RSub(RefBaseRate(n, u), RefBaseRate(o, u))), tol), [bank |-> e.a.bank])

C18(pre, e, post, line) ==
  (e.ev = "curve") =>
    LET ir == IrOfAction(e.a) IN
    /\ Ok(e) => Chk("C18", "accepted_implies_valid", line, CurveValid(ir), [cfg |-> e.a])
    /\ (Ok(e) /\ CurveValid(ir)) =>
         LET rs0 == e.out.rates
             \* the legacy curve is not clamped above 100% utilization: it is judged on [0, 1] only (DESIGN.md section 6)
             \* utilization is a ratio of non-negative amounts: negative inputs are outside the property
             keep == {i \in DOMAIN rs0 : ~BIsNeg(rs0[i].ur) /\ (ir.curve_type = 1 \/ BLe(rs0[i].ur, FOne))}
             rs == [i \in keep |-> rs0[i]]
             lo == IF ir.curve_type = 1 THEN RRate(ir.zero) ELSE RZero
             hi == IF ir.curve_type = 1 THEN RRate(ir.hundred) ELSE R(ir.max_rate)
             tol == RMul(TINY, RAdd(RInt(2), MaxSlope(ir)))
             feesNonNeg == ~Has(e.a, "fees") \/ (\A k \in DOMAIN e.a.fees : TRUE)
             \* (it is not clamped, but it still has to be defined there: a bank at full utilization charging any fee is above 100 %
             \*  after its next accrual, and "an accepted curve can never by itself make interest accrual fail")
             beyond == {i \in DOMAIN rs0 : ir.curve_type # 1 /\ BGt(rs0[i].ur, FOne) /\ BLe(rs0[i].ur, BAdd(FOne, FOne))}
         IN /\ Chk("C18", "base_rate_defined_everywhere", line, \A i \in DOMAIN rs : rs[i].def, [n |-> Cardinality(keep)])
            /\ Chk("C18", "legacy_rate_defined_beyond_full_utilization", line, \A i \in beyond : rs0[i].def, [n |-> Cardinality(beyond)])
            /\ (\A i \in DOMAIN rs : rs[i].def) =>
                 /\ Chk("C18", "between_zero_and_full_utilization_rates", line,
                        \A i \in DOMAIN rs : RGe(R(rs[i].base), RSub(lo, tol)) /\ RLe(R(rs[i].base), RAdd(hi, tol)), [lo |-> lo[1]])
                 /\ Chk("C18", "never_decreases_with_utilization", line,
                        \A i \in DOMAIN rs, j \in DOMAIN rs : (i < j /\ BLe(rs[i].ur, rs[j].ur)) => RLe(R(rs[i].base), RAdd(R(rs[j].base), tol)), [n |-> Cardinality(keep)])
                 /\ Chk("C18", "matches_the_configured_curve", line,
                        \A i \in DOMAIN rs : RLe(RAbs(RSub(R(rs[i].base), RefBaseRate(ir, R(rs[i].ur)))), tol),
                        [n |-> Cardinality(keep)])
                 /\ Chk("C18", "borrow_at_least_base_lending_at_most_base", line,
                        \A i \in DOMAIN rs :
                           /\ BGe(rs[i].borrow, rs[i].base)
                           /\ (BLe(rs[i].ur, FOne) /\ ~BIsNeg(rs[i].ur)) => BLe(rs[i].lend, rs[i].base), [n |-> Cardinality(keep)])
=============================================================================
