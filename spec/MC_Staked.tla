----------------------------- MODULE MC_Staked -----------------------------
(* Model-checking instance of Staked.tla (constants that a .cfg cannot express). *)
EXTENDS Staked
\* SOL feed at exponent -6 ($100): spot above the time-weighted price, a drop, a wide confidence, spot confidence beyond the maximum
OVS == {<<"OSOL", 100000000, 50000, 99000000, 40000>>,
        <<"OSOL", 50000000, 0, 50000000, 0>>,
        <<"OSOL", 100000000, 4500000, 100000000, 4500000>>,
        <<"OSOL", 100000000, 6000000, 100000000, 50000>>}
\* SP1 holds 1 + 2 SOL behind 1.8 LST (rate 10/9)
SM == {<<"SP1", "3100000000">>,      \* rewards: + 5 %
       <<"SP1", "2000000000">>,      \* slashing: half of the redeemable stake gone
       <<"SP1", "1000000001">>,      \* one lamport above the permanent SOL
       <<"SP1", "1000000000">>,      \* nothing redeemable
       <<"SP1", "999999999">>}       \* below the permanent SOL: the subtraction fails
DL == {<<"SP1", "LST1", 600000000>>}
SE == {[aw |-> <<1, 2, 13, 20>>], [aw |-> <<9, 10, 4, 5>>], [aw |-> <<1, 1, 1, 1>>], [aw |-> <<0, 1, 0, 1>>, risk_tier |-> 1], [risk_tier |-> 1],
       [max_age |-> 30], [max_age |-> 9], [init_limit |-> 60], [init_limit |-> 0], [oracle |-> "OALT"], [oracle |-> "OSOL"]}
BPS == {<<"A1", "BSOL">>}
WDP == {<<"A1", "SB1">>}
SLC == {<<"A2", "A1", "SB1", "BSOL">>}
NoTuplesS == {}
\* long random walks (tlc -simulate): the edge counter is set once, at start-up, so that edge ids stay unique across behaviours
ASSUME TLCSet(1, 1)
InitSimS == /\ st = InitState /\ acc = C02AccNext(C02Acc0, InitState, [ev |-> "reset"], InitState)
            /\ acc7 = C07Acc0 /\ sid = 0 /\ depth = 0
SpecSimS == InitSimS /\ [][NextS]_vars
=============================================================================
