----------------------------- MODULE PanicImpl -----------------------------
(***************************************************************************)
(* The emergency-pause automaton of state/panic_state.rs as pure operators *)
(* over a record [flags, daily, consec, start, reset] and a time t.        *)
(* One source of truth: Panic.tla (TLC, replayed on the real program) and  *)
(* PanicInd.tla (Apalache, unbounded induction) both use these operators.  *)
(***************************************************************************)
EXTENDS Integers

\* (type annotations are comments to TLC and SANY; Apalache needs them for record updates)
\* @typeAlias: pstate = { flags: Int, daily: Int, consec: Int, start: Int, reset: Int };
PanicImpl_aliases == TRUE

PAUSE == 1800
DAY == 86400
MAXC == 2     \* MAX_CONSECUTIVE_PAUSES
MAXD == 3     \* MAX_DAILY_PAUSES

\* @type: ($pstate, Int) => Bool;
ImplIsExpired(p, t) == IF p.flags = 0 THEN TRUE ELSE IF t < p.start THEN FALSE ELSE t - p.start >= PAUSE
\* @type: ($pstate) => $pstate;
ImplUnpause(p) == [p EXCEPT !.flags = 0, !.start = 0, !.consec = 0]
\* @type: ($pstate, Int) => $pstate;
ImplUnpauseIfExpired(p, t) == IF p.flags = 1 /\ ImplIsExpired(p, t) THEN ImplUnpause(p) ELSE p
\* @type: ($pstate, Int) => Bool;
ImplCanPause(p, t) ==
  LET d == IF t - p.reset >= DAY THEN 0 ELSE p.daily IN p.consec < MAXC /\ d < MAXD
\* @type: ($pstate, Int) => Bool;
ImplPauseOk(p, t) ==
  LET p1 == ImplUnpauseIfExpired(p, t)
      p2 == IF t - p1.reset >= DAY THEN [p1 EXCEPT !.daily = 0, !.reset = t] ELSE p1
  IN ImplCanPause(p2, t)
\* @type: ($pstate, Int) => $pstate;
ImplPauseState(p, t) ==
  LET p1 == ImplUnpauseIfExpired(p, t)
      p2 == IF t - p1.reset >= DAY THEN [p1 EXCEPT !.daily = 0, !.reset = t] ELSE p1
      p3 == IF p2.flags = 1 /\ ~ImplIsExpired(p2, t) THEN [p2 EXCEPT !.start = p2.start + PAUSE]
            ELSE [p2 EXCEPT !.start = t]
  IN IF ~ImplCanPause(p2, t) THEN p
     ELSE [p3 EXCEPT !.flags = 1, !.daily = p3.daily + 1, !.consec = p3.consec + 1]
\* the pair <<accepted, state after>> the TLC models use
\* @type: ($pstate, Int) => <<Bool, $pstate>>;
ImplPause(p, t) == <<ImplPauseOk(p, t), ImplPauseState(p, t)>>
\* MarginfiGroup::is_protocol_paused on the group's cached copy (a record with flags and start)
\* @type: ({ flags: Int, start: Int }, Int) => Bool;
ImplGroupPaused(c, t) == c.flags = 1 /\ ~(IF t < c.start THEN FALSE ELSE t - c.start >= PAUSE)
=============================================================================
