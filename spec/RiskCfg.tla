------------------------------ MODULE RiskCfg ------------------------------
(***************************************************************************)
(* The risk gate under configuration classes (C04, with C05 C09 C13 C14).  *)
(* The ledger actions of Ledger.tla on a world priced by Pyth push feeds   *)
(* (spot and time-weighted price, confidence intervals, staleness) with    *)
(* e-mode entries on the debt banks, plus the actions that move an account *)
(* between configuration classes: oracle updates from an alphabet of       *)
(* (price, confidence, EMA, EMA confidence) variants, time passing with    *)
(* and without the feeds being refreshed, e-mode entry sets on the debt    *)
(* banks, collateral made reduce-only / given a collateral-value cap.      *)
(* In every reachable class the model computes, with the implementation's  *)
(* own fixed-point operation sequence (module Impl), the largest borrow    *)
(* the engine accepts (bisection over BorrowEval) and emits that amount,   *)
(* expected to be accepted, and the next one, expected to be refused for   *)
(* initial health - so the real program is driven to its exact accept /    *)
(* reject boundary in every class, and every boundary pair is judged by    *)
(* the exact-rational references of PropsRisk.                             *)
(***************************************************************************)
EXTENDS Ledger

CONSTANTS OracleVariants,   \* set of <<oracle, price, conf, ema, ema_conf>> (integers at the feed's exponent)
          EmodeSets,        \* set of <<bank, sequence of <<tag, init n, init d, maint n, maint d>> >>
          RiskPatches,      \* set of <<bank, patch record>> (op_state / init_limit) by the group admin
          BoundaryPairs,    \* set of <<account, debt bank>> for which the borrow boundary is located
          SwbVariants,      \* set of <<oracle, value, std dev>> (decimal strings at 10^-18)
          StaleTicks,       \* clock advances without refreshing the feeds
          BorrowCap         \* upper end of the bisection (native units, < 2^31)

Fx2(n, d) == FDiv(FOfInt(n), FOfInt(d))
Oracles == IF Has(st, "oracles") THEN st.oracles ELSE <<>>

\* ---- time: the harness refreshes every feed's publish time on a plain tick; a stale tick leaves them behind
TickR(d, refresh) ==
  LET a == IF refresh THEN [op |-> "tick", dt |-> d] ELSE [op |-> "tick", dt |-> d, refresh_oracles |-> FALSE]
      now2 == BAdd(Now, BOfInt(d))
      post == [st EXCEPT !.clock = [@ EXCEPT !.ts = now2],
                         !.oracles = IF refresh THEN [o \in DOMAIN @ |-> [@[o] EXCEPT !.ts = now2]] ELSE @]
  IN Do(a, "ok", post, Obs(post, {}, {}, {}))

\* ---- a feed update (environment): publish time = now
SetOracle(v) ==
  LET o == v[1]
      a == [op |-> "set_oracle", oracle |-> o, price |-> v[2], conf |-> v[3], ema |-> v[4], ema_conf |-> v[5]]
      post == [st EXCEPT !.oracles[o] = [@ EXCEPT !.price = BOfInt(v[2]), !.conf = BOfInt(v[3]), !.ema = BOfInt(v[4]), !.ema_conf = BOfInt(v[5]), !.ts = Now]]
  IN Do(a, "ok", post, [oracles |-> (o :> [price |-> BOfInt(v[2]), conf |-> BOfInt(v[3]), ema |-> BOfInt(v[4]), ema_conf |-> BOfInt(v[5]), ts |-> Now])])

SetSwb(v) ==
  LET o == v[1]
      a == [op |-> "set_oracle", oracle |-> o, swb_value |-> v[2], swb_std |-> v[3]]
      post == [st EXCEPT !.oracles[o] = [@ EXCEPT !.swb_value = BOfStr(v[2]), !.swb_std = BOfStr(v[3]), !.ts = Now]]
  IN Do(a, "ok", post, [oracles |-> (o :> [swb_value |-> BOfStr(v[2]), swb_std |-> BOfStr(v[3]), ts |-> Now])])

\* ---- e-mode entries on a debt bank (emode admin); only coherent sets are offered (validity itself is Config.tla's subject)
EmptyEntry == [tag |-> 0, flags |-> 0, init |-> BZero, maint |-> BZero]
EntrySlots(es) == [i \in 1..10 |-> IF i <= Len(es) THEN [tag |-> es[i][1], flags |-> 0, init |-> Fx2(es[i][2], es[i][3]), maint |-> Fx2(es[i][4], es[i][5])] ELSE EmptyEntry]
\* the program sorts all ten slots by tag: the empty ones (tag 0) come first
SortedSlots(es) ==
  LET S == EntrySlots(es)
      used == SelectSeq(S, LAMBDA x : x.tag # 0)
  IN [i \in 1..(10 - Len(used)) |-> EmptyEntry] \o SortSeq(used, LAMBDA x, y : x.tag < y.tag)
ConfigEmode(c) ==
  LET bn == c[1] es == c[2]
      a == [op |-> "configure_emode", bank |-> bn, tag |-> st.banks[bn].emode.tag,
            entries |-> [i \in 1..Len(es) |-> [tag |-> es[i][1], init |-> Fx2(es[i][2], es[i][3]), maint |-> Fx2(es[i][4], es[i][5])]]]
      post == [st EXCEPT !.banks[bn].emode.entries = SortedSlots(es)]
  IN Do(a, "ok", post, [banks |-> (bn :> [emode |-> [entries |-> post.banks[bn].emode.entries]])])

\* ---- collateral bank made reduce-only / operational again, collateral-value cap set (group admin)
PatchBank(c) ==
  LET bn == c[1] p == c[2]
      a == [op |-> "configure_bank", bank |-> bn, cfg |-> p]
      post == [st EXCEPT !.banks[bn].cfg = [@ EXCEPT !.op_state = IF Has(p, "op_state") THEN p.op_state ELSE @,
                                                        !.init_limit = IF Has(p, "init_limit") THEN BOfInt(p.init_limit) ELSE @]]
  IN Do(a, "ok", post, [banks |-> (bn :> [cfg |-> [op_state |-> post.banks[bn].cfg.op_state, init_limit |-> post.banks[bn].cfg.init_limit]])])

\* ---- the exact accept / reject boundary of a borrow in the current class
Accepts(an, bn, x) == BorrowEval(an, bn, x).r = "ok"
RECURSIVE Bisect(_, _, _, _)
Bisect(an, bn, lo, hi) ==      \* lo accepted (or 0), hi refused; returns the largest accepted amount
  IF hi - lo <= 1 THEN lo
  ELSE LET mid == lo + (hi - lo) \div 2 IN IF Accepts(an, bn, mid) THEN Bisect(an, bn, mid, hi) ELSE Bisect(an, bn, lo, mid)
BoundaryBorrow(an, bn) ==
  LET top == BorrowEval(an, bn, BorrowCap).r IN
  \* a clean boundary exists when the cap is refused for health (not for liquidity, limits or a price error)
  IF top # "RiskEngineInitRejected" THEN Borrow(an, bn, BorrowCap)
  ELSE LET m == Bisect(an, bn, 0, BorrowCap) IN
       \E x \in {m, m + 1} : x > 0 /\ Borrow(an, bn, x)

NextR ==
  /\ depth < MaxDepth
  /\ \/ \E d \in Ticks : TickR(d, TRUE)
     \/ \E d \in StaleTicks : TickR(d, FALSE)
     \/ \E v \in OracleVariants : SetOracle(v)
     \/ \E v \in SwbVariants : SetSwb(v)
     \/ \E c \in EmodeSets : ConfigEmode(c)
     \/ \E c \in RiskPatches : PatchBank(c)
     \/ \E p \in BoundaryPairs : BoundaryBorrow(p[1], p[2])
     \/ \E an \in Accts, bn \in BankNames, amt \in Amounts : Withdraw(an, bn, amt, FALSE) \/ Deposit(an, bn, amt)
     \/ \E t \in LiqTriples, q \in Amounts : Liquidate(t[1], t[2], t[3], t[4], q)
SpecR == Init /\ [][NextR]_vars

ViewR == <<View, [o \in DOMAIN Oracles |-> <<Oracles[o].price, Oracles[o].conf, Oracles[o].ema, Oracles[o].ema_conf, Oracles[o].ts, Oracles[o].swb_value, Oracles[o].swb_std>>],
           [b \in BankNames |-> <<st.banks[b].emode.entries, st.banks[b].cfg.init_limit>>]>>
=============================================================================
