------------------------------- MODULE Venue -------------------------------
(***************************************************************************)
(* The Kamino integration instructions against the stand-in venue.  One    *)
(* venue-backed bank per reserve; actions: deposit through the venue,      *)
(* withdraw by amount / in full, time passing (the reserve goes stale),    *)
(* the venue's refresh, venue interest (the exchange rate moves).  The     *)
(* marginfi side is transcribed (expected collateral / liquidity from the  *)
(* scaled supplies in I80F48, the within-one-token post-condition, the     *)
(* balance operations of Impl.tla, the cap of eight integration            *)
(* positions); the venue side is the stand-in's exact integer arithmetic.  *)
(* The Drift integration instructions are modelled the same way (scaled    *)
(* balances: increment floored, decrement floored plus one, the exact and  *)
(* the one-above-balance withdrawal cases, withdraw-all keeping one token  *)
(* unit back when rounding would overdraw, dust left in the venue; venue   *)
(* interest = the cumulative deposit interest moves; a refresh stamps the  *)
(* market).                                                                *)
(* Accounts in this model carry no debt, so no health decision is needed.  *)
(* Every transition is emitted for replay with its predicted result and    *)
(* observables and checked against C02 C03 C16.                            *)
(***************************************************************************)
EXTENDS Ledger

CONSTANTS KBanks,        \* venue-backed banks explored
          KAmounts,      \* liquidity / collateral amounts
          KBorrowed,     \* values of the reserve's borrowed amount (venue interest)
          KMaxDepth,
          SBanks,        \* Solend-backed banks explored
          SAmounts,      \* liquidity / collateral amounts
          SBorrowed,     \* values of the reserve's borrowed amount in whole units (venue interest)
          DBanks,        \* Drift-backed banks explored
          DAmounts,      \* token amounts
          DCums          \* values of the market's cumulative deposit interest (venue interest)

FMulC(a, b) == IF a = None \/ b = None THEN None ELSE FChk(BShr(BMul(a, b), 48))
FDivC(a, b) == IF a = None \/ b = None THEN None ELSE IF BIsZero(b) THEN None ELSE FChk(BTruncDiv(BShl(a, 48), b))
U64MaxB == BSub(BPow2(64), BOne)
ToU64(x) == IF x = None THEN None ELSE LET f == BShr(x, 48) IN IF BIsNeg(f) \/ BGt(f, U64MaxB) THEN None ELSE f

ResOf(bn) == st.banks[bn].integ[1]
OblOf(bn) == st.banks[bn].integ[2]
\* scale_supplies: both supplies divided by 10^decimals in I80F48
Scaled(r) == <<FDivC(ReserveTotalBits(r), Exp10(r.dec)), FDivC(BShl(r.supply, 48), Exp10(r.dec))>>
ExpectL2C(r, l) == LET s == Scaled(r) IN IF s[1] = None \/ s[2] = None \/ BIsZero(s[1]) THEN None ELSE ToU64(FDivC(FMulC(BShl(l, 48), s[2]), s[1]))
ExpectC2L(r, c) == LET s == Scaled(r) IN IF s[1] = None \/ s[2] = None \/ BIsZero(s[2]) THEN None ELSE ToU64(FDivC(FMulC(BShl(c, 48), s[1]), s[2]))
\* the venue's own arithmetic: whole units, every U68F60 component floored
Sh60(x) == BFloorDiv(x, BPow2(60))
NonNeg(x) == IF BIsNeg(x) THEN BZero ELSE x
VenueTotal(r) == NonNeg(BSub(NonNeg(BSub(NonNeg(BSub(BAdd(r.avail, Sh60(r.borrowed_sf)), Sh60(r.protocol_sf))), Sh60(r.referrer_sf))), Sh60(r.pending_sf)))
VenueMint(r, l) == IF BIsZero(VenueTotal(r)) \/ BIsZero(r.supply) THEN l ELSE BFloorDiv(BMul(l, r.supply), VenueTotal(r))
VenueRedeem(r, c) == IF BIsZero(r.supply) THEN BZero ELSE BMin(BFloorDiv(BMul(c, VenueTotal(r)), r.supply), r.avail)
Fresh(r) == BGe(r.slot, st.clock.slot)
AbsDiff(a, b) == IF BGe(a, b) THEN BSub(a, b) ELSE BSub(b, a)

KObs(post, bn, an, toks) ==
  Obs(post, {bn}, {an}, toks) @@
  [reserves |-> [x \in {post.banks[bn].integ[1]} |-> [avail |-> post.reserves[x].avail, supply |-> post.reserves[x].supply, slot |-> post.reserves[x].slot]],
   obligations |-> [x \in {post.banks[bn].integ[2]} |-> [amount |-> post.obligations[x].amount]]]
KDo(a, r, post, obs) == Do(a, r, post, obs) /\ (C03Venue(st, Ev(a, r), post, 0) = TRUE)

KDeposit(an, bn, amt) ==
  LET a == [op |-> "kamino_deposit", acct |-> an, bank |-> bn, amount |-> amt]
      b0 == st.banks[bn] ac == st.accts[an] rn == ResOf(bn) on == OblOf(bn) r == st.reserves[rn]
      te == TagsErr(b0, ac.bal) se == BankStateErr(b0, "PausedOrReduce")
      l == BOfInt(amt)
      exp == ExpectL2C(r, l)
  IN IF te # "ok" THEN Fail(a, te)
     ELSE IF se # "ok" THEN Fail(a, se)
     ELSE IF Disabled(an) \/ InRecv(an) THEN Fail(a, "AccountDisabled")
     ELSE IF exp = None THEN Fail(a, "err")
     ELSE LET ut == UserTok(an, bn) IN
          IF BLt(TokOf(st, ut), l) THEN Fail(a, "err")
          ELSE IF ~Fresh(r) THEN Fail(a, "err")                         \* the venue refuses a reserve not refreshed in this slot
          ELSE LET c == VenueMint(r, l) IN
               IF BGt(AbsDiff(c, exp), BOne) THEN Fail(a, "KaminoDepositFailed")
               ELSE LET foc == FindOrCreate(ac.bal, bn, b0.key, b0.cfg.asset_tag, Now) IN
                    IF IsErr(foc) THEN Fail(a, foc.err)
                    ELSE LET x == ImplIncrease(b0, foc[1], foc[2], FOfBig(c), "DepositOnly", Now) IN
                         IF IsErr(x) THEN Fail(a, x.err)
                         ELSE LET b2 == ImplUpdateCache(x.b, Now)
                                  post == [st EXCEPT !.banks[bn] = b2, !.accts[an].bal = SortBal(x.bal),
                                                     !.tok = Xfer(@, MintOf(bn), ut, r.vault, l),
                                                     !.reserves[rn] = [@ EXCEPT !.avail = BAdd(@, l), !.supply = BAdd(@, c)],
                                                     !.obligations[on] = [@ EXCEPT !.amount = BAdd(@, c)]]
                              IN KDo(a, "ok", post, KObs(post, bn, an, {ut, r.vault}))

KWithdraw(an, bn, amt, all) ==
  LET a == [op |-> "kamino_withdraw", acct |-> an, bank |-> bn, amount |-> amt, all |-> all]
      b0 == st.banks[bn] ac == st.accts[an] rn == ResOf(bn) on == OblOf(bn) r == st.reserves[rn]
      se == BankStateErr(b0, "Paused")
      i == FindSlot(ac.bal, bn)
  IN IF se # "ok" THEN Fail(a, se)
     ELSE IF Disabled(an) THEN Fail(a, "AccountDisabled")
     ELSE IF i = 0 THEN Fail(a, "BankAccountNotFound")
     ELSE LET x == IF all THEN ImplWithdrawAll(b0, ac.bal, i, Now) ELSE ImplDecrease(b0, ac.bal, i, FOfInt(amt), "WithdrawOnly", Now) IN
          IF IsErr(x) THEN Fail(a, x.err)
          ELSE LET c == IF all THEN x.pay ELSE BOfInt(amt)
                   exp == ExpectC2L(r, c)
               IN IF exp = None THEN Fail(a, "err")
                  ELSE IF ~Fresh(r) THEN Fail(a, "err")
                  ELSE IF BLt(st.obligations[on].amount, c) THEN Fail(a, "err")
                  ELSE LET got == VenueRedeem(r, c) IN
                       IF BGt(AbsDiff(got, exp), BOne) THEN Fail(a, "KaminoWithdrawFailed")
                       ELSE LET ut == UserTok(an, bn)
                                b2 == ImplUpdateCache(x.b, Now)
                                post == [st EXCEPT !.banks[bn] = b2, !.accts[an].bal = SortBal(x.bal),
                                                   !.tok = Xfer(@, MintOf(bn), r.vault, ut, got),
                                                   !.reserves[rn] = [@ EXCEPT !.avail = BSub(@, got), !.supply = BSub(@, c)],
                                                   !.obligations[on] = [@ EXCEPT !.amount = BSub(@, c)]]
                            IN KDo(a, "ok", post, KObs(post, bn, an, {ut, r.vault}))



\* ---- Solend --------------------------------------------------------------------------------------
\* marginfi's side is the same as for Kamino (expected amounts from the scaled supplies, within one token); the venue's
\* exact arithmetic runs on the 10^18-scaled total
WAD18 == BPow10(18)
SVenueTotalW(r) == NonNeg(BSub(BAdd(BMul(r.avail, WAD18), r.borrowed_wads), r.fees_wads))
SVenueMint(r, l) == IF BIsZero(SVenueTotalW(r)) \/ BIsZero(r.supply) THEN l ELSE BFloorDiv(BMul(BMul(l, r.supply), WAD18), SVenueTotalW(r))
SVenueRedeem(r, c) == IF BIsZero(r.supply) THEN BZero ELSE BMin(BFloorDiv(BMul(c, SVenueTotalW(r)), BMul(r.supply, WAD18)), r.avail)

SDeposit(an, bn, amt) ==
  LET a == [op |-> "solend_deposit", acct |-> an, bank |-> bn, amount |-> amt]
      b0 == st.banks[bn] ac == st.accts[an] rn == ResOf(bn) on == OblOf(bn) r == st.reserves[rn]
      te == TagsErr(b0, ac.bal) se == BankStateErr(b0, "PausedOrReduce")
      l == BOfInt(amt)
      exp == ExpectL2C(r, l)
  IN IF ~Fresh(r) THEN Fail(a, "err")                                  \* SolendReserveStale (account constraint)
     ELSE IF te # "ok" THEN Fail(a, te)
     ELSE IF se # "ok" THEN Fail(a, se)
     ELSE IF Disabled(an) \/ InRecv(an) THEN Fail(a, "AccountDisabled")
     ELSE IF exp = None THEN Fail(a, "err")
     ELSE LET ut == UserTok(an, bn) IN
          IF BLt(TokOf(st, ut), l) THEN Fail(a, "err")
          ELSE LET c == SVenueMint(r, l) IN
               IF BGt(AbsDiff(c, exp), BOne) THEN Fail(a, "SolendDepositFailed")
               ELSE LET foc == FindOrCreate(ac.bal, bn, b0.key, b0.cfg.asset_tag, Now) IN
                    IF IsErr(foc) THEN Fail(a, foc.err)
                    ELSE LET x == ImplIncrease(b0, foc[1], foc[2], FOfBig(c), "DepositOnly", Now) IN
                         IF IsErr(x) THEN Fail(a, x.err)
                         ELSE LET b2 == ImplUpdateCache(x.b, Now)
                                  post == [st EXCEPT !.banks[bn] = b2, !.accts[an].bal = SortBal(x.bal),
                                                     !.tok = Xfer(@, MintOf(bn), ut, r.vault, l),
                                                     !.reserves[rn] = [@ EXCEPT !.avail = BAdd(@, l), !.supply = BAdd(@, c)],
                                                     !.obligations[on] = [@ EXCEPT !.amount = BAdd(@, c)]]
                              IN KDo(a, "ok", post, KObs(post, bn, an, {ut, r.vault}))

SWithdraw(an, bn, amt, all) ==
  LET a == [op |-> "solend_withdraw", acct |-> an, bank |-> bn, amount |-> amt, all |-> all]
      b0 == st.banks[bn] ac == st.accts[an] rn == ResOf(bn) on == OblOf(bn) r == st.reserves[rn]
      se == BankStateErr(b0, "Paused")
      i == FindSlot(ac.bal, bn)
  IN IF ~Fresh(r) THEN Fail(a, "err")
     ELSE IF se # "ok" THEN Fail(a, se)
     ELSE IF Disabled(an) THEN Fail(a, "AccountDisabled")
     ELSE IF i = 0 THEN Fail(a, "BankAccountNotFound")
     ELSE LET x == IF all THEN ImplWithdrawAll(b0, ac.bal, i, Now) ELSE ImplDecrease(b0, ac.bal, i, FOfInt(amt), "WithdrawOnly", Now) IN
          IF IsErr(x) THEN Fail(a, x.err)
          ELSE LET c == IF all THEN x.pay ELSE BOfInt(amt)
                   exp == ExpectC2L(r, c)
               IN IF exp = None THEN Fail(a, "err")
                  ELSE IF BLt(st.obligations[on].amount, c) THEN Fail(a, "err")
                  ELSE LET got == SVenueRedeem(r, c) IN
                       IF BGt(AbsDiff(got, exp), BOne) THEN Fail(a, "SolendWithdrawFailed")
                       ELSE LET ut == UserTok(an, bn)
                                b2 == ImplUpdateCache(x.b, Now)
                                post == [st EXCEPT !.banks[bn] = b2, !.accts[an].bal = SortBal(x.bal),
                                                   !.tok = Xfer(@, MintOf(bn), r.vault, ut, got),
                                                   !.reserves[rn] = [@ EXCEPT !.avail = BSub(@, got), !.supply = BSub(@, c)],
                                                   !.obligations[on] = [@ EXCEPT !.amount = BSub(@, c)]]
                            IN KDo(a, "ok", post, KObs(post, bn, an, {ut, r.vault}))
SRefresh(bn) ==
  LET rn == ResOf(bn) a == [op |-> "solend_refresh", reserve |-> rn]
      post == [st EXCEPT !.reserves[rn].slot = st.clock.slot]
  IN Do(a, "ok", post, [reserves |-> [x \in {rn} |-> [slot |-> post.reserves[x].slot]]])
SInterest(bn, bor) ==
  LET rn == ResOf(bn) w == BMul(BOfInt(bor), WAD18) a == [op |-> "set_solend_reserve", reserve |-> rn, borrowed_wads |-> w]
      post == [st EXCEPT !.reserves[rn].borrowed_wads = w]
  IN Do(a, "ok", post, [reserves |-> [x \in {rn} |-> [borrowed_wads |-> post.reserves[x].borrowed_wads]]])

\* ---- Drift ---------------------------------------------------------------------------------------
MktOf(bn) == st.banks[bn].integ[1]
UsrOf(bn) == st.banks[bn].integ[2]
U64MaxD == BSub(BPow2(64), BOne)
U128MaxD == BSub(BPow2(128), BOne)
\* MinimalSpotMarket::get_scaled_balance(amount, round_up)
DScaled(m, a, up) ==
  IF m.dec > 19 THEN None
  ELSE LET x == BMul(a, BPow10(19 - m.dec)) IN
       IF BGt(x, U128MaxD) \/ BIsZero(m.cum) THEN None
       ELSE LET q == BFloorDiv(x, m.cum) IN
            IF BGt(q, U64MaxD) THEN None
            ELSE IF up /\ ~BIsZero(q) THEN (IF BGe(q, U64MaxD) THEN None ELSE BAdd(q, BOne)) ELSE q
\* MinimalSpotMarket::get_withdraw_token_amount(scaled)
DTokens(m, sb) ==
  IF m.dec > 19 THEN None
  ELSE LET x == BMul(sb, m.cum) IN IF BGt(x, U128MaxD) THEN None ELSE LET q == BFloorDiv(x, BPow10(19 - m.dec)) IN IF BGt(q, U64MaxD) THEN None ELSE q
\* the venue's own arithmetic (exact integers)
DVenueInc(m, a) == BFloorDiv(BMul(a, BPow10(19 - m.dec)), m.cum)
DVenueBurn(m, a) == LET q == DVenueInc(m, a) IN IF BIsZero(q) THEN BZero ELSE BAdd(q, BOne)

DObs(post, bn, an, toks) ==
  Obs(post, {bn}, {an}, toks) @@
  [markets |-> [x \in {post.banks[bn].integ[1]} |-> [ts |-> post.markets[x].ts, cum |-> post.markets[x].cum]],
   obligations |-> [x \in {post.banks[bn].integ[2]} |-> [amount |-> post.obligations[x].amount]]]

DDeposit(an, bn, amt) ==
  LET a == [op |-> "drift_deposit", acct |-> an, bank |-> bn, amount |-> amt]
      b0 == st.banks[bn] ac == st.accts[an] mn == MktOf(bn) un == UsrOf(bn) m == st.markets[mn]
      te == TagsErr(b0, ac.bal) se == BankStateErr(b0, "PausedOrReduce")
      l == BOfInt(amt)
      exp == DScaled(m, l, FALSE)
  IN IF te # "ok" THEN Fail(a, te)
     ELSE IF se # "ok" THEN Fail(a, se)
     ELSE IF Disabled(an) \/ InRecv(an) THEN Fail(a, "AccountDisabled")
     ELSE IF exp = None THEN Fail(a, "err")
     ELSE LET ut == UserTok(an, bn) IN
          IF BLt(TokOf(st, ut), l) THEN Fail(a, "err")
          ELSE LET c == DVenueInc(m, l) IN
               IF c # exp THEN Fail(a, "DriftScaledBalanceMismatch")
               ELSE LET foc == FindOrCreate(ac.bal, bn, b0.key, b0.cfg.asset_tag, Now) IN
                    IF IsErr(foc) THEN Fail(a, foc.err)
                    ELSE LET x == ImplIncrease(b0, foc[1], foc[2], FOfBig(c), "DepositOnly", Now) IN
                         IF IsErr(x) THEN Fail(a, x.err)
                         ELSE LET b2 == ImplUpdateCache(x.b, Now)
                                  post == [st EXCEPT !.banks[bn] = b2, !.accts[an].bal = SortBal(x.bal),
                                                     !.tok = Xfer(@, MintOf(bn), ut, m.vault, l),
                                                     !.markets[mn] = [@ EXCEPT !.ts = Now],
                                                     !.obligations[un] = [@ EXCEPT !.amount = BAdd(@, c)]]
                              IN KDo(a, "ok", post, DObs(post, bn, an, {ut, m.vault}))

\* the venue leg of a withdrawal and the bookkeeping after it
DFinish(a, an, bn, x, t, e, all) ==
  LET mn == MktOf(bn) un == UsrOf(bn) m == st.markets[mn] ut == UserTok(an, bn)
      b2 == ImplUpdateCache(x.b, Now)
      skip == all /\ BIsZero(t)                              \* dust worth less than one token unit stays in the venue
      burn == DVenueBurn(m, t)
  IN IF skip THEN
       LET post == [st EXCEPT !.banks[bn] = b2, !.accts[an].bal = SortBal(x.bal), !.markets[mn] = [@ EXCEPT !.ts = Now]]
       IN KDo(a, "ok", post, DObs(post, bn, an, {ut, m.vault}))
     ELSE IF BLt(st.obligations[un].amount, burn) \/ BLt(TokOf(st, m.vault), t) THEN Fail(a, "err")
     ELSE IF burn # e THEN Fail(a, "DriftScaledBalanceMismatch")
     ELSE LET post == [st EXCEPT !.banks[bn] = b2, !.accts[an].bal = SortBal(x.bal),
                                 !.tok = Xfer(@, MintOf(bn), m.vault, ut, t),
                                 !.markets[mn] = [@ EXCEPT !.ts = Now],
                                 !.obligations[un] = [@ EXCEPT !.amount = BSub(@, burn)]]
          IN KDo(a, "ok", post, DObs(post, bn, an, {ut, m.vault}))

DWithdraw(an, bn, amt, all) ==
  LET a == [op |-> "drift_withdraw", acct |-> an, bank |-> bn, amount |-> amt, all |-> all]
      b0 == st.banks[bn] ac == st.accts[an] mn == MktOf(bn) un == UsrOf(bn) m == st.markets[mn]
      se == BankStateErr(b0, "Paused")
      i == FindSlot(ac.bal, bn)
  IN IF se # "ok" THEN Fail(a, se)
     ELSE IF Disabled(an) THEN Fail(a, "AccountDisabled")
     ELSE IF i = 0 THEN Fail(a, "BankAccountNotFound")
     ELSE
       IF all THEN
         LET x == ImplWithdrawAll(b0, ac.bal, i, Now) IN
         IF IsErr(x) THEN Fail(a, x.err)
         ELSE LET sb == x.pay
                  t0 == DTokens(m, sb)
                  e0 == IF t0 = None THEN None ELSE DScaled(m, t0, TRUE)
              IN IF t0 = None \/ e0 = None THEN Fail(a, "err")
                 ELSE LET back == e0 = BAdd(sb, BOne) /\ BIsPos(t0)
                          t == IF back THEN BSub(t0, BOne) ELSE t0
                          e == IF back THEN DScaled(m, t, TRUE) ELSE e0
                      IN IF e = None THEN Fail(a, "err")
                         ELSE IF BLt(sb, e) THEN Fail(a, "MathError")
                         ELSE DFinish(a, an, bn, x, t, e, TRUE)
       ELSE
         LET d0 == DScaled(m, BOfInt(amt), TRUE)
             shares == BShr(ac.bal[i].a, 48)
         IN IF d0 = None THEN Fail(a, "err")
            ELSE IF BGt(d0, BAdd(shares, BOne)) THEN Fail(a, "OperationWithdrawOnly")
            ELSE LET over == d0 = BAdd(shares, BOne)
                     t == IF over THEN DTokens(m, shares) ELSE BOfInt(amt)
                     d == IF over THEN (IF t = None THEN None ELSE DScaled(m, t, TRUE)) ELSE d0
                 IN IF t = None \/ d = None THEN Fail(a, "err")
                    ELSE LET x == ImplDecrease(b0, ac.bal, i, FOfBig(d), "WithdrawOnly", Now) IN
                         IF IsErr(x) THEN Fail(a, x.err)
                         ELSE DFinish(a, an, bn, x, t, d, FALSE)

DRefresh(bn) ==
  LET mn == MktOf(bn) a == [op |-> "drift_refresh", market |-> mn]
      post == [st EXCEPT !.markets[mn].ts = Now]
  IN Do(a, "ok", post, [markets |-> [x \in {mn} |-> [ts |-> post.markets[x].ts]]])
DInterest(bn, cum) ==
  LET mn == MktOf(bn) a == [op |-> "set_drift_market", market |-> mn, cum |-> cum]
      post == [st EXCEPT !.markets[mn].cum = cum]
  IN Do(a, "ok", post, [markets |-> [x \in {mn} |-> [cum |-> post.markets[x].cum]]])

\* environment steps
KTick(d) ==
  LET a == [op |-> "tick", dt |-> d]
      post == [st EXCEPT !.clock = [@ EXCEPT !.ts = BAdd(@, BOfInt(d)), !.slot = BAdd(@, BOfInt(2 * d + 1))]]
  IN Do(a, "ok", post, [clock |-> post.clock])
KRefresh(bn) ==
  LET rn == ResOf(bn) a == [op |-> "kamino_refresh", reserve |-> rn]
      post == [st EXCEPT !.reserves[rn].slot = st.clock.slot]
  IN Do(a, "ok", post, [reserves |-> [x \in {rn} |-> [slot |-> post.reserves[x].slot]]])
KInterest(bn, bor) ==
  LET rn == ResOf(bn) a == [op |-> "set_kamino_reserve", reserve |-> rn, borrowed |-> bor]
      post == [st EXCEPT !.reserves[rn].borrowed_sf = BMul(BOfInt(bor), BPow2(60))]
  IN Do(a, "ok", post, [reserves |-> [x \in {rn} |-> [borrowed_sf |-> post.reserves[x].borrowed_sf]]])

\* somebody sends a unit of the token straight to the bank's pass-through vault
KDonate(bn) ==
  LET v == st.banks[bn].vault_liq
      a == [op |-> "fund_vault", mint |-> st.banks[bn].mint, dst |-> v, amount |-> 1]
      post == [st EXCEPT !.tok[v].amount = BAdd(@, BOne)]
  IN Do(a, "ok", post, [tok |-> [t \in {v} |-> [amount |-> post.tok[t].amount]]])

VNext ==
  /\ depth < KMaxDepth
  /\ \/ \E d \in Ticks : KTick(d)
     \/ \E an \in Accts, bn \in KBanks, amt \in KAmounts : KDeposit(an, bn, amt) \/ KWithdraw(an, bn, amt, FALSE)
     \/ \E an \in Accts, bn \in KBanks : KWithdraw(an, bn, 0, TRUE)
     \/ \E bn \in KBanks : KRefresh(bn) \/ KDonate(bn)
     \/ \E bn \in KBanks, bor \in KBorrowed : KInterest(bn, bor)
     \/ \E an \in Accts, bn \in SBanks, amt \in SAmounts : SDeposit(an, bn, amt) \/ SWithdraw(an, bn, amt, FALSE)
     \/ \E an \in Accts, bn \in SBanks : SWithdraw(an, bn, 0, TRUE)
     \/ \E bn \in SBanks : SRefresh(bn) \/ KDonate(bn)
     \/ \E bn \in SBanks, bor \in SBorrowed : SInterest(bn, bor)
     \/ \E an \in Accts, bn \in DBanks, amt \in DAmounts : DDeposit(an, bn, amt) \/ DWithdraw(an, bn, amt, FALSE)
     \/ \E an \in Accts, bn \in DBanks : DWithdraw(an, bn, 0, TRUE)
     \/ \E bn \in DBanks : DRefresh(bn)
     \/ \E bn \in DBanks, cum \in DCums : DInterest(bn, cum)
VSpec == Init /\ [][VNext]_vars
VView == <<View, [b \in KBanks |-> <<TokOf(st, st.banks[b].vault_liq), st.reserves[ResOf(b)].avail, st.reserves[ResOf(b)].supply, st.reserves[ResOf(b)].slot, st.reserves[ResOf(b)].borrowed_sf,
                                     st.obligations[OblOf(b)].amount>>], st.clock.slot,
          [b \in SBanks |-> <<TokOf(st, st.banks[b].vault_liq), st.reserves[ResOf(b)].avail, st.reserves[ResOf(b)].supply, st.reserves[ResOf(b)].slot, st.reserves[ResOf(b)].borrowed_wads,
                               st.obligations[OblOf(b)].amount>>],
          [b \in DBanks |-> <<TokOf(st, st.markets[MktOf(b)].vault), st.markets[MktOf(b)].cum, st.markets[MktOf(b)].ts, st.obligations[UsrOf(b)].amount>>]>>
=============================================================================
