SPECIFICATION Spec
CONSTANTS
  MaxDepth = 1
  ProbeAll = TRUE
VIEW View
CHECK_DEADLOCK FALSE
