------------------------------- MODULE Trace -------------------------------
(***************************************************************************)
(* Trace validation: every execution recorded from the real program        *)
(* (one ndjson line per instruction/transaction, with the projected state  *)
(* change) is replayed here; the property predicates of Props*.tla are     *)
(* evaluated on (pre, event, post) of every step.  Violations are printed  *)
(* as FAIL lines; the post-condition checks the whole trace was consumed.  *)
(***************************************************************************)
EXTENDS Props, IOUtils

Rec == ndJsonDeserialize(IOEnv.TRACE)
\* properties to evaluate: environment variables P_C01 ... P_C20 (set by the orchestrator)
AllProps == {"C01","C02","C03","C04","C05","C06","C07","C08","C09","C10","C11","C12","C13","C14","C15","C16","C17","C18","C19","C20"}
Want == [p \in AllProps |-> Has(IOEnv, "P_" \o p)]
CheckStep(pre, e, post, a, line) == CheckStepP(Want, pre, e, post, a, line)
CheckInv(s, e, line) == CheckInvP(Want, s, e, line)

VARIABLES l, st, acc, stk

Merge(old, d) == [k \in (DOMAIN old) \cup (DOMAIN d) |-> IF k \in DOMAIN d THEN d[k] ELSE old[k]]
Sections == {"clock", "fee", "groups", "banks", "accts", "tok", "liqrec", "staked", "wallets", "oracles", "mints", "pools", "reserves", "obligations", "markets"}
MapSections == {"groups", "banks", "accts", "tok", "liqrec", "staked", "wallets", "oracles", "mints", "pools", "reserves", "obligations", "markets"}
ApplyChg(s, chg) ==
  [sec \in Sections |->
     IF sec \in MapSections THEN
        LET base == IF Has(chg, sec) THEN Merge(s[sec], chg[sec]) ELSE s[sec]
            delk == "del_" \o sec
            dels == IF Has(chg, delk) THEN SeqToSet(chg[delk]) ELSE {}
        IN IF dels = {} THEN base ELSE [k \in (DOMAIN base) \ dels |-> base[k]]
     ELSE IF Has(chg, sec) THEN chg[sec] ELSE s[sec]]

EmptyState == [sec \in Sections |-> <<>>]

Init == l = 1 /\ st = EmptyState /\ acc = Acc0 /\ stk = 0

\* tree replay bookkeeping: save / restore / drop of the (state, accumulator) pair
\* (saved pairs live in TLC registers 100+depth, outside the fingerprinted state; needs -workers 1)
Ctl(e) ==
  /\ l' = l + 1
  /\ CASE e.ev = "save" -> TLCSet(100 + stk, <<st, acc>>) /\ stk' = stk + 1 /\ UNCHANGED <<st, acc>>
       [] e.ev = "restore" -> st' = TLCGet(100 + stk - 1)[1] /\ acc' = TLCGet(100 + stk - 1)[2] /\ UNCHANGED stk
       [] e.ev = "drop" -> stk' = stk - 1 /\ UNCHANGED <<st, acc>>

Step ==
  /\ l <= Len(Rec)
  /\ UNCHANGED stk
  /\ LET e == Rec[l]
         isReset == e.ev = "reset"
         post == IF isReset THEN ApplyChg(EmptyState, e.chg) ELSE ApplyChg(st, e.chg)
         a0 == IF isReset THEN Acc0 ELSE acc
     IN /\ st' = post
        /\ acc' = (IF isReset THEN AccNext(Acc0, post, e, post) ELSE AccNext(acc, st, e, post))
        \* "= TRUE" makes TLC evaluate the predicates as one expression (short-circuit semantics) instead of
        \* decomposing their disjunctions into alternative next-state branches
        /\ (IF isReset THEN CheckInv(post, e, l) ELSE CheckStep(st, e, post, a0, l)) = TRUE
        /\ l' = l + 1

Next ==
  /\ l <= Len(Rec)
  /\ IF Rec[l].ev \in {"save", "restore", "drop"} THEN Ctl(Rec[l]) ELSE Step

Spec == Init /\ [][Next]_<<l, st, acc, stk>>

TraceAccepted ==
  LET d == TLCGet("stats").diameter IN
  IF d - 1 = Len(Rec) THEN PrintT("TRACE-OK " \o ToString(Len(Rec)))
  ELSE PrintT("TRACE-INCOMPLETE " \o ToString(d - 1) \o " of " \o ToString(Len(Rec))) /\ FALSE
=============================================================================
