------------------------------- MODULE FeeCfg -------------------------------
(***************************************************************************)
(* The global fee state and its per-group copy (C06 "program fees are zero *)
(* when disabled for the group", C19 "to the global fee wallet's canonical *)
(* token account"): the global fee admin edits the program fee rates and   *)
(* rotates the fee wallet (edit_global_fee_state), switches program fees   *)
(* on and off for a group (config_group_fee, which only stamps the copy),  *)
(* anyone copies the global state into a group (propagate_fee_state:       *)
(* wallet, fixed and proportional rate, stamp).  Interest accrual charges  *)
(* the group's *copied* rates - zero while the group's flag is off - and   *)
(* the origination fee splits by the copied proportional rate; fee         *)
(* collection pays the program bucket to the token account of the wallet   *)
(* the *global* state names now.  On top of the ledger actions (tick,      *)
(* accrue, collect fees, borrow) TLC walks every order of edit / switch /  *)
(* propagate / accrue / collect; every transition is replayed on the real  *)
(* program with the predicted share values, fee buckets, copies and token  *)
(* balances compared bit for bit.                                          *)
(***************************************************************************)
EXTENDS Ledger

CONSTANTS FeeGroup,     \* the group
          FeeEdits,     \* set of <<wallet, fixed numerator, fixed denominator, rate numerator, rate denominator>>
          FeeSigners,   \* wallets that sign the fee admin's instructions
          FeeBanks,     \* banks accrued / collected
          FeeBorrows    \* set of <<account, bank, amount>>

Frac(n, d) == IF n = 0 THEN BZero ELSE FDiv(FOfInt(n), FOfInt(d))
FracStr(n, d) == ToString(n) \o "/" \o ToString(d)
ObsGroup(s) == [groups |-> [g \in {FeeGroup} |-> [flags |-> s.groups[g].flags, fee_cache |-> s.groups[g].fee_cache]],
                fee |-> [wallet |-> s.fee.wallet, prog_fixed |-> s.fee.prog_fixed, prog_rate |-> s.fee.prog_rate, admin |-> s.fee.admin]]

\* edit_global_fee_state: every field is overwritten with the arguments
EditFee(e, signer) ==
  LET a == [op |-> "edit_fee_state", admin |-> st.fee.admin, wallet |-> e[1], prog_fixed |-> FracStr(e[2], e[3]), prog_rate |-> FracStr(e[4], e[5]),
            liq_max_fee |-> [bits |-> st.fee.liq_max_fee], signer |-> signer]
  IN IF signer # st.fee.admin THEN Fail(a, "Unauthorized")
     ELSE LET post == [st EXCEPT !.fee.wallet = e[1], !.fee.prog_fixed = Frac(e[2], e[3]), !.fee.prog_rate = Frac(e[4], e[5]),
                                 !.fee.bank_init_fee = BZero, !.fee.liq_flat_fee = BZero]
          IN Do(a, "ok", post, ObsGroup(post))

\* config_group_fee: the flag, and a stamp on the copy (the copied values stay)
SwitchFee(on, signer) ==
  LET a == [op |-> "config_group_fee", group |-> FeeGroup, enable |-> on, signer |-> signer]
      g == st.groups[FeeGroup]
      fl == IF on THEN (IF Bit(g.flags, 0) THEN g.flags ELSE <<0>> \o g.flags) ELSE SelectSeq(g.flags, LAMBDA x : x # 0)
  IN IF signer # st.fee.admin THEN Fail(a, "Unauthorized")
     ELSE LET post == [st EXCEPT !.groups[FeeGroup].flags = fl, !.groups[FeeGroup].fee_cache.ts = Now] IN Do(a, "ok", post, ObsGroup(post))

\* propagate_fee_state (permissionless)
Propagate ==
  LET a == [op |-> "propagate_fee", group |-> FeeGroup]
      c == [wallet |-> st.fee.wallet, fixed |-> st.fee.prog_fixed, rate |-> st.fee.prog_rate, ts |-> Now]
      post == [st EXCEPT !.groups[FeeGroup].fee_cache = c]
  IN Do(a, "ok", post, ObsGroup(post))

NextF ==
  /\ depth < MaxDepth
  /\ \/ \E d \in Ticks : Tick(d)
     \/ \E e \in FeeEdits, sg \in FeeSigners : EditFee(e, sg)
     \/ \E on \in BOOLEAN, sg \in FeeSigners : SwitchFee(on, sg)
     \/ Propagate
     \/ \E bn \in FeeBanks : Accrue(bn) \/ CollectFees(bn)
     \/ \E x \in FeeBorrows : Borrow(x[1], x[2], x[3])

SpecF == Init /\ [][NextF]_vars
ViewF == <<View, st.fee.wallet, st.fee.prog_fixed, st.fee.prog_rate, st.groups[FeeGroup].flags, st.groups[FeeGroup].fee_cache>>
=============================================================================
