SPECIFICATION Spec
CONSTANTS
  Alphabet <- RecvAlphabet
  MaxLen = 4
  NeedOneOf <- NeedStart
CHECK_DEADLOCK FALSE
