------------------------------- MODULE Payout -------------------------------
(***************************************************************************)
(* Where fees and emission rewards can go (C19), with values, on top of    *)
(* the ledger actions.  Fee side: collect_bank_fees fills the insurance    *)
(* vault, the fee vault and the global fee wallet's token account (Ledger) *)
(* ; the group admin draws any amount out of the fee / insurance vault     *)
(* into an account of its choice (lending_pool_withdraw_fees /             *)
(* _withdraw_insurance: has_one admin, SPL transfer refused beyond the     *)
(* balance); the admin fixes a destination for the fees                    *)
(* (update_fees_destination_account: a token account of the bank's mint);  *)
(* anyone sweeps min(amount, balance) of the fee vault into that           *)
(* destination and nowhere else (withdraw_fees_permissionless).            *)
(* Emission side: every balance operation claims what the position earned  *)
(* (Impl.ImplClaim); withdraw_emissions (authority) and                    *)
(* withdraw_emissions_permissionless (anyone, only into the associated     *)
(* token account of the wallet the authority registered, refused while     *)
(* none is registered or the account is frozen) claim, pay out the whole   *)
(* tokens of the outstanding amount from the emissions vault and keep the  *)
(* fraction; the emissions admin changes the two flags, the rate and tops  *)
(* the campaign up (update_emissions_parameters: the funded remainder and  *)
(* the vault grow by the same amount).                                     *)
(* Every action predicts result, error and observables bit for bit; every  *)
(* transition is replayed on the real program and judged by C19 (and the   *)
(* ledger properties) - marginfi_group/collect_bank_fees.rs,               *)
(* marginfi_account/emissions.rs, marginfi_group/configure_bank.rs.        *)
(***************************************************************************)
EXTENDS Ledger

CONSTANTS PayAccts,      \* accounts whose emissions are paid out
          PayBanks,      \* banks whose fee / insurance vaults are drawn
          FeeAmounts,    \* amounts asked from the fee / insurance vaults
          Strangers,     \* wallets that sign where they should not
          DestWallets,   \* wallets an authority may register as emissions destination
          FeeDests,      \* token accounts the admin may fix as fees destination
          EmisWords,     \* flag words the emissions admin may ask for (sets of bits)
          EmisRates,     \* rates the emissions admin may set
          EmisTopUps     \* additional emissions the admin may fund

GroupRec(bn) == st.groups[st.banks[bn].group]
\* a token account the harness creates on demand (empty) when an instruction names it
Ensure(tok, name, mint, owner) ==
  IF Has(tok, name) THEN tok ELSE tok @@ (name :> [mint |-> mint, owner |-> owner, amount |-> BZero, withheld |-> BZero])

ObsBankP(b) == ObsBank(b) @@ [flags |-> b.flags, emis_rate |-> b.emis_rate, fees_dest |-> b.fees_dest]
ObsAcctP(a) == ObsAcct(a) @@ [emis_dest |-> a.emis_dest]
ObsP(s, banks, accts, toks) ==
  [banks |-> [b \in banks |-> ObsBankP(s.banks[b])], accts |-> [a \in accts |-> ObsAcctP(s.accts[a])],
   tok |-> [t \in toks |-> [amount |-> s.tok[t].amount, withheld |-> s.tok[t].withheld]]]

\* ---- fee and insurance vaults ------------------------------------------------------------------
\* lending_pool_withdraw_fees / lending_pool_withdraw_insurance
WithdrawVault(kind, bn, amt, signer) ==
  LET a == [op |-> IF kind = "fee" THEN "withdraw_fees" ELSE "withdraw_insurance", bank |-> bn, amount |-> amt, signer |-> signer]
      b == st.banks[bn] g == GroupRec(bn)
      vault == IF kind = "fee" THEN b.vault_fee ELSE b.vault_ins
      dst == signer \o "." \o b.mint
  IN IF signer # g.admin THEN Fail(a, "Unauthorized")
     ELSE IF BLt(TokOf(st, vault), BOfInt(amt)) THEN Fail(a, "A1")
     ELSE LET tok1 == Ensure(st.tok, dst, b.mint, signer)
              post == [st EXCEPT !.tok = Xfer(tok1, MintOf(bn), vault, dst, BOfInt(amt))]
          IN Do(a, "ok", post, ObsP(post, {bn}, {}, {vault, dst}))

\* lending_pool_update_fees_destination_account
UpdateFeesDest(bn, dst, signer) ==
  LET a == [op |-> "update_fees_dest", bank |-> bn, dst |-> dst, signer |-> signer]
      b == st.banks[bn] g == GroupRec(bn)
  IN IF signer # g.admin THEN Fail(a, "Unauthorized")
     ELSE IF ~Has(st.tok, dst) THEN Fail(a, "A3012")
     ELSE IF st.tok[dst].mint # b.mint THEN Fail(a, "InvalidFeesDestinationAccount")
     ELSE LET post == [st EXCEPT !.banks[bn].fees_dest = dst] IN Do(a, "ok", post, ObsP(post, {bn}, {}, {}))

\* lending_pool_withdraw_fees_permissionless: min(amount, balance) into the fixed destination
WithdrawFeesPerm(bn, amt) ==
  LET a == [op |-> "withdraw_fees_perm", bank |-> bn, amount |-> amt]
      b == st.banks[bn]
  IN IF b.fees_dest = "none" \/ ~Has(st.tok, b.fees_dest) THEN Fail(a, "A3007")   \* the system-owned default key is not a token account
     ELSE LET x == BMin(BOfInt(amt), TokOf(st, b.vault_fee))
              post == [st EXCEPT !.tok = Xfer(@, MintOf(bn), b.vault_fee, b.fees_dest, x)]
          IN Do(a, "ok", post, ObsP(post, {bn}, {}, {b.vault_fee, b.fees_dest}))

\* ---- emissions ---------------------------------------------------------------------------------
EmisVault(bn) == bn \o ".emis_vault." \o st.banks[bn].emis_mint
EmisMintRec(bn) == st.mints[st.banks[bn].emis_mint]
Frozen(an) == Bit(st.accts[an].flags, ACC_FROZEN)

\* settle_emissions_and_get_transfer_amount followed by the transfer
Payout(a, an, bn, dst, owner) ==
  LET b0 == st.banks[bn] ac == st.accts[an] i == FindSlot(ac.bal, bn) IN
  IF i = 0 THEN Fail(a, "BankAccountNotFound")
  ELSE LET cl == ImplClaim(b0, ac.bal[i], Now) IN
       IF IsErr(cl) THEN Fail(a, cl.err)
       ELSE LET whole == FFloor(cl.s.emis)
                out == FToInt(whole)
                s2 == [cl.s EXCEPT !.emis = BSub(@, whole)]
                vault == EmisVault(bn)
            IN IF BLt(TokOf(st, vault), out) THEN Fail(a, "A1")
               ELSE LET tok1 == Ensure(st.tok, dst, b0.emis_mint, owner)
                        tok2 == IF BIsZero(out) THEN tok1 ELSE Xfer(tok1, EmisMintRec(bn), vault, dst, out)
                        post == [st EXCEPT !.banks[bn] = cl.b, !.accts[an].bal[i] = s2, !.tok = tok2]
                    IN Do(a, "ok", post, ObsP(post, {bn}, {an}, {vault, dst}))

\* lending_account_withdraw_emissions (the authority, or the group admin while the account is frozen)
WithdrawEmissions(an, bn, signer) ==
  LET a == [op |-> "withdraw_emissions", acct |-> an, bank |-> bn, signer |-> signer]
      ac == st.accts[an] g == st.groups[ac.group]
      dst == signer \o "." \o st.banks[bn].emis_mint
  IN IF Frozen(an) /\ signer = ac.auth THEN Fail(a, "AccountFrozen")
     ELSE IF ~(signer = ac.auth \/ (Frozen(an) /\ signer = g.admin)) THEN Fail(a, "Unauthorized")
     ELSE IF Disabled(an) THEN Fail(a, "AccountDisabled")
     ELSE Payout(a, an, bn, dst, signer)

\* lending_account_withdraw_emissions_permissionless
WithdrawEmissionsPerm(an, bn) ==
  LET a == [op |-> "withdraw_emissions_perm", acct |-> an, bank |-> bn]
      ac == st.accts[an]
      dst == "ata." \o ac.emis_dest \o "." \o st.banks[bn].emis_mint
  IN IF Disabled(an) THEN Fail(a, "AccountDisabled")
     ELSE IF Frozen(an) THEN Fail(a, "AccountFrozen")
     ELSE IF ac.emis_dest = "none" THEN Fail(a, "InvalidEmissionsDestinationAccount")
     ELSE Payout(a, an, bn, dst, ac.emis_dest)

\* marginfi_account_update_emissions_destination_account
UpdateEmisDest(an, w, signer) ==
  LET a == [op |-> "update_emis_dest", acct |-> an, dst |-> w, signer |-> signer]
      ac == st.accts[an]
  IN IF signer # ac.auth THEN Fail(a, "Unauthorized")
     ELSE IF Disabled(an) THEN Fail(a, "AccountDisabled")
     ELSE IF Frozen(an) THEN Fail(a, "AccountFrozen")
     ELSE LET post == [st EXCEPT !.accts[an].emis_dest = w] IN Do(a, "ok", post, ObsP(post, {}, {an}, {}))

\* lending_pool_update_emissions_parameters (hasW: flags supplied, w: the set of bits asked for; rate / additional: a number or -1 = not supplied)
RECURSIVE SetToSortedSeqP(_)
SetToSortedSeqP(S) == IF S = {} THEN <<>> ELSE LET m == CHOOSE x \in S : \A y \in S : x <= y IN <<m>> \o SetToSortedSeqP(S \ {m})
RECURSIVE WordOf(_)
WordOf(S) == IF S = {} THEN 0 ELSE LET m == CHOOSE x \in S : TRUE IN 2 ^ m + WordOf(S \ {m})
UpdateEmissionsP(bn, hasW, w, rate, add, signer) ==
  LET a == [op |-> "update_emissions", bank |-> bn, mint |-> st.banks[bn].emis_mint, signer |-> signer]
           @@ (IF ~hasW THEN <<>> ELSE [flags |-> WordOf(w)])
           @@ (IF rate < 0 THEN <<>> ELSE [rate |-> rate]) @@ (IF add < 0 THEN <<>> ELSE [additional |-> add])
      b == st.banks[bn] g == GroupRec(bn)
      funding == signer \o "." \o b.emis_mint
      vault == EmisVault(bn)
  IN IF signer # g.emissions_admin THEN Fail(a, "Unauthorized")
     ELSE IF hasW /\ ~(w \subseteq {BANK_EMIS_BORROW, BANK_EMIS_LEND}) THEN Fail(a, "EmissionsUpdateError")
     ELSE LET fl == IF ~hasW THEN b.flags ELSE SetToSortedSeqP((SeqToSet(b.flags) \ {BANK_EMIS_BORROW, BANK_EMIS_LEND}) \cup w)
              b1 == [b EXCEPT !.flags = fl, !.emis_rate = IF rate < 0 THEN @ ELSE BOfInt(rate)]
          IN IF add < 0 THEN LET post == [st EXCEPT !.banks[bn] = b1] IN Do(a, "ok", post, ObsP(post, {bn}, {}, {vault}))
             ELSE LET pay == PreFee(EmisMintRec(bn), BOfInt(add)) IN
                  IF BLt(TokOf(st, funding), pay) THEN Fail(a, "A1")
                  ELSE LET b2 == [b1 EXCEPT !.emis_rem = BAdd(@, FOfInt(add))]
                           post == [st EXCEPT !.banks[bn] = b2, !.tok = Xfer(@, EmisMintRec(bn), funding, vault, pay)]
                       IN Do(a, "ok", post, ObsP(post, {bn}, {}, {vault, funding}))

NextP ==
  /\ depth < MaxDepth
  /\ \/ \E d \in Ticks : Tick(d)
     \/ \E an \in Live, bn \in BankNames, amt \in Amounts :
          \/ Deposit(an, bn, amt) \/ Borrow(an, bn, amt) \/ Withdraw(an, bn, amt, FALSE) \/ Repay(an, bn, amt, FALSE)
     \/ \E an \in Live, bn \in EmisBanks : SettleEmissions(an, bn)
     \/ \E bn \in PayBanks : Accrue(bn) \/ CollectFees(bn)
     \/ \E bn \in PayBanks, amt \in FeeAmounts : \E sg \in {GroupRec(bn).admin} \cup Strangers :
          WithdrawVault("fee", bn, amt, sg) \/ WithdrawVault("ins", bn, amt, sg)
     \/ \E bn \in PayBanks, d \in FeeDests : \E sg \in {GroupRec(bn).admin} \cup Strangers : UpdateFeesDest(bn, d, sg)
     \/ \E bn \in PayBanks, amt \in FeeAmounts : WithdrawFeesPerm(bn, amt)
     \/ \E an \in PayAccts, bn \in EmisBanks : \E sg \in {st.accts[an].auth} \cup Strangers : WithdrawEmissions(an, bn, sg)
     \/ \E an \in PayAccts, bn \in EmisBanks : WithdrawEmissionsPerm(an, bn)
     \/ \E an \in PayAccts, w \in DestWallets : \E sg \in {st.accts[an].auth} \cup Strangers : UpdateEmisDest(an, w, sg)
     \/ \E bn \in EmisBanks, w \in EmisWords : UpdateEmissionsP(bn, TRUE, w, -1, -1, GroupRec(bn).emissions_admin)
     \/ \E bn \in EmisBanks, r \in EmisRates : UpdateEmissionsP(bn, FALSE, {}, r, -1, GroupRec(bn).emissions_admin)
     \/ \E bn \in EmisBanks, x \in EmisTopUps : \E sg \in {GroupRec(bn).emissions_admin} \cup Strangers : UpdateEmissionsP(bn, FALSE, {}, -1, x, sg)

SpecP == Init /\ [][NextP]_vars
ViewP == <<View, [b \in BankNames |-> <<st.banks[b].flags, st.banks[b].emis_rate, st.banks[b].fees_dest>>],
           [a \in DOMAIN st.accts |-> st.accts[a].emis_dest]>>
=============================================================================
