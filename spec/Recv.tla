-------------------------------- MODULE Recv --------------------------------
(***************************************************************************)
(* Receivership liquidation with values (C10; feeds C08 C09 C16).          *)
(* TxShape.tla decides which instruction lists may commit; this module     *)
(* decides how much a receiver may take.  One action is one atomic         *)
(* transaction [start_liquidation, repay r, withdraw w, end_liquidation]   *)
(* (or withdraw before repay), simulated instruction by instruction with   *)
(* the implementation's own operation sequence: the start snapshots the    *)
(* maintenance and equity totals and refuses a healthy account; repay and  *)
(* withdraw by the receiver move tokens between the receiver's wallets and *)
(* the vaults and skip the risk check; the end recomputes both             *)
(* valuations and refuses a healthier-than-zero account (unless the        *)
(* account's assets were worth less than the close-out threshold at the    *)
(* start), a worse health, and a seized value above repaid x (1 + max      *)
(* fee) (liquidate_start.rs, liquidate_end.rs, withdraw.rs, repay.rs).     *)
(* For every reachable state (collateral price levels on both sides of     *)
(* the maintenance limit and of the five-dollar threshold, time passing,   *)
(* earlier brackets) and every repay amount the model computes the largest *)
(* withdrawal the end instruction accepts (bisection over BracketEval) and *)
(* emits the bracket with that amount - expected to commit - and with the  *)
(* next one - expected to be refused with the predicted error; every       *)
(* bracket is replayed on the real program and judged by the C10           *)
(* predicates (exact-rational references).                                 *)
(***************************************************************************)
EXTENDS Ledger

CONSTANTS RecvCases,    \* set of <<account, collateral bank, debt bank, receiver wallet>>
          Repays,       \* repay amounts (native units of the debt token)
          FixedSeizes,  \* withdrawals tried as they are (besides the computed boundary)
          SeizeCap,     \* upper end of the bisection (native units of the collateral token, < 2^31)
          OpStates      \* operational states the admin may put the collateral bank into (2 = reduce-only, 1 = operational)

F2(r, s) == [r |-> r, s |-> s]
RFlag(flags, b) == IF Bit(flags, b) THEN flags ELSE SortSeq(Append(flags, b), LAMBDA x, y : x < y)
UnFlag(flags, b) == SelectSeq(flags, LAMBDA x : x # b)
RTok(w, s, bn) == w \o "." \o s.banks[bn].mint

\* start_liquidation on state s: refused for a healthy account; snapshots (maintenance assets, liabilities, equity assets, liabilities)
StartF(s, an) ==
  LET ac == s.accts[an] IN
  IF Bit(ac.flags, ACC_DISABLED) \/ Bit(ac.flags, ACC_FLASHLOAN) \/ Bit(ac.flags, ACC_RECEIVERSHIP) THEN F2("err", s)
  ELSE LET h == HealthComponents(Px(s.banks), ac.bal, "Maint") IN
       IF IsErr(h) THEN F2(h.err, s)
       ELSE IF BIsPos(BSub(h[1], h[2])) THEN F2("HealthyAccount", s)
       ELSE LET q == HealthComponents(Px(s.banks), ac.bal, "Equity") IN
            IF IsErr(q) THEN F2(q.err, s)
            ELSE [r |-> "ok", s |-> [s EXCEPT !.accts[an].flags = RFlag(@, ACC_RECEIVERSHIP)],
                  snap |-> [am |-> h[1], lm |-> h[2], ae |-> q[1], le |-> q[2]]]

\* lending_account_repay by the receiver (tokens from the receiver's wallet)
RepayF(s, an, bn, amt, w) ==
  LET b0 == s.banks[bn] ac == s.accts[an] g == s.groups[b0.group] se == BankStateErr(b0, "Paused") IN
  IF Bit(ac.flags, ACC_DISABLED) THEN F2("AccountDisabled", s)
  ELSE IF se # "ok" THEN F2(se, s)
  ELSE LET b1 == ImplAccrue(b0, g, Now) IN
       IF IsErr(b1) THEN F2(b1.err, s)
       ELSE LET i == FindSlot(ac.bal, bn) IN
            IF i = 0 THEN F2("BankAccountNotFound", s)
            ELSE LET r == ImplIncrease(b1, ac.bal, i, FOfInt(amt), "RepayOnly", Now) IN
                 IF IsErr(r) THEN F2(r.err, s)
                 ELSE LET pay == PreFee(s.mints[b0.mint], BOfInt(amt)) ut == RTok(w, s, bn) IN
                      IF BLt(TokOf(s, ut), pay) THEN F2("A1", s)
                      ELSE LET b2 == ImplUpdateCache(r.b, Now) IN
                           F2("ok", [s EXCEPT !.banks[bn] = b2, !.accts[an].bal = SortBal(r.bal),
                                              !.tok = Xfer(@, s.mints[b0.mint], ut, b2.vault_liq, pay)])

\* lending_account_withdraw by the receiver: needs a positive low-biased spot price of the bank, no risk check
WithdrawF(s, an, bn, amt, w) ==
  LET b0 == s.banks[bn] ac == s.accts[an] g == s.groups[b0.group] se == BankStateErr(b0, "Paused")
      px == Px(s.banks)[bn].px
  IN
  \* (account constraint of the instruction: inside receivership nothing leaves a bank whose initial asset weight is zero -
  \* the end checks would not see it go)
  IF Bit(ac.flags, ACC_RECEIVERSHIP) /\ BIsZero(b0.cfg.aw_init) THEN F2("LiquidationPremiumTooHigh", s)
  ELSE IF Bit(ac.flags, ACC_DISABLED) THEN F2("AccountDisabled", s)
  ELSE IF se # "ok" THEN F2(se, s)
  ELSE IF px.load # "ok" THEN F2(px.load, s)
  ELSE IF IsErr(px.cRT) THEN F2(px.cRT.err, s)
  ELSE IF ~BIsPos(BSub(px.pRT, px.cRT.v)) THEN F2("ZeroAssetPrice", s)
  ELSE LET b1 == ImplAccrue(b0, g, Now) IN
       IF IsErr(b1) THEN F2(b1.err, s)
       ELSE LET i == FindSlot(ac.bal, bn) IN
            IF i = 0 THEN F2("BankAccountNotFound", s)
            ELSE LET pre == PreFee(s.mints[b0.mint], BOfInt(amt))
                     r == ImplDecrease(b1, ac.bal, i, FOfBig(pre), "WithdrawOnly", Now) IN
                 IF IsErr(r) THEN F2(r.err, s)
                 ELSE IF BLt(TokOf(s, b1.vault_liq), pre) THEN F2("A1", s)
                 ELSE LET b2 == ImplUpdateCache(r.b, Now) IN
                      F2("ok", [s EXCEPT !.banks[bn] = b2, !.accts[an].bal = SortBal(r.bal),
                                         !.tok = Xfer(@, s.mints[b0.mint], b2.vault_liq, RTok(w, s, bn), pre)])

\* end_liquidation against the snapshot of the start
MaxFee(s) == BMax(BAdd(FOne, s.fee.liq_max_fee), BAdd(FOne, IC_LIQUIDATION_BONUS_FEE_MINIMUM))
EndF(s, an, snap) ==
  LET ac == s.accts[an]
      ignore == BLt(snap.ae, IC_LIQUIDATION_CLOSEOUT_DOLLAR_THRESHOLD)
      h == HealthComponents(Px(s.banks), ac.bal, "Maint")
  IN IF IsErr(h) THEN F2(h.err, s)
     ELSE LET post == BSub(h[1], h[2]) pre == BSub(snap.am, snap.lm) IN
          IF BIsPos(post) /\ ~ignore THEN F2("HealthyAccount", s)
          ELSE LET q == HealthComponents(Px(s.banks), ac.bal, "Equity") IN
               IF IsErr(q) THEN F2(q.err, s)
               ELSE IF BGt(pre, post) THEN F2("WorseHealthPostLiquidation", s)
               ELSE LET seized == BSub(snap.ae, q[1]) repaid == BSub(snap.le, q[2]) IN
                    IF ~ignore /\ BGt(seized, FMul(repaid, MaxFee(s))) THEN F2("LiquidationPremiumTooHigh", s)
                    ELSE F2("ok", [s EXCEPT !.accts[an].flags = UnFlag(@, ACC_RECEIVERSHIP)])

\* the whole transaction: [r |-> "ok" / error of the first failing instruction, post]
BracketEval(c, rep, wd, wdFirst) ==
  LET an == c[1] ab == c[2] lb == c[3] w == c[4]
      s1 == StartF(st, an)
  IN IF s1.r # "ok" THEN F2(s1.r, st)
     ELSE LET s2 == IF wdFirst THEN WithdrawF(s1.s, an, ab, wd, w) ELSE RepayF(s1.s, an, lb, rep, w) IN
          IF s2.r # "ok" THEN F2(s2.r, st)
          ELSE LET s3 == IF wdFirst THEN RepayF(s2.s, an, lb, rep, w) ELSE WithdrawF(s2.s, an, ab, wd, w) IN
               IF s3.r # "ok" THEN F2(s3.r, st)
               ELSE LET s4 == EndF(s3.s, an, s1.snap) IN
                    IF s4.r # "ok" THEN F2(s4.r, st) ELSE F2("ok", s4.s)

TxOf(c, rep, wd, wdFirst) ==
  LET an == c[1] w == c[4]
      ixR == [op |-> "repay", acct |-> an, bank |-> c[3], amount |-> rep, all |-> FALSE, signer |-> w]
      ixW == [op |-> "withdraw", acct |-> an, bank |-> c[2], amount |-> wd, all |-> FALSE, signer |-> w]
  IN [op |-> "tx", ixs |-> <<[op |-> "start_liq", acct |-> an, receiver |-> w]>> \o (IF wdFirst THEN <<ixW, ixR>> ELSE <<ixR, ixW>>)
                            \o <<[op |-> "end_liq", acct |-> an, receiver |-> w]>>]

Bracket(c, rep, wd, wdFirst) ==
  LET ev == BracketEval(c, rep, wd, wdFirst) a == TxOf(c, rep, wd, wdFirst) IN
  IF ev.r = "ok"
  THEN Do(a, "ok", ev.s, Obs(ev.s, {c[2], c[3]}, {c[1]}, {RTok(c[4], st, c[2]), RTok(c[4], st, c[3]), st.banks[c[2]].vault_liq, st.banks[c[3]].vault_liq}))
  ELSE Fail(a, IF ev.r = "err" THEN "err" ELSE ev.r)

\* the exact boundary of the seizable amount for a given repayment
RECURSIVE BisectW(_, _, _, _, _)
BisectW(c, rep, f, lo, hi) ==
  IF hi - lo <= 1 THEN lo
  ELSE LET mid == lo + (hi - lo) \div 2 IN
       IF BracketEval(c, rep, mid, f).r = "ok" THEN BisectW(c, rep, f, mid, hi) ELSE BisectW(c, rep, f, lo, mid)
BoundaryBracket(c, rep, f) ==
  LET one == BracketEval(c, rep, 1, f).r top == BracketEval(c, rep, SeizeCap, f).r IN
  IF one # "ok" THEN Bracket(c, rep, 1, f)                 \* refused whatever is taken: record the refusal
  ELSE IF top = "ok" THEN Bracket(c, rep, SeizeCap, f)     \* no bound below the cap
  ELSE LET m == BisectW(c, rep, f, 1, SeizeCap) IN \E x \in {m, m + 1} : Bracket(c, rep, x, f)

\* the group admin winds the collateral bank down (reduce-only) or reopens it: its deposits keep counting for the bracket's
\* maintenance and equity valuations (they only stop counting toward new borrowing)
SetOpState(bn, state) ==
  LET a == [op |-> "configure_bank", bank |-> bn, cfg |-> [op_state |-> state]]
      post == [st EXCEPT !.banks[bn].cfg.op_state = state]
  IN Do(a, "ok", post, [banks |-> (bn :> [cfg |-> [op_state |-> state]])])

NextV ==
  /\ depth < MaxDepth
  /\ \/ \E d \in Ticks : Tick(d)
     \/ \E c \in RecvCases, state \in OpStates : SetOpState(c[2], state)
     \/ \E p \in Prices : SetPrice(p[1], p[2], p[3])
     \/ \E c \in RecvCases, rep \in Repays, f \in BOOLEAN : BoundaryBracket(c, rep, f)
     \/ \E c \in RecvCases, rep \in Repays, x \in FixedSeizes : Bracket(c, rep, x, FALSE)
     \/ \E t \in LiqTriples, q \in Amounts : Liquidate(t[1], t[2], t[3], t[4], q)
     \/ \E an \in Live, bn \in BankNames, amt \in Amounts : Deposit(an, bn, amt) \/ Repay(an, bn, amt, FALSE)
SpecV == Init /\ [][NextV]_vars
=============================================================================
