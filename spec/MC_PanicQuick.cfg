SPECIFICATION Spec
CONSTANTS
  TickSet = {1800, 82800}
  Groups = {"G1"}
VIEW View
INVARIANT TypeOK
INVARIANT BoundedAhead
CHECK_DEADLOCK FALSE
