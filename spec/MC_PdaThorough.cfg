SPECIFICATION Spec
CONSTANTS
  Sources = {"S1", "S2"}
  Auths = {"U1", "U2"}
  Idx = {0, 1, 65535}
  Tps = {70000, 0, 7, 9999, 10000, 10001, 10002, 11111, 65535}
  Vias = {"direct", "wrapper", "mocks"}
  Signers = {"U3", "admin", "stranger"}
  MaxDepth = 2
VIEW View
CHECK_DEADLOCK FALSE
