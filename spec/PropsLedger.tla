---------------------------- MODULE PropsLedger ----------------------------
(***************************************************************************)
(* Ledger properties over explicit state records:                          *)
(*   C01 bank solvency, C02 ledger consistency, C03 no free value,         *)
(*   C06 interest accrual, C16 account structure, C17 caps/utilization.    *)
(* References (Ref...) are exact rationals; Tol... are the derived         *)
(* rounding allowances of DESIGN.md Appendix C.  Nothing here mentions     *)
(* the implementation's rounding: only properties.                         *)
(***************************************************************************)
EXTENDS Base, FiniteSetsExt, Sequences

U == ULP                                  \* 2^-48
YEAR == ROfInt(31536000)
EPS == RMake(BOfInt(1), BOfInt(10000))    \* ZERO_AMOUNT_THRESHOLD 0.0001 (statement constant)
RInt(n) == ROfInt(n)
R(bits) == RFx(bits)

EnvOps == {"tick", "set_clock", "add_mint", "fund", "fund_vault", "set_oracle", "inject_bank", "copy_account", "reset",
           "add_solend_reserve", "set_solend_reserve", "set_transfer_fee", "set_epoch"}
IsProgramEvent(e) == e.ev \notin EnvOps

\* ---- reference quantities ------------------------------------------------------------------
RefAssets(b) == RMul(R(b.tas), R(b.asv))
RefLiabs(b) == RMul(R(b.tls), R(b.lsv))
RefFees(b) == RAdd(R(b.fee_ins), RAdd(R(b.fee_grp), R(b.fee_prog)))
VaultAmt(s, b) == IF Has(s.tok, b.vault_liq) THEN ROfBig(s.tok[b.vault_liq].amount) ELSE RZero
Slack(s, b) == RSub(VaultAmt(s, b), RAdd(RSub(RefAssets(b), RefLiabs(b)), RefFees(b)))
OwnFundsBank(b) == b.cfg.asset_tag \in {0, 1, 2}

ActiveSlots(a) == {i \in DOMAIN a.bal : a.bal[i].act = 1}
SlotsOf(a, bn) == {i \in ActiveSlots(a) : a.bal[i].bank = bn}
\* sum over an account's slots in bank bn of field f ("a" or "l"), as Big raw bits
PosBits(a, bn, f) == FoldSet(LAMBDA i, acc : BAdd(a.bal[i][f], acc), BZero, SlotsOf(a, bn))
SumPosBits(s, bn, f) == FoldSet(LAMBDA an, acc : BAdd(PosBits(s.accts[an], bn, f), acc), BZero, DOMAIN s.accts)

\* ---- tolerances ----------------------------------------------------------------------------
RMax3(a, b, c) == RMax(a, RMax(b, c))
DtOf(bpre, post) == LET d == BSub(post.clock.ts, bpre.last_update) IN IF BIsPos(d) THEN d ELSE BZero
FeeIrTotal(b, g) ==
  RAdd(R(b.cfg.ir.ins_ir), RAdd(R(b.cfg.ir.grp_ir), IF Bit(g.flags, 0) THEN R(g.fee_cache.rate) ELSE RZero))
FeeFixedTotal(b, g) ==
  RAdd(R(b.cfg.ir.ins_fixed), RAdd(R(b.cfg.ir.grp_fixed), IF Bit(g.flags, 0) THEN R(g.fee_cache.fixed) ELSE RZero))
\* upper bound on the borrow APR: base <= 10 (1000%), borrow = base(1+fee_ir)+fee_fixed
BorrowAprBound(b, g) == RAdd(RMul(RInt(10), RAdd(ROne, RAbs(FeeIrTotal(b, g)))), RAbs(FeeFixedTotal(b, g)))
TolAccrual(b, g, dt) ==
  IF BIsZero(dt) THEN RZero ELSE
  LET A == RefAssets(b) L == RefLiabs(b)
      yrs == RDiv(ROfBig(dt), YEAR)
      inner == RAdd(RMul(RInt(4), L), RAdd(RMul(RInt(11), A), RAdd(BorrowAprBound(b, g), RInt(13))))
  IN RMul(RMul(RInt(2), U),
          RAdd(RMul(yrs, inner), RAdd(L, RAdd(R(b.tls), RAdd(A, RAdd(R(b.tas), RInt(4)))))))
TolConv(bpre, bpost) ==
  RMul(RMul(RInt(8), U), RAdd(ROne, RAdd(RMax(R(bpre.asv), R(bpost.asv)), RMax(R(bpre.lsv), R(bpost.lsv)))))
\* allowance for any single program instruction on bank b (accrual + up to 8 conversions + one share-value division)
TolOp(pre, post, bn) ==
  LET b == pre.banks[bn] q == post.banks[bn] g == pre.groups[b.group] IN
  RAdd(TolAccrual(b, g, DtOf(b, post)),
       RAdd(RMul(RInt(8), TolConv(b, q)), RMul(RMul(RInt(2), U), RAdd(R(b.tas), ROne))))

\* ---- C01 -----------------------------------------------------------------------------------
\* the risk admin's token-less repay-all on a bank flagged for it (alone, or - the only way the program lets the risk admin
\* sign for somebody's account - inside a deleverage bracket)
IxsOf(e) == IF e.ev = "tx" THEN e.a.ixs ELSE <<e.a>>
IsTokenlessWriteoff(pre, e, bn) ==
  /\ Ok(e) /\ Bit(pre.banks[bn].flags, BANK_TOKENLESS_ALLOWED)
  /\ \E k \in DOMAIN IxsOf(e) :
       LET ix == IxsOf(e)[k] IN
       /\ ix.op = "repay" /\ Has(ix, "all") /\ ix.all = TRUE /\ Has(ix, "bank") /\ ix.bank = bn
       /\ Has(ix, "signer") /\ ix.signer = pre.groups[pre.banks[bn].group].risk_admin
IsWipeout(e, post, bn) == e.ev = "bankruptcy" /\ Ok(e) /\ post.banks[bn].cfg.op_state = OP_KILLED

C01(pre, e, post, line) ==
  (IsProgramEvent(e) /\ Ok(e)) =>
  \A bn \in DOMAIN post.banks :
    LET q == post.banks[bn] IN
    OwnFundsBank(q) =>
      IF ~Has(pre.banks, bn)
      THEN Chk("C01", "new_bank_is_solvent", line, RGe(Slack(post, q), RZero), [bank |-> bn])
      ELSE LET b == pre.banks[bn] IN
           (b # q \/ VaultAmt(pre, b) # VaultAmt(post, q)) =>
             \/ IsWipeout(e, post, bn)
             \/ IF IsTokenlessWriteoff(pre, e, bn)
                THEN LET written == RMul(R(BSub(b.tls, q.tls)), R(q.lsv))     \* debt that left the books (at the accrued share value)
                     IN Chk("C01", "tokenless_writeoff_bounded_by_debt", line,
                            RGe(Slack(post, q), RSub(RSub(Slack(pre, b), RAdd(written, RInt(Len(IxsOf(e))))), TolOp(pre, post, bn))), [bank |-> bn])
                ELSE Chk("C01", "vault_covers_claims", line,
                         RGe(Slack(post, q), RSub(Slack(pre, b), TolOp(pre, post, bn))),
                         [bank |-> bn, ev |-> e.ev, slack_pre_num |-> Slack(pre, b)[1], slack_pre_den |-> Slack(pre, b)[2],
                          slack_post_num |-> Slack(post, q)[1], slack_post_den |-> Slack(post, q)[2]])

\* ---- C02 -----------------------------------------------------------------------------------
ClosingOps == {"close_balance", "purge"}
\* withdraw-all / repay-all close the position as well: the side they settle is settled exactly, whatever (sub-0.0001) was left
\* on the other side of that position is abandoned with it
IsAllOp(e) == e.ev \in {"withdraw", "repay"} /\ Has(e.a, "all") /\ e.a.all = TRUE
Closes(e) == e.ev \in ClosingOps \/ IsAllOp(e)
DustSide(e, f) == e.ev \in ClosingOps \/ (IsAllOp(e) /\ ((e.ev = "withdraw" /\ f = "l") \/ (e.ev = "repay" /\ f = "a")))
C02Acc0 == [closes |-> <<>>]
DustSlots(pre, e) == IF Closes(e) /\ Ok(e) THEN 1 ELSE 0
C02AccNext(acc, pre, e, post) ==
  IF e.ev = "reset" THEN
     \* baseline: dust already abandoned in the seeded state, in units of EPS (rounded up), per bank and side
     [closes |-> [bn \in DOMAIN post.banks |->
        [a |-> RCeil(RDiv(RMul(R(BSub(post.banks[bn].tas, SumPosBits(post, bn, "a"))), R(post.banks[bn].asv)), EPS)),
         l |-> RCeil(RDiv(RMul(R(BSub(post.banks[bn].tls, SumPosBits(post, bn, "l"))), R(post.banks[bn].lsv)), EPS))]]]
  ELSE IF Closes(e) /\ Ok(e) /\ Has(e.a, "bank") /\ Has(acc.closes, e.a.bank) THEN
     [closes |-> [acc.closes EXCEPT ![e.a.bank] = [a |-> BAdd(@.a, BOne), l |-> BAdd(@.l, BOne)]]]
  ELSE IF DOMAIN post.banks # DOMAIN acc.closes THEN
     [closes |-> [bn \in DOMAIN post.banks |-> IF Has(acc.closes, bn) THEN acc.closes[bn] ELSE [a |-> BZero, l |-> BZero]]]
  ELSE acc

C02Side(pre, e, post, line, bn, tot, f) ==
  LET b == pre.banks[bn] q == post.banks[bn]
      dTot == BSub(q[tot], b[tot])
      dPos == BSub(SumPosBits(post, bn, f), SumPosBits(pre, bn, f))
      D == BSub(dTot, dPos)                \* shares added to the total but to no position (raw bits)
      sv == IF f = "a" THEN R(q.asv) ELSE R(q.lsv)
  IN IF DustSide(e, f)
     THEN Chk("C02", "close_abandons_only_dust", line,
              ~BIsNeg(D) /\ RLt(RMul(R(D), sv), EPS), [bank |-> bn, side |-> f, diff_bits |-> D])
     ELSE Chk("C02", "total_changes_by_sum_of_position_changes", line, BIsZero(D),
              [bank |-> bn, side |-> f, ev |-> e.ev, d_total_bits |-> dTot, d_positions_bits |-> dPos])

C02(pre, e, post, acc, line) ==
  /\ (IsProgramEvent(e) /\ Ok(e)) =>
       \A bn \in (DOMAIN post.banks) \cap (DOMAIN pre.banks) :
          /\ C02Side(pre, e, post, line, bn, "tas", "a")
          /\ C02Side(pre, e, post, line, bn, "tls", "l")
  /\ (IsProgramEvent(e) /\ Ok(e)) =>
       \A bn \in DOMAIN post.banks :
          LET q == post.banks[bn]
              xa == BSub(q.tas, SumPosBits(post, bn, "a"))
              xl == BSub(q.tls, SumPosBits(post, bn, "l"))
              budget == IF Has(acc.closes, bn) THEN acc.closes[bn] ELSE [a |-> BZero, l |-> BZero]
              bonus == IF Closes(e) THEN BOne ELSE BZero
          IN /\ Chk("C02", "total_at_least_sum_of_positions", line, ~BIsNeg(xa) /\ ~BIsNeg(xl), [bank |-> bn, excess_a |-> xa, excess_l |-> xl])
             /\ Chk("C02", "excess_is_only_abandoned_dust", line,
                    /\ RLe(RMul(R(xa), R(q.asv)), RMul(ROfBig(BAdd(budget.a, bonus)), EPS))
                    /\ RLe(RMul(R(xl), R(q.lsv)), RMul(ROfBig(BAdd(budget.l, bonus)), EPS)),
                    [bank |-> bn, excess_a |-> xa, excess_l |-> xl, budget_a |-> budget.a])
  /\ (e.ev = "close_bank" /\ Ok(e)) =>
       LET bn == e.a.bank b == pre.banks[bn] IN
       Chk("C02", "closed_bank_has_only_dust_positions", line,
           \A an \in DOMAIN pre.accts :
              /\ RLt(RMul(R(PosBits(pre.accts[an], bn, "a")), R(b.asv)), EPS)
              /\ RLt(RMul(R(PosBits(pre.accts[an], bn, "l")), R(b.lsv)), EPS), [bank |-> bn])

\* ---- C03 -----------------------------------------------------------------------------------
UserOps == {"deposit", "withdraw", "borrow", "repay"}
NetPos(a, bn, q) == RSub(RMul(R(PosBits(a, bn, "a")), R(q.asv)), RMul(R(PosBits(a, bn, "l")), R(q.lsv)))
TokAmt(s, t) == IF Has(s.tok, t) THEN s.tok[t].amount ELSE BZero
TokGross(s, t) == IF Has(s.tok, t) THEN BAdd(s.tok[t].amount, s.tok[t].withheld) ELSE BZero
\* all token accounts (of the bank's mint) that are not vaults of any bank: the "outside world"
OutsideTok(s, mint) ==
  {t \in DOMAIN s.tok : s.tok[t].mint = mint /\ \A bn \in DOMAIN s.banks :
        t \notin {s.banks[bn].vault_liq, s.banks[bn].vault_ins, s.banks[bn].vault_fee}}
OutsideSum(s, mint) == FoldSet(LAMBDA t, acc : BAdd(BAdd(s.tok[t].amount, s.tok[t].withheld), acc), BZero, OutsideTok(s, mint))

C03(pre, e, post, line) ==
  (e.ev \in UserOps /\ Ok(e) /\ Has(pre.banks, e.a.bank) /\ Has(pre.accts, e.a.acct)) =>
    LET bn == e.a.bank an == e.a.acct
        b == pre.banks[bn] q == post.banks[bn]
        \* what the outside world (user wallets, incl. transfer-fee withholdings there) gained in this mint
        gainTok == ROfBig(BSub(OutsideSum(post, b.mint), OutsideSum(pre, b.mint)))
        \* what the position gained, valued at the post-instruction share values on both sides
        gainPos == RSub(NetPos(post.accts[an], bn, q), NetPos(pre.accts[an], bn, q))
        gain == RAdd(gainTok, gainPos)
        isAll == Has(e.a, "all") /\ e.a.all = TRUE
        tol == IF isAll /\ e.ev = "withdraw" THEN RZero
               ELSE IF isAll THEN U
               ELSE TolConv(b, q)
    IN
    IF IsTokenlessWriteoff(pre, e, bn) THEN TRUE ELSE
    /\ Chk("C03", "no_operation_pays_more_than_it_debits", line, RLe(gain, tol),
           [ev |-> e.ev, bank |-> bn, gain_num |-> gain[1], gain_den |-> gain[2]])
    /\ (e.ev \in {"deposit", "repay"}) =>
         Chk("C03", "credit_at_most_tokens_that_reached_vault", line,
             RLe(gainPos, RAdd(ROfBig(BSub(TokAmt(post, q.vault_liq), TokAmt(pre, b.vault_liq))), tol)),
             [ev |-> e.ev, bank |-> bn])
    /\ (e.ev \in {"withdraw", "borrow"}) =>
         Chk("C03", "payout_at_most_value_removed", line,
             RLe(ROfBig(BSub(TokAmt(pre, b.vault_liq), TokAmt(post, q.vault_liq))), RAdd(RNeg(gainPos), tol)),
             [ev |-> e.ev, bank |-> bn])

\* ---- C03 on venue-backed (pass-through) banks -------------------------------------------------
\* The bank's only asset is its obligation at the venue (collateral units); positions are collateral units too
\* (share value 1, no interest).  A deposit through the venue credits no more collateral than the venue minted to
\* the obligation and takes exactly the stated tokens from the user; a withdrawal removes at least the collateral the
\* obligation lost and hands the user no more than the venue released; positions never exceed the obligation.
VenueOps == {"kamino_deposit", "kamino_withdraw", "drift_deposit", "drift_withdraw", "solend_deposit", "solend_withdraw"}
VenueDeposits == {"kamino_deposit", "drift_deposit", "solend_deposit"}
\* the venue-side vault of the bank's reserve / market
VenueVault(s, q) ==
  IF Has(s, "reserves") /\ Has(s.reserves, q.integ[1]) THEN s.reserves[q.integ[1]].vault
  ELSE IF Has(s, "markets") /\ Has(s.markets, q.integ[1]) THEN s.markets[q.integ[1]].vault ELSE "none"
C03Venue(pre, e, post, line) ==
  (e.ev \in VenueOps /\ Ok(e) /\ Has(pre.banks, e.a.bank) /\ Has(post.banks, e.a.bank) /\ Has(post, "obligations")) =>
    LET bn == e.a.bank an == e.a.acct b == pre.banks[bn] q == post.banks[bn]
        on == q.integ[2]
    IN (Has(pre.obligations, on) /\ Has(post.obligations, on) /\ Has(pre.accts, an) /\ Has(post.accts, an)) =>
       LET dObl == BSub(post.obligations[on].amount, pre.obligations[on].amount)
           dPos == R(BSub(PosBits(post.accts[an], bn, "a"), PosBits(pre.accts[an], bn, "a")))      \* in collateral units
           dTot == R(BSub(q.tas, b.tas))
           userTok == ROfBig(BSub(OutsideSum(post, b.mint), OutsideSum(pre, b.mint)))
           vaultMove == BSub(TokAmt(post, q.vault_liq), TokAmt(pre, b.vault_liq))
       IN /\ Chk("C03", "venue_position_change_matches_obligation_change", line,
                 IF e.ev \in VenueDeposits THEN RLe(dPos, ROfBig(dObl)) /\ ~BIsNeg(dObl)
                 ELSE RLe(dPos, ROfBig(dObl)) /\ ~BIsPos(dObl),
                 [ev |-> e.ev, bank |-> bn, d_obligation |-> dObl, d_position_bits |-> dPos[1]])
          /\ Chk("C03", "venue_bank_total_follows_positions", line, dTot = dPos, [ev |-> e.ev, bank |-> bn])
          /\ Chk("C03", "venue_positions_never_exceed_the_obligation", line,
                 RLe(RMul(R(q.tas), R(q.asv)), ROfBig(post.obligations[on].amount)), [bank |-> bn, obligation |-> post.obligations[on].amount])
          /\ Chk("C03", "pass_through_vault_keeps_nothing", line, BIsZero(vaultMove), [bank |-> bn, moved |-> vaultMove])
          \* tokens only move between the user and the venue's supply vault (both are "outside" the program): none appear or vanish
          /\ Chk("C03", "venue_tokens_only_move_between_user_and_venue", line, RIsZero(userTok), [bank |-> bn, ev |-> e.ev])
          /\ (e.ev \in VenueDeposits /\ VenueVault(post, q) # "none" /\ Has(pre.tok, VenueVault(post, q))) =>
               LET v == VenueVault(post, q) IN
               Chk("C03", "venue_deposit_forwards_exactly_the_stated_tokens", line,
                   BSub(TokAmt(post, v), TokAmt(pre, v)) = e.amt, [bank |-> bn, vault |-> v])

\* ---- reference interest curve (exact rationals) ---------------------------------------------
U32MAX == BSub(BPow2(32), BOne)
RRate(r) == RMul(RMake(r, U32MAX), RInt(10))
RUtil(u) == RMake(u, U32MAX)
RLerp(x0, y0, x1, y1, x) == IF RLe(x1, x0) THEN y0 ELSE RAdd(y0, RMul(RSub(y1, y0), RDiv(RSub(x, x0), RSub(x1, x0))))
RECURSIVE RCurveWalk(_, _, _, _, _, _)
RCurveWalk(pts, i, px, py, hundred, ur) ==
  IF i > Len(pts) THEN RLerp(px, py, ROne, hundred, ur)
  ELSE IF BIsZero(pts[i][1]) THEN RCurveWalk(pts, i + 1, px, py, hundred, ur)
  ELSE LET x == RUtil(pts[i][1]) y == RRate(pts[i][2]) IN
       IF RLe(ur, x) THEN RLerp(px, py, x, y, ur) ELSE RCurveWalk(pts, i + 1, x, y, hundred, ur)
RefBaseRate(ir, ur0) ==
  LET ur == RMax(RZero, RMin(ROne, ur0)) IN
  IF ir.curve_type = 1 THEN RCurveWalk(ir.points, 1, RZero, RRate(ir.zero), RRate(ir.hundred), ur)
  ELSE LET opt == R(ir.opt_util) pl == R(ir.plateau) mx == R(ir.max_rate) IN
       IF RLe(ur0, opt) THEN RMul(RDiv(ur0, opt), pl)
       ELSE RAdd(RMul(RDiv(RSub(ur0, opt), RSub(ROne, opt)), RSub(mx, pl)), pl)

\* ---- C06 -----------------------------------------------------------------------------------
AccruingOps == {"deposit", "withdraw", "borrow", "repay", "liquidate", "bankruptcy", "close_balance"}
BanksOfEvent(e) ==
  IF e.ev = "liquidate" THEN {e.a.asset_bank, e.a.liab_bank}
  ELSE IF Has(e.a, "bank") THEN {e.a.bank} ELSE {}

C06(pre, e, post, line) ==
  /\ (IsProgramEvent(e) /\ Ok(e)) =>
       \A bn \in (DOMAIN post.banks) \cap (DOMAIN pre.banks) :
         LET b == pre.banks[bn] q == post.banks[bn] IN
         (b # q) =>
         /\ Chk("C06", "liability_share_value_never_decreases", line, BLe(b.lsv, q.lsv), [bank |-> bn, ev |-> e.ev])
         /\ (e.ev # "bankruptcy") =>
              Chk("C06", "asset_share_value_never_decreases", line, BLe(b.asv, q.asv), [bank |-> bn, ev |-> e.ev])
         /\ (e.ev # "collect_fees") =>   \* collect_fees empties the buckets
              Chk("C06", "fees_never_negative", line,
                  BLe(b.fee_ins, q.fee_ins) /\ BLe(b.fee_grp, q.fee_grp) /\ BLe(b.fee_prog, q.fee_prog), [bank |-> bn, ev |-> e.ev])
  /\ (e.ev = "accrue" /\ Ok(e) /\ Has(pre.banks, e.a.bank)) =>
       LET bn == e.a.bank b == pre.banks[bn] q == post.banks[bn] g == pre.groups[b.group]
           dt == DtOf(b, post)
           dL == RSub(RefLiabs(q), RefLiabs(b))
           dA == RSub(RefAssets(q), RefAssets(b))
           dF == RSub(RefFees(q), RefFees(b))
           resid == RSub(dL, RAdd(dA, dF))
           tol == TolAccrual(b, g, dt)
       IN /\ Chk("C06", "accrual_conserves_value", line, RLe(RAbs(resid), tol),
                 [bank |-> bn, resid_num |-> resid[1], resid_den |-> resid[2], tol_num |-> tol[1], tol_den |-> tol[2]])
          /\ Chk("C06", "program_fee_zero_when_disabled", line, Bit(g.flags, 0) \/ q.fee_prog = b.fee_prog, [bank |-> bn])
          /\ Chk("C06", "accrue_twice_same_time_is_noop", line,
                 BIsZero(dt) => (q.asv = b.asv /\ q.lsv = b.lsv /\ q.fee_ins = b.fee_ins /\ q.fee_grp = b.fee_grp /\ q.fee_prog = b.fee_prog
                                 /\ q.tas = b.tas /\ q.tls = b.tls), [bank |-> bn])
          /\ Chk("C06", "only_share_values_and_fees_move", line, q.tas = b.tas /\ q.tls = b.tls, [bank |-> bn])
  /\ (e.ev \in (AccruingOps \cup {"accrue"}) /\ Ok(e)) =>
       \A bn \in BanksOfEvent(e) :
         (Has(pre.banks, bn) /\ Has(post.banks, bn)) =>
         LET b == pre.banks[bn] q == post.banks[bn] g == pre.groups[b.group]
             dt == DtOf(b, post)
             A == RefAssets(b) L == RefLiabs(b)
             noop == (b = q)            \* e.g. an up-to-limit deposit of zero: nothing transacted
         IN (~noop /\ BIsPos(dt)) =>
            /\ Chk("C06", "interest_brought_up_to_now", line, q.last_update = post.clock.ts,
                   [bank |-> bn, ev |-> e.ev, last_update |-> q.last_update, now |-> post.clock.ts])
            /\ (RGe(A, ROne) /\ RGe(L, ROne) /\ FeeIrTotal(b, g) = RAbs(FeeIrTotal(b, g)) /\ FeeFixedTotal(b, g) = RAbs(FeeFixedTotal(b, g))
                /\ b.cfg.ir.curve_type = 1) =>
                 LET ur == RDiv(L, A)
                     delta == RMul(RMul(RInt(4), U), RAdd(ROne, ur))
                     base0 == RSub(RefBaseRate(b.cfg.ir, RSub(ur, delta)), RMul(RInt(64), U))
                     base == RMax(RZero, base0)
                     yrs == RDiv(ROfBig(dt), YEAR)
                     \* lower bounds on the share values after accrual (fees only push the borrow side up)
                     lendLo == RMul(R(b.asv), RAdd(ROne, RMul(RMul(base, RMin(ur, ROne)), yrs)))
                     borrLo == RMul(R(b.lsv), RAdd(ROne, RMul(base, yrs)))
                     tolv == RMul(RMul(RInt(16), U), RAdd(ROne, RAdd(R(b.asv), R(b.lsv))))
                     tolv2 == RAdd(tolv, RMul(RMul(RInt(8), U), RMul(yrs, RAdd(R(b.asv), R(b.lsv)))))
                 IN (e.ev # "bankruptcy") =>
                    /\ Chk("C06", "elapsed_interest_not_skipped_liabilities", line, RGe(R(q.lsv), RSub(borrLo, tolv2)),
                           [bank |-> bn, ev |-> e.ev])
                    /\ Chk("C06", "elapsed_interest_not_skipped_assets", line, RGe(R(q.asv), RSub(lendLo, tolv2)),
                           [bank |-> bn, ev |-> e.ev])

\* ---- C16 -----------------------------------------------------------------------------------
DefaultLike(t) == t \in {0, 3, 4, 5}
Integration(t) == t \in {3, 4, 5}
FONE == FOne
AcctStructOK(a) ==
  LET S == ActiveSlots(a) IN
  /\ \A i \in S, j \in S : (i # j) => a.bal[i].bank # a.bal[j].bank
  /\ \A i \in S : ~(BGe(a.bal[i].a, FONE) /\ BGe(a.bal[i].l, FONE))
  /\ \A i \in S, j \in S : (i < j) => BGt(a.bal[i].key, a.bal[j].key)
  /\ ~((\E i \in S : a.bal[i].tag = 2) /\ (\E i \in S : DefaultLike(a.bal[i].tag)))
  /\ Cardinality({i \in S : Integration(a.bal[i].tag)}) <= 8
  /\ Cardinality(S) <= 16

BalanceOps == {"deposit", "withdraw", "borrow", "repay"}
AllEmpty(a) == \A i \in ActiveSlots(a) : BLt(a.bal[i].a, FONE) /\ BLt(a.bal[i].l, FONE)

C16(pre, e, post, line) ==
  /\ (IsProgramEvent(e) /\ Ok(e)) =>
       \A an \in DOMAIN post.accts :
         (~Has(pre.accts, an) \/ pre.accts[an] # post.accts[an]) =>
           /\ Chk("C16", "account_structure", line, AcctStructOK(post.accts[an]), [acct |-> an, ev |-> e.ev])
           /\ Has(pre.accts, an) =>
                Chk("C16", "position_keeps_its_tag", line,
                    \A i \in ActiveSlots(pre.accts[an]), j \in ActiveSlots(post.accts[an]) :
                       (pre.accts[an].bal[i].bank = post.accts[an].bal[j].bank /\ e.ev \notin {"close_balance", "purge"}
                        /\ ~(Has(e.a, "all") /\ e.a.all = TRUE)) =>
                          pre.accts[an].bal[i].tag = post.accts[an].bal[j].tag, [acct |-> an])
  /\ (e.ev = "close_account" /\ Ok(e)) =>
       LET a == pre.accts[e.a.acct] IN
       Chk("C16", "closed_only_when_empty_and_unencumbered", line,
           AllEmpty(a) /\ ~Bit(a.flags, ACC_DISABLED) /\ ~Bit(a.flags, ACC_FROZEN) /\ ~Bit(a.flags, ACC_FLASHLOAN)
           /\ ~Bit(a.flags, ACC_RECEIVERSHIP), [acct |-> e.a.acct, flags |-> a.flags])
  /\ (e.ev \in (BalanceOps \cup {"start_fl"}) /\ Has(e.a, "acct") /\ Has(pre.accts, e.a.acct) /\ Bit(pre.accts[e.a.acct].flags, ACC_DISABLED)) =>
       Chk("C16", "disabled_account_cannot_transact", line, ~Ok(e), [acct |-> e.a.acct, ev |-> e.ev])
  /\ (e.ev = "transfer_account" /\ Ok(e)) =>
       LET o == pre.accts[e.a.acct] o2 == post.accts[e.a.acct] n == post.accts[e.a.new_acct] IN
       /\ Chk("C16", "transfer_moves_all_positions_once", line,
              /\ ~Has(pre.accts, e.a.new_acct)
              /\ o.mig_to = "none"                              \* "once": an account that already migrated cannot migrate again
              /\ (Bit(o.flags, ACC_DISABLED) => Bit(n.flags, ACC_DISABLED))   \* a bankrupt account stays disabled across the move
              /\ n.bal = o.bal /\ ActiveSlots(o2) = {}
              /\ o2.mig_to = e.a.new_acct /\ n.mig_from = e.a.acct
              /\ Bit(o2.flags, ACC_DISABLED) /\ n.group = o.group, [acct |-> e.a.acct])

\* ---- C17 -----------------------------------------------------------------------------------
U64MAXB == BSub(BPow2(64), BOne)
C17(pre, e, post, line) ==
  (e.ev \in {"deposit", "borrow", "withdraw"} /\ Has(pre.banks, e.a.bank) /\ Has(pre.accts, e.a.acct)) =>
    LET bn == e.a.bank b == pre.banks[bn] q == post.banks[bn] IN
    /\ (e.ev = "deposit" /\ Ok(e) /\ q.cfg.deposit_limit # U64MAXB /\ BGt(q.tas, b.tas)) =>
         Chk("C17", "deposits_below_deposit_limit", line, RLt(RefAssets(q), ROfBig(q.cfg.deposit_limit)),
             [bank |-> bn, limit |-> q.cfg.deposit_limit])
    /\ (e.ev = "borrow" /\ Ok(e) /\ q.cfg.borrow_limit # U64MAXB /\ BGt(q.tls, b.tls)) =>
         Chk("C17", "debt_below_borrow_limit", line, RLt(RefLiabs(q), ROfBig(q.cfg.borrow_limit)),
             [bank |-> bn, limit |-> q.cfg.borrow_limit])
    /\ (e.ev \in {"borrow", "withdraw"} /\ Ok(e)) =>
         Chk("C17", "deposits_cover_debt", line, RGe(RAdd(RefAssets(q), RMul(RInt(2), U)), RefLiabs(q)), [bank |-> bn, ev |-> e.ev])
    /\ (e.ev = "deposit" /\ Has(e.a, "up_to_limit") /\ e.a.up_to_limit = TRUE) =>
         /\ Chk("C17", "up_to_limit_never_fails_for_capacity", line, e.err # "BankAssetCapacityExceeded", [bank |-> bn, err |-> e.err])
         \* ... under whatever error name: with less than one token of room left under the limit (no interest pending, so the
         \* recorded totals are what the handler measured) the deposit is cut down to nothing, it does not fail
         /\ (~Ok(e) /\ b.cfg.deposit_limit # U64MAXB /\ b.last_update = pre.clock.ts /\ RLt(RefAssets(b), ROfBig(b.cfg.deposit_limit))
             /\ RGt(RAdd(RefAssets(b), ROne), ROfBig(b.cfg.deposit_limit))) =>
              Chk("C17", "up_to_limit_succeeds_with_less_than_a_token_of_room", line, e.err \notin {"MathError", "BankAssetCapacityExceeded"},
                  [bank |-> bn, err |-> e.err, limit |-> b.cfg.deposit_limit])
         /\ Ok(e) => Chk("C17", "up_to_limit_deposits_at_most_requested", line,
                RLe(RSub(NetPos(post.accts[e.a.acct], bn, q), NetPos(pre.accts[e.a.acct], bn, q)), RAdd(ROfBig(e.amt), TolConv(b, q))),
                [bank |-> bn])
=============================================================================
