//! Abstract actions (JSON) -> real transactions through `marginfi::entry`; recording of events.
use crate::env::{fee_state_key, pda, Env, OracleInfo, OracleKind};
use crate::num::{big_i, parse_fx, parse_i128, parse_u64};
use crate::proj;
use crate::rt::IxErr;
use anchor_lang::{InstructionData, ToAccountMetas};
use fixed::types::I80F48;
use marginfi::{accounts as ac, instruction as ix};
use marginfi_type_crate::constants as tc;
use marginfi_type_crate::types::{
    Bank, BankConfigCompact, BankConfigOpt, BankOperationalState, EmodeEntry, InterestRateConfigCompact,
    InterestRateConfigOpt, MarginfiAccount, MarginfiGroup, OracleSetup, RatePoint, RiskTier, WrappedI80F48,
};
use serde_json::{json, Map, Value};
use solana_program::{
    instruction::{AccountMeta, Instruction},
    pubkey::Pubkey,
    system_program,
};
use std::collections::{BTreeMap, BTreeSet};

pub struct Exec {
    pub env: Env,
    pub last: Map<String, Value>,
    pub n: u64,
    pub record_full_first: bool,
}

#[derive(Default)]
pub struct TxCtx {
    pub add: BTreeMap<String, BTreeSet<Pubkey>>,
    pub rm: BTreeMap<String, BTreeSet<Pubkey>>,
}

fn s<'a>(a: &'a Value, k: &str) -> Option<&'a str> {
    a.get(k).and_then(|v| v.as_str())
}
fn sreq<'a>(a: &'a Value, k: &str) -> Result<&'a str, String> {
    s(a, k).ok_or_else(|| format!("missing string field {}", k))
}
fn u64f(a: &Value, k: &str) -> Result<u64, String> {
    a.get(k).and_then(parse_u64).ok_or_else(|| format!("missing u64 field {}", k))
}
fn u64o(a: &Value, k: &str) -> Option<u64> {
    a.get(k).and_then(parse_u64)
}
fn boolo(a: &Value, k: &str) -> Option<bool> {
    a.get(k).and_then(|v| v.as_bool())
}
fn fxo(a: &Value, k: &str) -> Option<WrappedI80F48> {
    a.get(k).and_then(parse_fx).map(WrappedI80F48::from)
}
fn fxd(a: &Value, k: &str, d: I80F48) -> WrappedI80F48 {
    fxo(a, k).unwrap_or_else(|| d.into())
}

fn zc<T: bytemuck::Pod>(data: &[u8]) -> Option<T> {
    let sz = std::mem::size_of::<T>();
    if data.len() < 8 + sz {
        return None;
    }
    Some(bytemuck::pod_read_unaligned::<T>(&data[8..8 + sz]))
}

fn risk_tier(v: u64) -> RiskTier {
    if v == 1 {
        RiskTier::Isolated
    } else {
        RiskTier::Collateral
    }
}
fn op_state(v: u64) -> BankOperationalState {
    match v {
        0 => BankOperationalState::Paused,
        1 => BankOperationalState::Operational,
        2 => BankOperationalState::ReduceOnly,
        _ => BankOperationalState::KilledByBankruptcy,
    }
}

fn points(a: &Value) -> Option<[RatePoint; 5]> {
    let arr = a.as_array()?;
    let mut out = [RatePoint::default(); 5];
    for (i, p) in arr.iter().take(5).enumerate() {
        let pa = p.as_array()?;
        out[i] = RatePoint::new(parse_u64(&pa[0])? as u32, parse_u64(&pa[1])? as u32);
    }
    Some(out)
}

fn ir_compact(a: Option<&Value>) -> InterestRateConfigCompact {
    let e = json!({});
    let a = a.unwrap_or(&e);
    InterestRateConfigCompact {
        insurance_fee_fixed_apr: fxd(a, "ins_fixed", I80F48::ZERO),
        insurance_ir_fee: fxd(a, "ins_ir", I80F48::ZERO),
        protocol_fixed_fee_apr: fxd(a, "grp_fixed", I80F48::ZERO),
        protocol_ir_fee: fxd(a, "grp_ir", I80F48::ZERO),
        protocol_origination_fee: fxd(a, "orig_fee", I80F48::ZERO),
        zero_util_rate: u64o(a, "zero").unwrap_or(0) as u32,
        hundred_util_rate: u64o(a, "hundred").unwrap_or(429_496_729) as u32, // 100% APR
        points: a.get("points").and_then(points).unwrap_or_else(|| {
            // default: single kink at 80% util / 10% APR
            let mut p = [RatePoint::default(); 5];
            p[0] = RatePoint::new(3_435_973_836, 42_949_672);
            p
        }),
    }
}

fn ir_opt(a: &Value) -> InterestRateConfigOpt {
    InterestRateConfigOpt {
        insurance_fee_fixed_apr: fxo(a, "ins_fixed"),
        insurance_ir_fee: fxo(a, "ins_ir"),
        protocol_fixed_fee_apr: fxo(a, "grp_fixed"),
        protocol_ir_fee: fxo(a, "grp_ir"),
        protocol_origination_fee: fxo(a, "orig_fee"),
        zero_util_rate: u64o(a, "zero").map(|x| x as u32),
        hundred_util_rate: u64o(a, "hundred").map(|x| x as u32),
        points: a.get("points").and_then(points),
    }
}

fn bank_compact(a: &Value) -> BankConfigCompact {
    BankConfigCompact {
        asset_weight_init: fxd(a, "aw_init", I80F48::from_num(0.8)),
        asset_weight_maint: fxd(a, "aw_maint", I80F48::from_num(0.9)),
        liability_weight_init: fxd(a, "lw_init", I80F48::from_num(1.25)),
        liability_weight_maint: fxd(a, "lw_maint", I80F48::from_num(1.125)),
        deposit_limit: u64o(a, "deposit_limit").unwrap_or(u64::MAX),
        interest_rate_config: ir_compact(a.get("ir")),
        operational_state: op_state(u64o(a, "op_state").unwrap_or(1)),
        borrow_limit: u64o(a, "borrow_limit").unwrap_or(u64::MAX),
        risk_tier: risk_tier(u64o(a, "risk_tier").unwrap_or(0)),
        asset_tag: u64o(a, "asset_tag").unwrap_or(0) as u8,
        config_flags: u64o(a, "config_flags").unwrap_or(1) as u8,
        _pad0: [0; 5],
        total_asset_value_init_limit: u64o(a, "init_limit").unwrap_or(0),
        oracle_max_age: u64o(a, "oracle_max_age").unwrap_or(100) as u16,
        oracle_max_confidence: u64o(a, "oracle_max_conf").unwrap_or(0) as u32,
    }
}

fn bank_opt(a: &Value) -> BankConfigOpt {
    BankConfigOpt {
        asset_weight_init: fxo(a, "aw_init"),
        asset_weight_maint: fxo(a, "aw_maint"),
        liability_weight_init: fxo(a, "lw_init"),
        liability_weight_maint: fxo(a, "lw_maint"),
        deposit_limit: u64o(a, "deposit_limit"),
        borrow_limit: u64o(a, "borrow_limit"),
        operational_state: u64o(a, "op_state").map(op_state),
        interest_rate_config: a.get("ir").map(ir_opt),
        risk_tier: u64o(a, "risk_tier").map(risk_tier),
        asset_tag: u64o(a, "asset_tag").map(|x| x as u8),
        total_asset_value_init_limit: u64o(a, "init_limit"),
        oracle_max_confidence: u64o(a, "oracle_max_conf").map(|x| x as u32),
        oracle_max_age: u64o(a, "oracle_max_age").map(|x| x as u16),
        permissionless_bad_debt_settlement: boolo(a, "permissionless_bad_debt"),
        freeze_settings: boolo(a, "freeze"),
        tokenless_repayments_allowed: boolo(a, "tokenless_allowed"),
    }
}

pub type Built = (Instruction, Vec<Pubkey>);

/// Symbolic error name: MarginfiError variant names for 6000.., "A<code>" for Anchor framework
/// errors, "panic", "builtin:<..>", "runtime:<..>", "build" otherwise.
pub fn err_name(code: i64, label: &str) -> String {
    if (6000..7000).contains(&code) {
        let m = marginfi::errors::MarginfiError::from(code as u32);
        if u32::from(m) == code as u32 {
            return format!("{:?}", m);
        }
        return format!("E{}", code);
    }
    if code >= 0 && label.starts_with("custom:") {
        return format!("A{}", code);
    }
    if label.starts_with("panic") {
        return "panic".into();
    }
    if label.starts_with("build") {
        return "build".into();
    }
    if code == -4000 {
        return label.to_string();
    }
    label.to_string()
}

impl Exec {
    pub fn new() -> Exec {
        let env = Env::new();
        let last = proj::project(&env);
        Exec { env, last, n: 0, record_full_first: true }
    }

    pub fn snapshot(&self) -> (Env, Map<String, Value>, u64) {
        (self.env.clone(), self.last.clone(), self.n)
    }
    pub fn restore(&mut self, s: &(Env, Map<String, Value>, u64)) {
        self.env = s.0.clone();
        self.last = s.1.clone();
        self.n = s.2;
    }

    fn k(&mut self, n: &str) -> Pubkey {
        self.env.k(n)
    }
    pub fn bank(&mut self, name: &str) -> Result<Bank, String> {
        let k = self.k(name);
        let a = self.env.world.get(&k).ok_or(format!("no bank {}", name))?;
        zc::<Bank>(&a.data).ok_or(format!("bad bank {}", name))
    }
    pub fn macct(&mut self, name: &str) -> Result<MarginfiAccount, String> {
        let k = self.k(name);
        let a = self.env.world.get(&k).ok_or(format!("no account {}", name))?;
        zc::<MarginfiAccount>(&a.data).ok_or(format!("bad account {}", name))
    }
    pub fn group(&mut self, name: &str) -> Result<MarginfiGroup, String> {
        let k = self.k(name);
        let a = self.env.world.get(&k).ok_or(format!("no group {}", name))?;
        zc::<MarginfiGroup>(&a.data).ok_or(format!("bad group {}", name))
    }
    fn mint_name_of_bank(&mut self, bank: &str) -> Result<String, String> {
        let b = self.bank(bank)?;
        Ok(self.env.names.name(&b.mint))
    }
    /// user's token account for a mint (created on demand, named "<user>.<mint>")
    pub fn user_tok(&mut self, user: &str, mint: &str) -> Pubkey {
        let owner = self.env.wallet(user);
        let nm = format!("{}.{}", user, mint);
        self.env.token_account(&nm, mint, owner)
    }

    /// `sub`: {"bank": "oracle name"} replaces oracle slot 0; `slots`: {"bank": {"1": name, "2": name}} replaces any slot
    fn oracle_metas_for_bank(&mut self, b: &Bank, sub: Option<&Value>, slots: Option<&Value>, bank_name: &str) -> Vec<AccountMeta> {
        let n = match b.config.oracle_setup {
            OracleSetup::Fixed | OracleSetup::None => 0,
            OracleSetup::PythPushOracle | OracleSetup::SwitchboardPull => 1,
            OracleSetup::StakedWithPythPush => 3,
            _ => 2,
        };
        let mut v = vec![];
        for i in 0..n {
            let mut key = b.config.oracle_keys[i];
            if i == 0 {
                if let Some(o) = sub.and_then(|m| m.get(bank_name)).and_then(|x| x.as_str()) {
                    if o == "omit" {
                        continue;
                    }
                    key = self.k(o);
                }
            }
            if let Some(o) = slots.and_then(|m| m.get(bank_name)).and_then(|x| x.get(i.to_string())).and_then(|x| x.as_str()) {
                if o == "omit" {
                    continue;
                }
                key = self.k(o);
            }
            v.push(AccountMeta::new_readonly(key, false));
        }
        v
    }

    /// remaining accounts the risk engine expects for `acct` (bank, oracle...) in descending bank key order
    fn risk_metas(&mut self, acct: &str, add: &[Pubkey], remove: &[Pubkey], ctx: &TxCtx, a: &Value) -> Result<Vec<AccountMeta>, String> {
        if let Some(r) = a.get("rem").and_then(|x| x.as_array()) {
            // explicit override: list of names
            let names: Vec<String> = r.iter().filter_map(|x| x.as_str().map(|s| s.to_string())).collect();
            return Ok(names.iter().map(|n| AccountMeta::new_readonly(self.k(n), false)).collect());
        }
        let ma = self.macct(acct)?;
        let mut set: BTreeSet<Pubkey> = ma.lending_account.balances.iter().filter(|b| b.active != 0).map(|b| b.bank_pk).collect();
        if let Some(x) = ctx.add.get(acct) {
            set.extend(x.iter().copied());
        }
        set.extend(add.iter().copied());
        if let Some(x) = ctx.rm.get(acct) {
            for k in x {
                set.remove(k);
            }
        }
        for k in remove {
            set.remove(k);
        }
        let mut keys: Vec<Pubkey> = set.into_iter().collect();
        keys.sort_by(|x, y| y.cmp(x));
        // "rem_perm": {acct: [i0, i1, ...]} presents the account's banks in another order (a client trying orders)
        if let Some(pm) = a.get("rem_perm").and_then(|m| m.get(acct)).and_then(|x| x.as_array()) {
            let idx: Vec<usize> = pm.iter().filter_map(|x| x.as_u64().map(|v| v as usize)).collect();
            // (any list of valid indices: a bank may be presented twice or left out)
            if !idx.is_empty() && idx.iter().all(|&i| i < keys.len()) {
                keys = idx.iter().map(|&i| keys[i]).collect();
            }
        }
        let mut out = vec![];
        let sub = a.get("oracle_sub").cloned();
        for k in keys {
            let bn = self.env.names.name(&k);
            out.push(AccountMeta::new_readonly(k, false));
            if let Ok(b) = self.bank(&bn) {
                out.extend(self.oracle_metas_for_bank(&b, sub.as_ref(), a.get("oracle_sub_slots"), &bn));
            }
        }
        Ok(out)
    }

    fn mint_meta(&mut self, b: &Bank) -> Vec<AccountMeta> {
        let prog = self.env.mint_by_key(&b.mint).map(|m| m.program).unwrap_or(spl_token::ID);
        if prog == spl_token_2022::ID {
            vec![AccountMeta::new_readonly(b.mint, false)]
        } else {
            vec![]
        }
    }
    fn token_prog(&mut self, b: &Bank) -> Pubkey {
        self.env.mint_by_key(&b.mint).map(|m| m.program).unwrap_or(spl_token::ID)
    }

    fn authority_of(&mut self, acct: &str, a: &Value) -> Result<Pubkey, String> {
        if let Some(sg) = s(a, "signer") {
            return Ok(self.env.wallet(sg));
        }
        let ma = self.macct(acct)?;
        Ok(ma.authority)
    }

    fn group_of_bank(&mut self, bank: &str) -> Result<Pubkey, String> {
        Ok(self.bank(bank)?.group)
    }

    fn admin_signer(&mut self, a: &Value, default: Pubkey) -> Pubkey {
        match s(a, "signer") {
            Some(sg) => self.env.wallet(sg),
            None => default,
        }
    }

    /// Build one program instruction from an abstract action.
    pub fn build(&mut self, a: &Value, ctx: &mut TxCtx) -> Result<Built, String> {
        let op = sreq(a, "op")?;
        let mut signers: Vec<Pubkey> = vec![];
        let (mut metas, data): (Vec<AccountMeta>, Vec<u8>) = match op {
            // ------------------------------------------------------------------ user
            "deposit" | "repay" => {
                let acct = sreq(a, "acct")?;
                let bank = sreq(a, "bank")?;
                let b = self.bank(bank)?;
                let auth = self.authority_of(acct, a)?;
                let auth_name = self.env.names.name(&auth);
                let mint = self.mint_name_of_bank(bank)?;
                let src = match s(a, "src") {
                    Some(n) => self.k(n),
                    None => self.user_tok(&auth_name, &mint),
                };
                signers.push(auth);
                let amount = u64f(a, "amount")?;
                let tp = self.token_prog(&b);
                if op == "deposit" {
                    let mut m = ac::LendingAccountDeposit {
                        group: b.group,
                        marginfi_account: self.k(acct),
                        authority: auth,
                        bank: self.k(bank),
                        signer_token_account: src,
                        liquidity_vault: b.liquidity_vault,
                        token_program: tp,
                    }
                    .to_account_metas(None);
                    m.extend(self.mint_meta(&b));
                    ctx.add.entry(acct.into()).or_default().insert(self.k(bank));
                    (m, ix::LendingAccountDeposit { amount, deposit_up_to_limit: boolo(a, "up_to_limit") }.data())
                } else {
                    let mut m = ac::LendingAccountRepay {
                        group: b.group,
                        marginfi_account: self.k(acct),
                        authority: auth,
                        bank: self.k(bank),
                        signer_token_account: src,
                        liquidity_vault: b.liquidity_vault,
                        token_program: tp,
                    }
                    .to_account_metas(None);
                    m.extend(self.mint_meta(&b));
                    let all = boolo(a, "all");
                    if all == Some(true) {
                        ctx.rm.entry(acct.into()).or_default().insert(self.k(bank));
                    }
                    (m, ix::LendingAccountRepay { amount, repay_all: all }.data())
                }
            }
            "withdraw" | "borrow" => {
                let acct = sreq(a, "acct")?;
                let bank = sreq(a, "bank")?;
                let b = self.bank(bank)?;
                let bk = self.k(bank);
                let auth = self.authority_of(acct, a)?;
                let auth_name = self.env.names.name(&auth);
                let mint = self.mint_name_of_bank(bank)?;
                let dst = match s(a, "dst") {
                    Some(n) => self.k(n),
                    None => self.user_tok(&auth_name, &mint),
                };
                signers.push(auth);
                let amount = u64f(a, "amount")?;
                let tp = self.token_prog(&b);
                let lva = pda(tc::LIQUIDITY_VAULT_AUTHORITY_SEED, &bk);
                if op == "withdraw" {
                    let all = boolo(a, "all");
                    let mut m = ac::LendingAccountWithdraw {
                        group: b.group,
                        marginfi_account: self.k(acct),
                        authority: auth,
                        bank: bk,
                        destination_token_account: dst,
                        bank_liquidity_vault_authority: lva,
                        liquidity_vault: b.liquidity_vault,
                        token_program: tp,
                    }
                    .to_account_metas(None);
                    m.extend(self.mint_meta(&b));
                    let rm: Vec<Pubkey> = if all == Some(true) { vec![bk] } else { vec![] };
                    m.extend(self.risk_metas(acct, &[], &rm, ctx, a)?);
                    if all == Some(true) {
                        ctx.rm.entry(acct.into()).or_default().insert(bk);
                    }
                    (m, ix::LendingAccountWithdraw { amount, withdraw_all: all }.data())
                } else {
                    let mut m = ac::LendingAccountBorrow {
                        group: b.group,
                        marginfi_account: self.k(acct),
                        authority: auth,
                        bank: bk,
                        destination_token_account: dst,
                        bank_liquidity_vault_authority: lva,
                        liquidity_vault: b.liquidity_vault,
                        token_program: tp,
                    }
                    .to_account_metas(None);
                    m.extend(self.mint_meta(&b));
                    m.extend(self.risk_metas(acct, &[bk], &[], ctx, a)?);
                    ctx.add.entry(acct.into()).or_default().insert(bk);
                    (m, ix::LendingAccountBorrow { amount }.data())
                }
            }
            "liquidate" => {
                let liqor = sreq(a, "liquidator")?;
                let liqee = sreq(a, "liquidatee")?;
                let ab = sreq(a, "asset_bank")?;
                let lb = sreq(a, "liab_bank")?;
                let abk = self.k(ab);
                let lbk = self.k(lb);
                let abank = self.bank(ab)?;
                let lbank = self.bank(lb)?;
                let auth = self.authority_of(liqor, a)?;
                signers.push(auth);
                let tp = self.token_prog(&lbank);
                let mut m = ac::LendingAccountLiquidate {
                    group: lbank.group,
                    asset_bank: abk,
                    liab_bank: lbk,
                    liquidator_marginfi_account: self.k(liqor),
                    authority: auth,
                    liquidatee_marginfi_account: self.k(liqee),
                    bank_liquidity_vault_authority: pda(tc::LIQUIDITY_VAULT_AUTHORITY_SEED, &lbk),
                    bank_liquidity_vault: lbank.liquidity_vault,
                    bank_insurance_vault: lbank.insurance_vault,
                    token_program: tp,
                }
                .to_account_metas(None);
                m.extend(self.mint_meta(&lbank));
                let sub = a.get("oracle_sub").cloned();
                m.extend(self.oracle_metas_for_bank(&abank, sub.as_ref(), a.get("oracle_sub_slots"), ab));
                m.extend(self.oracle_metas_for_bank(&lbank, sub.as_ref(), a.get("oracle_sub_slots"), lb));
                let r1 = self.risk_metas(liqor, &[abk, lbk], &[], ctx, a)?;
                let r2 = self.risk_metas(liqee, &[], &[], ctx, a)?;
                let (n1, n2) = (r1.len() as u8, r2.len() as u8);
                m.extend(r1);
                m.extend(r2);
                ctx.add.entry(liqor.into()).or_default().insert(abk);
                ctx.add.entry(liqor.into()).or_default().insert(lbk);
                (
                    m,
                    ix::LendingAccountLiquidate {
                        asset_amount: u64f(a, "amount")?,
                        liquidatee_accounts: u64o(a, "liquidatee_accounts").map(|x| x as u8).unwrap_or(n2),
                        liquidator_accounts: u64o(a, "liquidator_accounts").map(|x| x as u8).unwrap_or(n1),
                    }
                    .data(),
                )
            }
            "bankruptcy" => {
                let acct = sreq(a, "acct")?;
                let bank = sreq(a, "bank")?;
                let b = self.bank(bank)?;
                let bk = self.k(bank);
                let g = self.group(&self.env.names.name(&b.group))?;
                let signer = self.admin_signer(a, g.admin);
                signers.push(signer);
                let tp = self.token_prog(&b);
                let mut m = ac::LendingPoolHandleBankruptcy {
                    group: b.group,
                    signer,
                    bank: bk,
                    marginfi_account: self.k(acct),
                    liquidity_vault: b.liquidity_vault,
                    insurance_vault: b.insurance_vault,
                    insurance_vault_authority: pda(tc::INSURANCE_VAULT_AUTHORITY_SEED, &bk),
                    token_program: tp,
                }
                .to_account_metas(None);
                m.extend(self.mint_meta(&b));
                m.extend(self.risk_metas(acct, &[], &[], ctx, a)?);
                (m, ix::LendingPoolHandleBankruptcy {}.data())
            }
            "close_balance" => {
                let acct = sreq(a, "acct")?;
                let bank = sreq(a, "bank")?;
                let b = self.bank(bank)?;
                let auth = self.authority_of(acct, a)?;
                signers.push(auth);
                ctx.rm.entry(acct.into()).or_default().insert(self.k(bank));
                (
                    ac::LendingAccountCloseBalance { group: b.group, marginfi_account: self.k(acct), authority: auth, bank: self.k(bank) }
                        .to_account_metas(None),
                    ix::LendingAccountCloseBalance {}.data(),
                )
            }
            "accrue" => {
                let bank = sreq(a, "bank")?;
                let b = self.bank(bank)?;
                (
                    ac::LendingPoolAccrueBankInterest { group: b.group, bank: self.k(bank) }.to_account_metas(None),
                    ix::LendingPoolAccrueBankInterest {}.data(),
                )
            }
            "collect_fees" => {
                let bank = sreq(a, "bank")?;
                let b = self.bank(bank)?;
                let bk = self.k(bank);
                let g = self.group(&self.env.names.name(&b.group))?;
                let mint = self.mint_name_of_bank(bank)?;
                // program fees go to the token account of the wallet named by the global fee state ("fee_ata_of": "cache" presents
                // the one of the wallet the group has cached instead, which differs after a rotation nobody propagated yet)
                let fee_ata = match s(a, "fee_ata") {
                    Some(n) => self.k(n),
                    None => {
                        let w = if s(a, "fee_ata_of") == Some("cache") { g.fee_state_cache.global_fee_wallet } else { self.fee_state()?.global_fee_wallet };
                        self.env.ata(w, &mint)
                    }
                };
                let tp = self.token_prog(&b);
                let mut m = ac::LendingPoolCollectBankFees {
                    group: b.group,
                    bank: bk,
                    liquidity_vault_authority: pda(tc::LIQUIDITY_VAULT_AUTHORITY_SEED, &bk),
                    liquidity_vault: b.liquidity_vault,
                    insurance_vault: b.insurance_vault,
                    fee_vault: b.fee_vault,
                    fee_state: fee_state_key(),
                    fee_ata,
                    token_program: tp,
                }
                .to_account_metas(None);
                m.extend(self.mint_meta(&b));
                (m, ix::LendingPoolCollectBankFees {}.data())
            }
            "withdraw_fees" | "withdraw_insurance" => {
                let bank = sreq(a, "bank")?;
                let b = self.bank(bank)?;
                let bk = self.k(bank);
                let g = self.group(&self.env.names.name(&b.group))?;
                let admin = self.admin_signer(a, g.admin);
                signers.push(admin);
                let mint = self.mint_name_of_bank(bank)?;
                let admin_name = self.env.names.name(&admin);
                let dst = match s(a, "dst") {
                    Some(n) => self.k(n),
                    None => self.user_tok(&admin_name, &mint),
                };
                let tp = self.token_prog(&b);
                let amount = u64f(a, "amount")?;
                if op == "withdraw_fees" {
                    let mut m = ac::LendingPoolWithdrawFees {
                        group: b.group,
                        bank: bk,
                        admin,
                        fee_vault: b.fee_vault,
                        fee_vault_authority: pda(tc::FEE_VAULT_AUTHORITY_SEED, &bk),
                        dst_token_account: dst,
                        token_program: tp,
                    }
                    .to_account_metas(None);
                    m.extend(self.mint_meta(&b));
                    (m, ix::LendingPoolWithdrawFees { amount }.data())
                } else {
                    let mut m = ac::LendingPoolWithdrawInsurance {
                        group: b.group,
                        bank: bk,
                        admin,
                        insurance_vault: b.insurance_vault,
                        insurance_vault_authority: pda(tc::INSURANCE_VAULT_AUTHORITY_SEED, &bk),
                        dst_token_account: dst,
                        token_program: tp,
                    }
                    .to_account_metas(None);
                    m.extend(self.mint_meta(&b));
                    (m, ix::LendingPoolWithdrawInsurance { amount }.data())
                }
            }
            "withdraw_fees_perm" => {
                let bank = sreq(a, "bank")?;
                let b = self.bank(bank)?;
                let bk = self.k(bank);
                let dst = match s(a, "dst") {
                    Some(n) => self.k(n),
                    None => b.fees_destination_account,
                };
                let tp = self.token_prog(&b);
                let mut m = ac::LendingPoolWithdrawFeesPermissionless {
                    group: b.group,
                    bank: bk,
                    fee_vault: b.fee_vault,
                    fee_vault_authority: pda(tc::FEE_VAULT_AUTHORITY_SEED, &bk),
                    fees_destination_account: dst,
                    token_program: tp,
                }
                .to_account_metas(None);
                m.extend(self.mint_meta(&b));
                (m, ix::LendingPoolWithdrawFeesPermissionless { amount: u64f(a, "amount")? }.data())
            }
            "update_fees_dest" => {
                let bank = sreq(a, "bank")?;
                let b = self.bank(bank)?;
                let g = self.group(&self.env.names.name(&b.group))?;
                let admin = self.admin_signer(a, g.admin);
                signers.push(admin);
                let dst = self.k(sreq(a, "dst")?);
                (
                    ac::LendingPoolUpdateFeesDestinationAccount { group: b.group, bank: self.k(bank), admin, destination_account: dst }
                        .to_account_metas(None),
                    ix::LendingPoolUpdateFeesDestinationAccount {}.data(),
                )
            }
            "start_fl" => {
                let acct = sreq(a, "acct")?;
                let auth = self.authority_of(acct, a)?;
                signers.push(auth);
                (
                    ac::LendingAccountStartFlashloan {
                        marginfi_account: self.k(acct),
                        authority: auth,
                        ixs_sysvar: solana_program::sysvar::instructions::ID,
                    }
                    .to_account_metas(None),
                    // ("end_index_wide": a decimal string, for arguments beyond the 32-bit integers of the model checker)
                    ix::LendingAccountStartFlashloan {
                        end_index: match s(a, "end_index_wide") {
                            Some(w) => w.parse::<u64>().map_err(|_| "end_index_wide".to_string())?,
                            None => u64f(a, "end_index")?,
                        },
                    }
                    .data(),
                )
            }
            "end_fl" => {
                let acct = sreq(a, "acct")?;
                let auth = self.authority_of(acct, a)?;
                signers.push(auth);
                let mut m = ac::LendingAccountEndFlashloan { marginfi_account: self.k(acct), authority: auth }.to_account_metas(None);
                m.extend(self.risk_metas(acct, &[], &[], ctx, a)?);
                (m, ix::LendingAccountEndFlashloan {}.data())
            }
            "init_liq_record" => {
                let acct = sreq(a, "acct")?;
                let ak = self.k(acct);
                let payer = self.env.wallet(s(a, "signer").unwrap_or("payer"));
                signers.push(payer);
                let rec = pda(tc::LIQUIDATION_RECORD_SEED, &ak);
                self.env.names.reg(&format!("{}.rec", acct), rec);
                (
                    ac::InitLiquidationRecord { marginfi_account: ak, fee_payer: payer, liquidation_record: rec, system_program: system_program::ID }
                        .to_account_metas(None),
                    ix::MarginfiAccountInitLiqRecord {}.data(),
                )
            }
            "start_liq" => {
                let acct = sreq(a, "acct")?;
                let ak = self.k(acct);
                let recv = self.env.wallet(s(a, "receiver").unwrap_or("liquidator"));
                let rec = match s(a, "record") {
                    Some(n) => self.k(n),
                    None => pda(tc::LIQUIDATION_RECORD_SEED, &ak),
                };
                let mut m = ac::StartLiquidation {
                    marginfi_account: ak,
                    liquidation_record: rec,
                    liquidation_receiver: recv,
                    instruction_sysvar: solana_program::sysvar::instructions::ID,
                }
                .to_account_metas(None);
                m.extend(self.risk_metas(acct, &[], &[], ctx, a)?);
                (m, ix::StartLiquidation {}.data())
            }
            "end_liq" => {
                let acct = sreq(a, "acct")?;
                let ak = self.k(acct);
                let recv = self.env.wallet(s(a, "receiver").unwrap_or("liquidator"));
                signers.push(recv);
                let rec = match s(a, "record") {
                    Some(n) => self.k(n),
                    None => pda(tc::LIQUIDATION_RECORD_SEED, &ak),
                };
                let fs = self.fee_state()?;
                let mut m = ac::EndLiquidation {
                    marginfi_account: ak,
                    liquidation_record: rec,
                    liquidation_receiver: recv,
                    fee_state: fee_state_key(),
                    global_fee_wallet: fs.global_fee_wallet,
                    system_program: system_program::ID,
                }
                .to_account_metas(None);
                m.extend(self.risk_metas(acct, &[], &[], ctx, a)?);
                (m, ix::EndLiquidation {}.data())
            }
            "start_delev" | "end_delev" => {
                let acct = sreq(a, "acct")?;
                let ak = self.k(acct);
                let ma = self.macct(acct)?;
                let g = self.group(&self.env.names.name(&ma.group))?;
                let ra = self.admin_signer(a, g.risk_admin);
                signers.push(ra);
                let rec = pda(tc::LIQUIDATION_RECORD_SEED, &ak);
                if op == "start_delev" {
                    let mut m = ac::StartDeleverage {
                        marginfi_account: ak,
                        liquidation_record: rec,
                        group: ma.group,
                        risk_admin: ra,
                        instruction_sysvar: solana_program::sysvar::instructions::ID,
                    }
                    .to_account_metas(None);
                    m.extend(self.risk_metas(acct, &[], &[], ctx, a)?);
                    (m, ix::StartDeleverage {}.data())
                } else {
                    let mut m = ac::EndDeleverage { marginfi_account: ak, liquidation_record: rec, group: ma.group, risk_admin: ra }
                        .to_account_metas(None);
                    m.extend(self.risk_metas(acct, &[], &[], ctx, a)?);
                    (m, ix::EndDeleverage {}.data())
                }
            }
            "purge" => {
                let acct = sreq(a, "acct")?;
                let bank = sreq(a, "bank")?;
                let b = self.bank(bank)?;
                let g = self.group(&self.env.names.name(&b.group))?;
                let ra = self.admin_signer(a, g.risk_admin);
                signers.push(ra);
                ctx.rm.entry(acct.into()).or_default().insert(self.k(bank));
                (
                    ac::LendingAccountPurgeDelevBalance { group: b.group, marginfi_account: self.k(acct), risk_admin: ra, bank: self.k(bank) }
                        .to_account_metas(None),
                    ix::PurgeDeleverageBalance {}.data(),
                )
            }
            "init_account" => {
                let acct = sreq(a, "acct")?;
                let group = sreq(a, "group")?;
                let auth = self.env.wallet(sreq(a, "authority")?);
                let payer = self.env.wallet("payer");
                if let Some(pd) = a.get("pda") {
                    // PDA-derived account: seeds (group, authority, index, third-party id); the id may be gated to a calling program
                    let idx = u64o(pd, "index").unwrap_or(0) as u16;
                    let tp = u64o(pd, "third_party").map(|x| x as u16);
                    let gk = self.k(group);
                    let ak = Pubkey::find_program_address(
                        &[tc::MARGINFI_ACCOUNT_SEED.as_bytes(), gk.as_ref(), auth.as_ref(), &idx.to_le_bytes(), &tp.unwrap_or(0).to_le_bytes()],
                        &marginfi::ID,
                    )
                    .0;
                    self.env.names.reg(acct, ak);
                    signers.extend([auth, payer]);
                    let m = ac::MarginfiAccountInitializePda {
                        marginfi_group: gk,
                        marginfi_account: ak,
                        authority: auth,
                        fee_payer: payer,
                        instructions_sysvar: solana_program::sysvar::instructions::ID,
                        system_program: system_program::ID,
                    }
                    .to_account_metas(None);
                    (m, ix::MarginfiAccountInitializePda { account_index: idx, third_party_id: tp }.data())
                } else {
                    let ak = self.k(acct);
                    signers.extend([ak, auth, payer]);
                    (
                        ac::MarginfiAccountInitialize {
                            marginfi_group: self.k(group),
                            marginfi_account: ak,
                            authority: auth,
                            fee_payer: payer,
                            system_program: system_program::ID,
                        }
                        .to_account_metas(None),
                        ix::MarginfiAccountInitialize {}.data(),
                    )
                }
            }
            "close_account" => {
                let acct = sreq(a, "acct")?;
                let auth = self.authority_of(acct, a)?;
                let payer = self.env.wallet("payer");
                signers.extend([auth, payer]);
                (
                    ac::MarginfiAccountClose { marginfi_account: self.k(acct), authority: auth, fee_payer: payer }.to_account_metas(None),
                    ix::MarginfiAccountClose {}.data(),
                )
            }
            "transfer_account" => {
                let acct = sreq(a, "acct")?;
                let new = sreq(a, "new_acct")?;
                let ma = self.macct(acct)?;
                let g = self.group(&self.env.names.name(&ma.group))?;
                let auth = self.authority_of(acct, a)?;
                let payer = self.env.wallet("payer");
                let nk = self.k(new);
                let new_auth = self.env.wallet(sreq(a, "new_authority")?);
                if let Some(pd) = a.get("pda") {
                    let idx = u64o(pd, "index").unwrap_or(0) as u16;
                    let tp = u64o(pd, "third_party").map(|x| x as u16);
                    let nk = Pubkey::find_program_address(
                        &[tc::MARGINFI_ACCOUNT_SEED.as_bytes(), ma.group.as_ref(), new_auth.as_ref(), &idx.to_le_bytes(), &tp.unwrap_or(0).to_le_bytes()],
                        &marginfi::ID,
                    )
                    .0;
                    self.env.names.reg(new, nk);
                    signers.extend([auth, payer]);
                    let m = ac::TransferToNewAccountPda {
                        group: ma.group,
                        old_marginfi_account: self.k(acct),
                        new_marginfi_account: nk,
                        authority: auth,
                        fee_payer: payer,
                        new_authority: new_auth,
                        global_fee_wallet: g.fee_state_cache.global_fee_wallet,
                        instructions_sysvar: solana_program::sysvar::instructions::ID,
                        system_program: system_program::ID,
                    }
                    .to_account_metas(None);
                    (m, ix::TransferToNewAccountPda { account_index: idx, third_party_id: tp }.data())
                } else {
                    signers.extend([auth, payer, nk]);
                    (
                        ac::TransferToNewAccount {
                            group: ma.group,
                            old_marginfi_account: self.k(acct),
                            new_marginfi_account: nk,
                            authority: auth,
                            fee_payer: payer,
                            new_authority: new_auth,
                            global_fee_wallet: g.fee_state_cache.global_fee_wallet,
                            system_program: system_program::ID,
                        }
                        .to_account_metas(None),
                        ix::TransferToNewAccount {}.data(),
                    )
                }
            }
            "freeze" => {
                let acct = sreq(a, "acct")?;
                let ma = self.macct(acct)?;
                let g = self.group(&self.env.names.name(&ma.group))?;
                let admin = self.admin_signer(a, g.admin);
                signers.push(admin);
                (
                    ac::SetAccountFreeze { group: ma.group, marginfi_account: self.k(acct), admin }.to_account_metas(None),
                    ix::MarginfiAccountSetFreeze { frozen: boolo(a, "frozen").unwrap_or(true) }.data(),
                )
            }
            "pulse_health" => {
                let acct = sreq(a, "acct")?;
                let mut m = ac::PulseHealth { marginfi_account: self.k(acct) }.to_account_metas(None);
                m.extend(self.risk_metas(acct, &[], &[], ctx, a)?);
                (m, ix::LendingAccountPulseHealth {}.data())
            }
            "pulse_price" => {
                let bank = sreq(a, "bank")?;
                let b = self.bank(bank)?;
                let mut m = ac::LendingPoolPulseBankPriceCache { group: b.group, bank: self.k(bank) }.to_account_metas(None);
                let sub = a.get("oracle_sub").cloned();
                m.extend(self.oracle_metas_for_bank(&b, sub.as_ref(), a.get("oracle_sub_slots"), bank));
                (m, ix::LendingPoolPulseBankPriceCache {}.data())
            }
            // ------------------------------------------------------------------ emissions
            "setup_emissions" | "update_emissions" => {
                let bank = sreq(a, "bank")?;
                let b = self.bank(bank)?;
                let bk = self.k(bank);
                let g = self.group(&self.env.names.name(&b.group))?;
                let admin = self.admin_signer(a, g.delegate_emissions_admin);
                signers.push(admin);
                let mint_name = sreq(a, "mint")?.to_string();
                let mint = self.env.mints.get(&mint_name).ok_or("no mint")?.clone();
                let admin_name = self.env.names.name(&admin);
                let funding = self.user_tok(&admin_name, &mint_name);
                let auth = Pubkey::find_program_address(&[tc::EMISSIONS_AUTH_SEED.as_bytes(), bk.as_ref(), mint.key.as_ref()], &marginfi::ID).0;
                let vault =
                    Pubkey::find_program_address(&[tc::EMISSIONS_TOKEN_ACCOUNT_SEED.as_bytes(), bk.as_ref(), mint.key.as_ref()], &marginfi::ID).0;
                self.env.names.reg(&format!("{}.emis_vault.{}", bank, mint_name), vault);
                self.env.names.reg(&format!("{}.emis_auth.{}", bank, mint_name), auth);
                if op == "setup_emissions" {
                    (
                        ac::LendingPoolSetupEmissions {
                            group: b.group,
                            delegate_emissions_admin: admin,
                            bank: bk,
                            emissions_mint: mint.key,
                            emissions_auth: auth,
                            emissions_token_account: vault,
                            emissions_funding_account: funding,
                            token_program: mint.program,
                            system_program: system_program::ID,
                        }
                        .to_account_metas(None),
                        ix::LendingPoolSetupEmissions { flags: u64f(a, "flags")?, rate: u64f(a, "rate")?, total_emissions: u64f(a, "total")? }.data(),
                    )
                } else {
                    (
                        ac::LendingPoolUpdateEmissionsParameters {
                            group: b.group,
                            delegate_emissions_admin: admin,
                            bank: bk,
                            emissions_mint: mint.key,
                            emissions_token_account: vault,
                            emissions_funding_account: funding,
                            token_program: mint.program,
                        }
                        .to_account_metas(None),
                        ix::LendingPoolUpdateEmissionsParameters {
                            emissions_flags: u64o(a, "flags"),
                            emissions_rate: u64o(a, "rate"),
                            additional_emissions: u64o(a, "additional"),
                        }
                        .data(),
                    )
                }
            }
            "settle_emissions" => {
                let acct = sreq(a, "acct")?;
                let bank = sreq(a, "bank")?;
                (
                    ac::LendingAccountSettleEmissions { marginfi_account: self.k(acct), bank: self.k(bank) }.to_account_metas(None),
                    ix::LendingAccountSettleEmissions {}.data(),
                )
            }
            "withdraw_emissions" | "withdraw_emissions_perm" => {
                let acct = sreq(a, "acct")?;
                let bank = sreq(a, "bank")?;
                let b = self.bank(bank)?;
                let bk = self.k(bank);
                let mint = self.env.mint_by_key(&b.emissions_mint).cloned().ok_or("no emissions mint")?;
                let mint_name = self.env.names.name(&mint.key);
                let auth_pda = Pubkey::find_program_address(&[tc::EMISSIONS_AUTH_SEED.as_bytes(), bk.as_ref(), mint.key.as_ref()], &marginfi::ID).0;
                let vault =
                    Pubkey::find_program_address(&[tc::EMISSIONS_TOKEN_ACCOUNT_SEED.as_bytes(), bk.as_ref(), mint.key.as_ref()], &marginfi::ID).0;
                if op == "withdraw_emissions" {
                    let auth = self.authority_of(acct, a)?;
                    signers.push(auth);
                    let auth_name = self.env.names.name(&auth);
                    let dst = match s(a, "dst") {
                        Some(n) => self.k(n),
                        None => self.user_tok(&auth_name, &mint_name),
                    };
                    (
                        ac::LendingAccountWithdrawEmissions {
                            group: b.group,
                            marginfi_account: self.k(acct),
                            authority: auth,
                            bank: bk,
                            emissions_mint: mint.key,
                            emissions_auth: auth_pda,
                            emissions_vault: vault,
                            destination_account: dst,
                            token_program: mint.program,
                        }
                        .to_account_metas(None),
                        ix::LendingAccountWithdrawEmissions {}.data(),
                    )
                } else {
                    let ma = self.macct(acct)?;
                    let dst = match s(a, "dst") {
                        Some(n) => self.k(n),
                        None => self.env.ata(ma.emissions_destination_account, &mint_name),
                    };
                    (
                        ac::LendingAccountWithdrawEmissionsPermissionless {
                            group: b.group,
                            marginfi_account: self.k(acct),
                            bank: bk,
                            emissions_mint: mint.key,
                            emissions_auth: auth_pda,
                            emissions_vault: vault,
                            destination_account: dst,
                            token_program: mint.program,
                        }
                        .to_account_metas(None),
                        ix::LendingAccountWithdrawEmissionsPermissionless {}.data(),
                    )
                }
            }
            "update_emis_dest" => {
                let acct = sreq(a, "acct")?;
                let auth = self.authority_of(acct, a)?;
                signers.push(auth);
                let dst = self.env.wallet(sreq(a, "dst")?);
                (
                    ac::MarginfiAccountUpdateEmissionsDestinationAccount { marginfi_account: self.k(acct), authority: auth, destination_account: dst }
                        .to_account_metas(None),
                    ix::MarginfiAccountUpdateEmissionsDestinationAccount {}.data(),
                )
            }
            // ------------------------------------------------------------------ global fee state / panic
            "init_fee_state" | "edit_fee_state" => {
                let admin_new = self.env.wallet(s(a, "admin").unwrap_or("feeadmin"));
                let wallet = self.env.wallet(s(a, "wallet").unwrap_or("feewallet"));
                let bank_fee = u64o(a, "bank_init_fee").unwrap_or(0) as u32;
                let liq_fee = u64o(a, "liq_flat_fee").unwrap_or(0) as u32;
                let pf = fxd(a, "prog_fixed", I80F48::ZERO);
                let pr = fxd(a, "prog_rate", I80F48::ZERO);
                let lm = fxd(a, "liq_max_fee", I80F48::from_num(0.05));
                if op == "init_fee_state" {
                    let payer = self.env.wallet("payer");
                    signers.push(payer);
                    (
                        ac::InitFeeState { payer, fee_state: fee_state_key(), system_program: system_program::ID }.to_account_metas(None),
                        ix::InitGlobalFeeState {
                            admin: admin_new,
                            fee_wallet: wallet,
                            bank_init_flat_sol_fee: bank_fee,
                            liquidation_flat_sol_fee: liq_fee,
                            program_fee_fixed: pf,
                            program_fee_rate: pr,
                            liquidation_max_fee: lm,
                        }
                        .data(),
                    )
                } else {
                    let fs = self.fee_state()?;
                    let signer = self.admin_signer(a, fs.global_fee_admin);
                    signers.push(signer);
                    (
                        ac::EditFeeState { global_fee_admin: signer, fee_state: fee_state_key() }.to_account_metas(None),
                        ix::EditGlobalFeeState {
                            admin: admin_new,
                            fee_wallet: wallet,
                            bank_init_flat_sol_fee: bank_fee,
                            liquidation_flat_sol_fee: liq_fee,
                            program_fee_fixed: pf,
                            program_fee_rate: pr,
                            liquidation_max_fee: lm,
                        }
                        .data(),
                    )
                }
            }
            "config_group_fee" => {
                let group = sreq(a, "group")?;
                let fs = self.fee_state()?;
                let signer = self.admin_signer(a, fs.global_fee_admin);
                signers.push(signer);
                (
                    ac::ConfigGroupFee { marginfi_group: self.k(group), global_fee_admin: signer, fee_state: fee_state_key() }.to_account_metas(None),
                    ix::ConfigGroupFee { enable_program_fee: boolo(a, "enable").unwrap_or(true) }.data(),
                )
            }
            "propagate_fee" => {
                let group = sreq(a, "group")?;
                (
                    ac::PropagateFee { fee_state: fee_state_key(), marginfi_group: self.k(group) }.to_account_metas(None),
                    ix::PropagateFeeState {}.data(),
                )
            }
            "panic_pause" | "panic_unpause" => {
                let fs = self.fee_state()?;
                let signer = self.admin_signer(a, fs.global_fee_admin);
                signers.push(signer);
                if op == "panic_pause" {
                    (ac::PanicPause { global_fee_admin: signer, fee_state: fee_state_key() }.to_account_metas(None), ix::PanicPause {}.data())
                } else {
                    (ac::PanicUnpause { global_fee_admin: signer, fee_state: fee_state_key() }.to_account_metas(None), ix::PanicUnpause {}.data())
                }
            }
            "panic_unpause_perm" => (
                ac::PanicUnpausePermissionless { fee_state: fee_state_key() }.to_account_metas(None),
                ix::PanicUnpausePermissionless {}.data(),
            ),
            // ------------------------------------------------------------------ group / bank admin
            "init_group" => {
                let group = sreq(a, "group")?;
                let gk = self.k(group);
                let admin = self.env.wallet(s(a, "admin").unwrap_or("admin"));
                signers.extend([gk, admin]);
                (
                    ac::MarginfiGroupInitialize { marginfi_group: gk, admin, fee_state: fee_state_key(), system_program: system_program::ID }
                        .to_account_metas(None),
                    ix::MarginfiGroupInitialize {}.data(),
                )
            }
            "config_group" => {
                let group = sreq(a, "group")?;
                let g = self.group(group)?;
                let signer = self.admin_signer(a, g.admin);
                signers.push(signer);
                let role = |me: &mut Exec, key: &str, cur: Pubkey| -> Pubkey {
                    match s(a, key) {
                        Some(n) => me.env.wallet(n),
                        None => cur,
                    }
                };
                let data = ix::MarginfiGroupConfigure {
                    new_admin: role(self, "admin", g.admin),
                    new_emode_admin: role(self, "emode_admin", g.emode_admin),
                    new_curve_admin: role(self, "curve_admin", g.delegate_curve_admin),
                    new_limit_admin: role(self, "limit_admin", g.delegate_limit_admin),
                    new_emissions_admin: role(self, "emissions_admin", g.delegate_emissions_admin),
                    new_metadata_admin: role(self, "metadata_admin", g.metadata_admin),
                    new_risk_admin: role(self, "risk_admin", g.risk_admin),
                    emode_max_init_leverage: fxo(a, "emode_max_init"),
                    emode_max_maint_leverage: fxo(a, "emode_max_maint"),
                }
                .data();
                (ac::MarginfiGroupConfigure { marginfi_group: self.k(group), admin: signer }.to_account_metas(None), data)
            }
            // ------------------------------------------------------------------ Kamino (stand-in venue, see venue.rs)
            "add_bank_kamino" => {
                let group = sreq(a, "group")?;
                let bank = sreq(a, "bank")?;
                let rname = sreq(a, "reserve")?.to_string();
                let ri = self.env.reserves.get(&rname).ok_or("no reserve")?.clone();
                let mint_name = s(a, "mint").map(|x| x.to_string()).unwrap_or(ri.mint_name.clone());
                let mint = self.env.mints.get(&mint_name).ok_or("no mint")?.clone();
                let g = self.group(group)?;
                let admin = self.admin_signer(a, g.admin);
                let payer = self.env.wallet("payer");
                signers.extend([admin, payer]);
                let gk = self.k(group);
                let sd = u64o(a, "seed").unwrap_or(0);
                let bk = Pubkey::find_program_address(&[gk.as_ref(), mint.key.as_ref(), &sd.to_le_bytes()], &marginfi::ID).0;
                self.env.names.reg(bank, bk);
                for (nm, seed_s) in [
                    ("liq", tc::LIQUIDITY_VAULT_SEED),
                    ("ins", tc::INSURANCE_VAULT_SEED),
                    ("fee", tc::FEE_VAULT_SEED),
                    ("liq_auth", tc::LIQUIDITY_VAULT_AUTHORITY_SEED),
                    ("ins_auth", tc::INSURANCE_VAULT_AUTHORITY_SEED),
                    ("fee_auth", tc::FEE_VAULT_AUTHORITY_SEED),
                ] {
                    self.env.names.reg(&format!("{}.{}", bank, nm), pda(seed_s, &bk));
                }
                let lva = pda(tc::LIQUIDITY_VAULT_AUTHORITY_SEED, &bk);
                let reserve_key = s(a, "reserve_acct").map(|n| self.k(n)).unwrap_or(ri.reserve);
                let market = s(a, "market").map(|n| self.k(n)).unwrap_or(ri.market);
                let obligation = Pubkey::find_program_address(
                    &[&[0u8], &[0u8], lva.as_ref(), market.as_ref(), system_program::ID.as_ref(), system_program::ID.as_ref()],
                    &marginfi::constants::KAMINO_PROGRAM_ID,
                )
                .0;
                let obligation = s(a, "obligation").map(|n| self.k(n)).unwrap_or(obligation);
                self.env.names.reg(&format!("{}.obl", bank), obligation);
                let oracle = self.k(s(a, "oracle").unwrap_or("none"));
                let cfg = a.get("cfg").cloned().unwrap_or(json!({}));
                let setup = match u64o(a, "setup").unwrap_or(6) {
                    7 => OracleSetup::KaminoSwitchboardPull,
                    3 => OracleSetup::PythPushOracle,
                    _ => OracleSetup::KaminoPythPush,
                };
                let bank_config = marginfi::state::kamino::KaminoConfigCompact {
                    oracle,
                    asset_weight_init: fxd(&cfg, "aw_init", I80F48::from_num(0.8)),
                    asset_weight_maint: fxd(&cfg, "aw_maint", I80F48::from_num(0.9)),
                    deposit_limit: u64o(&cfg, "deposit_limit").unwrap_or(u64::MAX),
                    oracle_setup: setup,
                    operational_state: op_state(u64o(&cfg, "op_state").unwrap_or(1)),
                    risk_tier: risk_tier(u64o(&cfg, "risk_tier").unwrap_or(0)),
                    config_flags: 1,
                    total_asset_value_init_limit: u64o(&cfg, "init_limit").unwrap_or(0),
                    oracle_max_age: u64o(&cfg, "oracle_max_age").unwrap_or(100) as u16,
                    oracle_max_confidence: u64o(&cfg, "oracle_max_conf").unwrap_or(0) as u32,
                };
                let mut m = ac::LendingPoolAddBankKamino {
                    group: gk,
                    admin,
                    fee_payer: payer,
                    bank_mint: mint.key,
                    bank: bk,
                    integration_acc_1: reserve_key,
                    integration_acc_2: obligation,
                    liquidity_vault_authority: lva,
                    liquidity_vault: pda(tc::LIQUIDITY_VAULT_SEED, &bk),
                    insurance_vault_authority: pda(tc::INSURANCE_VAULT_AUTHORITY_SEED, &bk),
                    insurance_vault: pda(tc::INSURANCE_VAULT_SEED, &bk),
                    fee_vault_authority: pda(tc::FEE_VAULT_AUTHORITY_SEED, &bk),
                    fee_vault: pda(tc::FEE_VAULT_SEED, &bk),
                    token_program: mint.program,
                    system_program: system_program::ID,
                }
                .to_account_metas(None);
                m.push(AccountMeta::new_readonly(oracle, false));
                m.push(AccountMeta::new_readonly(reserve_key, false));
                (m, ix::LendingPoolAddBankKamino { bank_config, bank_seed: sd }.data())
            }
            "kamino_init_obligation" | "kamino_deposit" | "kamino_withdraw" => {
                let bank = sreq(a, "bank")?;
                let b = self.bank(bank)?;
                let bk = self.k(bank);
                let rname = self.env.names.name(&b.integration_acc_1);
                let ri = self.env.reserves.get(&rname).ok_or("bank has no known reserve")?.clone();
                let mint = self.env.mint_by_key(&b.mint).cloned().ok_or("no mint")?;
                let mint_name = self.env.names.name(&mint.key);
                let lva = pda(tc::LIQUIDITY_VAULT_AUTHORITY_SEED, &bk);
                let cmint = self.k(&format!("{}.cmint", rname));
                let csupply = self.k(&format!("{}.csupply", rname));
                let umeta = self.k(&format!("{}.umeta", rname));
                let kamino = marginfi::constants::KAMINO_PROGRAM_ID;
                let farms = marginfi::constants::FARMS_PROGRAM_ID;
                let sysixs = solana_program::sysvar::instructions::ID;
                // substitutable venue accounts
                let reserve = s(a, "reserve_acct").map(|n| self.k(n)).unwrap_or(b.integration_acc_1);
                let obligation = s(a, "obligation").map(|n| self.k(n)).unwrap_or(b.integration_acc_2);
                let supply_vault = s(a, "supply_vault").map(|n| self.k(n)).unwrap_or(ri.supply_vault);
                let amount = u64f(a, "amount")?;
                if op == "kamino_init_obligation" {
                    let payer_name = s(a, "signer").unwrap_or("payer").to_string();
                    let payer = self.env.wallet(&payer_name);
                    signers.push(payer);
                    let src = self.user_tok(&payer_name, &mint_name);
                    (
                        ac::KaminoInitObligation {
                            fee_payer: payer,
                            bank: bk,
                            signer_token_account: src,
                            liquidity_vault_authority: lva,
                            liquidity_vault: b.liquidity_vault,
                            integration_acc_2: obligation,
                            user_metadata: umeta,
                            lending_market: ri.market,
                            lending_market_authority: ri.lma,
                            integration_acc_1: reserve,
                            mint: mint.key,
                            reserve_liquidity_supply: supply_vault,
                            reserve_collateral_mint: cmint,
                            reserve_destination_deposit_collateral: csupply,
                            pyth_oracle: None,
                            switchboard_price_oracle: None,
                            switchboard_twap_oracle: None,
                            scope_prices: None,
                            obligation_farm_user_state: None,
                            reserve_farm_state: None,
                            kamino_program: kamino,
                            farms_program: farms,
                            collateral_token_program: spl_token::ID,
                            liquidity_token_program: mint.program,
                            instruction_sysvar_account: sysixs,
                            rent: solana_program::sysvar::rent::ID,
                            system_program: system_program::ID,
                        }
                        .to_account_metas(None),
                        ix::KaminoInitObligation { amount }.data(),
                    )
                } else {
                    let acct = sreq(a, "acct")?;
                    let auth = self.authority_of(acct, a)?;
                    let auth_name = self.env.names.name(&auth);
                    signers.push(auth);
                    let tok = match s(a, if op == "kamino_deposit" { "src" } else { "dst" }) {
                        Some(n) => self.k(n),
                        None => self.user_tok(&auth_name, &mint_name),
                    };
                    if op == "kamino_deposit" {
                        let m = ac::KaminoDeposit {
                            group: b.group,
                            marginfi_account: self.k(acct),
                            authority: auth,
                            bank: bk,
                            signer_token_account: tok,
                            liquidity_vault_authority: lva,
                            liquidity_vault: b.liquidity_vault,
                            integration_acc_2: obligation,
                            lending_market: ri.market,
                            lending_market_authority: ri.lma,
                            integration_acc_1: reserve,
                            mint: mint.key,
                            reserve_liquidity_supply: supply_vault,
                            reserve_collateral_mint: cmint,
                            reserve_destination_deposit_collateral: csupply,
                            obligation_farm_user_state: None,
                            reserve_farm_state: None,
                            kamino_program: kamino,
                            farms_program: farms,
                            collateral_token_program: spl_token::ID,
                            liquidity_token_program: mint.program,
                            instruction_sysvar_account: sysixs,
                        }
                        .to_account_metas(None);
                        ctx.add.entry(acct.into()).or_default().insert(bk);
                        (m, ix::KaminoDeposit { amount }.data())
                    } else {
                        let all = boolo(a, "all");
                        let mut m = ac::KaminoWithdraw {
                            group: b.group,
                            marginfi_account: self.k(acct),
                            authority: auth,
                            bank: bk,
                            destination_token_account: tok,
                            liquidity_vault_authority: lva,
                            liquidity_vault: b.liquidity_vault,
                            integration_acc_2: obligation,
                            lending_market: ri.market,
                            lending_market_authority: ri.lma,
                            integration_acc_1: reserve,
                            reserve_liquidity_mint: mint.key,
                            reserve_liquidity_supply: supply_vault,
                            reserve_collateral_mint: cmint,
                            reserve_source_collateral: csupply,
                            obligation_farm_user_state: None,
                            reserve_farm_state: None,
                            kamino_program: kamino,
                            farms_program: farms,
                            collateral_token_program: spl_token::ID,
                            liquidity_token_program: mint.program,
                            instruction_sysvar_account: sysixs,
                        }
                        .to_account_metas(None);
                        let rm: Vec<Pubkey> = if all == Some(true) { vec![bk] } else { vec![] };
                        m.extend(self.risk_metas(acct, &[], &rm, ctx, a)?);
                        if all == Some(true) {
                            ctx.rm.entry(acct.into()).or_default().insert(bk);
                        }
                        (m, ix::KaminoWithdraw { amount, withdraw_all: all }.data())
                    }
                }
            }
            // ------------------------------------------------------------------ Solend (stand-in venue, see venue.rs)
            "add_bank_solend" => {
                let group = sreq(a, "group")?;
                let bank = sreq(a, "bank")?;
                let rname = sreq(a, "reserve")?.to_string();
                let ri = self.env.sreserves.get(&rname).ok_or("no reserve")?.clone();
                let mint_name = s(a, "mint").map(|x| x.to_string()).unwrap_or(ri.mint_name.clone());
                let mint = self.env.mints.get(&mint_name).ok_or("no mint")?.clone();
                let g = self.group(group)?;
                let admin = self.admin_signer(a, g.admin);
                let payer = self.env.wallet("payer");
                signers.extend([admin, payer]);
                let gk = self.k(group);
                let sd = u64o(a, "seed").unwrap_or(0);
                let bk = Pubkey::find_program_address(&[gk.as_ref(), mint.key.as_ref(), &sd.to_le_bytes()], &marginfi::ID).0;
                self.env.names.reg(bank, bk);
                for (nm, seed_s) in [
                    ("liq", tc::LIQUIDITY_VAULT_SEED),
                    ("ins", tc::INSURANCE_VAULT_SEED),
                    ("fee", tc::FEE_VAULT_SEED),
                    ("liq_auth", tc::LIQUIDITY_VAULT_AUTHORITY_SEED),
                    ("ins_auth", tc::INSURANCE_VAULT_AUTHORITY_SEED),
                    ("fee_auth", tc::FEE_VAULT_AUTHORITY_SEED),
                ] {
                    self.env.names.reg(&format!("{}.{}", bank, nm), pda(seed_s, &bk));
                }
                let lva = pda(tc::LIQUIDITY_VAULT_AUTHORITY_SEED, &bk);
                let reserve_key = s(a, "reserve_acct").map(|n| self.k(n)).unwrap_or(ri.reserve);
                let obligation = Pubkey::find_program_address(&[marginfi::constants::SOLEND_OBLIGATION_SEED.as_bytes(), bk.as_ref()], &marginfi::ID).0;
                let obligation = s(a, "obligation").map(|n| self.k(n)).unwrap_or(obligation);
                self.env.names.reg(&format!("{}.obl", bank), obligation);
                let oracle = self.k(s(a, "oracle").unwrap_or("none"));
                let cfg = a.get("cfg").cloned().unwrap_or(json!({}));
                let setup = match u64o(a, "setup").unwrap_or(11) {
                    12 => OracleSetup::SolendSwitchboardPull,
                    3 => OracleSetup::PythPushOracle,
                    _ => OracleSetup::SolendPythPull,
                };
                let bank_config = marginfi::state::solend::SolendConfigCompact {
                    oracle,
                    asset_weight_init: fxd(&cfg, "aw_init", I80F48::from_num(0.8)),
                    asset_weight_maint: fxd(&cfg, "aw_maint", I80F48::from_num(0.9)),
                    deposit_limit: u64o(&cfg, "deposit_limit").unwrap_or(u64::MAX),
                    oracle_setup: setup,
                    operational_state: op_state(u64o(&cfg, "op_state").unwrap_or(1)),
                    risk_tier: risk_tier(u64o(&cfg, "risk_tier").unwrap_or(0)),
                    config_flags: 1,
                    total_asset_value_init_limit: u64o(&cfg, "init_limit").unwrap_or(0),
                    oracle_max_age: u64o(&cfg, "oracle_max_age").unwrap_or(100) as u16,
                    oracle_max_confidence: u64o(&cfg, "oracle_max_conf").unwrap_or(0) as u32,
                };
                let mut m = ac::LendingPoolAddBankSolend {
                    group: gk,
                    admin,
                    fee_payer: payer,
                    bank_mint: mint.key,
                    bank: bk,
                    integration_acc_1: reserve_key,
                    integration_acc_2: obligation,
                    liquidity_vault_authority: lva,
                    liquidity_vault: pda(tc::LIQUIDITY_VAULT_SEED, &bk),
                    insurance_vault_authority: pda(tc::INSURANCE_VAULT_AUTHORITY_SEED, &bk),
                    insurance_vault: pda(tc::INSURANCE_VAULT_SEED, &bk),
                    fee_vault_authority: pda(tc::FEE_VAULT_AUTHORITY_SEED, &bk),
                    fee_vault: pda(tc::FEE_VAULT_SEED, &bk),
                    token_program: mint.program,
                    system_program: system_program::ID,
                }
                .to_account_metas(None);
                m.push(AccountMeta::new_readonly(oracle, false));
                m.push(AccountMeta::new_readonly(reserve_key, false));
                (m, ix::LendingPoolAddBankSolend { bank_config, bank_seed: sd }.data())
            }
            "solend_init_obligation" | "solend_deposit" | "solend_withdraw" => {
                let bank = sreq(a, "bank")?;
                let b = self.bank(bank)?;
                let bk = self.k(bank);
                let rname = self.env.names.name(&b.integration_acc_1);
                let ri = self.env.sreserves.get(&rname).ok_or("bank has no known solend reserve")?.clone();
                let mint = self.env.mint_by_key(&b.mint).cloned().ok_or("no mint")?;
                let mint_name = self.env.names.name(&mint.key);
                let lva = pda(tc::LIQUIDITY_VAULT_AUTHORITY_SEED, &bk);
                let cmint = self.k(&format!("{}.cmint", rname));
                let csupply = self.k(&format!("{}.csupply", rname));
                let ucol = self.k(&format!("{}.ucol", rname));
                let solend = marginfi::constants::SOLEND_PROGRAM_ID;
                let reserve = s(a, "reserve_acct").map(|n| self.k(n)).unwrap_or(b.integration_acc_1);
                let obligation = s(a, "obligation").map(|n| self.k(n)).unwrap_or(b.integration_acc_2);
                let supply_vault = s(a, "supply_vault").map(|n| self.k(n)).unwrap_or(ri.supply_vault);
                let market = s(a, "market_acct").map(|n| self.k(n)).unwrap_or(ri.market);
                let amount = u64f(a, "amount")?;
                let none = self.k("none");
                if op == "solend_init_obligation" {
                    let payer_name = s(a, "signer").unwrap_or("payer").to_string();
                    let payer = self.env.wallet(&payer_name);
                    signers.push(payer);
                    let src = self.user_tok(&payer_name, &mint_name);
                    (
                        ac::SolendInitObligation {
                            fee_payer: payer,
                            bank: bk,
                            signer_token_account: src,
                            liquidity_vault_authority: lva,
                            liquidity_vault: b.liquidity_vault,
                            integration_acc_2: obligation,
                            lending_market: market,
                            lending_market_authority: ri.lma,
                            integration_acc_1: reserve,
                            mint: mint.key,
                            reserve_liquidity_supply: supply_vault,
                            reserve_collateral_mint: cmint,
                            reserve_collateral_supply: csupply,
                            user_collateral: ucol,
                            pyth_price: none,
                            switchboard_feed: none,
                            solend_program: solend,
                            token_program: mint.program,
                            rent: solana_program::sysvar::rent::ID,
                            system_program: system_program::ID,
                        }
                        .to_account_metas(None),
                        ix::SolendInitObligation { amount }.data(),
                    )
                } else {
                    let acct = sreq(a, "acct")?;
                    let auth = self.authority_of(acct, a)?;
                    let auth_name = self.env.names.name(&auth);
                    signers.push(auth);
                    let tok = match s(a, if op == "solend_deposit" { "src" } else { "dst" }) {
                        Some(n) => self.k(n),
                        None => self.user_tok(&auth_name, &mint_name),
                    };
                    if op == "solend_deposit" {
                        let m = ac::SolendDeposit {
                            group: b.group,
                            marginfi_account: self.k(acct),
                            authority: auth,
                            bank: bk,
                            signer_token_account: tok,
                            liquidity_vault_authority: lva,
                            liquidity_vault: b.liquidity_vault,
                            integration_acc_2: obligation,
                            lending_market: market,
                            lending_market_authority: ri.lma,
                            integration_acc_1: reserve,
                            mint: mint.key,
                            reserve_liquidity_supply: supply_vault,
                            reserve_collateral_mint: cmint,
                            reserve_collateral_supply: csupply,
                            user_collateral: ucol,
                            pyth_price: none,
                            switchboard_feed: none,
                            solend_program: solend,
                            token_program: mint.program,
                        }
                        .to_account_metas(None);
                        ctx.add.entry(acct.into()).or_default().insert(bk);
                        (m, ix::SolendDeposit { amount }.data())
                    } else {
                        let all = boolo(a, "all");
                        let mut m = ac::SolendWithdraw {
                            group: b.group,
                            marginfi_account: self.k(acct),
                            authority: auth,
                            bank: bk,
                            destination_token_account: tok,
                            liquidity_vault_authority: lva,
                            liquidity_vault: b.liquidity_vault,
                            integration_acc_2: obligation,
                            lending_market: market,
                            lending_market_authority: ri.lma,
                            integration_acc_1: reserve,
                            mint: mint.key,
                            reserve_liquidity_supply: supply_vault,
                            reserve_collateral_mint: cmint,
                            reserve_collateral_supply: csupply,
                            user_collateral: ucol,
                            solend_program: solend,
                            token_program: mint.program,
                        }
                        .to_account_metas(None);
                        let rm: Vec<Pubkey> = if all == Some(true) { vec![bk] } else { vec![] };
                        m.extend(self.risk_metas(acct, &[], &rm, ctx, a)?);
                        if all == Some(true) {
                            ctx.rm.entry(acct.into()).or_default().insert(bk);
                        }
                        (m, ix::SolendWithdraw { amount, withdraw_all: all }.data())
                    }
                }
            }
            // ------------------------------------------------------------------ Drift (stand-in venue, see venue.rs)
            "add_bank_drift" => {
                let group = sreq(a, "group")?;
                let bank = sreq(a, "bank")?;
                let mname = sreq(a, "market")?.to_string();
                let mi = self.env.markets.get(&mname).ok_or("no market")?.clone();
                let mint_name = s(a, "mint").map(|x| x.to_string()).unwrap_or(mi.mint_name.clone());
                let mint = self.env.mints.get(&mint_name).ok_or("no mint")?.clone();
                let g = self.group(group)?;
                let admin = self.admin_signer(a, g.admin);
                let payer = self.env.wallet("payer");
                signers.extend([admin, payer]);
                let gk = self.k(group);
                let sd = u64o(a, "seed").unwrap_or(0);
                let bk = Pubkey::find_program_address(&[gk.as_ref(), mint.key.as_ref(), &sd.to_le_bytes()], &marginfi::ID).0;
                self.env.names.reg(bank, bk);
                for (nm, seed_s) in [
                    ("liq", tc::LIQUIDITY_VAULT_SEED),
                    ("ins", tc::INSURANCE_VAULT_SEED),
                    ("fee", tc::FEE_VAULT_SEED),
                    ("liq_auth", tc::LIQUIDITY_VAULT_AUTHORITY_SEED),
                    ("ins_auth", tc::INSURANCE_VAULT_AUTHORITY_SEED),
                    ("fee_auth", tc::FEE_VAULT_AUTHORITY_SEED),
                ] {
                    self.env.names.reg(&format!("{}.{}", bank, nm), pda(seed_s, &bk));
                }
                let lva = pda(tc::LIQUIDITY_VAULT_AUTHORITY_SEED, &bk);
                let drift = marginfi::constants::DRIFT_PROGRAM_ID;
                let user = Pubkey::find_program_address(&[b"user", lva.as_ref(), &0u16.to_le_bytes()], &drift).0;
                let stats = Pubkey::find_program_address(&[b"user_stats", lva.as_ref()], &drift).0;
                let user = s(a, "user").map(|n| self.k(n)).unwrap_or(user);
                self.env.names.reg(&format!("{}.duser", bank), user);
                self.env.names.reg(&format!("{}.dstats", bank), stats);
                let market_key = s(a, "market_acct").map(|n| self.k(n)).unwrap_or(mi.market);
                let oracle = self.k(s(a, "oracle").unwrap_or("none"));
                let cfg = a.get("cfg").cloned().unwrap_or(json!({}));
                let setup = match u64o(a, "setup").unwrap_or(9) {
                    10 => OracleSetup::DriftSwitchboardPull,
                    3 => OracleSetup::PythPushOracle,
                    _ => OracleSetup::DriftPythPull,
                };
                let bank_config = marginfi::state::drift::DriftConfigCompact {
                    oracle,
                    asset_weight_init: fxd(&cfg, "aw_init", I80F48::from_num(0.8)),
                    asset_weight_maint: fxd(&cfg, "aw_maint", I80F48::from_num(0.9)),
                    deposit_limit: u64o(&cfg, "deposit_limit").unwrap_or(u64::MAX),
                    oracle_setup: setup,
                    operational_state: op_state(u64o(&cfg, "op_state").unwrap_or(1)),
                    risk_tier: risk_tier(u64o(&cfg, "risk_tier").unwrap_or(0)),
                    config_flags: 1,
                    total_asset_value_init_limit: u64o(&cfg, "init_limit").unwrap_or(0),
                    oracle_max_age: u64o(&cfg, "oracle_max_age").unwrap_or(100) as u16,
                    oracle_max_confidence: u64o(&cfg, "oracle_max_conf").unwrap_or(0) as u32,
                };
                let mut m = ac::LendingPoolAddBankDrift {
                    group: gk,
                    admin,
                    fee_payer: payer,
                    bank_mint: mint.key,
                    bank: bk,
                    integration_acc_1: market_key,
                    integration_acc_2: user,
                    integration_acc_3: stats,
                    liquidity_vault_authority: lva,
                    liquidity_vault: pda(tc::LIQUIDITY_VAULT_SEED, &bk),
                    insurance_vault_authority: pda(tc::INSURANCE_VAULT_AUTHORITY_SEED, &bk),
                    insurance_vault: pda(tc::INSURANCE_VAULT_SEED, &bk),
                    fee_vault_authority: pda(tc::FEE_VAULT_AUTHORITY_SEED, &bk),
                    fee_vault: pda(tc::FEE_VAULT_SEED, &bk),
                    token_program: mint.program,
                    system_program: system_program::ID,
                }
                .to_account_metas(None);
                m.push(AccountMeta::new_readonly(oracle, false));
                m.push(AccountMeta::new_readonly(market_key, false));
                (m, ix::LendingPoolAddBankDrift { bank_config, bank_seed: sd }.data())
            }
            "drift_init_user" | "drift_deposit" | "drift_withdraw" => {
                let bank = sreq(a, "bank")?;
                let b = self.bank(bank)?;
                let bk = self.k(bank);
                let mname = self.env.names.name(&b.integration_acc_1);
                let mi = self.env.markets.get(&mname).ok_or("bank has no known drift market")?.clone();
                let mint = self.env.mint_by_key(&b.mint).cloned().ok_or("no mint")?;
                let mint_name = self.env.names.name(&mint.key);
                let lva = pda(tc::LIQUIDITY_VAULT_AUTHORITY_SEED, &bk);
                let drift = marginfi::constants::DRIFT_PROGRAM_ID;
                let state = self.k("drift.state");
                let market = s(a, "market_acct").map(|n| self.k(n)).unwrap_or(b.integration_acc_1);
                let user = s(a, "user").map(|n| self.k(n)).unwrap_or(b.integration_acc_2);
                let stats = s(a, "stats").map(|n| self.k(n)).unwrap_or(b.integration_acc_3);
                let vault = s(a, "market_vault").map(|n| self.k(n)).unwrap_or(mi.vault);
                let doracle = s(a, "drift_oracle").map(|n| self.k(n));
                let amount = u64f(a, "amount")?;
                if op == "drift_init_user" {
                    let payer_name = s(a, "signer").unwrap_or("payer").to_string();
                    let payer = self.env.wallet(&payer_name);
                    signers.push(payer);
                    let src = self.user_tok(&payer_name, &mint_name);
                    (
                        ac::DriftInitUser {
                            fee_payer: payer,
                            signer_token_account: src,
                            bank: bk,
                            liquidity_vault_authority: lva,
                            liquidity_vault: b.liquidity_vault,
                            mint: mint.key,
                            integration_acc_3: stats,
                            integration_acc_2: user,
                            drift_state: state,
                            integration_acc_1: market,
                            drift_spot_market_vault: vault,
                            drift_oracle: doracle,
                            drift_program: drift,
                            token_program: mint.program,
                            rent: solana_program::sysvar::rent::ID,
                            system_program: system_program::ID,
                        }
                        .to_account_metas(None),
                        ix::DriftInitUser { amount }.data(),
                    )
                } else {
                    let acct = sreq(a, "acct")?;
                    let auth = self.authority_of(acct, a)?;
                    let auth_name = self.env.names.name(&auth);
                    signers.push(auth);
                    let tok = match s(a, if op == "drift_deposit" { "src" } else { "dst" }) {
                        Some(n) => self.k(n),
                        None => self.user_tok(&auth_name, &mint_name),
                    };
                    if op == "drift_deposit" {
                        let m = ac::DriftDeposit {
                            group: b.group,
                            marginfi_account: self.k(acct),
                            authority: auth,
                            bank: bk,
                            drift_oracle: doracle,
                            liquidity_vault_authority: lva,
                            liquidity_vault: b.liquidity_vault,
                            signer_token_account: tok,
                            drift_state: state,
                            integration_acc_2: user,
                            integration_acc_3: stats,
                            integration_acc_1: market,
                            drift_spot_market_vault: vault,
                            mint: mint.key,
                            drift_program: drift,
                            token_program: mint.program,
                            system_program: system_program::ID,
                        }
                        .to_account_metas(None);
                        ctx.add.entry(acct.into()).or_default().insert(bk);
                        (m, ix::DriftDeposit { amount }.data())
                    } else {
                        let all = boolo(a, "all");
                        let (dsigner, _) = crate::venue::drift::signer_pda();
                        let mut m = ac::DriftWithdraw {
                            group: b.group,
                            marginfi_account: self.k(acct),
                            authority: auth,
                            bank: bk,
                            drift_oracle: doracle,
                            liquidity_vault_authority: lva,
                            liquidity_vault: b.liquidity_vault,
                            destination_token_account: tok,
                            drift_state: state,
                            integration_acc_2: user,
                            integration_acc_3: stats,
                            integration_acc_1: market,
                            drift_spot_market_vault: vault,
                            drift_reward_oracle: None,
                            drift_reward_spot_market: None,
                            drift_reward_mint: None,
                            drift_reward_oracle_2: None,
                            drift_reward_spot_market_2: None,
                            drift_reward_mint_2: None,
                            drift_signer: dsigner,
                            mint: mint.key,
                            drift_program: drift,
                            token_program: mint.program,
                            system_program: system_program::ID,
                        }
                        .to_account_metas(None);
                        let rm: Vec<Pubkey> = if all == Some(true) { vec![bk] } else { vec![] };
                        m.extend(self.risk_metas(acct, &[], &rm, ctx, a)?);
                        if all == Some(true) {
                            ctx.rm.entry(acct.into()).or_default().insert(bk);
                        }
                        (m, ix::DriftWithdraw { amount, withdraw_all: all }.data())
                    }
                }
            }
            "drift_refresh" => {
                // the venue's own interest update as a top-level instruction
                let mname = sreq(a, "market")?.to_string();
                let mi = self.env.markets.get(&mname).ok_or("no market")?.clone();
                let data = solana_program::hash::hash(b"global:update_spot_market_cumulative_interest").to_bytes()[..8].to_vec();
                let state = self.k("drift.state");
                let m = vec![AccountMeta::new_readonly(state, false), AccountMeta::new(mi.market, false), AccountMeta::new_readonly(system_program::ID, false), AccountMeta::new_readonly(mi.vault, false)];
                return Ok((Instruction { program_id: marginfi::constants::DRIFT_PROGRAM_ID, accounts: m, data }, vec![]));
            }
            "solend_refresh" => {
                // the venue's own refresh_reserve (tag 3) as a top-level instruction
                let rname = sreq(a, "reserve")?.to_string();
                let ri = self.env.sreserves.get(&rname).ok_or("no reserve")?.clone();
                let none = self.k("none");
                let m = vec![AccountMeta::new(ri.reserve, false), AccountMeta::new_readonly(none, false), AccountMeta::new_readonly(none, false)];
                return Ok((Instruction { program_id: marginfi::constants::SOLEND_PROGRAM_ID, accounts: m, data: vec![3u8] }, vec![]));
            }
            "kamino_refresh" => {
                // the venue's own refresh_reserve as a top-level instruction (users bundle it before marginfi instructions)
                let rname = sreq(a, "reserve")?.to_string();
                let ri = self.env.reserves.get(&rname).ok_or("no reserve")?.clone();
                let mut data = solana_program::hash::hash(b"global:refresh_reserve").to_bytes()[..8].to_vec();
                data.extend_from_slice(&[]);
                let m = vec![AccountMeta::new(ri.reserve, false), AccountMeta::new_readonly(ri.market, false)];
                return Ok((Instruction { program_id: marginfi::constants::KAMINO_PROGRAM_ID, accounts: m, data }, vec![]));
            }
            "init_staked_settings" | "edit_staked_settings" => {
                let group = sreq(a, "group")?;
                let g = self.group(group)?;
                let admin = self.admin_signer(a, g.admin);
                let gk = self.k(group);
                let sk = match s(a, "settings") {
                    Some(n) => self.k(n),
                    None => Pubkey::find_program_address(&[tc::STAKED_SETTINGS_SEED.as_bytes(), gk.as_ref()], &marginfi::ID).0,
                };
                self.env.names.reg(&format!("{}.staked", group), Pubkey::find_program_address(&[tc::STAKED_SETTINGS_SEED.as_bytes(), gk.as_ref()], &marginfi::ID).0);
                signers.push(admin);
                let tier = |v: u64| if v == 1 { RiskTier::Isolated } else { RiskTier::Collateral };
                if op == "init_staked_settings" {
                    let payer = self.env.wallet("payer");
                    signers.push(payer);
                    let settings = marginfi::instructions::marginfi_group::StakedSettingsConfig {
                        oracle: self.k(s(a, "oracle").unwrap_or("none")),
                        asset_weight_init: fxo(a, "aw_init").unwrap_or(I80F48::from_num(0.8).into()),
                        asset_weight_maint: fxo(a, "aw_maint").unwrap_or(I80F48::from_num(0.9).into()),
                        deposit_limit: u64o(a, "deposit_limit").unwrap_or(u64::MAX / 2),
                        total_asset_value_init_limit: u64o(a, "init_limit").unwrap_or(0),
                        oracle_max_age: u64o(a, "max_age").unwrap_or(60) as u16,
                        risk_tier: tier(u64o(a, "risk_tier").unwrap_or(0)),
                    };
                    (
                        ac::InitStakedSettings { marginfi_group: gk, admin, fee_payer: payer, staked_settings: sk, system_program: system_program::ID }
                            .to_account_metas(None),
                        ix::InitStakedSettings { settings }.data(),
                    )
                } else {
                    let settings = marginfi::instructions::marginfi_group::StakedSettingsEditConfig {
                        oracle: s(a, "oracle").map(|n| self.k(n)),
                        asset_weight_init: fxo(a, "aw_init"),
                        asset_weight_maint: fxo(a, "aw_maint"),
                        deposit_limit: u64o(a, "deposit_limit"),
                        total_asset_value_init_limit: u64o(a, "init_limit"),
                        oracle_max_age: u64o(a, "max_age").map(|x| x as u16),
                        risk_tier: u64o(a, "risk_tier").map(tier),
                    };
                    (
                        ac::EditStakedSettings { marginfi_group: gk, admin, staked_settings: sk }.to_account_metas(None),
                        ix::EditStakedSettings { settings }.data(),
                    )
                }
            }
            "propagate_staked" => {
                let bank = sreq(a, "bank")?;
                let b = self.bank(bank)?;
                let gk = match s(a, "group") {
                    Some(g) => self.k(g),
                    None => b.group,
                };
                let sk = match s(a, "settings") {
                    Some(n) => self.k(n),
                    None => Pubkey::find_program_address(&[tc::STAKED_SETTINGS_SEED.as_bytes(), gk.as_ref()], &marginfi::ID).0,
                };
                let mut m = ac::PropagateStakedSettings { marginfi_group: gk, staked_settings: sk, bank: self.k(bank) }.to_account_metas(None);
                if let Some(o) = s(a, "oracle") {
                    m.push(AccountMeta::new_readonly(self.k(o), false));
                }
                (m, ix::PropagateStakedSettings {}.data())
            }
            "add_bank_staked" => {
                let group = sreq(a, "group")?;
                let bank = sreq(a, "bank")?;
                let pool_name = sreq(a, "pool")?.to_string();
                let p = self.env.pools.get(&pool_name).ok_or("no pool")?.clone();
                let payer = self.env.wallet(s(a, "signer").unwrap_or("payer"));
                signers.push(payer);
                let gk = self.k(group);
                let sd = u64o(a, "seed").unwrap_or(0);
                // (substitutions: a different mint / stake pool / sol pool than the pool's own)
                let mint = s(a, "mint").map(|n| self.k(n)).unwrap_or(p.mint);
                let stake_pool = s(a, "stake_pool").map(|n| self.k(n)).unwrap_or(p.pool);
                let sol_pool = s(a, "sol_pool").map(|n| self.k(n)).unwrap_or(p.sol_pool);
                let bk = Pubkey::find_program_address(&[gk.as_ref(), mint.as_ref(), &sd.to_le_bytes()], &marginfi::ID).0;
                self.env.names.reg(bank, bk);
                for (nm, seed_s) in [
                    ("liq", tc::LIQUIDITY_VAULT_SEED),
                    ("ins", tc::INSURANCE_VAULT_SEED),
                    ("fee", tc::FEE_VAULT_SEED),
                    ("liq_auth", tc::LIQUIDITY_VAULT_AUTHORITY_SEED),
                    ("ins_auth", tc::INSURANCE_VAULT_AUTHORITY_SEED),
                    ("fee_auth", tc::FEE_VAULT_AUTHORITY_SEED),
                ] {
                    self.env.names.reg(&format!("{}.{}", bank, nm), pda(seed_s, &bk));
                }
                let sk = match s(a, "settings") {
                    Some(n) => self.k(n),
                    None => Pubkey::find_program_address(&[tc::STAKED_SETTINGS_SEED.as_bytes(), gk.as_ref()], &marginfi::ID).0,
                };
                let mut m = ac::LendingPoolAddBankPermissionless {
                    marginfi_group: gk,
                    staked_settings: sk,
                    fee_payer: payer,
                    bank_mint: mint,
                    sol_pool,
                    stake_pool,
                    bank: bk,
                    liquidity_vault_authority: pda(tc::LIQUIDITY_VAULT_AUTHORITY_SEED, &bk),
                    liquidity_vault: pda(tc::LIQUIDITY_VAULT_SEED, &bk),
                    insurance_vault_authority: pda(tc::INSURANCE_VAULT_AUTHORITY_SEED, &bk),
                    insurance_vault: pda(tc::INSURANCE_VAULT_SEED, &bk),
                    fee_vault_authority: pda(tc::FEE_VAULT_AUTHORITY_SEED, &bk),
                    fee_vault: pda(tc::FEE_VAULT_SEED, &bk),
                    token_program: spl_token::ID,
                    system_program: system_program::ID,
                }
                .to_account_metas(None);
                // remaining: the settings' oracle, the LST mint, the pool's stake account (or explicit names)
                let rem: Vec<Pubkey> = match a.get("rem").and_then(|x| x.as_array()) {
                    Some(r) => r.iter().filter_map(|x| x.as_str()).map(|n| self.k(n)).collect(),
                    None => {
                        let okey = self
                            .env
                            .world
                            .get(&sk)
                            .and_then(|acc| if acc.data.len() >= 8 + 96 { Some(Pubkey::new_from_array(acc.data[8 + 64..8 + 96].try_into().unwrap())) } else { None })
                            .unwrap_or_default();
                        vec![okey, mint, sol_pool]
                    }
                };
                for k in rem {
                    m.push(AccountMeta::new_readonly(k, false));
                }
                (m, ix::LendingPoolAddBankPermissionless { bank_seed: sd }.data())
            }
            "add_bank" => {
                let group = sreq(a, "group")?;
                let bank = sreq(a, "bank")?;
                let mint_name = sreq(a, "mint")?.to_string();
                let mint = self.env.mints.get(&mint_name).ok_or("no mint")?.clone();
                let g = self.group(group)?;
                let admin = self.admin_signer(a, g.admin);
                let payer = self.env.wallet("payer");
                let fs = self.fee_state()?;
                let seed = u64o(a, "seed");
                let gk = self.k(group);
                let bk = match seed {
                    Some(sd) => {
                        let k = Pubkey::find_program_address(&[gk.as_ref(), mint.key.as_ref(), &sd.to_le_bytes()], &marginfi::ID).0;
                        self.env.names.reg(bank, k);
                        k
                    }
                    None => self.k(bank),
                };
                signers.extend([admin, payer]);
                if seed.is_none() {
                    signers.push(bk);
                }
                for (nm, seed_s) in [
                    ("liq", tc::LIQUIDITY_VAULT_SEED),
                    ("ins", tc::INSURANCE_VAULT_SEED),
                    ("fee", tc::FEE_VAULT_SEED),
                    ("liq_auth", tc::LIQUIDITY_VAULT_AUTHORITY_SEED),
                    ("ins_auth", tc::INSURANCE_VAULT_AUTHORITY_SEED),
                    ("fee_auth", tc::FEE_VAULT_AUTHORITY_SEED),
                ] {
                    self.env.names.reg(&format!("{}.{}", bank, nm), pda(seed_s, &bk));
                }
                let cfg = bank_compact(a.get("cfg").unwrap_or(&json!({})));
                if let Some(sd) = seed {
                    (
                        ac::LendingPoolAddBankWithSeed {
                            marginfi_group: gk,
                            admin,
                            fee_payer: payer,
                            fee_state: fee_state_key(),
                            global_fee_wallet: fs.global_fee_wallet,
                            bank_mint: mint.key,
                            bank: bk,
                            liquidity_vault_authority: pda(tc::LIQUIDITY_VAULT_AUTHORITY_SEED, &bk),
                            liquidity_vault: pda(tc::LIQUIDITY_VAULT_SEED, &bk),
                            insurance_vault_authority: pda(tc::INSURANCE_VAULT_AUTHORITY_SEED, &bk),
                            insurance_vault: pda(tc::INSURANCE_VAULT_SEED, &bk),
                            fee_vault_authority: pda(tc::FEE_VAULT_AUTHORITY_SEED, &bk),
                            fee_vault: pda(tc::FEE_VAULT_SEED, &bk),
                            token_program: mint.program,
                            system_program: system_program::ID,
                        }
                        .to_account_metas(None),
                        ix::LendingPoolAddBankWithSeed { bank_config: cfg, bank_seed: sd }.data(),
                    )
                } else {
                    (
                        ac::LendingPoolAddBank {
                            marginfi_group: gk,
                            admin,
                            fee_payer: payer,
                            fee_state: fee_state_key(),
                            global_fee_wallet: fs.global_fee_wallet,
                            bank_mint: mint.key,
                            bank: bk,
                            liquidity_vault_authority: pda(tc::LIQUIDITY_VAULT_AUTHORITY_SEED, &bk),
                            liquidity_vault: pda(tc::LIQUIDITY_VAULT_SEED, &bk),
                            insurance_vault_authority: pda(tc::INSURANCE_VAULT_AUTHORITY_SEED, &bk),
                            insurance_vault: pda(tc::INSURANCE_VAULT_SEED, &bk),
                            fee_vault_authority: pda(tc::FEE_VAULT_AUTHORITY_SEED, &bk),
                            fee_vault: pda(tc::FEE_VAULT_SEED, &bk),
                            token_program: mint.program,
                            system_program: system_program::ID,
                        }
                        .to_account_metas(None),
                        ix::LendingPoolAddBank { bank_config: cfg }.data(),
                    )
                }
            }
            "clone_bank" => {
                // staging-only instruction: on this (mainnet) build it must refuse whatever it is given
                let group = sreq(a, "group")?;
                let bank = sreq(a, "bank")?;
                let src = sreq(a, "from")?;
                let sb = self.bank(src)?;
                let mint = self.env.mint_by_key(&sb.mint).cloned().ok_or("no mint")?;
                let g = self.group(group)?;
                let admin = self.admin_signer(a, g.admin);
                let payer = self.env.wallet("payer");
                signers.extend([admin, payer]);
                let gk = self.k(group);
                let sd = u64o(a, "seed").unwrap_or(0);
                let bk = Pubkey::find_program_address(&[gk.as_ref(), mint.key.as_ref(), &sd.to_le_bytes()], &marginfi::ID).0;
                self.env.names.reg(bank, bk);
                for (nm, seed_s) in [
                    ("liq", tc::LIQUIDITY_VAULT_SEED),
                    ("ins", tc::INSURANCE_VAULT_SEED),
                    ("fee", tc::FEE_VAULT_SEED),
                    ("liq_auth", tc::LIQUIDITY_VAULT_AUTHORITY_SEED),
                    ("ins_auth", tc::INSURANCE_VAULT_AUTHORITY_SEED),
                    ("fee_auth", tc::FEE_VAULT_AUTHORITY_SEED),
                ] {
                    self.env.names.reg(&format!("{}.{}", bank, nm), pda(seed_s, &bk));
                }
                (
                    ac::LendingPoolCloneBank {
                        marginfi_group: gk,
                        admin,
                        fee_payer: payer,
                        bank_mint: mint.key,
                        source_bank: self.k(src),
                        bank: bk,
                        liquidity_vault_authority: pda(tc::LIQUIDITY_VAULT_AUTHORITY_SEED, &bk),
                        liquidity_vault: pda(tc::LIQUIDITY_VAULT_SEED, &bk),
                        insurance_vault_authority: pda(tc::INSURANCE_VAULT_AUTHORITY_SEED, &bk),
                        insurance_vault: pda(tc::INSURANCE_VAULT_SEED, &bk),
                        fee_vault_authority: pda(tc::FEE_VAULT_AUTHORITY_SEED, &bk),
                        fee_vault: pda(tc::FEE_VAULT_SEED, &bk),
                        token_program: mint.program,
                        system_program: system_program::ID,
                    }
                    .to_account_metas(None),
                    ix::LendingPoolCloneBank { bank_seed: sd }.data(),
                )
            }
            "configure_bank" => {
                let bank = sreq(a, "bank")?;
                let b = self.bank(bank)?;
                let g = self.group(&self.env.names.name(&b.group))?;
                let admin = self.admin_signer(a, g.admin);
                signers.push(admin);
                (
                    ac::LendingPoolConfigureBank { group: b.group, admin, bank: self.k(bank) }.to_account_metas(None),
                    ix::LendingPoolConfigureBank { bank_config_opt: bank_opt(a.get("cfg").unwrap_or(&json!({}))) }.data(),
                )
            }
            "configure_interest" => {
                let bank = sreq(a, "bank")?;
                let b = self.bank(bank)?;
                let g = self.group(&self.env.names.name(&b.group))?;
                let admin = self.admin_signer(a, g.delegate_curve_admin);
                signers.push(admin);
                (
                    ac::LendingPoolConfigureBankInterestOnly { group: b.group, delegate_curve_admin: admin, bank: self.k(bank) }.to_account_metas(None),
                    ix::LendingPoolConfigureBankInterestOnly { interest_rate_config: ir_opt(a.get("ir").unwrap_or(&json!({}))) }.data(),
                )
            }
            "configure_limits" => {
                let bank = sreq(a, "bank")?;
                let b = self.bank(bank)?;
                let g = self.group(&self.env.names.name(&b.group))?;
                let admin = self.admin_signer(a, g.delegate_limit_admin);
                signers.push(admin);
                (
                    ac::LendingPoolConfigureBankLimitsOnly { group: b.group, delegate_limit_admin: admin, bank: self.k(bank) }.to_account_metas(None),
                    ix::LendingPoolConfigureBankLimitsOnly {
                        deposit_limit: u64o(a, "deposit_limit"),
                        borrow_limit: u64o(a, "borrow_limit"),
                        total_asset_value_init_limit: u64o(a, "init_limit"),
                    }
                    .data(),
                )
            }
            "tokenless_complete" => {
                let bank = sreq(a, "bank")?;
                let b = self.bank(bank)?;
                let g = self.group(&self.env.names.name(&b.group))?;
                let admin = self.admin_signer(a, g.risk_admin);
                signers.push(admin);
                (
                    ac::LendingPoolForceTokenlessRepayComplete { group: b.group, risk_admin: admin, bank: self.k(bank) }.to_account_metas(None),
                    ix::LendingPoolForceTokenlessRepayComplete {}.data(),
                )
            }
            "configure_oracle" => {
                let bank = sreq(a, "bank")?;
                let b = self.bank(bank)?;
                let g = self.group(&self.env.names.name(&b.group))?;
                let admin = self.admin_signer(a, g.admin);
                signers.push(admin);
                let oracle = self.k(sreq(a, "oracle")?);
                let setup = u64o(a, "setup").unwrap_or(3) as u8; // 3 = PythPushOracle
                let mut m = ac::LendingPoolConfigureBankOracle { group: b.group, admin, bank: self.k(bank) }.to_account_metas(None);
                let passed = match s(a, "oracle_account") {
                    Some(n) => self.k(n),
                    None => oracle,
                };
                m.push(AccountMeta::new_readonly(passed, false));
                (m, ix::LendingPoolConfigureBankOracle { setup, oracle }.data())
            }
            "set_fixed_price" => {
                let bank = sreq(a, "bank")?;
                let b = self.bank(bank)?;
                let g = self.group(&self.env.names.name(&b.group))?;
                let admin = self.admin_signer(a, g.admin);
                signers.push(admin);
                (
                    ac::LendingPoolSetFixedOraclePrice { group: b.group, admin, bank: self.k(bank) }.to_account_metas(None),
                    ix::LendingPoolSetFixedOraclePrice { price: fxo(a, "price").ok_or("price")? }.data(),
                )
            }
            "configure_emode" => {
                let bank = sreq(a, "bank")?;
                let b = self.bank(bank)?;
                let g = self.group(&self.env.names.name(&b.group))?;
                let admin = self.admin_signer(a, g.emode_admin);
                signers.push(admin);
                let mut entries = [EmodeEntry::zeroed(); 10];
                if let Some(arr) = a.get("entries").and_then(|x| x.as_array()) {
                    for (i, e) in arr.iter().take(10).enumerate() {
                        entries[i] = EmodeEntry {
                            collateral_bank_emode_tag: u64o(e, "tag").unwrap_or(0) as u16,
                            flags: u64o(e, "flags").unwrap_or(0) as u8,
                            pad0: [0; 5],
                            asset_weight_init: fxd(e, "init", I80F48::ZERO),
                            asset_weight_maint: fxd(e, "maint", I80F48::ZERO),
                        };
                    }
                }
                (
                    ac::LendingPoolConfigureBankEmode { group: b.group, emode_admin: admin, bank: self.k(bank) }.to_account_metas(None),
                    ix::LendingPoolConfigureBankEmode { emode_tag: u64o(a, "tag").unwrap_or(0) as u16, entries }.data(),
                )
            }
            "clone_emode" => {
                let from = sreq(a, "from")?;
                let to = sreq(a, "to")?;
                let b = self.bank(from)?;
                let g = self.group(&self.env.names.name(&b.group))?;
                let signer = self.admin_signer(a, g.admin);
                signers.push(signer);
                (
                    ac::LendingPoolCloneEmode { group: b.group, signer, copy_from_bank: self.k(from), copy_to_bank: self.k(to) }.to_account_metas(None),
                    ix::LendingPoolCloneEmode {}.data(),
                )
            }
            "close_bank" => {
                let bank = sreq(a, "bank")?;
                let b = self.bank(bank)?;
                let g = self.group(&self.env.names.name(&b.group))?;
                let admin = self.admin_signer(a, g.admin);
                signers.push(admin);
                (
                    ac::LendingPoolCloseBank { group: b.group, bank: self.k(bank), admin }.to_account_metas(None),
                    ix::LendingPoolCloseBank {}.data(),
                )
            }
            "delev_limit" => {
                let group = sreq(a, "group")?;
                let g = self.group(group)?;
                let admin = self.admin_signer(a, g.admin);
                signers.push(admin);
                (
                    ac::ConfigureDeleverageWithdrawalLimit { marginfi_group: self.k(group), admin }.to_account_metas(None),
                    ix::ConfigureDeleverageWithdrawalLimit { limit: u64f(a, "limit")? as u32 }.data(),
                )
            }
            "migrate_curve" => {
                let bank = sreq(a, "bank")?;
                (ac::MigrateCurve { bank: self.k(bank) }.to_account_metas(None), ix::MigrateCurve {}.data())
            }
            "init_metadata" => {
                let bank = sreq(a, "bank")?;
                let bk = self.k(bank);
                let payer = self.env.wallet("payer");
                signers.push(payer);
                let md = pda(tc::METADATA_SEED, &bk);
                self.env.names.reg(&format!("{}.meta", bank), md);
                (
                    ac::InitBankMetadata { bank: bk, fee_payer: payer, metadata: md, system_program: system_program::ID }.to_account_metas(None),
                    ix::InitBankMetadata {}.data(),
                )
            }
            "write_metadata" => {
                let bank = sreq(a, "bank")?;
                let b = self.bank(bank)?;
                let bk = self.k(bank);
                let g = self.group(&self.env.names.name(&b.group))?;
                let admin = self.admin_signer(a, g.metadata_admin);
                signers.push(admin);
                let md = pda(tc::METADATA_SEED, &bk);
                (
                    ac::WriteBankMetadata { group: b.group, bank: bk, metadata_admin: admin, metadata: md }.to_account_metas(None),
                    ix::WriteBankMetadata {
                        ticker: s(a, "ticker").map(|x| x.as_bytes().to_vec()),
                        description: s(a, "description").map(|x| x.as_bytes().to_vec()),
                    }
                    .data(),
                )
            }
            // ------------------------------------------------------------------ foreign programs
            "foreign" => {
                let prog = self.k(s(a, "program").unwrap_or("prog.unknown"));
                let data: Vec<u8> = a
                    .get("data")
                    .and_then(|x| x.as_array())
                    .map(|v| v.iter().map(|b| b.as_u64().unwrap_or(0) as u8).collect())
                    .unwrap_or_else(|| match s(a, "disc") {
                        // an Anchor-style instruction of that program: the discriminator of the named instruction
                        Some(n) => solana_program::hash::hash(format!("global:{}", n).as_bytes()).to_bytes()[..8].to_vec(),
                        None => vec![0u8; 8],
                    });
                let mut m = vec![];
                if let Some(first) = s(a, "first") {
                    m.push(AccountMeta::new_readonly(self.k(first), false));
                }
                return Ok((Instruction { program_id: prog, accounts: m, data }, vec![]));
            }
            "token_transfer" => {
                // plain SPL transfer between two named token accounts signed by the owner wallet (e.g. a swap stand-in)
                let from = self.k(sreq(a, "from")?);
                let to = self.k(sreq(a, "to")?);
                let owner = self.env.wallet(sreq(a, "owner")?);
                let mint_name = sreq(a, "mint")?;
                let mint = self.env.mints.get(mint_name).ok_or("no mint")?.clone();
                let amount = u64f(a, "amount")?;
                let ixn = if mint.program == spl_token::ID {
                    spl_token::instruction::transfer_checked(&mint.program, &from, &mint.key, &to, &owner, &[], amount, mint.decimals).unwrap()
                } else {
                    spl_token_2022::instruction::transfer_checked(&mint.program, &from, &mint.key, &to, &owner, &[], amount, mint.decimals).unwrap()
                };
                return Ok((ixn, vec![owner]));
            }
            _ => return Err(format!("unknown op {}", op)),
        };
        // generic modifiers ---------------------------------------------------------------
        if let Some(sub) = a.get("subst").and_then(|x| x.as_array()) {
            for pair in sub {
                let idx = pair[0].as_u64().ok_or("subst idx")? as usize;
                let nm = pair[1].as_str().ok_or("subst name")?;
                if idx < metas.len() {
                    let nk = self.k(nm);
                    // a substituted signer slot: the substitute signs if it is a wallet we control
                    if metas[idx].is_signer {
                        signers.push(nk);
                    }
                    metas[idx].pubkey = nk;
                }
            }
        }
        if let Some(ns) = a.get("nosign").and_then(|x| x.as_array()) {
            for i in ns {
                let idx = i.as_u64().unwrap_or(999) as usize;
                if idx < metas.len() {
                    metas[idx].is_signer = false;
                }
            }
        }
        if let Some(extra) = a.get("extra_rem").and_then(|x| x.as_array()) {
            for n in extra {
                if let Some(nm) = n.as_str() {
                    let k = self.k(nm);
                    metas.push(AccountMeta::new_readonly(k, false));
                }
            }
        }
        // trailing bytes after the arguments (Anchor ignores them; anything that inspects instruction data must not)
        let mut data = data;
        if let Some(n) = u64o(a, "pad") {
            data.extend(std::iter::repeat(0u8).take(n as usize));
        }
        let mut ixn = Instruction { program_id: marginfi::ID, accounts: metas, data };
        if boolo(a, "cpi") == Some(true) || s(a, "cpi_via").is_some() {
            // wrap: wrapper program forwards to marginfi ("cpi_via": "mocks" = the registered third-party program of id 10001)
            let mut m = vec![AccountMeta::new_readonly(marginfi::ID, false)];
            m.extend(ixn.accounts.iter().cloned());
            let wp = if s(a, "cpi_via") == Some("mocks") { marginfi::constants::MOCKS_PROGRAM_ID } else { crate::rt::wrapper_program_id() };
            ixn = Instruction { program_id: wp, accounts: m, data: ixn.data };
        }
        Ok((ixn, signers))
    }

    pub fn fee_state(&mut self) -> Result<marginfi_type_crate::types::FeeState, String> {
        let a = self.env.world.get(&fee_state_key()).ok_or("no fee state")?;
        zc(&a.data).ok_or("bad fee state".to_string())
    }

    /// Apply an action (environment or program). Returns the event record.
    pub fn apply(&mut self, a: &Value) -> Value {
        let op = a.get("op").and_then(|x| x.as_str()).unwrap_or("?").to_string();
        let mut res: Result<(), (i64, String, i64)> = Ok(());
        match op.as_str() {
            "tick" => {
                let dt = a.get("dt").and_then(parse_i128).unwrap_or(0) as i64;
                self.env.world.clock.unix_timestamp += dt;
                self.env.world.clock.slot += (dt.max(0) as u64) * 2 + 1;
                if boolo(a, "refresh_oracles") != Some(false) {
                    self.refresh_oracles();
                }
            }
            "set_clock" => {
                if let Some(t) = a.get("ts").and_then(parse_i128) {
                    self.env.world.clock.unix_timestamp = t as i64;
                }
            }
            "add_drift_market" => {
                let name = s(a, "market").unwrap_or("DM1").to_string();
                let mint = s(a, "mint").unwrap_or("M1").to_string();
                let cum = a.get("cum").and_then(parse_i128).unwrap_or(10_000_000_000) as u128;
                self.env.add_drift_market(&name, &mint, u64o(a, "index").unwrap_or(1) as u16, cum);
            }
            "set_drift_market" => {
                let name = s(a, "market").unwrap_or("DM1").to_string();
                let cum = a.get("cum").and_then(parse_i128);
                let ts = a.get("ts").and_then(parse_i128);
                let refresh = boolo(a, "refresh") == Some(true);
                let now = self.env.world.clock.unix_timestamp as u64;
                self.env.set_drift_market(&name, &|m| {
                    if let Some(c) = cum {
                        m.cumulative_deposit_interest = (c as u128).to_le_bytes();
                    }
                    if let Some(t) = ts {
                        m.last_interest_ts = t as u64;
                    }
                    if refresh {
                        m.last_interest_ts = now;
                    }
                });
                // interest paid by the venue's borrowers arrives in the venue's vault
                if let Some(x) = u64o(a, "vault_add") {
                    if let Some(mi) = self.env.markets.get(&name).cloned() {
                        self.env.mint_to(&mi.mint_name, mi.vault, x);
                    }
                }
            }
            "add_solend_reserve" => {
                let name = s(a, "reserve").unwrap_or("SR1").to_string();
                let mint = s(a, "mint").unwrap_or("M1").to_string();
                let market = s(a, "market").unwrap_or("SM1").to_string();
                let bw = a.get("borrowed_wads").and_then(parse_i128).unwrap_or(0) as u128;
                self.env.add_solend_reserve(&name, &mint, &market, u64o(a, "avail").unwrap_or(0), u64o(a, "supply").unwrap_or(0), bw);
            }
            "set_solend_reserve" => {
                // environment move: venue interest (borrowed grows), fees, staleness
                let name = s(a, "reserve").unwrap_or("SR1").to_string();
                let bw = a.get("borrowed_wads").and_then(parse_i128);
                let fw = a.get("fees_wads").and_then(parse_i128);
                let slot = u64o(a, "slot");
                let (avail, supply) = (u64o(a, "avail"), u64o(a, "supply"));
                let refresh = boolo(a, "refresh") == Some(true);
                let now_slot = self.env.world.clock.slot;
                self.env.set_solend_reserve(&name, &|r| {
                    if let Some(x) = bw {
                        r.liquidity_borrowed_amount_wads = (x as u128).to_le_bytes();
                    }
                    if let Some(x) = fw {
                        r.liquidity_accumulated_protocol_fees_wads = (x as u128).to_le_bytes();
                    }
                    if let Some(x) = slot {
                        r.last_update_slot = x;
                    }
                    if let Some(x) = avail {
                        r.liquidity_available_amount = x;
                    }
                    if let Some(x) = supply {
                        r.collateral_mint_total_supply = x;
                    }
                    if refresh {
                        r.last_update_slot = now_slot;
                    }
                });
            }
            "add_kamino_reserve" => {
                let name = s(a, "reserve").unwrap_or("KR1").to_string();
                let mint = s(a, "mint").unwrap_or("M1").to_string();
                let market = s(a, "market").unwrap_or("KM1").to_string();
                self.env.add_kamino_reserve(&name, &mint, &market, u64o(a, "avail").unwrap_or(0), u64o(a, "supply").unwrap_or(0), u64o(a, "borrowed").unwrap_or(0));
            }
            "set_kamino_reserve" => {
                // environment move: interest accrued in the venue (borrowed grows), fees, staleness
                let name = s(a, "reserve").unwrap_or("KR1").to_string();
                let bor = u64o(a, "borrowed");
                let fees = [a.get("protocol_sf").and_then(parse_i128), a.get("referrer_sf").and_then(parse_i128), a.get("pending_sf").and_then(parse_i128)];
                let slot = u64o(a, "slot");
                let (avail, supply) = (u64o(a, "avail"), u64o(a, "supply"));
                let refresh = boolo(a, "refresh") == Some(true);
                let now_slot = self.env.world.clock.slot;
                self.env.set_kamino_reserve(&name, &|r| {
                    if let Some(b) = bor {
                        r.borrowed_amount_sf = ((b as u128) << 60).to_le_bytes();
                    }
                    if let Some(x) = fees[0] {
                        r.accumulated_protocol_fees_sf = (x as u128).to_le_bytes();
                    }
                    if let Some(x) = fees[1] {
                        r.accumulated_referrer_fees_sf = (x as u128).to_le_bytes();
                    }
                    if let Some(x) = fees[2] {
                        r.pending_referrer_fees_sf = (x as u128).to_le_bytes();
                    }
                    if let Some(sl) = slot {
                        r.slot = sl;
                    }
                    if let Some(x) = avail {
                        r.available_amount = x;
                    }
                    if let Some(x) = supply {
                        r.mint_total_supply = x;
                    }
                    if refresh {
                        r.slot = now_slot;
                    }
                });
            }
            "add_stake_pool" => {
                let pool = s(a, "pool").unwrap_or("SP1").to_string();
                let mint = s(a, "mint").unwrap_or("LST1").to_string();
                let stake = u64o(a, "stake").unwrap_or(1_000_000_000);
                self.env.add_stake_pool(&pool, &mint, stake);
            }
            "set_stake" => {
                let pool = s(a, "pool").unwrap_or("SP1").to_string();
                let stake = u64o(a, "stake").unwrap_or(0);
                let state = s(a, "state").unwrap_or("stake").to_string();
                self.env.set_stake(&pool, stake, &state);
            }
            "add_mint" => {
                let name = s(a, "mint").unwrap_or("M1").to_string();
                let dec = u64o(a, "decimals").unwrap_or(6) as u8;
                let kind = s(a, "kind").unwrap_or("spl").to_string();
                let bps = u64o(a, "fee_bps").unwrap_or(0) as u16;
                let maxf = u64o(a, "max_fee").unwrap_or(0);
                self.env.add_mint(&name, dec, &kind, bps, maxf);
            }
            "set_transfer_fee" => {
                let name = s(a, "mint").unwrap_or("M1").to_string();
                self.env.set_transfer_fee(&name, u64o(a, "fee_bps").unwrap_or(0) as u16, u64o(a, "max_fee").unwrap_or(0));
            }
            "set_epoch" => {
                if let Some(e) = u64o(a, "epoch") {
                    self.env.world.clock.epoch = e;
                } else {
                    self.env.world.clock.epoch += u64o(a, "by").unwrap_or(1);
                }
            }
            "fund" => {
                let user = s(a, "user").unwrap_or("U1").to_string();
                let mint = s(a, "mint").unwrap_or("M1").to_string();
                let amount = u64o(a, "amount").unwrap_or(0);
                let t = self.user_tok(&user, &mint);
                self.env.mint_to(&mint, t, amount);
            }
            "fund_vault" => {
                // donate tokens straight to a named token account (e.g. insurance vault)
                let mint = s(a, "mint").unwrap_or("M1").to_string();
                let dst = self.k(s(a, "dst").unwrap_or("?"));
                let amount = u64o(a, "amount").unwrap_or(0);
                self.env.mint_to(&mint, dst, amount);
            }
            "set_oracle" => {
                self.set_oracle_action(a);
            }
            "copy_account" => {
                // environment: a byte-for-byte copy of an account at another address (a forged look-alike)
                let from = self.k(s(a, "from").unwrap_or("?"));
                let to = self.k(s(a, "to").unwrap_or("?"));
                if let Some(acc) = self.env.world.get(&from).cloned() {
                    self.env.world.set(to, acc);
                }
            }
            "inject_bank" => {
                if let Err(e) = self.inject_bank(a) {
                    res = Err((-3000, e, 0));
                }
            }
            "curve" | "integ" => {}
            "tx" => {
                let list = a.get("ixs").and_then(|x| x.as_array()).cloned().unwrap_or_default();
                res = self.run_tx(&list);
            }
            _ => {
                res = self.run_tx(&[a.clone()]);
            }
        }
        let mut out_val = json!({});
        if op == "curve" || op == "integ" {
            let r = std::panic::catch_unwind(std::panic::AssertUnwindSafe(|| crate::pure::call(a)));
            match r {
                Ok(Ok(v)) => {
                    out_val = v;
                    res = Ok(());
                }
                Ok(Err(name)) => res = Err((-4000, name, 0)),
                Err(_) => res = Err((-1000, "panic:pure".into(), 0)),
            }
        }
        let post = proj::project(&self.env);
        let chg = if self.n == 0 && self.record_full_first { Value::Object(post.clone()) } else { proj::delta(&self.last, &post) };
        self.last = post;
        self.n += 1;
        let (r, code, label, fidx) = match &res {
            Ok(()) => ("ok", 0, String::new(), -1),
            Err((c, l, i)) => ("err", *c, l.clone(), *i),
        };
        let err = if r == "ok" { "".to_string() } else { err_name(code, &label) };
        // (a transaction carries the amount of its last instruction: transactions that only refresh venue state
        //  before one financial instruction are judged as that instruction, see Eff in Base.tla)
        let amt = if op == "tx" {
            a.get("ixs").and_then(|x| x.as_array()).and_then(|x| x.last()).and_then(|x| x.get("amount")).and_then(parse_i128).unwrap_or(0)
        } else {
            a.get("amount").and_then(parse_i128).unwrap_or(0)
        };
        json!({"i": self.n, "ev": op, "a": a, "amt": big_i(amt), "out": out_val, "res": r, "code": code, "err": err, "label": label, "failed_ix": fidx,
               "ts": big_i(self.env.world.clock.unix_timestamp as i128), "chg": chg})
    }

    fn run_tx(&mut self, list: &[Value]) -> Result<(), (i64, String, i64)> {
        let mut ctx = TxCtx::default();
        let mut ixs = vec![];
        let mut signers = vec![];
        for (i, a) in list.iter().enumerate() {
            match self.build(a, &mut ctx) {
                Ok((ixn, sg)) => {
                    ixs.push(ixn);
                    signers.extend(sg);
                }
                Err(e) => return Err((-3000, format!("build:{}", e), i as i64)),
            }
        }
        let dbg = std::env::var("HX_LOGS").is_ok();
        if dbg {
            crate::rt::set_capture_logs(true);
        }
        let r = self.env.world.exec_tx(&ixs, &signers);
        if dbg {
            for l in crate::rt::take_logs() {
                eprintln!("LOG {}", l);
            }
        }
        match r.err() {
            None => Ok(()),
            Some(e) => {
                let idx = r.results.len() as i64 - 1;
                Err((e.code(), e.label(), idx))
            }
        }
    }

    /// keep every oracle "fresh": publish_time := now (unless the oracle is pinned)
    pub fn refresh_oracles(&mut self) {
        let now = self.env.world.clock.unix_timestamp;
        let names: Vec<String> = self.env.oracles.keys().cloned().collect();
        for n in names {
            let mut o = self.env.oracles[&n].clone();
            if o.publish_time == i64::MIN {
                continue;
            }
            o.publish_time = now;
            self.env.set_oracle(&n, o);
        }
    }

    fn set_oracle_action(&mut self, a: &Value) {
        let name = s(a, "oracle").unwrap_or("O1").to_string();
        let now = self.env.world.clock.unix_timestamp;
        let mut o = self.env.oracles.get(&name).cloned().unwrap_or(OracleInfo {
            key: Pubkey::default(),
            kind: if s(a, "kind") == Some("swb") { OracleKind::Swb } else { OracleKind::Pyth },
            price: 0,
            conf: 0,
            ema_price: 0,
            ema_conf: 0,
            expo: -6,
            publish_time: now,
            swb_value: 0,
            swb_std: 0,
            owner: Pubkey::default(),
            discr_ok: true,
            verification_full: true,
        });
        if o.owner == Pubkey::default() {
            o.owner = if o.kind == OracleKind::Pyth { pyth_solana_receiver_sdk::ID } else { marginfi::constants::SWITCHBOARD_PULL_ID };
        }
        let gi = |k: &str| a.get(k).and_then(parse_i128);
        if let Some(p) = gi("price") {
            o.price = p as i64;
            if gi("ema").is_none() {
                o.ema_price = p as i64;
            }
        }
        if let Some(p) = gi("ema") {
            o.ema_price = p as i64;
        }
        if let Some(c) = gi("conf") {
            o.conf = c as u64;
            if gi("ema_conf").is_none() {
                o.ema_conf = c as u64;
            }
        }
        if let Some(c) = gi("ema_conf") {
            o.ema_conf = c as u64;
        }
        if let Some(e) = gi("expo") {
            o.expo = e as i32;
        }
        // confidence as a fraction of the price, whatever the feed kind: conf_frac = n sets every interval to |price| / n;
        // conf_frac_spot / conf_frac_ema widen only the spot or only the time-weighted interval (Pyth)
        if let Some(nf) = gi("conf_frac").or(gi("conf_frac_spot")) {
            if nf > 0 {
                o.conf = (o.price.unsigned_abs() as u128 / nf as u128) as u64;
                o.swb_std = o.swb_value.abs() / nf;
            }
        }
        if let Some(nf) = gi("conf_frac").or(gi("conf_frac_ema")) {
            if nf > 0 {
                o.ema_conf = (o.ema_price.unsigned_abs() as u128 / nf as u128) as u64;
            }
        }
        if let Some(v) = gi("swb_value") {
            o.swb_value = v;
        }
        if let Some(v) = gi("swb_std") {
            o.swb_std = v;
        }
        if let Some(t) = gi("age") {
            o.publish_time = now - t as i64;
        } else if let Some(t) = gi("ts") {
            o.publish_time = t as i64;
        } else {
            o.publish_time = now;
        }
        if let Some(ow) = s(a, "owner") {
            o.owner = self.k(ow);
        }
        if let Some(d) = boolo(a, "discr_ok") {
            o.discr_ok = d;
        }
        if let Some(d) = boolo(a, "verif_ok") {
            o.verification_full = d;
        }
        self.env.set_oracle(&name, o);
    }

    /// Marked state injection (share values / totals far from 1). Counted separately in evidence.
    fn inject_bank(&mut self, a: &Value) -> Result<(), String> {
        let bank = sreq(a, "bank")?;
        let k = self.k(bank);
        let acct = self.env.world.accts.get_mut(&k).ok_or("no bank")?;
        let sz = std::mem::size_of::<Bank>();
        let mut b: Bank = bytemuck::pod_read_unaligned(&acct.data[8..8 + sz]);
        if let Some(v) = fxo(a, "asv") {
            b.asset_share_value = v;
        }
        if let Some(v) = fxo(a, "lsv") {
            b.liability_share_value = v;
        }
        if let Some(v) = fxo(a, "fee_ins") {
            b.collected_insurance_fees_outstanding = v;
        }
        if let Some(v) = fxo(a, "fee_grp") {
            b.collected_group_fees_outstanding = v;
        }
        if let Some(v) = fxo(a, "fee_prog") {
            b.collected_program_fees_outstanding = v;
        }
        // a bank created before the seven-point curve existed: the three legacy parameters, curve type 0, no points
        if let Some(l) = a.get("legacy") {
            let irc = &mut b.config.interest_rate_config;
            irc.curve_type = 0;
            irc.optimal_utilization_rate = fxo(l, "opt").ok_or("legacy.opt")?;
            irc.plateau_interest_rate = fxo(l, "plateau").ok_or("legacy.plateau")?;
            irc.max_interest_rate = fxo(l, "max").ok_or("legacy.max")?;
            irc.zero_util_rate = 0;
            irc.hundred_util_rate = 0;
            irc.points = [marginfi_type_crate::types::RatePoint::default(); 5];
        }
        acct.data[8..8 + sz].copy_from_slice(bytemuck::bytes_of(&b));
        Ok(())
    }
}

trait Zeroed {
    fn zeroed() -> Self;
}
impl Zeroed for EmodeEntry {
    fn zeroed() -> Self {
        bytemuck::Zeroable::zeroed()
    }
}
