//! A stand-in for the Kamino lending program (no such program exists in this sandbox; the repository ships
//! state definitions only). It implements, on the real account layouts of `kamino_mocks::state`, just what the
//! marginfi Kamino instructions invoke: refresh_reserve, init_user_metadata, init_obligation, refresh_obligation,
//! deposit_reserve_liquidity_and_obligation_collateral_v2 and
//! withdraw_obligation_collateral_and_redeem_reserve_collateral_v2. Collateral is minted / redeemed at the exact
//! integer exchange rate floor(x * supply / total) resp. floor(x * total / supply) computed in 128-bit integers,
//! i.e. NOT with the I80F48 helpers marginfi uses for its own expectation. Everything here is environment, not
//! system under test.
use kamino_mocks::state::{MinimalObligation, MinimalReserve, OBLIGATION_DISCRIMINATOR};
use solana_program::{
    account_info::AccountInfo, entrypoint::ProgramResult, hash::hash, program::invoke, program::invoke_signed, program_error::ProgramError,
    pubkey::Pubkey,
};

pub const KAMINO: Pubkey = marginfi::constants::KAMINO_PROGRAM_ID;

fn disc(name: &str) -> [u8; 8] {
    let h = hash(format!("global:{}", name).as_bytes());
    h.to_bytes()[..8].try_into().unwrap()
}

pub fn lending_market_authority(market: &Pubkey) -> (Pubkey, u8) {
    Pubkey::find_program_address(&[b"lma", market.as_ref()], &KAMINO)
}

fn with_reserve<T>(ai: &AccountInfo, f: impl FnOnce(&mut MinimalReserve) -> T) -> Result<T, ProgramError> {
    if *ai.owner != KAMINO {
        return Err(ProgramError::IllegalOwner);
    }
    let mut d = ai.try_borrow_mut_data()?;
    let sz = std::mem::size_of::<MinimalReserve>();
    if d.len() < 8 + sz {
        return Err(ProgramError::AccountDataTooSmall);
    }
    let mut r: MinimalReserve = bytemuck::pod_read_unaligned(&d[8..8 + sz]);
    let out = f(&mut r);
    d[8..8 + sz].copy_from_slice(bytemuck::bytes_of(&r));
    Ok(out)
}

fn with_obligation<T>(ai: &AccountInfo, f: impl FnOnce(&mut MinimalObligation) -> T) -> Result<T, ProgramError> {
    if *ai.owner != KAMINO {
        return Err(ProgramError::IllegalOwner);
    }
    let mut d = ai.try_borrow_mut_data()?;
    let sz = std::mem::size_of::<MinimalObligation>();
    if d.len() < 8 + sz {
        return Err(ProgramError::AccountDataTooSmall);
    }
    let mut o: MinimalObligation = bytemuck::pod_read_unaligned(&d[8..8 + sz]);
    let out = f(&mut o);
    d[8..8 + sz].copy_from_slice(bytemuck::bytes_of(&o));
    Ok(out)
}

/// total liquidity of the reserve in whole native units (the U68F60 components are floored individually)
fn total_units(r: &MinimalReserve) -> u128 {
    let sf = |b: [u8; 16]| u128::from_le_bytes(b) >> 60;
    (r.available_amount as u128 + sf(r.borrowed_amount_sf))
        .saturating_sub(sf(r.accumulated_protocol_fees_sf))
        .saturating_sub(sf(r.accumulated_referrer_fees_sf))
        .saturating_sub(sf(r.pending_referrer_fees_sf))
}

fn token_transfer<'a>(
    token_program: &AccountInfo<'a>,
    from: &AccountInfo<'a>,
    mint: &AccountInfo<'a>,
    to: &AccountInfo<'a>,
    authority: &AccountInfo<'a>,
    amount: u64,
    decimals: u8,
    seeds: Option<&[&[u8]]>,
) -> ProgramResult {
    let ix = if *token_program.key == spl_token::ID {
        spl_token::instruction::transfer_checked(token_program.key, from.key, mint.key, to.key, authority.key, &[], amount, decimals)?
    } else {
        spl_token_2022::instruction::transfer_checked(token_program.key, from.key, mint.key, to.key, authority.key, &[], amount, decimals)?
    };
    let infos = [from.clone(), mint.clone(), to.clone(), authority.clone(), token_program.clone()];
    match seeds {
        Some(s) => invoke_signed(&ix, &infos, &[s]),
        None => invoke(&ix, &infos),
    }
}

pub fn process(accounts: &[AccountInfo], data: &[u8]) -> ProgramResult {
    if data.len() < 8 {
        return Ok(()); // not an Anchor instruction: behave as before (no-op)
    }
    let d: [u8; 8] = data[..8].try_into().unwrap();
    let slot = {
        use solana_program::sysvar::Sysvar;
        solana_program::clock::Clock::get()?.slot
    };
    if d == disc("refresh_reserve") {
        let reserve = accounts.first().ok_or(ProgramError::NotEnoughAccountKeys)?;
        with_reserve(reserve, |r| {
            r.slot = slot;
            r.stale = 0;
        })?;
        Ok(())
    } else if d == disc("init_user_metadata") || d == disc("refresh_obligation") || d == disc("init_obligation_farms_for_reserve") {
        Ok(())
    } else if d == disc("init_obligation") {
        // 0 owner (signer), 1 fee payer, 2 obligation, 3 lending market
        if accounts.len() < 9 {
            return Err(ProgramError::NotEnoughAccountKeys);
        }
        let (owner, obligation, market) = (&accounts[0], &accounts[2], &accounts[3]);
        if !owner.is_signer {
            return Err(ProgramError::MissingRequiredSignature);
        }
        let (expect, _) = Pubkey::find_program_address(
            &[&[0u8], &[0u8], owner.key.as_ref(), market.key.as_ref(), solana_program::system_program::ID.as_ref(), solana_program::system_program::ID.as_ref()],
            &KAMINO,
        );
        if expect != *obligation.key {
            return Err(ProgramError::InvalidSeeds);
        }
        if !obligation.data_is_empty() {
            return Err(ProgramError::AccountAlreadyInitialized);
        }
        let sz = 8 + std::mem::size_of::<MinimalObligation>();
        obligation.realloc(sz, true)?;
        obligation.assign(&KAMINO);
        // rent for the new account, paid by the fee payer through the System program
        let (payer, sysprog) = (&accounts[1], &accounts[8]);
        invoke(
            &solana_program::system_instruction::transfer(payer.key, obligation.key, 30_000_000),
            &[payer.clone(), obligation.clone(), sysprog.clone()],
        )?;
        let mut o: MinimalObligation = bytemuck::Zeroable::zeroed();
        o.lending_market = *market.key;
        o.owner = *owner.key;
        let mut dd = obligation.try_borrow_mut_data()?;
        dd[..8].copy_from_slice(&OBLIGATION_DISCRIMINATOR);
        dd[8..sz].copy_from_slice(bytemuck::bytes_of(&o));
        Ok(())
    } else if d == disc("deposit_reserve_liquidity_and_obligation_collateral_v2") {
        if accounts.len() < 13 || data.len() < 16 {
            return Err(ProgramError::NotEnoughAccountKeys);
        }
        let amount = u64::from_le_bytes(data[8..16].try_into().unwrap());
        let (owner, obligation, reserve, mint, supply_vault, source, tprog) =
            (&accounts[0], &accounts[1], &accounts[4], &accounts[5], &accounts[6], &accounts[9], &accounts[12]);
        if !owner.is_signer {
            return Err(ProgramError::MissingRequiredSignature);
        }
        let (stale, vault, dec) = with_reserve(reserve, |r| (r.slot < slot, r.supply_vault, r.mint_decimals as u8))?;
        if stale {
            return Err(ProgramError::Custom(0x4b4d_0001)); // the venue refuses a stale reserve (distinct code, not a marginfi error number)
        }
        if vault != *supply_vault.key {
            return Err(ProgramError::InvalidArgument);
        }
        let collateral: u64 = with_reserve(reserve, |r| {
            let total = total_units(r);
            let sup = r.mint_total_supply as u128;
            let c = if total == 0 || sup == 0 { amount as u128 } else { (amount as u128) * sup / total };
            r.available_amount = r.available_amount.saturating_add(amount);
            r.mint_total_supply = r.mint_total_supply.saturating_add(c as u64);
            c as u64
        })?;
        with_obligation(obligation, |o| {
            if o.owner != *owner.key {
                return Err(ProgramError::IllegalOwner);
            }
            if o.deposits[0].deposited_amount == 0 && o.deposits[0].deposit_reserve == Pubkey::default() {
                o.deposits[0].deposit_reserve = *reserve.key;
            }
            if o.deposits[0].deposit_reserve != *reserve.key {
                return Err(ProgramError::InvalidArgument);
            }
            o.deposits[0].deposited_amount = o.deposits[0].deposited_amount.saturating_add(collateral);
            Ok(())
        })??;
        token_transfer(tprog, source, mint, supply_vault, owner, amount, dec, None)
    } else if d == disc("withdraw_obligation_collateral_and_redeem_reserve_collateral_v2") {
        if accounts.len() < 13 || data.len() < 16 {
            return Err(ProgramError::NotEnoughAccountKeys);
        }
        let collateral = u64::from_le_bytes(data[8..16].try_into().unwrap());
        let (owner, obligation, market, lma, reserve, mint, supply_vault, dest, tprog) =
            (&accounts[0], &accounts[1], &accounts[2], &accounts[3], &accounts[4], &accounts[5], &accounts[8], &accounts[9], &accounts[12]);
        if !owner.is_signer {
            return Err(ProgramError::MissingRequiredSignature);
        }
        let (stale, vault, dec) = with_reserve(reserve, |r| (r.slot < slot, r.supply_vault, r.mint_decimals as u8))?;
        if stale {
            return Err(ProgramError::Custom(0x4b4d_0001));
        }
        if vault != *supply_vault.key {
            return Err(ProgramError::InvalidArgument);
        }
        with_obligation(obligation, |o| {
            if o.owner != *owner.key || o.deposits[0].deposit_reserve != *reserve.key || o.deposits[0].deposited_amount < collateral {
                return Err(ProgramError::InsufficientFunds);
            }
            o.deposits[0].deposited_amount -= collateral;
            Ok(())
        })??;
        let liquidity: u64 = with_reserve(reserve, |r| {
            let total = total_units(r);
            let sup = r.mint_total_supply as u128;
            let l = if sup == 0 { 0 } else { (collateral as u128) * total / sup };
            let l = l.min(r.available_amount as u128) as u64;
            r.available_amount -= l;
            r.mint_total_supply = r.mint_total_supply.saturating_sub(collateral);
            l
        })?;
        let (expect, bump) = lending_market_authority(market.key);
        if expect != *lma.key {
            return Err(ProgramError::InvalidSeeds);
        }
        let seeds: &[&[u8]] = &[b"lma", market.key.as_ref(), &[bump]];
        token_transfer(tprog, supply_vault, mint, dest, lma, liquidity, dec, Some(seeds))
    } else {
        Ok(())
    }
}
