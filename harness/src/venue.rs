//! A stand-in for the Kamino lending program (no such program exists in this sandbox; the repository ships
//! state definitions only). It implements, on the real account layouts of `kamino_mocks::state`, just what the
//! marginfi Kamino instructions invoke: refresh_reserve, init_user_metadata, init_obligation, refresh_obligation,
//! deposit_reserve_liquidity_and_obligation_collateral_v2 and
//! withdraw_obligation_collateral_and_redeem_reserve_collateral_v2. Collateral is minted / redeemed at the exact
//! integer exchange rate floor(x * supply / total) resp. floor(x * total / supply) computed in 128-bit integers,
//! i.e. NOT with the I80F48 helpers marginfi uses for its own expectation. Everything here is environment, not
//! system under test.
use kamino_mocks::state::{MinimalObligation, MinimalReserve, OBLIGATION_DISCRIMINATOR};
use solana_program::{
    account_info::AccountInfo, entrypoint::ProgramResult, hash::hash, program::invoke, program::invoke_signed, program_error::ProgramError,
    pubkey::Pubkey,
};

pub const KAMINO: Pubkey = marginfi::constants::KAMINO_PROGRAM_ID;

fn disc(name: &str) -> [u8; 8] {
    let h = hash(format!("global:{}", name).as_bytes());
    h.to_bytes()[..8].try_into().unwrap()
}

pub fn lending_market_authority(market: &Pubkey) -> (Pubkey, u8) {
    Pubkey::find_program_address(&[b"lma", market.as_ref()], &KAMINO)
}

fn with_reserve<T>(ai: &AccountInfo, f: impl FnOnce(&mut MinimalReserve) -> T) -> Result<T, ProgramError> {
    if *ai.owner != KAMINO {
        return Err(ProgramError::IllegalOwner);
    }
    let mut d = ai.try_borrow_mut_data()?;
    let sz = std::mem::size_of::<MinimalReserve>();
    if d.len() < 8 + sz {
        return Err(ProgramError::AccountDataTooSmall);
    }
    let mut r: MinimalReserve = bytemuck::pod_read_unaligned(&d[8..8 + sz]);
    let out = f(&mut r);
    d[8..8 + sz].copy_from_slice(bytemuck::bytes_of(&r));
    Ok(out)
}

fn with_obligation<T>(ai: &AccountInfo, f: impl FnOnce(&mut MinimalObligation) -> T) -> Result<T, ProgramError> {
    if *ai.owner != KAMINO {
        return Err(ProgramError::IllegalOwner);
    }
    let mut d = ai.try_borrow_mut_data()?;
    let sz = std::mem::size_of::<MinimalObligation>();
    if d.len() < 8 + sz {
        return Err(ProgramError::AccountDataTooSmall);
    }
    let mut o: MinimalObligation = bytemuck::pod_read_unaligned(&d[8..8 + sz]);
    let out = f(&mut o);
    d[8..8 + sz].copy_from_slice(bytemuck::bytes_of(&o));
    Ok(out)
}

/// total liquidity of the reserve in whole native units (the U68F60 components are floored individually)
fn total_units(r: &MinimalReserve) -> u128 {
    let sf = |b: [u8; 16]| u128::from_le_bytes(b) >> 60;
    (r.available_amount as u128 + sf(r.borrowed_amount_sf))
        .saturating_sub(sf(r.accumulated_protocol_fees_sf))
        .saturating_sub(sf(r.accumulated_referrer_fees_sf))
        .saturating_sub(sf(r.pending_referrer_fees_sf))
}

fn token_transfer<'a>(
    token_program: &AccountInfo<'a>,
    from: &AccountInfo<'a>,
    mint: &AccountInfo<'a>,
    to: &AccountInfo<'a>,
    authority: &AccountInfo<'a>,
    amount: u64,
    decimals: u8,
    seeds: Option<&[&[u8]]>,
) -> ProgramResult {
    let ix = if *token_program.key == spl_token::ID {
        spl_token::instruction::transfer_checked(token_program.key, from.key, mint.key, to.key, authority.key, &[], amount, decimals)?
    } else {
        spl_token_2022::instruction::transfer_checked(token_program.key, from.key, mint.key, to.key, authority.key, &[], amount, decimals)?
    };
    let infos = [from.clone(), mint.clone(), to.clone(), authority.clone(), token_program.clone()];
    match seeds {
        Some(s) => invoke_signed(&ix, &infos, &[s]),
        None => invoke(&ix, &infos),
    }
}

pub fn process(accounts: &[AccountInfo], data: &[u8]) -> ProgramResult {
    if data.len() < 8 {
        return Ok(()); // not an Anchor instruction: behave as before (no-op)
    }
    let d: [u8; 8] = data[..8].try_into().unwrap();
    let slot = {
        use solana_program::sysvar::Sysvar;
        solana_program::clock::Clock::get()?.slot
    };
    if d == disc("refresh_reserve") {
        let reserve = accounts.first().ok_or(ProgramError::NotEnoughAccountKeys)?;
        with_reserve(reserve, |r| {
            r.slot = slot;
            r.stale = 0;
        })?;
        Ok(())
    } else if d == disc("init_user_metadata") || d == disc("refresh_obligation") || d == disc("init_obligation_farms_for_reserve") {
        Ok(())
    } else if d == disc("init_obligation") {
        // 0 owner (signer), 1 fee payer, 2 obligation, 3 lending market
        if accounts.len() < 9 {
            return Err(ProgramError::NotEnoughAccountKeys);
        }
        let (owner, obligation, market) = (&accounts[0], &accounts[2], &accounts[3]);
        if !owner.is_signer {
            return Err(ProgramError::MissingRequiredSignature);
        }
        let (expect, _) = Pubkey::find_program_address(
            &[&[0u8], &[0u8], owner.key.as_ref(), market.key.as_ref(), solana_program::system_program::ID.as_ref(), solana_program::system_program::ID.as_ref()],
            &KAMINO,
        );
        if expect != *obligation.key {
            return Err(ProgramError::InvalidSeeds);
        }
        if !obligation.data_is_empty() {
            return Err(ProgramError::AccountAlreadyInitialized);
        }
        let sz = 8 + std::mem::size_of::<MinimalObligation>();
        obligation.realloc(sz, true)?;
        obligation.assign(&KAMINO);
        // rent for the new account, paid by the fee payer through the System program
        let (payer, sysprog) = (&accounts[1], &accounts[8]);
        invoke(
            &solana_program::system_instruction::transfer(payer.key, obligation.key, 30_000_000),
            &[payer.clone(), obligation.clone(), sysprog.clone()],
        )?;
        let mut o: MinimalObligation = bytemuck::Zeroable::zeroed();
        o.lending_market = *market.key;
        o.owner = *owner.key;
        let mut dd = obligation.try_borrow_mut_data()?;
        dd[..8].copy_from_slice(&OBLIGATION_DISCRIMINATOR);
        dd[8..sz].copy_from_slice(bytemuck::bytes_of(&o));
        Ok(())
    } else if d == disc("deposit_reserve_liquidity_and_obligation_collateral_v2") {
        if accounts.len() < 13 || data.len() < 16 {
            return Err(ProgramError::NotEnoughAccountKeys);
        }
        let amount = u64::from_le_bytes(data[8..16].try_into().unwrap());
        let (owner, obligation, reserve, mint, supply_vault, source, tprog) =
            (&accounts[0], &accounts[1], &accounts[4], &accounts[5], &accounts[6], &accounts[9], &accounts[12]);
        if !owner.is_signer {
            return Err(ProgramError::MissingRequiredSignature);
        }
        let (stale, vault, dec) = with_reserve(reserve, |r| (r.slot < slot, r.supply_vault, r.mint_decimals as u8))?;
        if stale {
            return Err(ProgramError::Custom(0x4b4d_0001)); // the venue refuses a stale reserve (distinct code, not a marginfi error number)
        }
        if vault != *supply_vault.key {
            return Err(ProgramError::InvalidArgument);
        }
        let collateral: u64 = with_reserve(reserve, |r| {
            let total = total_units(r);
            let sup = r.mint_total_supply as u128;
            let c = if total == 0 || sup == 0 { amount as u128 } else { (amount as u128) * sup / total };
            r.available_amount = r.available_amount.saturating_add(amount);
            r.mint_total_supply = r.mint_total_supply.saturating_add(c as u64);
            c as u64
        })?;
        with_obligation(obligation, |o| {
            if o.owner != *owner.key {
                return Err(ProgramError::IllegalOwner);
            }
            if o.deposits[0].deposited_amount == 0 && o.deposits[0].deposit_reserve == Pubkey::default() {
                o.deposits[0].deposit_reserve = *reserve.key;
            }
            if o.deposits[0].deposit_reserve != *reserve.key {
                return Err(ProgramError::InvalidArgument);
            }
            o.deposits[0].deposited_amount = o.deposits[0].deposited_amount.saturating_add(collateral);
            Ok(())
        })??;
        token_transfer(tprog, source, mint, supply_vault, owner, amount, dec, None)
    } else if d == disc("withdraw_obligation_collateral_and_redeem_reserve_collateral_v2") {
        if accounts.len() < 13 || data.len() < 16 {
            return Err(ProgramError::NotEnoughAccountKeys);
        }
        let collateral = u64::from_le_bytes(data[8..16].try_into().unwrap());
        let (owner, obligation, market, lma, reserve, mint, supply_vault, dest, tprog) =
            (&accounts[0], &accounts[1], &accounts[2], &accounts[3], &accounts[4], &accounts[5], &accounts[8], &accounts[9], &accounts[12]);
        if !owner.is_signer {
            return Err(ProgramError::MissingRequiredSignature);
        }
        let (stale, vault, dec) = with_reserve(reserve, |r| (r.slot < slot, r.supply_vault, r.mint_decimals as u8))?;
        if stale {
            return Err(ProgramError::Custom(0x4b4d_0001));
        }
        if vault != *supply_vault.key {
            return Err(ProgramError::InvalidArgument);
        }
        with_obligation(obligation, |o| {
            if o.owner != *owner.key || o.deposits[0].deposit_reserve != *reserve.key || o.deposits[0].deposited_amount < collateral {
                return Err(ProgramError::InsufficientFunds);
            }
            o.deposits[0].deposited_amount -= collateral;
            Ok(())
        })??;
        let liquidity: u64 = with_reserve(reserve, |r| {
            let total = total_units(r);
            let sup = r.mint_total_supply as u128;
            let l = if sup == 0 { 0 } else { (collateral as u128) * total / sup };
            let l = l.min(r.available_amount as u128) as u64;
            r.available_amount -= l;
            r.mint_total_supply = r.mint_total_supply.saturating_sub(collateral);
            l
        })?;
        let (expect, bump) = lending_market_authority(market.key);
        if expect != *lma.key {
            return Err(ProgramError::InvalidSeeds);
        }
        let seeds: &[&[u8]] = &[b"lma", market.key.as_ref(), &[bump]];
        token_transfer(tprog, supply_vault, mint, dest, lma, liquidity, dec, Some(seeds))
    } else {
        Ok(())
    }
}

// ================================================================================================
// Drift stand-in (same idea): initialize_user_stats, initialize_user, update_user_pool_id,
// update_spot_market_cumulative_interest, deposit, withdraw on the real `MinimalSpotMarket` / `MinimalUser`
// layouts. Scaled balances use Drift's own rule in 128-bit integers: a deposit mints
// floor(amount * 10^(19-decimals) / cumulative_deposit_interest), a withdrawal burns that quantity plus one
// when it is non-zero.
// ================================================================================================
pub mod drift {
    use super::*;
    use drift_mocks::state::{MinimalSpotMarket, MinimalUser, SPOT_MARKET_DISCRIMINATOR, USER_DISCRIMINATOR, USER_STATS_DISCRIMINATOR};
    pub const DRIFT: Pubkey = marginfi::constants::DRIFT_PROGRAM_ID;

    pub fn signer_pda() -> (Pubkey, u8) {
        Pubkey::find_program_address(&[b"drift_signer"], &DRIFT)
    }
    fn market_mut<T>(ai: &AccountInfo, f: impl FnOnce(&mut MinimalSpotMarket) -> T) -> Result<T, ProgramError> {
        if *ai.owner != DRIFT {
            return Err(ProgramError::IllegalOwner);
        }
        let mut d = ai.try_borrow_mut_data()?;
        let sz = std::mem::size_of::<MinimalSpotMarket>();
        if d.len() < 8 + sz || d[..8] != SPOT_MARKET_DISCRIMINATOR {
            return Err(ProgramError::InvalidAccountData);
        }
        let mut m: MinimalSpotMarket = bytemuck::pod_read_unaligned(&d[8..8 + sz]);
        let out = f(&mut m);
        d[8..8 + sz].copy_from_slice(bytemuck::bytes_of(&m));
        Ok(out)
    }
    fn user_mut<T>(ai: &AccountInfo, f: impl FnOnce(&mut MinimalUser) -> T) -> Result<T, ProgramError> {
        if *ai.owner != DRIFT {
            return Err(ProgramError::IllegalOwner);
        }
        let mut d = ai.try_borrow_mut_data()?;
        let sz = std::mem::size_of::<MinimalUser>();
        if d.len() < 8 + sz || d[..8] != USER_DISCRIMINATOR {
            return Err(ProgramError::InvalidAccountData);
        }
        let mut u: MinimalUser = bytemuck::pod_read_unaligned(&d[8..8 + sz]);
        let out = f(&mut u);
        d[8..8 + sz].copy_from_slice(bytemuck::bytes_of(&u));
        Ok(out)
    }
    fn create<'a>(payer: &AccountInfo<'a>, acct: &AccountInfo<'a>, sysprog: &AccountInfo<'a>, size: usize, disc: &[u8; 8]) -> ProgramResult {
        if !acct.data_is_empty() {
            return Err(ProgramError::AccountAlreadyInitialized);
        }
        acct.realloc(size, true)?;
        acct.assign(&DRIFT);
        invoke(&solana_program::system_instruction::transfer(payer.key, acct.key, 35_000_000), &[payer.clone(), acct.clone(), sysprog.clone()])?;
        acct.try_borrow_mut_data()?[..8].copy_from_slice(disc);
        Ok(())
    }
    fn pow10(n: u32) -> u128 {
        10u128.pow(n)
    }
    /// the spot market among the trailing accounts of deposit / withdraw
    fn find_market<'a, 'b>(accounts: &'b [AccountInfo<'a>], from: usize) -> Result<&'b AccountInfo<'a>, ProgramError> {
        accounts[from..]
            .iter()
            .find(|a| *a.owner == DRIFT && a.data_len() >= 8 && a.try_borrow_data().map(|d| d[..8] == SPOT_MARKET_DISCRIMINATOR).unwrap_or(false))
            .ok_or(ProgramError::NotEnoughAccountKeys)
    }

    pub fn process(accounts: &[AccountInfo], data: &[u8]) -> ProgramResult {
        if data.len() < 8 {
            return Ok(());
        }
        let d: [u8; 8] = data[..8].try_into().unwrap();
        let now = {
            use solana_program::sysvar::Sysvar;
            solana_program::clock::Clock::get()?.unix_timestamp
        };
        if d == disc("initialize_user_stats") {
            // 0 user_stats, 1 state, 2 authority (signer), 3 payer, 4 rent, 5 system program
            if accounts.len() < 6 {
                return Err(ProgramError::NotEnoughAccountKeys);
            }
            let (stats, auth, payer, sysprog) = (&accounts[0], &accounts[2], &accounts[3], &accounts[5]);
            if !auth.is_signer {
                return Err(ProgramError::MissingRequiredSignature);
            }
            let expect = Pubkey::find_program_address(&[b"user_stats", auth.key.as_ref()], &DRIFT).0;
            if expect != *stats.key {
                return Err(ProgramError::InvalidSeeds);
            }
            create(payer, stats, sysprog, 8 + 240, &USER_STATS_DISCRIMINATOR)
        } else if d == disc("initialize_user") {
            // 0 user, 1 user_stats, 2 state, 3 authority (signer), 4 payer, 5 rent, 6 system program
            if accounts.len() < 7 {
                return Err(ProgramError::NotEnoughAccountKeys);
            }
            let (user, auth, payer, sysprog) = (&accounts[0], &accounts[3], &accounts[4], &accounts[6]);
            if !auth.is_signer {
                return Err(ProgramError::MissingRequiredSignature);
            }
            let expect = Pubkey::find_program_address(&[b"user", auth.key.as_ref(), &0u16.to_le_bytes()], &DRIFT).0;
            if expect != *user.key {
                return Err(ProgramError::InvalidSeeds);
            }
            create(payer, user, sysprog, 8 + std::mem::size_of::<MinimalUser>(), &USER_DISCRIMINATOR)?;
            user_mut(user, |u| u.authority = *auth.key)?;
            Ok(())
        } else if d == disc("update_user_pool_id") {
            Ok(())
        } else if d == disc("update_spot_market_cumulative_interest") {
            // 0 state, 1 spot market
            let market = accounts.get(1).ok_or(ProgramError::NotEnoughAccountKeys)?;
            market_mut(market, |m| m.last_interest_ts = now as u64)?;
            Ok(())
        } else if d == disc("deposit") || d == disc("withdraw") {
            let is_dep = d == disc("deposit");
            // deposit:  0 state, 1 user, 2 user_stats, 3 authority, 4 spot_market_vault, 5 user_token_account, 6 token_program, then [oracle], market, mint
            // withdraw: 0 state, 1 user, 2 user_stats, 3 authority, 4 spot_market_vault, 5 drift_signer, 6 user_token_account, 7 token_program, then ...
            let fixed = if is_dep { 7 } else { 8 };
            if accounts.len() < fixed + 2 || data.len() < 18 {
                return Err(ProgramError::NotEnoughAccountKeys);
            }
            let market_index = u16::from_le_bytes(data[8..10].try_into().unwrap());
            let amount = u64::from_le_bytes(data[10..18].try_into().unwrap());
            let (user, auth, vault) = (&accounts[1], &accounts[3], &accounts[4]);
            let (user_tok, tprog) = if is_dep { (&accounts[5], &accounts[6]) } else { (&accounts[6], &accounts[7]) };
            if !auth.is_signer {
                return Err(ProgramError::MissingRequiredSignature);
            }
            let market = find_market(accounts, fixed)?;
            let mint = accounts.last().unwrap();
            let (cum, dec, mvault, mindex, mmint, stale) = market_mut(market, |m| {
                (u128::from_le_bytes(m.cumulative_deposit_interest), m.decimals, m.vault, m.market_index, m.mint, (m.last_interest_ts as i64) < now)
            })?;
            if mvault != *vault.key || mindex != market_index || mmint != *mint.key || dec > 19 || cum == 0 {
                return Err(ProgramError::InvalidArgument);
            }
            if stale {
                return Err(ProgramError::Custom(0x4b4d_0002)); // the venue wants its interest brought up to date first
            }
            let scaled_exact = (amount as u128) * pow10(19 - dec) / cum;
            let idx = if market_index == 0 { 0 } else { 1 };
            if is_dep {
                let inc = u64::try_from(scaled_exact).map_err(|_| ProgramError::ArithmeticOverflow)?;
                user_mut(user, |u| {
                    if u.authority != *auth.key {
                        return Err(ProgramError::IllegalOwner);
                    }
                    u.spot_positions[idx].market_index = market_index;
                    u.spot_positions[idx].scaled_balance = u.spot_positions[idx].scaled_balance.checked_add(inc).ok_or(ProgramError::ArithmeticOverflow)?;
                    Ok(())
                })??;
                market_mut(market, |m| {
                    let b = u128::from_le_bytes(m.deposit_balance).saturating_add(inc as u128);
                    m.deposit_balance = b.to_le_bytes();
                })?;
                token_transfer(tprog, user_tok, mint, vault, auth, amount, dec as u8, None)
            } else {
                let burn = if scaled_exact == 0 { 0 } else { scaled_exact + 1 };
                let burn = u64::try_from(burn).map_err(|_| ProgramError::ArithmeticOverflow)?;
                user_mut(user, |u| {
                    if u.authority != *auth.key {
                        return Err(ProgramError::IllegalOwner);
                    }
                    if u.spot_positions[idx].scaled_balance < burn {
                        return Err(ProgramError::InsufficientFunds);
                    }
                    u.spot_positions[idx].scaled_balance -= burn;
                    Ok(())
                })??;
                market_mut(market, |m| {
                    let b = u128::from_le_bytes(m.deposit_balance).saturating_sub(burn as u128);
                    m.deposit_balance = b.to_le_bytes();
                })?;
                let signer = &accounts[5];
                let (expect, bump) = signer_pda();
                if expect != *signer.key {
                    return Err(ProgramError::InvalidSeeds);
                }
                let seeds: &[&[u8]] = &[b"drift_signer", &[bump]];
                token_transfer(tprog, vault, mint, user_tok, signer, amount, dec as u8, Some(seeds))
            }
        } else {
            Ok(())
        }
    }
}

// ================================================================================================
// Solend stand-in (same idea): refresh_reserve (3), init_obligation (6), refresh_obligation (7),
// deposit_reserve_liquidity_and_obligation_collateral (14) and
// withdraw_obligation_collateral_and_redeem_reserve_collateral (15) on the real `SolendMinimalReserve` layout
// (one version byte, then the packed struct) and Solend's 1300-byte obligation layout (offsets of
// solend_mocks::state). Exchange rate in exact integers on the 10^18-scaled ("wad") total:
// collateral = floor(liquidity * supply * 10^18 / total_wads), liquidity = floor(collateral * total_wads /
// (supply * 10^18)), total_wads = available * 10^18 + borrowed_wads - fees_wads.
// ================================================================================================
pub mod solend {
    use solana_program::{
        account_info::AccountInfo, entrypoint::ProgramResult, program::invoke, program::invoke_signed, program_error::ProgramError, pubkey::Pubkey,
    };
    use solend_mocks::state::{SolendMinimalReserve, OBLIGATION_LEN, RESERVE_LEN};

    pub const SOLEND: Pubkey = marginfi::constants::SOLEND_PROGRAM_ID;
    const WAD: u128 = 1_000_000_000_000_000_000;
    pub const STALE: u32 = 0x4b4d_0003;

    pub fn lending_market_authority(market: &Pubkey) -> (Pubkey, u8) {
        Pubkey::find_program_address(&[&market.to_bytes()[..32]], &SOLEND)
    }

    fn with_reserve<T>(ai: &AccountInfo, f: impl FnOnce(&mut SolendMinimalReserve) -> T) -> Result<T, ProgramError> {
        if *ai.owner != SOLEND {
            return Err(ProgramError::IllegalOwner);
        }
        let mut d = ai.try_borrow_mut_data()?;
        if d.len() != RESERVE_LEN || d[0] != 1 {
            return Err(ProgramError::InvalidAccountData);
        }
        let mut r: SolendMinimalReserve = bytemuck::pod_read_unaligned(&d[1..RESERVE_LEN]);
        let out = f(&mut r);
        d[1..RESERVE_LEN].copy_from_slice(bytemuck::bytes_of(&r));
        Ok(out)
    }

    /// (owner, lending market, deposits_len, first deposit reserve, first deposit amount)
    fn obligation_read(ai: &AccountInfo) -> Result<(Pubkey, Pubkey, u8, Pubkey, u64), ProgramError> {
        if *ai.owner != SOLEND {
            return Err(ProgramError::IllegalOwner);
        }
        let d = ai.try_borrow_data()?;
        if d.len() < OBLIGATION_LEN || d[0] != 1 {
            return Err(ProgramError::InvalidAccountData);
        }
        let pk = |o: usize| Pubkey::new_from_array(d[o..o + 32].try_into().unwrap());
        Ok((pk(42), pk(10), d[202], pk(204), u64::from_le_bytes(d[236..244].try_into().unwrap())))
    }

    fn obligation_set_deposit(ai: &AccountInfo, reserve: &Pubkey, amount: u64) -> ProgramResult {
        let mut d = ai.try_borrow_mut_data()?;
        d[202] = 1;
        d[204..236].copy_from_slice(reserve.as_ref());
        d[236..244].copy_from_slice(&amount.to_le_bytes());
        Ok(())
    }

    fn total_wads(r: &SolendMinimalReserve) -> u128 {
        ((r.liquidity_available_amount as u128) * WAD + u128::from_le_bytes(r.liquidity_borrowed_amount_wads))
            .saturating_sub(u128::from_le_bytes(r.liquidity_accumulated_protocol_fees_wads))
    }

    // 256-bit helpers are not needed: amounts in the harness stay far below 2^64 * 10^18 / 2^64
    fn mul_div(a: u128, b: u128, c: u128) -> Option<u128> {
        if c == 0 {
            return None;
        }
        // a * b / c with a 256-bit intermediate (schoolbook on 64-bit halves)
        let (ah, al) = (a >> 64, a & u64::MAX as u128);
        let (bh, bl) = (b >> 64, b & u64::MAX as u128);
        if ah != 0 && bh != 0 {
            return None;
        }
        // product = (ah*bl + al*bh) << 64 + al*bl   (one of ah, bh is zero)
        let mid = ah.checked_mul(bl)?.checked_add(al.checked_mul(bh)?)?;
        let lo = al * bl;
        let hi = (mid >> 64) + ((((mid & u64::MAX as u128) << 64).overflowing_add(lo)).1 as u128);
        let lo2 = ((mid & u64::MAX as u128) << 64).wrapping_add(lo);
        // divide the 256-bit value (hi, lo2) by c, bit by bit
        if hi >= c {
            return None;
        }
        let (mut rem, mut q) = (hi, 0u128);
        for i in (0..128).rev() {
            let bit = (lo2 >> i) & 1;
            let carry = rem >> 127;
            rem = (rem << 1) | bit;
            if carry == 1 || rem >= c {
                rem = rem.wrapping_sub(c);
                q |= 1u128 << i;
            }
        }
        Some(q)
    }

    fn spl_transfer<'a>(tprog: &AccountInfo<'a>, from: &AccountInfo<'a>, to: &AccountInfo<'a>, auth: &AccountInfo<'a>, amount: u64, seeds: Option<&[&[u8]]>) -> ProgramResult {
        #[allow(deprecated)]
        let ix = spl_token::instruction::transfer(tprog.key, from.key, to.key, auth.key, &[], amount)?;
        let infos = [from.clone(), to.clone(), auth.clone(), tprog.clone()];
        match seeds {
            Some(s) => invoke_signed(&ix, &infos, &[s]),
            None => invoke(&ix, &infos),
        }
    }

    pub fn process(accounts: &[AccountInfo], data: &[u8]) -> ProgramResult {
        let tag = *data.first().ok_or(ProgramError::InvalidInstructionData)?;
        let slot = {
            use solana_program::sysvar::Sysvar;
            solana_program::clock::Clock::get()?.slot
        };
        match tag {
            3 => {
                let reserve = accounts.first().ok_or(ProgramError::NotEnoughAccountKeys)?;
                with_reserve(reserve, |r| {
                    r.last_update_slot = slot;
                    r.last_update_stale = 0;
                })
            }
            7 => Ok(()),
            6 => {
                // 0 obligation (created by the caller: owned by this program, zeroed), 1 lending market, 2 owner (signer)
                if accounts.len() < 3 {
                    return Err(ProgramError::NotEnoughAccountKeys);
                }
                let (obligation, market, owner) = (&accounts[0], &accounts[1], &accounts[2]);
                if !owner.is_signer {
                    return Err(ProgramError::MissingRequiredSignature);
                }
                if *obligation.owner != SOLEND {
                    return Err(ProgramError::IllegalOwner);
                }
                let mut d = obligation.try_borrow_mut_data()?;
                if d.len() < OBLIGATION_LEN {
                    return Err(ProgramError::AccountDataTooSmall);
                }
                if d[0] != 0 {
                    return Err(ProgramError::AccountAlreadyInitialized);
                }
                d[0] = 1;
                d[1..9].copy_from_slice(&slot.to_le_bytes());
                d[10..42].copy_from_slice(market.key.as_ref());
                d[42..74].copy_from_slice(owner.key.as_ref());
                Ok(())
            }
            14 => {
                if accounts.len() < 14 || data.len() < 9 {
                    return Err(ProgramError::NotEnoughAccountKeys);
                }
                let amount = u64::from_le_bytes(data[1..9].try_into().unwrap());
                let (source, reserve, supply_vault, market, obligation, owner, xfer_auth, tprog) =
                    (&accounts[0], &accounts[2], &accounts[3], &accounts[5], &accounts[8], &accounts[9], &accounts[12], &accounts[13]);
                if !owner.is_signer || !xfer_auth.is_signer {
                    return Err(ProgramError::MissingRequiredSignature);
                }
                let (stale, vault, rmarket) = with_reserve(reserve, |r| (r.last_update_slot < slot, r.liquidity_supply_pubkey, r.lending_market))?;
                if stale {
                    return Err(ProgramError::Custom(STALE));
                }
                if vault != *supply_vault.key || rmarket != *market.key {
                    return Err(ProgramError::InvalidArgument);
                }
                let (oowner, omarket, n, ores, oamt) = obligation_read(obligation)?;
                if oowner != *owner.key || omarket != *market.key || (n == 1 && ores != *reserve.key) || n > 1 {
                    return Err(ProgramError::InvalidArgument);
                }
                let collateral: u64 = with_reserve(reserve, |r| {
                    let total = total_wads(r);
                    let sup = r.collateral_mint_total_supply as u128;
                    let c = if total == 0 || sup == 0 { Some(amount as u128) } else { mul_div((amount as u128) * sup, WAD, total) };
                    c.and_then(|c| u64::try_from(c).ok()).map(|c| {
                        r.liquidity_available_amount = r.liquidity_available_amount.saturating_add(amount);
                        r.collateral_mint_total_supply = r.collateral_mint_total_supply.saturating_add(c);
                        c
                    })
                })?
                .ok_or(ProgramError::ArithmeticOverflow)?;
                obligation_set_deposit(obligation, reserve.key, if n == 1 { oamt } else { 0 }.checked_add(collateral).ok_or(ProgramError::ArithmeticOverflow)?)?;
                spl_transfer(tprog, source, supply_vault, xfer_auth, amount, None)
            }
            15 => {
                if accounts.len() < 13 || data.len() < 9 {
                    return Err(ProgramError::NotEnoughAccountKeys);
                }
                let collateral = u64::from_le_bytes(data[1..9].try_into().unwrap());
                let (reserve, obligation, market, lma, dest, supply_vault, owner, tprog) =
                    (&accounts[2], &accounts[3], &accounts[4], &accounts[5], &accounts[6], &accounts[8], &accounts[9], &accounts[11]);
                if !owner.is_signer {
                    return Err(ProgramError::MissingRequiredSignature);
                }
                let (stale, vault, rmarket) = with_reserve(reserve, |r| (r.last_update_slot < slot, r.liquidity_supply_pubkey, r.lending_market))?;
                if stale {
                    return Err(ProgramError::Custom(STALE));
                }
                if vault != *supply_vault.key || rmarket != *market.key {
                    return Err(ProgramError::InvalidArgument);
                }
                let (oowner, omarket, n, ores, oamt) = obligation_read(obligation)?;
                if oowner != *owner.key || omarket != *market.key || n != 1 || ores != *reserve.key || oamt < collateral {
                    return Err(ProgramError::InsufficientFunds);
                }
                obligation_set_deposit(obligation, reserve.key, oamt - collateral)?;
                let liquidity: u64 = with_reserve(reserve, |r| {
                    let total = total_wads(r);
                    let sup = r.collateral_mint_total_supply as u128;
                    let l = if sup == 0 { Some(0) } else { mul_div(collateral as u128, total, sup * WAD) };
                    l.map(|l| {
                        let l = l.min(r.liquidity_available_amount as u128) as u64;
                        r.liquidity_available_amount -= l;
                        r.collateral_mint_total_supply = r.collateral_mint_total_supply.saturating_sub(collateral);
                        l
                    })
                })?
                .ok_or(ProgramError::ArithmeticOverflow)?;
                let (expect, bump) = lending_market_authority(market.key);
                if expect != *lma.key {
                    return Err(ProgramError::InvalidSeeds);
                }
                let mk = market.key.to_bytes();
                let seeds: &[&[u8]] = &[&mk[..32], &[bump]];
                spl_transfer(tprog, supply_vault, dest, lma, liquidity, Some(seeds))
            }
            _ => Ok(()),
        }
    }
}
