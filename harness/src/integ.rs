//! Integration exchange-rate math (C20): thin dispatch onto the real functions.
use serde_json::Value;
pub fn call(_a: &Value) -> Result<Value, String> {
    Err("NotImplemented".into())
}
