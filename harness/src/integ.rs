//! Integration exchange-rate math (C20): thin dispatch onto the real functions of the type crate and
//! the kamino / solend / drift mocks crates. Arguments are big integers (I80F48 arguments as raw bits).
use crate::num::{big_i, big_u, parse_i128};
use fixed::types::I80F48;
use marginfi_type_crate::types as ty;
use serde_json::{json, Value};

fn arg(a: &[Value], i: usize) -> Result<i128, String> {
    a.get(i).and_then(parse_i128).ok_or_else(|| format!("BadArg{}", i))
}
fn au64(a: &[Value], i: usize) -> Result<u64, String> {
    u64::try_from(arg(a, i)?).map_err(|_| "BadArgU64".to_string())
}
fn afx(a: &[Value], i: usize) -> Result<I80F48, String> {
    Ok(I80F48::from_bits(arg(a, i)?))
}
fn opt_u(v: Option<u64>) -> Value {
    match v {
        Some(x) => json!({"def": true, "v": big_u(x as u128)}),
        None => json!({"def": false}),
    }
}
fn opt_i(v: Option<i128>) -> Value {
    match v {
        Some(x) => json!({"def": true, "v": big_i(x)}),
        None => json!({"def": false}),
    }
}
fn res_u<E>(v: Result<u64, E>) -> Value {
    opt_u(v.ok())
}

fn kamino_reserve(avail: u64, supply: u64, dec: u64, slot: u64) -> kamino_mocks::state::MinimalReserve {
    let mut r: kamino_mocks::state::MinimalReserve = bytemuck::Zeroable::zeroed();
    r.available_amount = avail;
    r.mint_total_supply = supply;
    r.mint_decimals = dec;
    r.slot = slot;
    r
}
fn au128(a: &[Value], i: usize) -> Result<u128, String> {
    u128::try_from(arg(a, i)?).map_err(|_| "BadArgU128".to_string())
}
/// kamino reserve with all five components of its total supply: args = avail, borrowed_sf, protocol_sf, referrer_sf, pending_sf (U68F60 bits)
fn kamino_reserve_full(a: &[Value], off: usize) -> Result<kamino_mocks::state::MinimalReserve, String> {
    let mut r: kamino_mocks::state::MinimalReserve = bytemuck::Zeroable::zeroed();
    r.available_amount = au64(a, off)?;
    r.borrowed_amount_sf = au128(a, off + 1)?.to_le_bytes();
    r.accumulated_protocol_fees_sf = au128(a, off + 2)?.to_le_bytes();
    r.accumulated_referrer_fees_sf = au128(a, off + 3)?.to_le_bytes();
    r.pending_referrer_fees_sf = au128(a, off + 4)?.to_le_bytes();
    Ok(r)
}
/// solend reserve with the three components of its total liquidity: args = avail, borrowed_wads, fees_wads (10^18-scaled)
fn solend_reserve_full(a: &[Value], off: usize) -> Result<solend_mocks::state::SolendMinimalReserve, String> {
    let mut r: solend_mocks::state::SolendMinimalReserve = bytemuck::Zeroable::zeroed();
    r.liquidity_available_amount = au64(a, off)?;
    r.liquidity_borrowed_amount_wads = au128(a, off + 1)?.to_le_bytes();
    r.liquidity_accumulated_protocol_fees_wads = au128(a, off + 2)?.to_le_bytes();
    Ok(r)
}
fn solend_reserve(avail: u64, supply: u64, dec: u8, slot: u64) -> solend_mocks::state::SolendMinimalReserve {
    let mut r: solend_mocks::state::SolendMinimalReserve = bytemuck::Zeroable::zeroed();
    r.liquidity_available_amount = avail;
    r.collateral_mint_total_supply = supply;
    r.liquidity_mint_decimals = dec;
    r.last_update_slot = slot;
    r
}
fn drift_market(cum: u128, dec: u32, ts: u64) -> drift_mocks::state::MinimalSpotMarket {
    let mut m: drift_mocks::state::MinimalSpotMarket = bytemuck::Zeroable::zeroed();
    m.cumulative_deposit_interest = cum.to_le_bytes();
    m.decimals = dec;
    m.last_interest_ts = ts;
    m
}

fn eval(f: &str, a: &[Value]) -> Result<Value, String> {
    Ok(match f {
        "ty.c2l" => opt_u(ty::collateral_to_liquidity_from_scaled(au64(a, 0)?, afx(a, 1)?, afx(a, 2)?)),
        "ty.l2c" => opt_u(ty::liquidity_to_collateral_from_scaled(au64(a, 0)?, afx(a, 1)?, afx(a, 2)?)),
        "ty.roundtrip" => {
            // liquidity -> collateral -> liquidity
            let (l, liq, col) = (au64(a, 0)?, afx(a, 1)?, afx(a, 2)?);
            opt_u(ty::liquidity_to_collateral_from_scaled(l, liq, col).and_then(|c| ty::collateral_to_liquidity_from_scaled(c, liq, col)))
        }
        "ty.adj_i64" => opt_i(i64::try_from(arg(a, 0)?).ok().and_then(|r| ty::adjust_i64(r, afx(a, 1).ok()?)).map(|x| x as i128)),
        "ty.adj_u64" => opt_u(ty::adjust_u64(au64(a, 0)?, afx(a, 1)?)),
        "ty.adj_i128" => opt_i(ty::adjust_i128(arg(a, 0)?, afx(a, 1)?)),
        "ty.ratio" => opt_i(ty::liq_to_col_ratio(afx(a, 0)?, afx(a, 1)?).map(|x| x.to_bits())),
        "ty.adj_sup_i64" => {
            // price adjusted by the exchange rate of given supplies
            let r = ty::liq_to_col_ratio(afx(a, 1)?, afx(a, 2)?);
            opt_i(r.and_then(|r| i64::try_from(arg(a, 0).ok()?).ok().and_then(|p| ty::adjust_i64(p, r))).map(|x| x as i128))
        }
        "ty.scale" => match ty::scale_supplies(afx(a, 0)?, au64(a, 1)?, arg(a, 2)? as u8) {
            Some((l, c)) => json!({"def": true, "v": big_i(l.to_bits()), "w": big_i(c.to_bits())}),
            None => json!({"def": false}),
        },
        "ty.convdec" => opt_i(ty::convert_decimals(afx(a, 0)?, arg(a, 1)? as u8, arg(a, 2)? as u8).map(|x| x.to_bits())),
        "kamino.c2l" => res_u(kamino_reserve(au64(a, 1)?, au64(a, 2)?, arg(a, 3)? as u64, 0).collateral_to_liquidity(au64(a, 0)?)),
        "kamino.l2c" => res_u(kamino_reserve(au64(a, 1)?, au64(a, 2)?, arg(a, 3)? as u64, 0).liquidity_to_collateral(au64(a, 0)?)),
        "kamino.roundtrip" => {
            let r = kamino_reserve(au64(a, 1)?, au64(a, 2)?, arg(a, 3)? as u64, 0);
            res_u(r.liquidity_to_collateral(au64(a, 0)?).and_then(|c| r.collateral_to_liquidity(c)))
        }
        "kamino.sf" => opt_i(Some(kamino_mocks::state::u68f60_to_i80f48(au128(a, 0)?.to_le_bytes()).to_bits())),
        "kamino.total" => opt_i(Some(kamino_reserve_full(a, 0)?.calculate_total_supply_i80f48().to_bits())),
        "kamino.full.c2l" => {
            // args: amount, avail, borrowed_sf, protocol_sf, referrer_sf, pending_sf, collateral supply, decimals
            let mut r = kamino_reserve_full(a, 1)?;
            r.mint_total_supply = au64(a, 6)?;
            r.mint_decimals = arg(a, 7)? as u64;
            res_u(r.collateral_to_liquidity(au64(a, 0)?))
        }
        "solend.wad" => opt_i(solend_mocks::state::decimal_to_i80f48(au128(a, 0)?.to_le_bytes()).ok().map(|x| x.to_bits())),
        "solend.total" => opt_i(solend_reserve_full(a, 0)?.calculate_total_liquidity().ok().map(|x| x.to_bits())),
        "solend.rate.c2l" | "solend.rate.l2c" => {
            // args: amount, avail, borrowed_wads, fees_wads, collateral supply
            let mut r = solend_reserve_full(a, 1)?;
            r.collateral_mint_total_supply = au64(a, 4)?;
            match solend_mocks::state::CollateralExchangeRate::from_reserve(&r) {
                Ok(x) => res_u(if f == "solend.rate.c2l" { x.collateral_to_liquidity(au64(a, 0)?) } else { x.liquidity_to_collateral(au64(a, 0)?) }),
                Err(_) => json!({"def": false}),
            }
        }
        "kamino.stale" => json!({"def": true, "b": kamino_reserve(1, 1, 6, au64(a, 0)?).is_stale(au64(a, 1)?)}),
        "solend.c2l" => res_u(solend_reserve(au64(a, 1)?, au64(a, 2)?, arg(a, 3)? as u8, 0).collateral_to_liquidity(au64(a, 0)?)),
        "solend.l2c" => res_u(solend_reserve(au64(a, 1)?, au64(a, 2)?, arg(a, 3)? as u8, 0).liquidity_to_collateral(au64(a, 0)?)),
        "solend.roundtrip" => {
            let r = solend_reserve(au64(a, 1)?, au64(a, 2)?, arg(a, 3)? as u8, 0);
            res_u(r.liquidity_to_collateral(au64(a, 0)?).and_then(|c| r.collateral_to_liquidity(c)))
        }
        "solend.stale" => {
            crate::rt::set_ctx_slot(au64(a, 1)?);
            json!({"def": true, "b": solend_reserve(1, 1, 6, au64(a, 0)?).is_stale().unwrap_or(true)})
        }
        "drift.inc" => res_u(drift_market(arg(a, 1)? as u128, arg(a, 2)? as u32, 0).get_scaled_balance_increment(au64(a, 0)?)),
        "drift.dec" => res_u(drift_market(arg(a, 1)? as u128, arg(a, 2)? as u32, 0).get_scaled_balance_decrement(au64(a, 0)?)),
        "drift.wd" => res_u(drift_market(arg(a, 1)? as u128, arg(a, 2)? as u32, 0).get_withdraw_token_amount(au64(a, 0)?)),
        "drift.roundtrip" => {
            let m = drift_market(arg(a, 1)? as u128, arg(a, 2)? as u32, 0);
            res_u(m.get_scaled_balance_increment(au64(a, 0)?).and_then(|s| m.get_withdraw_token_amount(s)))
        }
        "drift.adj_i64" => opt_i(i64::try_from(arg(a, 0)?).ok().and_then(|p| drift_market(arg(a, 1).ok()? as u128, 6, 0).adjust_i64(p).ok()).map(|x| x as i128)),
        "drift.adj_i128" => opt_i(drift_market(arg(a, 1)? as u128, 6, 0).adjust_i128(arg(a, 0)?).ok()),
        "drift.adj_u64" => res_u(drift_market(arg(a, 1)? as u128, 6, 0).adjust_u64(au64(a, 0)?)),
        "drift.stale" => json!({"def": true, "b": drift_market(1, 6, au64(a, 0)?).is_stale(arg(a, 1)? as i64)}),
        _ => return Err("UnknownFn".into()),
    })
}

/// {"op":"integ","fn":name,"args":[..],"args2":[..]?} -> {"r": result, "r2": result for args2}
pub fn call(a: &Value) -> Result<Value, String> {
    let f = a["fn"].as_str().ok_or("NoFn")?;
    let args = a["args"].as_array().cloned().unwrap_or_default();
    let guard = |args: &[Value]| -> Value {
        match std::panic::catch_unwind(std::panic::AssertUnwindSafe(|| eval(f, args))) {
            Ok(Ok(v)) => v,
            Ok(Err(e)) => json!({"def": false, "bad": e}),
            Err(_) => json!({"def": false, "panic": true}),
        }
    };
    let mut out = json!({"r": guard(&args)});
    if let Some(a2) = a.get("args2").and_then(|x| x.as_array()) {
        out["r2"] = guard(a2);
    }
    Ok(out)
}
