//! Naming registry and environment builders (mints, token accounts, oracle accounts, wallets).
//! Protocol objects are never written here — those go through real instructions (act.rs).
use crate::rt::{Acct, World};
use anchor_lang::Discriminator as _;
use anchor_lang::AnchorSerialize as _;
use solana_program::{instruction::Instruction, program_pack::Pack, pubkey::Pubkey};
use std::collections::{BTreeMap, HashMap};

pub const START_TS: i64 = 1_700_000_000;

#[derive(Clone, Default)]
pub struct Names {
    pub by_name: BTreeMap<String, Pubkey>,
    pub by_key: HashMap<Pubkey, String>,
}

impl Names {
    pub fn reg(&mut self, name: &str, key: Pubkey) -> Pubkey {
        self.by_name.insert(name.to_string(), key);
        self.by_key.insert(key, name.to_string());
        key
    }
    /// deterministic key for a symbolic name (keypair-like accounts)
    pub fn key(&mut self, name: &str) -> Pubkey {
        if let Some(k) = self.by_name.get(name) {
            return *k;
        }
        if name == "none" {
            return Pubkey::default();
        }
        let h = solana_program::hash::hash(format!("hx:{}", name).as_bytes());
        let k = Pubkey::new_from_array(h.to_bytes());
        self.reg(name, k)
    }
    pub fn name(&self, key: &Pubkey) -> String {
        if *key == Pubkey::default() {
            return "none".into();
        }
        match self.by_key.get(key) {
            Some(n) => n.clone(),
            None => format!("?{}", &key.to_string()[..8]),
        }
    }
}

#[derive(Clone, Debug)]
pub struct MintInfo {
    pub key: Pubkey,
    pub program: Pubkey,
    pub decimals: u8,
    pub fee_bps: u16,
    pub max_fee: u64,
    pub authority: Pubkey,
}

#[derive(Clone, Debug, PartialEq)]
pub enum OracleKind {
    Pyth,
    Swb,
}

#[derive(Clone, Debug)]
pub struct OracleInfo {
    pub key: Pubkey,
    pub kind: OracleKind,
    pub price: i64,
    pub conf: u64,
    pub ema_price: i64,
    pub ema_conf: u64,
    pub expo: i32,
    pub publish_time: i64,
    /// switchboard: value / std_dev scaled 1e18
    pub swb_value: i128,
    pub swb_std: i128,
    pub owner: Pubkey,
    pub discr_ok: bool,
    pub verification_full: bool,
}

/// an spl-single-pool validator pool: pool account, its LST mint PDA and its stake account PDA
#[derive(Clone, Debug)]
pub struct PoolInfo {
    pub pool: Pubkey,
    pub mint: Pubkey,
    pub sol_pool: Pubkey,
    pub mint_name: String,
    /// "stake" (delegated), "init" (initialized, not delegated) or "none" (uninitialized)
    pub state: String,
}

/// a Drift spot market of the stand-in venue
#[derive(Clone, Debug)]
pub struct MarketInfo {
    pub market: Pubkey,
    pub vault: Pubkey,
    pub mint_name: String,
    pub index: u16,
}

/// a Kamino reserve of the stand-in venue: reserve account, its lending market and liquidity supply vault
#[derive(Clone, Debug)]
pub struct ReserveInfo {
    pub reserve: Pubkey,
    pub market: Pubkey,
    pub lma: Pubkey,
    pub supply_vault: Pubkey,
    pub mint_name: String,
}

#[derive(Clone, Default)]
pub struct Env {
    pub world: World,
    pub names: Names,
    pub mints: BTreeMap<String, MintInfo>,
    pub oracles: BTreeMap<String, OracleInfo>,
    pub pools: BTreeMap<String, PoolInfo>,
    pub reserves: BTreeMap<String, ReserveInfo>,
    pub markets: BTreeMap<String, MarketInfo>,
    pub sreserves: BTreeMap<String, ReserveInfo>,
}

pub fn fee_state_key() -> Pubkey {
    Pubkey::find_program_address(&[marginfi_type_crate::constants::FEE_STATE_SEED.as_bytes()], &marginfi::ID).0
}

pub fn pda(seed: &str, k: &Pubkey) -> Pubkey {
    Pubkey::find_program_address(&[seed.as_bytes(), k.as_ref()], &marginfi::ID).0
}

impl Env {
    pub fn new() -> Env {
        crate::rt::init();
        let mut e = Env::default();
        e.world.clock.unix_timestamp = START_TS;
        e.world.clock.slot = 1000;
        e.world.clock.epoch = 10;
        for (n, k) in [
            ("prog.marginfi", marginfi::ID),
            ("prog.token", spl_token::ID),
            ("prog.token22", spl_token_2022::ID),
            ("prog.system", solana_program::system_program::ID),
            ("prog.compute", marginfi::constants::COMPUTE_PROGRAM_KEY),
            ("prog.jup", marginfi::constants::JUP_KEY),
            ("prog.titan", marginfi::constants::TITAN_KEY),
            ("prog.ata", marginfi::constants::ASSOCIATED_TOKEN_KEY),
            ("prog.kamino", marginfi::constants::KAMINO_PROGRAM_ID),
            ("prog.drift", marginfi::constants::DRIFT_PROGRAM_ID),
            ("prog.farms", marginfi::constants::FARMS_PROGRAM_ID),
            ("prog.solend", marginfi::constants::SOLEND_PROGRAM_ID),
            ("prog.wrapper", crate::rt::wrapper_program_id()),
            ("prog.unknown", crate::rt::noop_program_id()),
            ("prog.mocks", marginfi::constants::MOCKS_PROGRAM_ID),
        ] {
            e.names.reg(n, k);
            e.world.add_program(k);
        }
        // the Rent sysvar as an account (instructions that take `Sysvar<Rent>` read it from there)
        {
            let r = solana_program::rent::Rent::default();
            let mut data = r.lamports_per_byte_year.to_le_bytes().to_vec();
            data.extend_from_slice(&r.exemption_threshold.to_le_bytes());
            data.push(r.burn_percent);
            e.world.set(solana_program::sysvar::rent::ID, Acct { lamports: 1_009_200, data, owner: solana_program::sysvar::ID, executable: false });
        }
        e.names.reg("sysvar.ixs", solana_program::sysvar::instructions::ID);
        e.names.reg("sysvar.rent", solana_program::sysvar::rent::ID);
        e.names.reg("feestate", fee_state_key());
        e
    }

    pub fn k(&mut self, name: &str) -> Pubkey {
        self.names.key(name)
    }

    /// A system-owned wallet with lamports.
    pub fn wallet(&mut self, name: &str) -> Pubkey {
        let k = self.k(name);
        if self.world.get(&k).is_none() {
            self.world.fund(k, 1_000_000_000_000);
        }
        k
    }

    fn run(&mut self, ixs: &[Instruction], signers: &[Pubkey]) {
        let r = self.world.exec_tx(ixs, signers);
        if let Some(e) = r.err() {
            panic!("env setup instruction failed: {:?}", e);
        }
    }

    pub fn add_mint(&mut self, name: &str, decimals: u8, kind: &str, fee_bps: u16, max_fee: u64) -> Pubkey {
        let key = self.k(name);
        let auth = self.wallet("mintauth");
        let program = if kind == "spl" { spl_token::ID } else { spl_token_2022::ID };
        if kind == "spl" {
            self.world.set(
                key,
                Acct {
                    lamports: 10_000_000,
                    data: vec![0u8; spl_token::state::Mint::LEN],
                    owner: spl_token::ID,
                    executable: false,
                },
            );
            let ix = spl_token::instruction::initialize_mint2(&spl_token::ID, &key, &auth, None, decimals).unwrap();
            self.run(&[ix], &[]);
        } else {
            use spl_token_2022::extension::ExtensionType;
            let exts: Vec<ExtensionType> = if kind == "t22fee" { vec![ExtensionType::TransferFeeConfig] } else { vec![] };
            let len = ExtensionType::try_calculate_account_len::<spl_token_2022::state::Mint>(&exts).unwrap();
            self.world.set(
                key,
                Acct { lamports: 10_000_000, data: vec![0u8; len], owner: spl_token_2022::ID, executable: false },
            );
            let mut ixs = vec![];
            if kind == "t22fee" {
                ixs.push(
                    spl_token_2022::extension::transfer_fee::instruction::initialize_transfer_fee_config(
                        &spl_token_2022::ID,
                        &key,
                        Some(&auth),
                        Some(&auth),
                        fee_bps,
                        max_fee,
                    )
                    .unwrap(),
                );
            }
            ixs.push(
                spl_token_2022::instruction::initialize_mint2(&spl_token_2022::ID, &key, &auth, None, decimals).unwrap(),
            );
            self.run(&ixs, &[]);
        }
        self.mints.insert(
            name.to_string(),
            MintInfo { key, program, decimals, fee_bps: if kind == "t22fee" { fee_bps } else { 0 }, max_fee, authority: auth },
        );
        key
    }

    /// spl-single-pool look-alike: pool account (owned by the single-pool program), LST mint at its "mint" PDA
    /// (classic SPL mint, 9 decimals) and the pool's stake account at its "stake" PDA (owned by the native
    /// stake program, bincode/borsh StakeStateV2 with the given delegated stake).
    pub fn add_stake_pool(&mut self, name: &str, mint_name: &str, stake: u64) {
        let spl = marginfi::constants::SPL_SINGLE_POOL_ID;
        let pool = self.k(name);
        self.world.set(pool, Acct { lamports: 10_000_000, data: vec![1u8; 33], owner: spl, executable: false });
        let mint = Pubkey::find_program_address(&[b"mint", pool.as_ref()], &spl).0;
        let sol_pool = Pubkey::find_program_address(&[b"stake", pool.as_ref()], &spl).0;
        self.names.reg(mint_name, mint);
        self.names.reg(&format!("{}.stake", name), sol_pool);
        let auth = self.wallet("mintauth");
        self.world.set(mint, Acct { lamports: 10_000_000, data: vec![0u8; spl_token::state::Mint::LEN], owner: spl_token::ID, executable: false });
        let ix = spl_token::instruction::initialize_mint2(&spl_token::ID, &mint, &auth, None, 9).unwrap();
        self.run(&[ix], &[]);
        self.mints.insert(mint_name.to_string(), MintInfo { key: mint, program: spl_token::ID, decimals: 9, fee_bps: 0, max_fee: 0, authority: auth });
        self.pools.insert(name.to_string(), PoolInfo { pool, mint, sol_pool, mint_name: mint_name.to_string(), state: "stake".into() });
        self.set_stake(name, stake, "stake");
    }

    pub fn set_stake(&mut self, name: &str, stake: u64, state: &str) {
        use solana_program::stake::state::{Delegation, Meta, Stake, StakeStateV2};
        use solana_program::stake::stake_flags::StakeFlags;
        let p = match self.pools.get_mut(name) {
            Some(p) => p,
            None => return,
        };
        p.state = state.to_string();
        let st = match state {
            "stake" => StakeStateV2::Stake(
                Meta::default(),
                Stake { delegation: Delegation { stake, ..Delegation::default() }, credits_observed: 0 },
                StakeFlags::empty(),
            ),
            "init" => StakeStateV2::Initialized(Meta::default()),
            _ => StakeStateV2::Uninitialized,
        };
        let mut data = borsh::to_vec(&st).expect("stake state");
        data.resize(200, 0);
        let key = p.sol_pool;
        self.world.set(key, Acct { lamports: stake.saturating_add(2_282_880), data, owner: marginfi::constants::NATIVE_STAKE_ID, executable: false });
    }

    /// (delegated stake, LST supply) of a pool, read back from the accounts
    pub fn pool_numbers(&self, p: &PoolInfo) -> (u64, u64) {
        use solana_program::stake::state::StakeStateV2;
        let stake = self
            .world
            .get(&p.sol_pool)
            .and_then(|a| solana_program::borsh1::try_from_slice_unchecked::<StakeStateV2>(&a.data).ok())
            .and_then(|s| match s {
                StakeStateV2::Stake(_, st, _) => Some(st.delegation.stake),
                _ => None,
            })
            .unwrap_or(0);
        let supply = self.world.get(&p.mint).map(|a| u64::from_le_bytes(a.data[36..44].try_into().unwrap())).unwrap_or(0);
        (stake, supply)
    }

    /// Kamino reserve (stand-in venue): reserve account with the real layout and discriminator, owned by the Kamino
    /// program id, a lending market, and a liquidity supply vault owned by the market authority PDA holding `avail`.
    pub fn add_kamino_reserve(&mut self, name: &str, mint_name: &str, market_name: &str, avail: u64, supply: u64, borrowed_units: u64) {
        use kamino_mocks::state::{MinimalReserve, RESERVE_DISCRIMINATOR};
        let kamino = marginfi::constants::KAMINO_PROGRAM_ID;
        let m = self.mints[mint_name].clone();
        let reserve = self.k(name);
        let market = self.k(market_name);
        if self.world.get(&market).is_none() {
            self.world.set(market, Acct { lamports: 10_000_000, data: vec![7u8; 64], owner: kamino, executable: false });
        }
        let (lma, _) = crate::venue::lending_market_authority(&market);
        self.names.reg(&format!("{}.lma", market_name), lma);
        let vault = self.token_account(&format!("{}.supply", name), mint_name, lma);
        if avail > 0 {
            self.mint_to(mint_name, vault, avail);
        }
        let mut r: MinimalReserve = bytemuck::Zeroable::zeroed();
        r.version = 1;
        r.slot = self.world.clock.slot;
        r.lending_market = market;
        r.mint_pubkey = m.key;
        r.supply_vault = vault;
        r.available_amount = avail;
        r.borrowed_amount_sf = ((borrowed_units as u128) << 60).to_le_bytes();
        r.mint_decimals = m.decimals as u64;
        r.mint_total_supply = supply;
        r.token_program = m.program;
        let mut data = RESERVE_DISCRIMINATOR.to_vec();
        data.extend_from_slice(bytemuck::bytes_of(&r));
        self.world.set(reserve, Acct { lamports: 100_000_000, data, owner: kamino, executable: false });
        // placeholders for the collateral mint / collateral supply accounts the instructions carry along
        for sfx in ["cmint", "umeta"] {
            let k = self.k(&format!("{}.{}", name, sfx));
            if self.world.get(&k).is_none() {
                self.world.fund(k, 1_000_000);
            }
        }
        self.token_account(&format!("{}.csupply", name), mint_name, lma);
        self.reserves.insert(name.to_string(), ReserveInfo { reserve, market, lma, supply_vault: vault, mint_name: mint_name.to_string() });
    }

    /// Solend reserve (stand-in venue): reserve account on the real packed layout behind its version byte, lending
    /// market, liquidity supply vault owned by the market's authority PDA
    pub fn add_solend_reserve(&mut self, name: &str, mint_name: &str, market_name: &str, avail: u64, supply: u64, borrowed_wads: u128) {
        use solend_mocks::state::{SolendMinimalReserve, RESERVE_LEN};
        let solend = marginfi::constants::SOLEND_PROGRAM_ID;
        let m = self.mints[mint_name].clone();
        let reserve = self.k(name);
        let market = self.k(market_name);
        if self.world.get(&market).is_none() {
            self.world.set(market, Acct { lamports: 10_000_000, data: vec![1u8; 290], owner: solend, executable: false });
        }
        let (lma, _) = crate::venue::solend::lending_market_authority(&market);
        self.names.reg(&format!("{}.lma", market_name), lma);
        let vault = self.token_account(&format!("{}.supply", name), mint_name, lma);
        if avail > 0 {
            self.mint_to(mint_name, vault, avail);
        }
        let mut r: SolendMinimalReserve = bytemuck::Zeroable::zeroed();
        r.last_update_slot = self.world.clock.slot;
        r.lending_market = market;
        r.liquidity_mint_pubkey = m.key;
        r.liquidity_mint_decimals = m.decimals;
        r.liquidity_supply_pubkey = vault;
        r.liquidity_available_amount = avail;
        r.liquidity_borrowed_amount_wads = borrowed_wads.to_le_bytes();
        r.collateral_mint_total_supply = supply;
        let mut data = vec![1u8];
        data.extend_from_slice(bytemuck::bytes_of(&r));
        assert_eq!(data.len(), RESERVE_LEN);
        self.world.set(reserve, Acct { lamports: 100_000_000, data, owner: solend, executable: false });
        for sfx in ["cmint", "ucol"] {
            let k = self.k(&format!("{}.{}", name, sfx));
            if self.world.get(&k).is_none() {
                self.world.fund(k, 1_000_000);
            }
        }
        self.token_account(&format!("{}.csupply", name), mint_name, lma);
        self.sreserves.insert(name.to_string(), ReserveInfo { reserve, market, lma, supply_vault: vault, mint_name: mint_name.to_string() });
    }
    pub fn set_solend_reserve(&mut self, name: &str, f: &dyn Fn(&mut solend_mocks::state::SolendMinimalReserve)) {
        use solend_mocks::state::{SolendMinimalReserve, RESERVE_LEN};
        let key = match self.sreserves.get(name) {
            Some(r) => r.reserve,
            None => return,
        };
        if let Some(a) = self.world.accts.get_mut(&key) {
            let mut r: SolendMinimalReserve = bytemuck::pod_read_unaligned(&a.data[1..RESERVE_LEN]);
            f(&mut r);
            a.data[1..RESERVE_LEN].copy_from_slice(bytemuck::bytes_of(&r));
        }
    }

    /// Drift spot market (stand-in venue): market account with the real layout, vault owned by the venue's signer PDA
    pub fn add_drift_market(&mut self, name: &str, mint_name: &str, index: u16, cum: u128) {
        use drift_mocks::state::{MinimalSpotMarket, SPOT_MARKET_DISCRIMINATOR};
        let drift = marginfi::constants::DRIFT_PROGRAM_ID;
        let m = self.mints[mint_name].clone();
        let market = self.k(name);
        let (signer, _) = crate::venue::drift::signer_pda();
        self.names.reg("drift.signer", signer);
        let state = self.k("drift.state");
        if self.world.get(&state).is_none() {
            self.world.set(state, Acct { lamports: 10_000_000, data: vec![3u8; 64], owner: drift, executable: false });
        }
        let vault = self.token_account(&format!("{}.vault", name), mint_name, signer);
        let mut sm: MinimalSpotMarket = bytemuck::Zeroable::zeroed();
        sm.pubkey = market;
        sm.mint = m.key;
        sm.vault = vault;
        sm.cumulative_deposit_interest = cum.to_le_bytes();
        sm.cumulative_borrow_interest = cum.to_le_bytes();
        sm.last_interest_ts = self.world.clock.unix_timestamp as u64;
        sm.decimals = m.decimals as u32;
        sm.market_index = index;
        let mut data = SPOT_MARKET_DISCRIMINATOR.to_vec();
        data.extend_from_slice(bytemuck::bytes_of(&sm));
        self.world.set(market, Acct { lamports: 100_000_000, data, owner: drift, executable: false });
        self.markets.insert(name.to_string(), MarketInfo { market, vault, mint_name: mint_name.to_string(), index });
    }
    pub fn set_drift_market(&mut self, name: &str, f: &dyn Fn(&mut drift_mocks::state::MinimalSpotMarket)) {
        use drift_mocks::state::MinimalSpotMarket;
        let key = match self.markets.get(name) {
            Some(r) => r.market,
            None => return,
        };
        if let Some(a) = self.world.accts.get_mut(&key) {
            let sz = std::mem::size_of::<MinimalSpotMarket>();
            let mut r: MinimalSpotMarket = bytemuck::pod_read_unaligned(&a.data[8..8 + sz]);
            f(&mut r);
            a.data[8..8 + sz].copy_from_slice(bytemuck::bytes_of(&r));
        }
    }

    /// environment moves on a reserve: interest (borrowed grows), fees, slot of the last refresh
    pub fn set_kamino_reserve(&mut self, name: &str, f: &dyn Fn(&mut kamino_mocks::state::MinimalReserve)) {
        use kamino_mocks::state::MinimalReserve;
        let key = match self.reserves.get(name) {
            Some(r) => r.reserve,
            None => return,
        };
        if let Some(a) = self.world.accts.get_mut(&key) {
            let sz = std::mem::size_of::<MinimalReserve>();
            let mut r: MinimalReserve = bytemuck::pod_read_unaligned(&a.data[8..8 + sz]);
            f(&mut r);
            a.data[8..8 + sz].copy_from_slice(bytemuck::bytes_of(&r));
        }
    }

    pub fn mint_by_key(&self, key: &Pubkey) -> Option<&MintInfo> {
        self.mints.values().find(|m| m.key == *key)
    }

    /// Create (if absent) a token account named `name` at a deterministic key for (owner, mint).
    pub fn token_account(&mut self, name: &str, mint_name: &str, owner: Pubkey) -> Pubkey {
        let key = self.k(name);
        self.token_account_at(key, mint_name, owner);
        key
    }

    pub fn token_account_at(&mut self, key: Pubkey, mint_name: &str, owner: Pubkey) {
        if self.world.get(&key).is_some() {
            return;
        }
        let m = self.mints[mint_name].clone();
        let len = if m.program == spl_token::ID {
            spl_token::state::Account::LEN
        } else {
            use spl_token_2022::extension::ExtensionType;
            let exts: Vec<ExtensionType> =
                if m.fee_bps > 0 || m.max_fee > 0 || self.mint_has_fee_ext(&m.key) { vec![ExtensionType::TransferFeeAmount] } else { vec![] };
            ExtensionType::try_calculate_account_len::<spl_token_2022::state::Account>(&exts).unwrap()
        };
        self.world.set(key, Acct { lamports: 10_000_000, data: vec![0u8; len], owner: m.program, executable: false });
        let ix = if m.program == spl_token::ID {
            spl_token::instruction::initialize_account3(&m.program, &key, &m.key, &owner).unwrap()
        } else {
            spl_token_2022::instruction::initialize_account3(&m.program, &key, &m.key, &owner).unwrap()
        };
        self.run(&[ix], &[]);
    }

    /// schedule a new transfer fee through the real Token-2022 instruction (takes effect two epochs later, as on chain)
    pub fn set_transfer_fee(&mut self, mint_name: &str, fee_bps: u16, max_fee: u64) {
        let m = self.mints[mint_name].clone();
        let ix = spl_token_2022::extension::transfer_fee::instruction::set_transfer_fee(&spl_token_2022::ID, &m.key, &m.authority, &[], fee_bps, max_fee).unwrap();
        self.run(&[ix], &[m.authority]);
    }

    /// the transfer fee in force at the current epoch, read from the mint account: (basis points, maximum)
    pub fn fee_in_force(&self, mint: &Pubkey) -> Option<(u16, u64)> {
        use spl_token_2022::extension::{BaseStateWithExtensions, StateWithExtensions};
        let a = self.world.get(mint)?;
        if a.owner != spl_token_2022::ID {
            return None;
        }
        let st = StateWithExtensions::<spl_token_2022::state::Mint>::unpack(&a.data).ok()?;
        let c = st.get_extension::<spl_token_2022::extension::transfer_fee::TransferFeeConfig>().ok()?;
        let f = c.get_epoch_fee(self.world.clock.epoch);
        Some((u16::from(f.transfer_fee_basis_points), u64::from(f.maximum_fee)))
    }

    fn mint_has_fee_ext(&self, mint: &Pubkey) -> bool {
        use spl_token_2022::extension::{BaseStateWithExtensions, StateWithExtensions};
        let a = match self.world.get(mint) {
            Some(a) => a,
            None => return false,
        };
        if a.owner != spl_token_2022::ID {
            return false;
        }
        match StateWithExtensions::<spl_token_2022::state::Mint>::unpack(&a.data) {
            Ok(s) => s.get_extension::<spl_token_2022::extension::transfer_fee::TransferFeeConfig>().is_ok(),
            Err(_) => false,
        }
    }

    pub fn ata(&mut self, wallet: Pubkey, mint_name: &str) -> Pubkey {
        let m = self.mints[mint_name].clone();
        let key = spl_associated_token_account::get_associated_token_address_with_program_id(&wallet, &m.key, &m.program);
        let nm = format!("ata.{}.{}", self.names.name(&wallet), mint_name);
        self.names.reg(&nm, key);
        self.token_account_at(key, mint_name, wallet);
        key
    }

    pub fn mint_to(&mut self, mint_name: &str, dest: Pubkey, amount: u64) {
        let m = self.mints[mint_name].clone();
        let ix = if m.program == spl_token::ID {
            spl_token::instruction::mint_to(&m.program, &m.key, &dest, &m.authority, &[], amount).unwrap()
        } else {
            spl_token_2022::instruction::mint_to(&m.program, &m.key, &dest, &m.authority, &[], amount).unwrap()
        };
        self.run(&[ix], &[m.authority]);
    }

    pub fn token_amount(&self, key: &Pubkey) -> Option<u64> {
        let a = self.world.get(key)?;
        if a.data.len() < 72 {
            return None;
        }
        Some(u64::from_le_bytes(a.data[64..72].try_into().unwrap()))
    }

    // ---------------- oracles ----------------
    pub fn set_oracle(&mut self, name: &str, o: OracleInfo) {
        let mut o = o;
        o.key = self.k(name);
        let data = match o.kind {
            OracleKind::Pyth => {
                use pyth_solana_receiver_sdk::price_update::{PriceFeedMessage, PriceUpdateV2, VerificationLevel};
                let pu = PriceUpdateV2 {
                    write_authority: Pubkey::default(),
                    verification_level: if o.verification_full {
                        VerificationLevel::Full
                    } else {
                        VerificationLevel::Partial { num_signatures: 1 }
                    },
                    price_message: PriceFeedMessage {
                        feed_id: o.key.to_bytes(),
                        price: o.price,
                        conf: o.conf,
                        exponent: o.expo,
                        publish_time: o.publish_time,
                        prev_publish_time: o.publish_time,
                        ema_price: o.ema_price,
                        ema_conf: o.ema_conf,
                    },
                    posted_slot: 1,
                };
                let mut d = vec![];
                if o.discr_ok {
                    d.extend_from_slice(PriceUpdateV2::DISCRIMINATOR);
                } else {
                    d.extend_from_slice(&[9u8; 8]);
                }
                pu.serialize(&mut d).unwrap();
                d
            }
            OracleKind::Swb => {
                use switchboard_on_demand::{Discriminator, PullFeedAccountData};
                let mut f: PullFeedAccountData = bytemuck::Zeroable::zeroed();
                f.result.value = o.swb_value;
                f.result.std_dev = o.swb_std;
                f.result.mean = o.swb_value;
                f.result.min_value = o.swb_value;
                f.result.max_value = o.swb_value;
                f.result.num_samples = 1;
                f.last_update_timestamp = o.publish_time;
                let mut d = vec![];
                if o.discr_ok {
                    d.extend_from_slice(&PullFeedAccountData::DISCRIMINATOR);
                } else {
                    d.extend_from_slice(&[9u8; 8]);
                }
                d.extend_from_slice(bytemuck::bytes_of(&f));
                d
            }
        };
        self.world.set(o.key, Acct { lamports: 1_000_000, data, owner: o.owner, executable: false });
        self.oracles.insert(name.to_string(), o);
    }

    pub fn pyth(&mut self, name: &str, price: i64, conf: u64, expo: i32, publish_time: i64) {
        let o = OracleInfo {
            key: Pubkey::default(),
            kind: OracleKind::Pyth,
            price,
            conf,
            ema_price: price,
            ema_conf: conf,
            expo,
            publish_time,
            swb_value: 0,
            swb_std: 0,
            owner: pyth_solana_receiver_sdk::ID,
            discr_ok: true,
            verification_full: true,
        };
        self.set_oracle(name, o);
    }

    pub fn swb(&mut self, name: &str, value: i128, std: i128, ts: i64) {
        let o = OracleInfo {
            key: Pubkey::default(),
            kind: OracleKind::Swb,
            price: 0,
            conf: 0,
            ema_price: 0,
            ema_conf: 0,
            expo: 0,
            publish_time: ts,
            swb_value: value,
            swb_std: std,
            owner: marginfi::constants::SWITCHBOARD_PULL_ID,
            discr_ok: true,
            verification_full: true,
        };
        self.set_oracle(name, o);
    }
}
