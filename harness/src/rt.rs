//! Minimal deterministic Solana runtime: account store, BPF-format (aligned) input serialization,
//! native dispatch to the real `marginfi::entry`, the real SPL Token / Token-2022 processors, a small
//! System program, syscall stubs (clock, rent, stack height, CPI), transaction atomicity.
use solana_program::{
    account_info::AccountInfo,
    clock::Clock,
    entrypoint::ProgramResult,
    instruction::{AccountMeta, Instruction},
    program_error::ProgramError,
    program_stubs,
    pubkey::Pubkey,
    rent::Rent,
    system_instruction::SystemInstruction,
    sysvar::instructions as ixs_sysvar,
};
use std::cell::RefCell;
use std::collections::{BTreeMap, HashMap};

pub const MAX_PERMITTED_DATA_INCREASE: usize = 10240;

#[derive(Clone, Debug, PartialEq, Eq)]
pub struct Acct {
    pub lamports: u64,
    pub data: Vec<u8>,
    pub owner: Pubkey,
    pub executable: bool,
}

#[derive(Clone, Copy, Debug, Default, PartialEq, Eq)]
pub struct Clk {
    pub unix_timestamp: i64,
    pub slot: u64,
    pub epoch: u64,
}

#[derive(Clone, Default)]
pub struct World {
    pub accts: BTreeMap<Pubkey, Acct>,
    pub clock: Clk,
}

#[derive(Clone, Debug, PartialEq, Eq)]
pub enum IxErr {
    /// Program returned an error. Custom(n) for program-defined codes.
    Program(ProgramError),
    /// The program panicked (message).
    Panic(String),
    /// Runtime rule violated (our mini runtime's post-checks).
    Runtime(String),
}

impl IxErr {
    pub fn code(&self) -> i64 {
        match self {
            IxErr::Program(ProgramError::Custom(n)) => *n as i64,
            IxErr::Program(e) => {
                // builtin errors: map to negative numbers to distinguish from custom codes
                -((u64::from(e.clone()) >> 32) as i64)
            }
            IxErr::Panic(_) => -1000,
            IxErr::Runtime(_) => -2000,
        }
    }
    pub fn label(&self) -> String {
        match self {
            IxErr::Program(ProgramError::Custom(n)) => format!("custom:{}", n),
            IxErr::Program(e) => format!("builtin:{:?}", e),
            IxErr::Panic(m) => format!("panic:{}", m.chars().take(80).collect::<String>()),
            IxErr::Runtime(m) => format!("runtime:{}", m),
        }
    }
}

// ---------------------------------------------------------------------------------------------
// thread-local runtime context read by the syscall stubs
// ---------------------------------------------------------------------------------------------
#[derive(Default)]
struct Ctx {
    clock: Clk,
    stack: Vec<Pubkey>, // program ids, stack height = len
    frames: Vec<Vec<Pubkey>>, // instruction account keys per frame
    logs: Vec<String>,
    capture_logs: bool,
    return_data: Option<(Pubkey, Vec<u8>)>,
    cpi_log: Vec<(Pubkey, u8)>, // (program, first data byte) for diagnostics
}

thread_local! {
    static CTX: RefCell<Ctx> = RefCell::new(Ctx::default());
}

pub fn set_capture_logs(on: bool) {
    CTX.with(|c| c.borrow_mut().capture_logs = on);
}
pub fn take_logs() -> Vec<String> {
    CTX.with(|c| std::mem::take(&mut c.borrow_mut().logs))
}

struct Stubs;

pub fn wrapper_program_id() -> Pubkey {
    // a "some other program" that CPIs into marginfi with the accounts/data it is given
    Pubkey::new_from_array(*b"WrapperProgram111111111111111111")
}
pub fn noop_program_id() -> Pubkey {
    Pubkey::new_from_array(*b"NoopUnknownProgram11111111111111")
}

fn dispatch(program_id: &Pubkey, accounts: &[AccountInfo], data: &[u8]) -> ProgramResult {
    // SAFETY: lifetimes — the callee only uses the infos during the call
    let accounts_static: &'static [AccountInfo<'static>] =
        unsafe { std::mem::transmute::<&[AccountInfo], &'static [AccountInfo<'static>]>(accounts) };
    if *program_id == marginfi::ID {
        marginfi::entry(program_id, accounts_static, data)
    } else if *program_id == spl_token::ID {
        spl_token::processor::Processor::process(program_id, accounts, data)
    } else if *program_id == spl_token_2022::ID {
        spl_token_2022::processor::Processor::process(program_id, accounts, data)
    } else if *program_id == solana_program::system_program::ID {
        system_process(accounts, data)
    } else if *program_id == wrapper_program_id() || *program_id == marginfi::constants::MOCKS_PROGRAM_ID {
        wrapper_process(accounts, data)
    } else if *program_id == crate::venue::drift::DRIFT {
        crate::venue::drift::process(accounts, data)
    } else if *program_id == crate::venue::solend::SOLEND {
        crate::venue::solend::process(accounts, data)
    } else if *program_id == crate::venue::KAMINO {
        // stand-in venue (environment): see venue.rs
        crate::venue::process(accounts, data)
    } else {
        // Any other program id present in the world as executable: behaves as a no-op program
        // (ComputeBudget, Jupiter stand-in, unknown programs).
        Ok(())
    }
}

/// Wrapper program: data = inner instruction data for marginfi; accounts[0] = marginfi program,
/// the rest are forwarded with their flags. Used to exercise "not in CPI" rules.
fn wrapper_process(accounts: &[AccountInfo], data: &[u8]) -> ProgramResult {
    if accounts.is_empty() {
        return Err(ProgramError::NotEnoughAccountKeys);
    }
    let metas: Vec<AccountMeta> = accounts[1..]
        .iter()
        .map(|a| AccountMeta { pubkey: *a.key, is_signer: a.is_signer, is_writable: a.is_writable })
        .collect();
    let ix = Instruction { program_id: *accounts[0].key, accounts: metas, data: data.to_vec() };
    solana_program::program::invoke(&ix, accounts)
}

fn system_process(accounts: &[AccountInfo], data: &[u8]) -> ProgramResult {
    let ix: SystemInstruction =
        bincode_deser(data).ok_or(ProgramError::InvalidInstructionData)?;
    match ix {
        SystemInstruction::CreateAccount { lamports, space, owner } => {
            let from = &accounts[0];
            let to = &accounts[1];
            if !from.is_signer || !to.is_signer {
                return Err(ProgramError::MissingRequiredSignature);
            }
            if to.lamports() > 0 || !to.data_is_empty() || *to.owner != solana_program::system_program::ID {
                return Err(ProgramError::Custom(0)); // AccountAlreadyInUse
            }
            sys_transfer(from, to, lamports)?;
            to.realloc(space as usize, true)?;
            to.assign(&owner);
            Ok(())
        }
        SystemInstruction::Transfer { lamports } => {
            let from = &accounts[0];
            let to = &accounts[1];
            if !from.is_signer {
                return Err(ProgramError::MissingRequiredSignature);
            }
            sys_transfer(from, to, lamports)
        }
        SystemInstruction::Allocate { space } => {
            let a = &accounts[0];
            if !a.is_signer {
                return Err(ProgramError::MissingRequiredSignature);
            }
            if !a.data_is_empty() || *a.owner != solana_program::system_program::ID {
                return Err(ProgramError::Custom(0));
            }
            a.realloc(space as usize, true)
        }
        SystemInstruction::Assign { owner } => {
            let a = &accounts[0];
            if !a.is_signer {
                return Err(ProgramError::MissingRequiredSignature);
            }
            a.assign(&owner);
            Ok(())
        }
        _ => Err(ProgramError::InvalidInstructionData),
    }
}

fn sys_transfer(from: &AccountInfo, to: &AccountInfo, lamports: u64) -> ProgramResult {
    if !from.data_is_empty() {
        return Err(ProgramError::InvalidArgument);
    }
    if from.lamports() < lamports {
        return Err(ProgramError::Custom(1)); // ResultWithNegativeLamports
    }
    if from.key == to.key {
        return Ok(());
    }
    **from.try_borrow_mut_lamports()? -= lamports;
    **to.try_borrow_mut_lamports()? += lamports;
    Ok(())
}

// tiny bincode reader for SystemInstruction (u32 tag + fields, little endian)
fn bincode_deser(data: &[u8]) -> Option<SystemInstruction> {
    let tag = u32::from_le_bytes(data.get(0..4)?.try_into().ok()?);
    let u64_at = |o: usize| -> Option<u64> { Some(u64::from_le_bytes(data.get(o..o + 8)?.try_into().ok()?)) };
    let pk_at = |o: usize| -> Option<Pubkey> { Some(Pubkey::new_from_array(data.get(o..o + 32)?.try_into().ok()?)) };
    match tag {
        0 => Some(SystemInstruction::CreateAccount { lamports: u64_at(4)?, space: u64_at(12)?, owner: pk_at(20)? }),
        1 => Some(SystemInstruction::Assign { owner: pk_at(4)? }),
        2 => Some(SystemInstruction::Transfer { lamports: u64_at(4)? }),
        8 => Some(SystemInstruction::Allocate { space: u64_at(4)? }),
        _ => None,
    }
}

impl program_stubs::SyscallStubs for Stubs {
    fn sol_log(&self, message: &str) {
        CTX.with(|c| {
            let mut c = c.borrow_mut();
            if c.capture_logs {
                c.logs.push(message.to_string());
            }
        });
    }
    fn sol_log_compute_units(&self) {}
    fn sol_remaining_compute_units(&self) -> u64 {
        1_000_000
    }
    fn sol_log_data(&self, _fields: &[&[u8]]) {}
    fn sol_get_clock_sysvar(&self, var_addr: *mut u8) -> u64 {
        let clk = CTX.with(|c| c.borrow().clock);
        unsafe {
            *(var_addr as *mut Clock) = Clock {
                slot: clk.slot,
                epoch_start_timestamp: 0,
                epoch: clk.epoch,
                leader_schedule_epoch: clk.epoch + 1,
                unix_timestamp: clk.unix_timestamp,
            };
        }
        0
    }
    fn sol_get_rent_sysvar(&self, var_addr: *mut u8) -> u64 {
        unsafe {
            *(var_addr as *mut Rent) = Rent::default();
        }
        0
    }
    fn sol_get_stack_height(&self) -> u64 {
        CTX.with(|c| c.borrow().stack.len() as u64)
    }
    fn sol_set_return_data(&self, data: &[u8]) {
        CTX.with(|c| {
            let mut c = c.borrow_mut();
            let pid = *c.stack.last().unwrap_or(&Pubkey::default());
            c.return_data = Some((pid, data.to_vec()));
        });
    }
    fn sol_get_return_data(&self) -> Option<(Pubkey, Vec<u8>)> {
        CTX.with(|c| c.borrow().return_data.clone())
    }
    fn sol_invoke_signed(
        &self,
        instruction: &Instruction,
        account_infos: &[AccountInfo],
        signers_seeds: &[&[&[u8]]],
    ) -> ProgramResult {
        let caller = CTX.with(|c| *c.borrow().stack.last().expect("cpi outside program"));
        let mut pda_signers = vec![];
        for seeds in signers_seeds {
            let pk = Pubkey::create_program_address(seeds, &caller)
                .map_err(|_| ProgramError::InvalidSeeds)?;
            pda_signers.push(pk);
        }
        // the callee program must be among the caller instruction's accounts (as on chain)
        let known = CTX.with(|c| c.borrow().frames.last().map(|f| f.contains(&instruction.program_id)).unwrap_or(false));
        if !known {
            return Err(ProgramError::Custom(0xdead_0002)); // MissingAccount (unknown program)
        }
        let mut new_infos: Vec<AccountInfo> = Vec::with_capacity(instruction.accounts.len());
        // per-account union of flags inside this instruction
        let mut flags: HashMap<Pubkey, (bool, bool)> = HashMap::new();
        for m in &instruction.accounts {
            let e = flags.entry(m.pubkey).or_insert((false, false));
            e.0 |= m.is_signer;
            e.1 |= m.is_writable;
        }
        for meta in &instruction.accounts {
            let info = account_infos
                .iter()
                .find(|a| *a.key == meta.pubkey)
                .ok_or(ProgramError::NotEnoughAccountKeys)?;
            let (want_s, want_w) = flags[&meta.pubkey];
            if want_s && !(info.is_signer || pda_signers.contains(info.key)) {
                return Err(ProgramError::MissingRequiredSignature); // privilege escalation
            }
            if want_w && !info.is_writable {
                return Err(ProgramError::Custom(0xdead_0001)); // writable privilege escalation
            }
            let mut ni = info.clone();
            ni.is_signer = want_s;
            ni.is_writable = want_w;
            new_infos.push(ni);
        }
        CTX.with(|c| {
            let mut c = c.borrow_mut();
            c.stack.push(instruction.program_id);
            c.frames.push(instruction.accounts.iter().map(|m| m.pubkey).collect());
            let b = instruction.data.first().copied().unwrap_or(0);
            c.cpi_log.push((instruction.program_id, b));
        });
        let r = dispatch(&instruction.program_id, &new_infos, &instruction.data);
        CTX.with(|c| {
            let mut c = c.borrow_mut();
            c.stack.pop();
            c.frames.pop();
        });
        r
    }
}

static INIT: std::sync::Once = std::sync::Once::new();
pub fn init() {
    INIT.call_once(|| {
        program_stubs::set_syscall_stubs(Box::new(Stubs));
        std::panic::set_hook(Box::new(|_| {}));
    });
}

// ---------------------------------------------------------------------------------------------
// serialization into the aligned BPF loader input format
// ---------------------------------------------------------------------------------------------
struct Slot {
    key: Pubkey,
    off_lamports: usize,
    off_owner: usize,
    off_dlen: usize,
    off_data: usize,
}

fn serialize(
    world: &World,
    program_id: &Pubkey,
    metas: &[(Pubkey, bool, bool)],
    data: &[u8],
    sysvar_ixs: Option<&[u8]>,
) -> (Vec<u64>, Vec<Slot>) {
    let mut buf: Vec<u8> = Vec::with_capacity(64 * 1024);
    let mut slots = vec![];
    buf.extend_from_slice(&(metas.len() as u64).to_le_bytes());
    let mut seen: Vec<Pubkey> = vec![];
    for (key, is_signer, is_writable) in metas {
        if let Some(j) = seen.iter().position(|k| k == key) {
            buf.push(j as u8);
            buf.extend_from_slice(&[0u8; 7]);
            seen.push(*key);
            continue;
        }
        seen.push(*key);
        let empty = Acct { lamports: 0, data: vec![], owner: solana_program::system_program::ID, executable: false };
        let mut a = world.accts.get(key).cloned().unwrap_or(empty);
        if *key == ixs_sysvar::ID {
            if let Some(d) = sysvar_ixs {
                a = Acct { lamports: 1, data: d.to_vec(), owner: solana_program::sysvar::ID, executable: false };
            }
        }
        buf.push(0xff);
        buf.push(*is_signer as u8);
        buf.push(*is_writable as u8);
        buf.push(a.executable as u8);
        buf.extend_from_slice(&[0u8; 4]);
        buf.extend_from_slice(key.as_ref());
        let off_owner = buf.len();
        buf.extend_from_slice(a.owner.as_ref());
        let off_lamports = buf.len();
        buf.extend_from_slice(&a.lamports.to_le_bytes());
        let off_dlen = buf.len();
        buf.extend_from_slice(&(a.data.len() as u64).to_le_bytes());
        let off_data = buf.len();
        buf.extend_from_slice(&a.data);
        buf.extend(std::iter::repeat(0u8).take(MAX_PERMITTED_DATA_INCREASE));
        while buf.len() % 8 != 0 {
            buf.push(0);
        }
        buf.extend_from_slice(&0u64.to_le_bytes()); // rent epoch
        slots.push(Slot { key: *key, off_lamports, off_owner, off_dlen, off_data });
    }
    buf.extend_from_slice(&(data.len() as u64).to_le_bytes());
    buf.extend_from_slice(data);
    buf.extend_from_slice(program_id.as_ref());
    // move into 8-aligned storage
    let mut out = vec![0u64; (buf.len() + 7) / 8 + 1];
    unsafe {
        std::ptr::copy_nonoverlapping(buf.as_ptr(), out.as_mut_ptr() as *mut u8, buf.len());
    }
    (out, slots)
}

pub fn build_ixs_sysvar(ixs: &[Instruction], current: u16) -> Vec<u8> {
    let borrowed: Vec<ixs_sysvar::BorrowedInstruction> = ixs
        .iter()
        .map(|ix| ixs_sysvar::BorrowedInstruction {
            program_id: &ix.program_id,
            accounts: ix
                .accounts
                .iter()
                .map(|m| ixs_sysvar::BorrowedAccountMeta {
                    pubkey: &m.pubkey,
                    is_signer: m.is_signer,
                    is_writable: m.is_writable,
                })
                .collect(),
            data: &ix.data,
        })
        .collect();
    let mut d = ixs_sysvar::construct_instructions_data(&borrowed);
    ixs_sysvar::store_current_index(&mut d, current);
    d
}

impl World {
    pub fn set(&mut self, key: Pubkey, a: Acct) {
        self.accts.insert(key, a);
    }
    pub fn get(&self, key: &Pubkey) -> Option<&Acct> {
        self.accts.get(key)
    }
    pub fn add_program(&mut self, key: Pubkey) {
        self.accts.insert(
            key,
            Acct { lamports: 1, data: vec![], owner: solana_program::bpf_loader::ID, executable: true },
        );
    }
    pub fn fund(&mut self, key: Pubkey, lamports: u64) {
        self.accts.insert(
            key,
            Acct { lamports, data: vec![], owner: solana_program::system_program::ID, executable: false },
        );
    }

    /// Execute one top-level instruction against `self` (mutating only on success).
    /// `tx_flags`: message-level (signer, writable) union per account.
    fn exec_ix(
        &mut self,
        ix: &Instruction,
        all: &[Instruction],
        idx: usize,
        tx_flags: &HashMap<Pubkey, (bool, bool)>,
    ) -> Result<(), IxErr> {
        init();
        match self.accts.get(&ix.program_id) {
            Some(a) if a.executable => {}
            _ => return Err(IxErr::Runtime("ProgramAccountNotFound".into())),
        }
        let metas: Vec<(Pubkey, bool, bool)> = ix
            .accounts
            .iter()
            .map(|m| {
                let f = tx_flags.get(&m.pubkey).copied().unwrap_or((false, false));
                (m.pubkey, f.0, f.1)
            })
            .collect();
        let sysvar = build_ixs_sysvar(all, idx as u16);
        let (mut buf, slots) = serialize(self, &ix.program_id, &metas, &ix.data, Some(&sysvar));
        let clock = self.clock;
        CTX.with(|c| {
            let mut c = c.borrow_mut();
            c.clock = clock;
            c.stack.clear();
            c.stack.push(ix.program_id);
            c.frames.clear();
            c.frames.push(ix.accounts.iter().map(|m| m.pubkey).collect());
            c.return_data = None;
            c.cpi_log.clear();
        });
        let ptr = buf.as_mut_ptr() as *mut u8;
        let res = std::panic::catch_unwind(std::panic::AssertUnwindSafe(|| {
            let (pid, accounts, data): (&'static Pubkey, Vec<AccountInfo<'static>>, &'static [u8]) =
                unsafe { solana_program::entrypoint::deserialize(ptr) };
            let r = dispatch(pid, &accounts, data);
            drop(accounts);
            r
        }));
        CTX.with(|c| {
            let mut c = c.borrow_mut();
            c.stack.clear();
            c.frames.clear();
        });
        match res {
            Err(p) => {
                let msg = if let Some(s) = p.downcast_ref::<&str>() {
                    s.to_string()
                } else if let Some(s) = p.downcast_ref::<String>() {
                    s.clone()
                } else {
                    "?".into()
                };
                return Err(IxErr::Panic(msg));
            }
            Ok(Err(e)) => return Err(IxErr::Program(e)),
            Ok(Ok(())) => {}
        }
        // read back
        let bytes: &[u8] = unsafe { std::slice::from_raw_parts(ptr, buf.len() * 8) };
        let mut pre_sum: u128 = 0;
        let mut post_sum: u128 = 0;
        let mut updates: Vec<(Pubkey, Acct)> = vec![];
        for s in &slots {
            let pre = self.accts.get(&s.key).cloned().unwrap_or(Acct {
                lamports: 0,
                data: vec![],
                owner: solana_program::system_program::ID,
                executable: false,
            });
            let lamports = u64::from_le_bytes(bytes[s.off_lamports..s.off_lamports + 8].try_into().unwrap());
            let dlen = u64::from_le_bytes(bytes[s.off_dlen..s.off_dlen + 8].try_into().unwrap()) as usize;
            let owner = Pubkey::new_from_array(bytes[s.off_owner..s.off_owner + 32].try_into().unwrap());
            if s.key == ixs_sysvar::ID {
                continue;
            }
            if dlen > pre.data.len() + MAX_PERMITTED_DATA_INCREASE {
                return Err(IxErr::Runtime("InvalidRealloc".into()));
            }
            let data = bytes[s.off_data..s.off_data + dlen].to_vec();
            let post = Acct { lamports, data, owner, executable: pre.executable };
            pre_sum += pre.lamports as u128;
            post_sum += post.lamports as u128;
            let writable = tx_flags.get(&s.key).map(|f| f.1).unwrap_or(false);
            if post != pre {
                if !writable {
                    return Err(IxErr::Runtime(format!("ReadonlyModified:{}", s.key)));
                }
                updates.push((s.key, post));
            }
        }
        if pre_sum != post_sum {
            return Err(IxErr::Runtime("UnbalancedInstruction".into()));
        }
        for (k, a) in updates {
            if a.lamports == 0 {
                // garbage-collected at end of transaction on chain; keep semantics simple: remove
                self.accts.remove(&k);
            } else {
                self.accts.insert(k, a);
            }
        }
        Ok(())
    }

    /// Execute a transaction atomically. Returns per-instruction results up to the first failure.
    /// `signers`: keys that signed the message. Writable = union of metas' is_writable.
    pub fn exec_tx(&mut self, ixs: &[Instruction], signers: &[Pubkey]) -> TxResult {
        let mut flags: HashMap<Pubkey, (bool, bool)> = HashMap::new();
        for ix in ixs {
            for m in &ix.accounts {
                let e = flags.entry(m.pubkey).or_insert((false, false));
                e.1 |= m.is_writable;
                if m.is_signer && signers.contains(&m.pubkey) {
                    e.0 = true;
                }
            }
        }
        // a meta that demands a signature the message does not carry: the transaction cannot be
        // formed / fails signature verification. Model: fail with MissingRequiredSignature at that ix.
        let snapshot = self.accts.clone();
        let mut results = vec![];
        for (i, ix) in ixs.iter().enumerate() {
            let missing = ix.accounts.iter().any(|m| m.is_signer && !signers.contains(&m.pubkey));
            let r = if missing {
                Err(IxErr::Program(ProgramError::MissingRequiredSignature))
            } else {
                self.exec_ix(ix, ixs, i, &flags)
            };
            let failed = r.is_err();
            results.push(r);
            if failed {
                self.accts = snapshot;
                return TxResult { results, committed: false };
            }
        }
        TxResult { results, committed: true }
    }
}

pub struct TxResult {
    pub results: Vec<Result<(), IxErr>>,
    pub committed: bool,
}

impl TxResult {
    pub fn err(&self) -> Option<&IxErr> {
        self.results.iter().find_map(|r| r.as_ref().err())
    }
}

/// set the slot the syscall stubs report (for pure functions that read Clock::get())
pub fn set_ctx_slot(slot: u64) {
    init();
    CTX.with(|c| c.borrow_mut().clock.slot = slot);
}
