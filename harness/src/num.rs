//! Number encoding shared with the TLA+ side: big integers are JSON arrays `[sign, l0, l1, ...]`
//! (little-endian limbs base 1e9, canonical; zero is `[0]`). I80F48 values travel as their raw bits.
use fixed::types::I80F48;
use serde_json::{json, Value};

pub const BASE: u128 = 1_000_000_000;

pub fn big_i(v: i128) -> Value {
    if v == 0 {
        return json!([0]);
    }
    let sign = if v < 0 { -1 } else { 1 };
    let mut m = v.unsigned_abs();
    let mut out = vec![json!(sign)];
    while m > 0 {
        out.push(json!((m % BASE) as u64));
        m /= BASE;
    }
    Value::Array(out)
}
pub fn big_u(v: u128) -> Value {
    if v == 0 {
        return json!([0]);
    }
    let mut m = v;
    let mut out = vec![json!(1)];
    while m > 0 {
        out.push(json!((m % BASE) as u64));
        m /= BASE;
    }
    Value::Array(out)
}
pub fn fx(v: I80F48) -> Value {
    big_i(v.to_bits())
}
pub fn wfx(w: &marginfi_type_crate::types::WrappedI80F48) -> Value {
    fx(I80F48::from(*w))
}

/// Parse a JSON value into i128: limb array, integer, or decimal string (integers only).
pub fn parse_i128(v: &Value) -> Option<i128> {
    match v {
        Value::Array(a) => {
            if a.is_empty() {
                return None;
            }
            let sign = a[0].as_i64()?;
            let mut m: i128 = 0;
            for l in a[1..].iter().rev() {
                m = m.checked_mul(BASE as i128)?.checked_add(l.as_i64()? as i128)?;
            }
            Some(if sign < 0 { -m } else { m })
        }
        Value::Number(n) => n.as_i64().map(|x| x as i128).or_else(|| n.as_u64().map(|x| x as i128)),
        Value::String(s) => s.parse::<i128>().ok(),
        _ => None,
    }
}
pub fn parse_u64(v: &Value) -> Option<u64> {
    let x = parse_i128(v)?;
    if x < 0 || x > u64::MAX as i128 {
        None
    } else {
        Some(x as u64)
    }
}

/// I80F48 from JSON: `{"bits": big}` or limb array (raw bits), integer (value), or decimal string
/// ("0.85", or a ratio "17/20" evaluated with one I80F48 division).
pub fn parse_fx(v: &Value) -> Option<I80F48> {
    match v {
        Value::Object(o) => Some(I80F48::from_bits(parse_i128(o.get("bits")?)?)),
        Value::Array(_) => Some(I80F48::from_bits(parse_i128(v)?)),
        Value::Number(n) => {
            if let Some(i) = n.as_i64() {
                Some(I80F48::from_num(i))
            } else {
                n.as_f64().map(I80F48::from_num)
            }
        }
        Value::String(s) => {
            if let Some((a, b)) = s.split_once('/') {
                let a: I80F48 = a.trim().parse().ok()?;
                let b: I80F48 = b.trim().parse().ok()?;
                a.checked_div(b)
            } else {
                s.parse::<I80F48>().ok()
            }
        }
        _ => None,
    }
}
