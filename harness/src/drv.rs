//! Seeded drivers: produce further real executions (random histories, boundary searches).
//! They only execute and record; TLC judges the traces.
use crate::act::Exec;
use rand::{rngs::StdRng, Rng, SeedableRng};
use serde_json::{json, Map, Value};
use std::io::{BufWriter, Write};

pub struct Recorder {
    pub ex: Exec,
    w: BufWriter<std::fs::File>,
    base: (crate::env::Env, Map<String, Value>, u64),
    setup: Vec<Value>,
    pub scn: u64,
    pub events: u64,
}

impl Recorder {
    pub fn new(path: &str, setup: Vec<Value>) -> Recorder {
        let mut ex = Exec::new();
        for a in &setup {
            let ev = ex.apply(a);
            if ev["res"] != "ok" && a.get("may_fail").is_none() {
                eprintln!("SETUP-FAILED action={} label={}", a, ev["label"]);
                std::process::exit(2);
            }
        }
        let base = ex.snapshot();
        let w = BufWriter::new(std::fs::File::create(path).expect("create trace"));
        Recorder { ex, w, base, setup, scn: 0, events: 0 }
    }
    /// start a new scenario from the post-setup snapshot (plus optional extra setup actions)
    pub fn begin(&mut self, extra: &[Value]) {
        self.ex.restore(&self.base.clone());
        let mut setup = self.setup.clone();
        for a in extra {
            let ev = self.ex.apply(a);
            if ev["res"] != "ok" && a.get("may_fail").is_none() {
                eprintln!("EXTRA-SETUP-FAILED action={} label={} err={}", a, ev["label"], ev["err"]);
            }
            setup.push(a.clone());
        }
        self.scn += 1;
        let full = crate::proj::project(&self.ex.env);
        self.ex.last = full.clone();
        writeln!(self.w, "{}", json!({"i": 0, "scn": self.scn, "ev": "reset", "a": {"op": "reset", "setup": setup}, "res": "ok", "code": 0, "err": "",
            "label": "", "failed_ix": -1, "ts": crate::num::big_i(self.ex.env.world.clock.unix_timestamp as i128), "chg": Value::Object(full)})).unwrap();
        self.ex.n = 1;
    }
    pub fn act(&mut self, a: Value) -> Value {
        let mut ev = self.ex.apply(&a);
        ev["scn"] = json!(self.scn);
        writeln!(self.w, "{}", ev).unwrap();
        self.events += 1;
        ev
    }
    /// execute without recording (used by boundary searches to probe), state is restored afterwards
    pub fn probe(&mut self, a: &Value) -> Value {
        let s = self.ex.snapshot();
        let ev = self.ex.apply(a);
        self.ex.restore(&s);
        ev
    }
    fn mark(&mut self, ev: &str) {
        writeln!(self.w, "{}", json!({"i": 0, "scn": self.scn, "ev": ev, "a": {"op": ev}, "res": "ok", "code": 0, "err": "", "label": "", "failed_ix": -1, "ts": [0], "chg": {}})).unwrap();
    }
    /// recorded side branch: everything `f` does is recorded and judged, then undone (the trace carries
    /// the same save / restore / drop markers a replayed model tree does)
    pub fn fork(&mut self, f: &mut dyn FnMut(&mut Recorder)) {
        let s = self.ex.snapshot();
        self.mark("save");
        f(self);
        self.ex.restore(&s);
        self.mark("restore");
        self.mark("drop");
    }
    pub fn finish(mut self) {
        self.w.flush().unwrap();
    }
}

pub fn load_setup(name: &str) -> Vec<Value> {
    let p = format!("{}/../spec/setups/{}.json", env!("CARGO_MANIFEST_DIR"), name);
    let v: Value = serde_json::from_str(&std::fs::read_to_string(&p).unwrap_or_else(|_| panic!("setup {}", p))).expect("setup json");
    v.as_array().unwrap().clone()
}

pub fn std_setup() -> Vec<Value> {
    vec![
        json!({"op":"init_fee_state","admin":"feeadmin","wallet":"feewallet","prog_fixed":"0.01","prog_rate":"0.025","liq_max_fee":"0.05"}),
        json!({"op":"init_group","group":"G1","admin":"admin"}),
        json!({"op":"add_mint","mint":"M1","decimals":6,"kind":"spl"}),
        json!({"op":"add_mint","mint":"M2","decimals":9,"kind":"t22fee","fee_bps":100,"max_fee":5000}),
        json!({"op":"set_oracle","oracle":"O1","kind":"pyth","price":1000000,"conf":1000,"expo":-6}),
        json!({"op":"set_oracle","oracle":"O2","kind":"pyth","price":20000000,"conf":20000,"expo":-6}),
        json!({"op":"add_bank","group":"G1","bank":"B1","mint":"M1","cfg":{}}),
        json!({"op":"configure_oracle","bank":"B1","oracle":"O1","setup":3}),
        json!({"op":"add_bank","group":"G1","bank":"B2","mint":"M2","cfg":{}}),
        json!({"op":"configure_oracle","bank":"B2","oracle":"O2","setup":3}),
        json!({"op":"init_account","acct":"A1","group":"G1","authority":"U1"}),
        json!({"op":"init_account","acct":"A2","group":"G1","authority":"U2"}),
        json!({"op":"fund","user":"U1","mint":"M1","amount":1000000000u64}),
        json!({"op":"fund","user":"U2","mint":"M2","amount":100000000000u64}),
    ]
}

pub fn smoke() {
    let mut ex = Exec::new();
    let mut acts = std_setup();
    acts.extend(vec![
        json!({"op":"deposit","acct":"A1","bank":"B1","amount":500000000u64}),
        json!({"op":"deposit","acct":"A2","bank":"B2","amount":50000000000u64}),
        json!({"op":"borrow","acct":"A2","bank":"B1","amount":100000000u64}),
        json!({"op":"tick","dt":3600}),
        json!({"op":"accrue","bank":"B1"}),
        json!({"op":"withdraw","acct":"A1","bank":"B1","amount":0,"all":true}),
    ]);
    for a in acts {
        let ev = ex.apply(&a);
        eprintln!("{:<18} {} {} {}", ev["ev"].as_str().unwrap(), ev["res"], ev["code"], ev["err"]);
    }
}

fn arg<T: std::str::FromStr>(args: &[String], i: usize, d: T) -> T {
    args.get(i).and_then(|s| s.parse().ok()).unwrap_or(d)
}

/// hx drive <name> <outdir> <seed> [args...]
pub fn drive(name: &str, out: &str, args: &[String]) {
    let seed: u64 = arg(args, 0, 1);
    match name {
        "panic" => panic_driver(out, seed, arg(args, 1, 200), arg(args, 2, 60)),
        "ledger" => ledger_driver(out, seed, arg(args, 1, 50), arg(args, 2, 100)),
        "risk" => risk_driver(out, seed, arg(args, 1, 100)),
        "liq" => liq_driver(out, seed, arg(args, 1, 100)),
        "admin" => admin_driver(out, seed, arg(args, 1, 100)),
        "curve" => curve_driver(out, seed, arg(args, 1, 1000)),
        "integ" => integ_driver(out, seed, arg(args, 1, 10000)),
        "caps" => caps_driver(out, seed, arg(args, 1, 200)),
        "struct" => struct_driver(out, seed, arg(args, 1, 100)),
        "recv" => recv_driver(out, seed, arg(args, 1, 50)),
        "staked" => staked_driver(out, seed, arg(args, 1, 50)),
        "kamino" => kamino_driver(out, seed, arg(args, 1, 30)),
        "drift" => drift_driver(out, seed, arg(args, 1, 30)),
        "solend" => solend_driver(out, seed, arg(args, 1, 30)),
        "edge" => crate::drv2::edge_driver(out, seed, arg(args, 1, 40)),
        "kill" => crate::drv2::kill_driver(out, seed, arg(args, 1, 12)),
        "zerorate" => crate::drv2::zerorate_driver(out, seed, arg(args, 1, 12)),
        _ => {
            eprintln!("unknown driver {}", name);
            std::process::exit(2);
        }
    }
}

/// Random pause/unpause/propagate/probe schedules at one-second resolution, with clock advances
/// biased to land on, just before and just after the expiry and daily-reset boundaries.
fn panic_driver(out: &str, seed: u64, n: u64, len: u64) {
    let mut rng = StdRng::seed_from_u64(seed);
    let mut r = Recorder::new(&format!("{}/panic.trace", out), load_setup("panic"));
    for sc in 0..n {
        r.begin(&[]);
        if sc % 3 == 1 {
            // scripted bursts: an earlier incident, a quiet stretch that is not a whole number of days, then pauses, extensions
            // and admin unpauses in quick succession over a few hours (more than a day's allowance is attempted)
            r.act(json!({"op":"panic_pause"}));
            r.act(json!({"op":"tick","dt": rng.gen_range(1..4000)}));
            r.act(json!({"op":"panic_unpause"}));
            let days: i64 = *pick(&mut rng, &[1i64, 1, 2, 3]);
            r.act(json!({"op":"tick","dt": days * 86400 + rng.gen_range(1..86399)}));
            for _ in 0..rng.gen_range(4..9) {
                r.act(json!({"op":"panic_pause"}));
                r.act(json!({"op":"tick","dt": *pick(&mut rng, &[60i64, 600, 899, 1799, 1800])}));
                if rng.gen_bool(0.6) {
                    r.act(json!({"op":"panic_pause"}));
                }
                r.act(json!({"op": if rng.gen_bool(0.7) {"panic_unpause"} else {"panic_unpause_perm"}}));
                r.act(json!({"op":"tick","dt": *pick(&mut rng, &[1i64, 600, 1800, 3600, 7200])}));
                r.act(json!({"op":"deposit","acct":"A.G1","bank":"PB.G1","amount":1}));
            }
        }
        for _ in 0..len {
            let fs = r.ex.fee_state().unwrap();
            let now = r.ex.env.world.clock.unix_timestamp;
            let ps = fs.panic_state;
            let choice = rng.gen_range(0..100);
            let a = if choice < 30 {
                // tick
                let mut cands: Vec<i64> = vec![1, rng.gen_range(1..4000), rng.gen_range(1..100000)];
                if ps.pause_flags & 1 == 1 {
                    let to_exp = ps.pause_start_timestamp + 1800 - now;
                    for d in [-1, 0, 1] {
                        if to_exp + d > 0 {
                            cands.push(to_exp + d);
                            cands.push(to_exp + d);
                        }
                    }
                }
                let to_day = ps.last_daily_reset_timestamp + 86400 - now;
                for d in [-1, 0, 1] {
                    if to_day + d > 0 {
                        cands.push(to_day + d);
                    }
                }
                let g = r.ex.group("G1").unwrap().panic_state_cache;
                if g.pause_flags & 1 == 1 {
                    let to_exp = g.pause_start_timestamp + 1800 - now;
                    for d in [-1, 0, 1] {
                        if to_exp + d > 0 {
                            cands.push(to_exp + d);
                        }
                    }
                }
                let dt = cands[rng.gen_range(0..cands.len())];
                json!({"op":"tick","dt":dt})
            } else if choice < 50 {
                json!({"op":"panic_pause"})
            } else if choice < 58 {
                json!({"op":"panic_unpause"})
            } else if choice < 68 {
                json!({"op":"panic_unpause_perm"})
            } else if choice < 80 {
                json!({"op":"propagate_fee","group": if rng.gen_bool(0.7) {"G1"} else {"G2"}})
            } else if choice < 97 {
                let g = if rng.gen_bool(0.7) { "G1" } else { "G2" };
                json!({"op":"deposit","acct":format!("A.{}", g),"bank":format!("PB.{}", g),"amount":1})
            } else {
                json!({"op":"panic_pause","signer":"U1"})
            };
            r.act(a);
        }
    }
    r.finish();
}


pub fn pick<'a, T>(rng: &mut StdRng, v: &'a [T]) -> &'a T {
    &v[rng.gen_range(0..v.len())]
}

/// Random histories of user / keeper / admin instructions with clock advances and price moves.
fn ledger_driver(out: &str, seed: u64, n: u64, len: u64) {
    let mut rng = StdRng::seed_from_u64(seed);
    let mut r = Recorder::new(&format!("{}/ledger.trace", out), load_setup("ledger"));
    let accts = ["A1", "A2", "A3", "A4"];
    let banks = ["B1", "B2", "B3"];
    let amounts: [u64; 12] = [0, 1, 2, 7, 999, 1_000_003, 50_000_000, 1_000_000_000, 33_333_333_333, 2_500_000_000_000, 77, 123_456_789];
    for k in 0..n {
        r.begin(&[]);
        // a third of the histories run in a group whose program fees are switched off (the global fee rates stay cached in the group)
        if k % 3 == 1 {
            r.act(json!({"op":"config_group_fee","group":"G1","enable":false}));
        }
        // fee settings: every combination of absent / present insurance and group fees (fixed and rate-proportional)
        if k % 5 != 0 {
            for b in banks {
                let z = |rng: &mut StdRng, v: &'static str| if rng.gen_bool(0.5) { "0" } else { v };
                let (a1, a2, a3, a4) = (z(&mut rng, "0.01"), z(&mut rng, "0.1"), z(&mut rng, "0.02"), z(&mut rng, "0.05"));
                r.act(json!({"op":"configure_interest","bank":b,"ir":{"ins_fixed":a1,"ins_ir":a2,"grp_fixed":a3,"grp_ir":a4}}));
            }
        }
        // seed liquidity so that borrowing is possible in most scenarios
        if k % 4 != 3 {
            r.act(json!({"op":"deposit","acct":"A4","bank":"B1","amount": 5_000_000_000u64}));
            r.act(json!({"op":"deposit","acct":"A4","bank":"B2","amount": 2_000_000_000_000u64}));
            r.act(json!({"op":"deposit","acct":"A4","bank":"B3","amount": 100_000_000_000u64}));
        }
        if k % 4 != 3 && k % 2 == 0 {
            // exact-amount exits after interest moved the share values: what is left is a fraction of a unit;
            // closing the position must leave no more than the 0.0001-unit dust behind
            let x: u64 = *pick(&mut rng, &[1000u64, 1_000_000, 50_000_000]);
            r.act(json!({"op":"deposit","acct":"A1","bank":"B1","amount":x}));
            r.act(json!({"op":"deposit","acct":"A2","bank":"B2","amount":2_000_000_000_000u64}));
            r.act(json!({"op":"borrow","acct":"A2","bank":"B1","amount":1_000_000_000u64}));
            r.act(json!({"op":"borrow","acct":"A3","bank":"B1","amount":x,"may_fail":true}));
            r.act(json!({"op":"tick","dt": *pick(&mut rng, &[3600i64, 86400, 2_592_000])}));
            r.act(json!({"op":"withdraw","acct":"A1","bank":"B1","amount":x}));
            r.act(json!({"op":"close_balance","acct":"A1","bank":"B1"}));
            r.act(json!({"op":"withdraw","acct":"A1","bank":"B1","amount":0,"all":true}));
            r.act(json!({"op":"repay","acct":"A2","bank":"B1","amount":1_000_000_000u64}));
            r.act(json!({"op":"close_balance","acct":"A2","bank":"B1"}));
            r.act(json!({"op":"repay","acct":"A2","bank":"B1","amount":0,"all":true}));
        }
        for _ in 0..len {
            let c = rng.gen_range(0..100);
            let acct = *pick(&mut rng, &accts);
            let bank = *pick(&mut rng, &banks);
            let amount = *pick(&mut rng, &amounts);
            let a = if c < 18 {
                json!({"op":"deposit","acct":acct,"bank":bank,"amount":amount})
            } else if c < 32 {
                let all = rng.gen_bool(0.25);
                json!({"op":"withdraw","acct":acct,"bank":bank,"amount":amount,"all":all})
            } else if c < 48 {
                json!({"op":"borrow","acct":acct,"bank":bank,"amount":amount})
            } else if c < 60 {
                let all = rng.gen_bool(0.3);
                json!({"op":"repay","acct":acct,"bank":bank,"amount":amount,"all":all})
            } else if c < 70 {
                let dt = *pick(&mut rng, &[1i64, 1, 60, 3600, 86400, 2_592_000, 31_536_000]);
                json!({"op":"tick","dt":dt})
            } else if c < 75 {
                json!({"op":"accrue","bank":bank})
            } else if c < 80 {
                json!({"op":"collect_fees","bank":bank})
            } else if c < 86 {
                // price move
                let (o, base) = *pick(&mut rng, &[("O1", 1_000_000i64), ("O2", 20_000_000i64)]);
                let f = *pick(&mut rng, &[0.3f64, 0.6, 0.9, 1.0, 1.1, 1.8, 3.0]);
                let p = (base as f64 * f) as i64;
                json!({"op":"set_oracle","oracle":o,"price":p,"conf":p/1000})
            } else if c < 92 {
                let liqee = *pick(&mut rng, &accts);
                let ab = *pick(&mut rng, &banks);
                let lb = *pick(&mut rng, &banks);
                json!({"op":"liquidate","liquidator":acct,"liquidatee":liqee,"asset_bank":ab,"liab_bank":lb,"amount":amount})
            } else if c < 95 {
                json!({"op":"close_balance","acct":acct,"bank":bank})
            } else if c < 97 {
                json!({"op":"bankruptcy","acct":acct,"bank":bank})
            } else if c < 98 {
                json!({"op":"withdraw_fees","bank":bank,"amount":amount % 1000})
            } else if c < 99 {
                json!({"op":"withdraw_insurance","bank":bank,"amount":amount % 1000})
            } else {
                json!({"op":"pulse_health","acct":acct})
            };
            r.act(a);
            // structural episodes: open-and-empty a position then close it; transfer / close / freeze accounts; tag changes
            if rng.gen_range(0..40) == 0 {
                let x: u64 = *pick(&mut rng, &[1u64, 999, 1_000_003]);
                r.act(json!({"op":"deposit","acct":acct,"bank":bank,"amount":x}));
                r.act(json!({"op":"withdraw","acct":acct,"bank":bank,"amount":x}));
                r.act(json!({"op":"tick","dt":*pick(&mut rng, &[0i64, 60, 86400])}));
                r.act(json!({"op":"close_balance","acct":acct,"bank":bank}));
            }
            if rng.gen_range(0..60) == 0 {
                let newn = format!("N{}", r.events);
                r.act(json!({"op":"transfer_account","acct":acct,"new_acct":newn,"new_authority":"U7"}));
                r.act(json!({"op":"transfer_account","acct":acct,"new_acct":format!("{}b", newn),"new_authority":"U7"}));
                r.act(json!({"op":"deposit","acct":acct,"bank":bank,"amount":5}));
                r.act(json!({"op":"withdraw","acct":newn,"bank":bank,"amount":1,"signer":"U7"}));
                r.act(json!({"op":"close_account","acct":acct}));
            }
            if rng.gen_range(0..80) == 0 {
                r.act(json!({"op":"close_account","acct":acct}));
            }
            if rng.gen_range(0..80) == 0 {
                r.act(json!({"op":"freeze","acct":acct,"frozen":true}));
                r.act(json!({"op":"deposit","acct":acct,"bank":bank,"amount":3}));
                r.act(json!({"op":"deposit","acct":acct,"bank":bank,"amount":3,"signer":"admin"}));
                r.act(json!({"op":"close_account","acct":acct}));
                r.act(json!({"op":"freeze","acct":acct,"frozen":false}));
            }
            if rng.gen_range(0..80) == 0 {
                r.act(json!({"op":"configure_bank","bank":bank,"cfg":{"asset_tag": *pick(&mut rng, &[0u64, 1, 2])},"may_fail":true}));
            }
        }
    }
    r.finish();
}

// ------------------------------------------------------------------------------------------------
// risk driver: randomized configurations, amounts binary-searched to the accept/reject boundary
// ------------------------------------------------------------------------------------------------
pub fn base_setup() -> Vec<Value> {
    vec![
        json!({"op":"init_fee_state","admin":"feeadmin","wallet":"feewallet","prog_fixed":"0.01","prog_rate":"0.025","liq_max_fee":"0.05"}),
        json!({"op":"init_group","group":"G1","admin":"admin"}),
        json!({"op":"config_group","group":"G1","risk_admin":"riskadmin","emode_admin":"emodeadmin","curve_admin":"curveadmin","limit_admin":"limitadmin","emissions_admin":"emisadmin","metadata_admin":"metaadmin"}),
        json!({"op":"init_account","acct":"A1","group":"G1","authority":"U1"}),
        json!({"op":"init_account","acct":"A2","group":"G1","authority":"U2"}),
        json!({"op":"init_account","acct":"LP","group":"G1","authority":"U9"}),
    ]
}

struct BankSpec {
    name: String,
    mint: String,
    oracle: String,
    dec: u8,
    price: i64,
    expo: i32,
}

/// random bank world: `n` banks named <prefix>1..n with their own mint and oracle. Returns setup actions.
#[derive(Default, Clone, Copy)]
struct BankOpts {
    quiet: bool,          // zero confidence, spot = ema
    small: bool,          // tiny unit value (expo -8, decimals >= 6): lets positions fall below the bankruptcy threshold
    weighted: bool,       // collateral weight > 0, not isolated
}

fn rand_bank(rng: &mut StdRng, name: &str, collateral: bool, out: &mut Vec<Value>) -> BankSpec {
    rand_bank_o(rng, name, collateral, BankOpts::default(), out)
}

fn rand_bank_o(rng: &mut StdRng, name: &str, collateral: bool, o: BankOpts, out: &mut Vec<Value>) -> BankSpec {
    let dec: u8 = if o.small { *pick(rng, &[6u8, 8, 9]) } else { *pick(rng, &[0u8, 2, 6, 6, 8, 9]) };
    let kind = *pick(rng, &["spl", "spl", "t22", "t22fee"]);
    let mint = format!("M.{}", name);
    let oracle = format!("O.{}", name);
    out.push(json!({"op":"add_mint","mint":mint,"decimals":dec,"kind":kind,"fee_bps": *pick(rng, &[1u64, 100, 500]),"max_fee": *pick(rng, &[10u64, 5000, 1_000_000_000])}));
    let expo: i32 = if o.small { -8 } else { *pick(rng, &[-8, -6, -4, -2, 0]) };
    let price: i64 = match *pick(rng, &[0, 1, 2, 3]) {
        0 => rng.gen_range(1..1000),
        1 => rng.gen_range(1000..10_000_000),
        2 => rng.gen_range(10_000_000..2_000_000_000),
        _ => 10i64.pow((-expo) as u32),
    };
    let mut okind = *pick(rng, &["pyth", "pyth", "swb", "fixed"]);
    if okind == "swb" && (price as f64) * 10f64.powi(expo) > 100_000.0 {
        okind = "pyth";
    }
    let confr = if o.quiet { 0.0 } else { *pick(rng, &[0.0f64, 0.0, 0.0, 0.0, 0.001, 0.001, 0.02, 0.02, 0.046, 0.0471, 0.06]) };
    let emaf = if o.quiet { 1.0 } else { *pick(rng, &[1.0f64, 1.0, 0.93, 1.08]) };
    let aw_init = if o.weighted { *pick(rng, &["0.25", "0.5", "0.8", "0.95", "1"]) } else { *pick(rng, &["0", "0.25", "0.5", "0.8", "0.95", "1"]) };
    let (aw_i, aw_m): (&str, &str) = if collateral {
        match aw_init {
            "0" => ("0", *pick(rng, &["0", "0.5"])),
            "0.25" => ("0.25", *pick(rng, &["0.25", "0.9"])),
            "0.5" => ("0.5", *pick(rng, &["0.5", "0.65"])),
            "0.8" => ("0.8", *pick(rng, &["0.9", "1.5"])),
            "0.95" => ("0.95", "0.97"),
            _ => ("1", *pick(rng, &["1", "2"])),
        }
    } else {
        ("0.5", "0.6")
    };
    let (lw_i, lw_m) = *pick(rng, &[("1", "1"), ("1.25", "1.125"), ("1.5", "1.25"), ("2", "1"), ("1.05", "1.01")]);
    let isolated = !collateral && !o.weighted && rng.gen_bool(0.15);
    let init_limit: u64 = if collateral && rng.gen_bool(0.3) { *pick(rng, &[1u64, 50, 1000, 1_000_000]) } else { 0 };
    let mut cfg = json!({"aw_init": if isolated {"0"} else {aw_i}, "aw_maint": if isolated {"0"} else {aw_m}, "lw_init": lw_i, "lw_maint": lw_m,
        "risk_tier": if isolated {1} else {0}, "init_limit": init_limit, "oracle_max_age": *pick(rng, &[10u64, 60, 100, 300]),
        "oracle_max_conf": *pick(rng, &[0u64, 0, 0, 0, 0, 214748364, 42949672]),
        "ir": {"orig_fee": *pick(rng, &["0", "0", "0.005", "0.03"]), "ins_ir": "0.05", "grp_fixed": "0.01"}});
    if kind == "t22fee" && rng.gen_bool(0.5) {
        cfg["ir"]["orig_fee"] = json!("0");
    }
    out.push(json!({"op":"add_bank","group":"G1","bank":name,"mint":mint,"cfg":cfg}));
    if okind == "fixed" {
        let p = format!("{}/{}", price, 10i64.pow((-expo) as u32));
        out.push(json!({"op":"set_fixed_price","bank":name,"price":p}));
    } else if okind == "pyth" {
        let conf = (price as f64 * confr) as i64;
        let ema = ((price as f64) * emaf) as i64;
        out.push(json!({"op":"set_oracle","oracle":oracle,"kind":"pyth","price":price,"conf":conf,"ema":ema.max(1),"ema_conf":conf,"expo":expo}));
        out.push(json!({"op":"configure_oracle","bank":name,"oracle":oracle,"setup":3}));
    } else {
        // switchboard value scaled 1e18
        let v: i128 = (price as i128) * 10i128.pow((18 + expo) as u32);
        let sd: i128 = ((v as f64) * confr) as i128;
        out.push(json!({"op":"set_oracle","oracle":oracle,"kind":"swb","swb_value":v.to_string(),"swb_std":sd.to_string()}));
        out.push(json!({"op":"configure_oracle","bank":name,"oracle":oracle,"setup":4}));
    }
    BankSpec { name: name.to_string(), mint, oracle, dec, price, expo }
}

/// largest x in [0, hi] for which `mk(x)` is accepted, given that rejections are `reject_err`.
/// Returns (lo_accepted, hi_rejected) with hi = lo + 1, or None when no clean boundary exists.
pub fn search_boundary(r: &mut Recorder, mk: &dyn Fn(u64) -> Value, hi0: u64, reject_err: &str) -> Option<(u64, u64)> {
    let ev = r.probe(&mk(hi0));
    if ev["res"] == "ok" || ev["err"] != reject_err {
        return None;
    }
    let (mut lo, mut hi) = (0u64, hi0);
    while hi - lo > 1 {
        let mid = lo + (hi - lo) / 2;
        let ev = r.probe(&mk(mid));
        if ev["res"] == "ok" {
            lo = mid;
        } else if ev["err"] == reject_err {
            hi = mid;
        } else {
            return None;
        }
    }
    Some((lo, hi))
}

fn risk_driver(out: &str, seed: u64, n: u64) {
    let mut rng = StdRng::seed_from_u64(seed);
    let mut r = Recorder::new(&format!("{}/risk.trace", out), base_setup());
    let mut boundaries = 0u64;
    for k in 0..n {
        let mut extra = vec![];
        let ncol = rng.gen_range(1..=3);
        let mut cols = vec![];
        for i in 0..ncol {
            cols.push(rand_bank(&mut rng, &format!("C{}", i + 1), true, &mut extra));
        }
        let ndebt = if rng.gen_bool(0.25) { 2 } else { 1 };
        let mut debts = vec![];
        for i in 0..ndebt {
            debts.push(rand_bank(&mut rng, &format!("D{}", i + 1), false, &mut extra));
        }
        // e-mode: the debt banks may carry entries for the collateral banks' tags
        if rng.gen_bool(0.5) {
            for (i, c) in cols.iter().enumerate() {
                if rng.gen_bool(0.7) {
                    extra.push(json!({"op":"configure_emode","bank":c.name,"tag": 10 + i as u64,"entries":[]}));
                }
            }
            for d in debts.iter() {
                let mut entries = vec![];
                for i in 0..cols.len() {
                    if rng.gen_bool(0.7) {
                        let (wi, wm) = *pick(&mut rng, &[("0.9", "0.95"), ("0.1", "0.2"), ("0.6", "0.6"), ("0.85", "0.9")]);
                        entries.push(json!({"tag": 10 + i as u64, "flags": 0, "init": wi, "maint": wm}));
                    }
                }
                extra.push(json!({"op":"configure_emode","bank":d.name,"tag": 0,"entries":entries,"may_fail":true}));
            }
        }
        // some collateral banks have lived: their deposit share value is no longer 1 (set before anyone holds shares;
        // marked state injection, the value itself is one that interest accrual reaches)
        for c in cols.iter() {
            if rng.gen_bool(0.35) {
                extra.push(json!({"op":"inject_bank","bank":c.name,"asv":*pick(&mut rng, &["1.25", "1.0004", "3.7", "1.000000001"])}));
            }
        }
        // funding and positions
        for c in cols.iter() {
            let amt: u64 = *pick(&mut rng, &[1_000u64, 1_000_000, 123_456_789, 50_000_000_000, 7_000_000_000_000]);
            extra.push(json!({"op":"fund","user":"U1","mint":c.mint,"amount":amt.to_string()}));
            extra.push(json!({"op":"deposit","acct":"A1","bank":c.name,"amount":amt,"may_fail":true}));
            if rng.gen_bool(0.3) {
                // someone else's deposits push the bank over its init-value cap
                extra.push(json!({"op":"fund","user":"U9","mint":c.mint,"amount":(amt as u128 * 50).to_string()}));
                extra.push(json!({"op":"deposit","acct":"LP","bank":c.name,"amount":(amt as u128 * 40).min(u64::MAX as u128) as u64,"may_fail":true}));
            }
        }
        for d in debts.iter() {
            extra.push(json!({"op":"fund","user":"U9","mint":d.mint,"amount":"4000000000000000000"}));
            extra.push(json!({"op":"deposit","acct":"LP","bank":d.name,"amount":"3000000000000000000","may_fail":true}));
        }
        // (a would-be liquidator with funds in the first debt bank)
        extra.push(json!({"op":"fund","user":"U2","mint":debts[0].mint,"amount":"4000000000000000000"}));
        extra.push(json!({"op":"deposit","acct":"A2","bank":debts[0].name,"amount":"1000000000000000000","may_fail":true}));
        // state changes after the deposits: reduce-only collateral, stale / doctored collateral oracle
        if rng.gen_bool(0.25) {
            let c = pick(&mut rng, &cols);
            extra.push(json!({"op":"configure_bank","bank":c.name,"cfg":{"op_state":2},"may_fail":true}));
        }
        r.begin(&extra);
        let mut osub = serde_json::Map::new();
        match rng.gen_range(0..14) {
            0 => {
                let c = pick(&mut rng, &cols);
                r.act(json!({"op":"set_oracle","oracle":c.oracle,"age":100000}));
            }
            1 => {
                let c = pick(&mut rng, &cols);
                osub.insert(c.name.clone(), json!(debts[0].oracle));
            }
            2 => {
                // an update that was posted with partial verification only
                let c = pick(&mut rng, &cols);
                r.act(json!({"op":"set_oracle","oracle":c.oracle,"verif_ok":false}));
            }
            3 => {
                // the same on the debt side: a debt can never be valued from it
                r.act(json!({"op":"set_oracle","oracle":debts[0].oracle,"verif_ok":false}));
            }
            4 => {
                let c = pick(&mut rng, &cols);
                r.act(json!({"op":"set_oracle","oracle":c.oracle,"discr_ok":false}));
            }
            5 => {
                let c = pick(&mut rng, &cols);
                r.act(json!({"op":"set_oracle","oracle":c.oracle,"owner":"stranger"}));
            }
            _ => {}
        }
        let d0 = &debts[0];
        let mkb = |x: u64| -> Value {
            let mut a = json!({"op":"borrow","acct":"A1","bank":d0.name,"amount":x});
            if !osub.is_empty() {
                a["oracle_sub"] = Value::Object(osub.clone());
            }
            a
        };
        // optionally a first borrow in the second debt bank (changes the e-mode intersection)
        if debts.len() > 1 {
            let d1 = &debts[1];
            if let Some((lo, _)) = search_boundary(&mut r, &|x| json!({"op":"borrow","acct":"A1","bank":d1.name,"amount":x}), 1_000_000_000_000_000_000, "RiskEngineInitRejected") {
                if lo > 3 {
                    r.act(json!({"op":"borrow","acct":"A1","bank":d1.name,"amount":lo / 3}));
                }
            }
        }
        if let Some((lo, hi)) = search_boundary(&mut r, &mkb, 1_000_000_000_000_000_000, "RiskEngineInitRejected") {
            boundaries += 1;
            r.act(mkb(hi));
            if k % 3 == 0 && lo > 4 {
                // stop half way, then search the withdraw boundary
                r.act(mkb(lo / 2));
                let c = pick(&mut rng, &cols).name.clone();
                let mkw = |x: u64| json!({"op":"withdraw","acct":"A1","bank":c,"amount":x});
                if let Some((wlo, whi)) = search_boundary(&mut r, &mkw, 9_000_000_000_000_000, "RiskEngineInitRejected") {
                    r.act(mkw(whi));
                    if wlo > 0 {
                        r.act(mkw(wlo));
                    }
                } else {
                    r.act(json!({"op":"withdraw","acct":"A1","bank":c,"amount":0,"all":true}));
                }
            } else if lo > 0 {
                r.act(mkb(lo));
                r.act(mkb(1));
            }
        } else {
            // no clean boundary: record what happens for a mid-size borrow anyway
            r.act(mkb(1000));
        }
        r.act(json!({"op":"pulse_health","acct":"A1"}));
        // an account that has just passed the initial-margin check is not up for liquidation (recorded side branches,
        // one per collateral bank)
        for c in cols.iter() {
            r.fork(&mut |r: &mut Recorder| {
                r.act(json!({"op":"liquidate","liquidator":"A2","liquidatee":"A1","asset_bank":c.name,"liab_bank":d0.name,"amount":1}));
            });
        }
    }
    eprintln!("risk driver: {} scenarios, {} boundaries, {} events", n, boundaries, r.events);
    r.finish();
}

// ------------------------------------------------------------------------------------------------
// liquidation / bankruptcy driver
// ------------------------------------------------------------------------------------------------
/// the account's deposit in `bank` in native units (shares x share value, as the program computes it)
pub fn asset_amount(r: &mut Recorder, acct: &str, bank: &str) -> Option<fixed::types::I80F48> {
    use fixed::types::I80F48;
    let bk = r.ex.env.k(bank);
    let b = r.ex.bank(bank).ok()?;
    let a = r.ex.macct(acct).ok()?;
    let bal = a.lending_account.balances.iter().find(|x| x.active != 0 && x.bank_pk == bk)?;
    let sh: I80F48 = bal.asset_shares.into();
    let sv: I80F48 = b.asset_share_value.into();
    sh.checked_mul(sv)
}

fn set_price(spec: &BankSpec, kind_fixed: bool, price: i64, conf: i64) -> Value {
    if kind_fixed {
        json!({"op":"set_fixed_price","bank":spec.name,"price":format!("{}/{}", price, 10i64.pow((-spec.expo) as u32))})
    } else {
        json!({"op":"set_oracle","oracle":spec.oracle,"price":price,"conf":conf,
               "swb_value": ((price as i128) * 10i128.pow((18 + spec.expo) as u32)).to_string(),
               "swb_std": ((conf as i128) * 10i128.pow((18 + spec.expo) as u32)).to_string()})
    }
}

fn liq_driver(out: &str, seed: u64, n: u64) {
    let mut rng = StdRng::seed_from_u64(seed);
    let mut rng2 = StdRng::seed_from_u64(seed ^ 0x5eed_c05c);
    let mut r = Recorder::new(&format!("{}/liq.trace", out), base_setup());
    let (mut nliq, mut nbk, mut nkill) = (0u64, 0u64, 0u64);
    for k in 0..n {
        let mut extra = vec![];
        let bk_path = k % 2 == 0;
        let c1 = rand_bank_o(&mut rng, "C1", true, BankOpts { quiet: true, small: bk_path, weighted: true }, &mut extra);
        let dq = rng.gen_bool(0.7);
        let d1 = rand_bank_o(&mut rng, "D1", false, BankOpts { quiet: dq, small: true, weighted: true }, &mut extra);
        let c1_fixed = extra.iter().any(|a| a["op"] == "set_fixed_price" && a["bank"] == "C1");
        // collateral must carry weight, debt bank not isolated for most runs
        let camt: u64 = if bk_path { *pick(&mut rng, &[50_000u64, 1_000_000, 30_000_000]) } else { *pick(&mut rng, &[50_000u64, 1_000_000, 123_456_789, 50_000_000_000]) };
        extra.push(json!({"op":"fund","user":"U1","mint":c1.mint,"amount":(camt as u128 * 2).to_string()}));
        extra.push(json!({"op":"deposit","acct":"A1","bank":"C1","amount":camt,"may_fail":true}));
        let kill_path = k % 4 == 0;
        let lp_amt: u64 = if kill_path { 1_000_000 } else { *pick(&mut rng, &[1_000_000u64, 5_000_000_000, 3_000_000_000_000_000]) };
        extra.push(json!({"op":"fund","user":"U9","mint":d1.mint,"amount":"4000000000000000000"}));
        extra.push(json!({"op":"deposit","acct":"LP","bank":"D1","amount":lp_amt,"may_fail":true}));
        // liquidator: funded in both mints, deposits in D1 or C1
        extra.push(json!({"op":"fund","user":"U2","mint":d1.mint,"amount":"4000000000000000000"}));
        extra.push(json!({"op":"fund","user":"U2","mint":c1.mint,"amount":"4000000000000000"}));
        let liqor_mode = rng.gen_range(0..3);
        if liqor_mode == 0 {
            extra.push(json!({"op":"deposit","acct":"A2","bank":"D1","amount":lp_amt,"may_fail":true}));
        } else if liqor_mode == 1 {
            extra.push(json!({"op":"deposit","acct":"A2","bank":"C1","amount":camt.saturating_mul(40),"may_fail":true}));
        } else {
            extra.push(json!({"op":"deposit","acct":"A2","bank":"D1","amount":7,"may_fail":true}));
            extra.push(json!({"op":"deposit","acct":"A2","bank":"C1","amount":camt.saturating_mul(40),"may_fail":true}));
        }
        // (a fifth of the borrowers also lend in an isolated-tier bank)
        if rng.gen_bool(0.2) {
            extra.push(json!({"op":"add_mint","mint":"M.I1","decimals":6,"kind":"spl"}));
            extra.push(json!({"op":"add_bank","group":"G1","bank":"I1","mint":"M.I1","cfg":{"aw_init":"0","aw_maint":"0","risk_tier":1}}));
            extra.push(json!({"op":"set_fixed_price","bank":"I1","price":"1"}));
            extra.push(json!({"op":"fund","user":"U1","mint":"M.I1","amount":"4000000000000"}));
            extra.push(json!({"op":"deposit","acct":"A1","bank":"I1","amount":*pick(&mut rng, &[50_000u64, 3_000_000, 1_000_000_000])}));
        }
        let optin = rng.gen_bool(0.3);
        if optin {
            extra.push(json!({"op":"configure_bank","bank":"D1","cfg":{"permissionless_bad_debt":true}}));
        }
        // (own random stream, so that the scenarios above stay what they were) a second collateral bank for the episode
        // "healthy only thanks to a deposit whose price then becomes unusable"
        let c2spec = if rng2.gen_bool(0.45) {
            let c2 = rand_bank_o(&mut rng2, "C2", true, BankOpts { quiet: true, small: false, weighted: true }, &mut extra);
            let c2_fixed = extra.iter().any(|a| a["op"] == "set_fixed_price" && a["bank"] == "C2");
            extra.push(json!({"op":"fund","user":"U1","mint":c2.mint,"amount":"4000000000000000000"}));
            Some((c2, c2_fixed))
        } else {
            None
        };
        r.begin(&extra);
        // borrow to (a fraction of) the limit
        let mkb = |x: u64| json!({"op":"borrow","acct":"A1","bank":"D1","amount":x});
        // (upper end of the search: what the bank can lend at all; beyond it the refusal is about liquidity, not health)
        let b = search_boundary(&mut r, &mkb, (lp_amt / 10 * 9).max(2), "RiskEngineInitRejected");
        let (lo, _hi) = match b {
            Some(x) if x.0 > 0 => x,
            _ => {
                // utilization-bound: borrow everything there is
                let ev = r.act(mkb(lp_amt / 10 * 9));
                if ev["res"] != "ok" {
                    r.act(mkb(lp_amt / 2));
                }
                (0, 0)
            }
        };
        if lo > 0 {
            r.act(mkb(lo));
        }
        // sometimes the collateral bank is already at or over its deposit cap when the liquidator receives the seized shares
        if rng.gen_bool(0.3) {
            r.act(json!({"op":"configure_bank","bank":"C1","cfg":{"deposit_limit": *pick(&mut rng, &[1u64, camt / 2 + 1, camt])}}));
        }
        // sometimes the collateral bank has a borrower too, so that its share value moves and balances stop being whole units
        let frac_collateral = rng.gen_bool(0.5);
        if frac_collateral {
            r.act(json!({"op":"borrow","acct":"LP","bank":"C1","amount":(camt / 3).max(1)}));
            r.act(json!({"op":"tick","dt": *pick(&mut rng, &[86_400i64, 2_592_000, 31_536_000])}));
            r.act(json!({"op":"accrue","bank":"C1"}));
        }
        if kill_path {
            // long neglect at high utilization: fees make debt outgrow deposits
            r.act(json!({"op":"tick","dt": 315_360_000i64}));
        } else if rng.gen_bool(0.4) {
            r.act(json!({"op":"tick","dt": *pick(&mut rng, &[3600i64, 86400, 31_536_000, 94_608_000])}));
        }
        // liquidatable boundary in the collateral price: largest price at which liquidate(1) is accepted
        let conf = 0i64;
        let liq1 = json!({"op":"liquidate","liquidator":"A2","liquidatee":"A1","asset_bank":"C1","liab_bank":"D1","amount":1});
        let price0 = c1.price;
        let (mut plo, mut phi) = (1i64, price0);
        let at = |r: &mut Recorder, p: i64| -> Value {
            let s = r.ex.snapshot();
            r.ex.apply(&set_price(&c1, c1_fixed, p, conf));
            let ev = r.ex.apply(&liq1);
            r.ex.restore(&s);
            ev
        };
        let ev_hi = at(&mut r, phi);
        let ev_lo = at(&mut r, plo);
        if ev_hi["err"] == "HealthyAccount" && ev_lo["res"] == "ok" {
            while phi - plo > 1 {
                let mid = plo + (phi - plo) / 2;
                let ev = at(&mut r, mid);
                if ev["res"] == "ok" {
                    plo = mid;
                } else if ev["err"] == "HealthyAccount" {
                    phi = mid;
                } else {
                    break;
                }
            }
            r.act(set_price(&c1, c1_fixed, phi, conf));
            r.act(liq1.clone());
            r.act(set_price(&c1, c1_fixed, plo, conf));
            if r.act(liq1.clone())["res"] == "ok" {
                nliq += 1;
            }
        }
        // now a real drop and liquidations of various sizes
        let f = *pick(&mut rng, &[0.97f64, 0.9, 0.7, 0.4, 0.05]);
        let pnew = ((plo as f64) * f).max(1.0) as i64;
        let cc = (pnew as f64 * *pick(&mut rng, &[0.0f64, 0.0, 0.01, 0.04])) as i64;
        r.act(set_price(&c1, c1_fixed, pnew, cc));
        let mkl = |x: u64| json!({"op":"liquidate","liquidator":"A2","liquidatee":"A1","asset_bank":"C1","liab_bank":"D1","amount":x});
        let top = camt.saturating_add(10);
        // find the largest accepted seize amount (acceptance region is [1, max])
        let (mut llo, mut lhi) = (0u64, top);
        let e1 = r.probe(&mkl(1));
        if e1["res"] == "ok" {
            // a liquidation that would be accepted is refused while either bank is paused (recorded side branches;
            // reduce-only does not stop it)
            for (bank, st) in [("D1", 0u64), ("C1", 0), ("D1", 2), ("C1", 2)] {
                r.fork(&mut |r: &mut Recorder| {
                    r.act(json!({"op":"configure_bank","bank":bank,"cfg":{"op_state":st}}));
                    r.act(mkl(1));
                });
            }
            llo = 1;
            let etop = r.probe(&mkl(top));
            if etop["res"] != "ok" {
                while lhi - llo > 1 {
                    let mid = llo + (lhi - llo) / 2;
                    if r.probe(&mkl(mid))["res"] == "ok" {
                        llo = mid;
                    } else {
                        lhi = mid;
                    }
                }
                r.act(mkl(lhi));
            }
            let part = *pick(&mut rng, &[llo, llo / 2 + 1, llo / 10 + 1, 1]);
            if r.act(mkl(part))["res"] == "ok" {
                nliq += 1;
            }
            if r.act(mkl((llo / 3).max(1)))["res"] == "ok" {
                nliq += 1;
            }
        } else {
            r.act(mkl(1));
        }
        r.act(json!({"op":"pulse_health","acct":"A1"}));
        // an account that is healthy only thanks to a second deposit must not become liquidatable because that deposit's
        // price turns stale, unauthentic or is substituted: the assessment has to fail (recorded side branches)
        if let Some((c2, c2_fixed)) = &c2spec {
            if !*c2_fixed {
                let v1 = (camt as f64) * (c1.price as f64) * 10f64.powi(c1.expo) / 10f64.powi(c1.dec as i32);
                let amt2 = (v1 * 1000.0 / ((c2.price as f64) * 10f64.powi(c2.expo)) * 10f64.powi(c2.dec as i32)).max(1000.0).min(3.0e18) as u64;
                for variant in 0..5 {
                    r.fork(&mut |r: &mut Recorder| {
                        r.act(json!({"op":"deposit","acct":"A1","bank":"C2","amount":amt2}));
                        r.act(liq1.clone());
                        match variant {
                            3 => {
                                r.act(json!({"op":"set_oracle","oracle":c2.oracle.clone(),"conf_frac":2}));
                            }
                            4 => {
                                r.act(json!({"op":"set_oracle","oracle":c2.oracle.clone(),"conf_frac_spot":2}));
                            }
                            0 => {
                                r.act(json!({"op":"tick","dt":100_000,"refresh_oracles":false}));
                                r.act(json!({"op":"set_oracle","oracle":d1.oracle.clone(),"age":0}));
                                if !c1_fixed {
                                    r.act(json!({"op":"set_oracle","oracle":c1.oracle.clone(),"age":0}));
                                }
                            }
                            1 => {
                                r.act(json!({"op":"set_oracle","oracle":c2.oracle.clone(),"discr_ok":false}));
                            }
                            _ => {}
                        }
                        let mut l = liq1.clone();
                        if variant == 2 {
                            l["oracle_sub"] = json!({"C2": d1.oracle.clone()});
                        }
                        r.act(l);
                        r.act(json!({"op":"pulse_health","acct":"A1"}));
                    });
                }
            }
        }
        // receivership assessed on a feed whose confidence interval is far beyond the bank's maximum (collateral feed, debt feed,
        // only the time-weighted side of the collateral feed): the start must fail (recorded side branches)
        for variant in 0..4 {
            if variant == 1 || variant == 3 {
                if c1_fixed {
                    continue;
                }
            }
            r.fork(&mut |r: &mut Recorder| {
                r.act(json!({"op":"init_liq_record","acct":"A1"}));
                match variant {
                    1 => {
                        r.act(json!({"op":"set_oracle","oracle":c1.oracle.clone(),"conf_frac":2}));
                    }
                    2 => {
                        r.act(json!({"op":"set_oracle","oracle":d1.oracle.clone(),"conf_frac":2}));
                    }
                    3 => {
                        r.act(json!({"op":"set_oracle","oracle":c1.oracle.clone(),"conf_frac_ema":2}));
                    }
                    _ => {}
                }
                r.act(json!({"op":"tx","ixs":[{"op":"start_liq","acct":"A1","receiver":"liquidator"}, {"op":"end_liq","acct":"A1","receiver":"liquidator"}]}));
            });
        }
        // the exact over-liquidation boundary: seize floor(balance), ceil(balance), ceil(balance)+1 of whatever collateral is left
        // (interest is brought up to now first so that the balance the handler sees is the one computed here)
        r.act(json!({"op":"accrue","bank":"C1"}));
        if let Some(bal) = asset_amount(&mut r, "A1", "C1") {
            let fl: u64 = bal.floor().to_num::<u128>().min(u64::MAX as u128) as u64;
            let ce: u64 = bal.ceil().to_num::<u128>().min(u64::MAX as u128) as u64;
            for x in [ce.saturating_add(1), ce, fl] {
                if x > 0 {
                    r.fork(&mut |r: &mut Recorder| {
                        r.act(mkl(x));
                    });
                }
            }
        }
        // an account that still holds collateral of value is not bankrupt, whatever state the collateral bank is in
        // (recorded side branches: reduce-only, paused, and as it is)
        for st in [2u64, 0, 1] {
            r.fork(&mut |r: &mut Recorder| {
                if st != 1 {
                    r.act(json!({"op":"configure_bank","bank":"C1","cfg":{"op_state":st}}));
                }
                r.act(json!({"op":"bankruptcy","acct":"A1","bank":"D1"}));
            });
        }
        // bankruptcy path: collateral becomes worthless
        if bk_path {
            // (a redundant "off" for a switch that was never on must leave it off)
            if !optin && rng.gen_bool(0.6) {
                r.act(json!({"op":"configure_bank","bank":"D1","cfg":{"permissionless_bad_debt":false}}));
            }
            r.act(set_price(&c1, c1_fixed, 1, 0));
            // seize whatever can still be seized
            for _ in 0..3 {
                let e1 = r.probe(&mkl(1));
                if e1["res"] != "ok" {
                    break;
                }
                let (mut a, mut b2) = (1u64, top);
                while b2 - a > 1 {
                    let mid = a + (b2 - a) / 2;
                    if r.probe(&mkl(mid))["res"] == "ok" {
                        a = mid;
                    } else {
                        b2 = mid;
                    }
                }
                if r.act(mkl(a))["res"] == "ok" {
                    nliq += 1;
                }
            }
            // insurance fund variants
            let bad_guess: u64 = lo.max(lp_amt / 2);
            let ins: u64 = *pick(&mut rng, &[0u64, 1, bad_guess / 3, bad_guess, bad_guess.saturating_mul(3)]);
            if ins > 0 {
                r.act(json!({"op":"fund_vault","mint":d1.mint,"dst":"D1.ins","amount":ins.to_string()}));
            }
            // a bankruptcy assessment needs every collateral price: with the collateral oracle stale, doctored or
            // substituted the account must not be declared bankrupt (recorded side branches, undone afterwards)
            if !c1_fixed {
                for variant in 0..7 {
                    r.fork(&mut |r: &mut Recorder| {
                        match variant {
                            0 => {
                                r.act(json!({"op":"tick","dt":100_000,"refresh_oracles":false}));
                                r.act(json!({"op":"set_oracle","oracle":d1.oracle.clone(),"age":0}));
                            }
                            1 => {
                                r.act(json!({"op":"set_oracle","oracle":c1.oracle.clone(),"discr_ok":false}));
                            }
                            // a confidence interval far beyond the bank's maximum: on the collateral feed, on the debt feed,
                            // and on only the spot / only the time-weighted side of the collateral feed
                            3 => {
                                r.act(json!({"op":"set_oracle","oracle":c1.oracle.clone(),"conf_frac":2}));
                            }
                            4 => {
                                r.act(json!({"op":"set_oracle","oracle":d1.oracle.clone(),"conf_frac":2}));
                            }
                            5 => {
                                r.act(json!({"op":"set_oracle","oracle":c1.oracle.clone(),"conf_frac_spot":2}));
                            }
                            6 => {
                                r.act(json!({"op":"set_oracle","oracle":c1.oracle.clone(),"conf_frac_ema":2}));
                            }
                            _ => {}
                        }
                        let mut bk = json!({"op":"bankruptcy","acct":"A1","bank":"D1"});
                        if variant == 2 {
                            bk["oracle_sub"] = json!({"C1": d1.oracle.clone()});
                        }
                        r.act(bk);
                    });
                }
            }
            let signer = *pick(&mut rng, &["admin", "riskadmin", "U7", "U7"]);
            let mut bk = json!({"op":"bankruptcy","acct":"A1","bank":"D1"});
            if signer != "admin" {
                bk["signer"] = json!(signer);
            }
            let ev = r.act(bk);
            if ev["res"] != "ok" {
                let ev2 = r.act(json!({"op":"bankruptcy","acct":"A1","bank":"D1"}));
                if ev2["res"] == "ok" {
                    nbk += 1;
                }
            } else {
                nbk += 1;
            }
            // afterwards: everything on the account / bank
            r.act(json!({"op":"bankruptcy","acct":"A1","bank":"D1"}));
            // a bankrupt (disabled) account that still holds collateral: moving it to a new account must move it, once
            r.fork(&mut |r: &mut Recorder| {
                r.act(json!({"op":"transfer_account","acct":"A1","new_acct":"A1n","new_authority":"U7"}));
                r.act(json!({"op":"transfer_account","acct":"A1","new_acct":"A1m","new_authority":"U7"}));
                r.act(json!({"op":"withdraw","acct":"A1n","bank":"C1","amount":0,"all":true,"signer":"U7"}));
                r.act(json!({"op":"withdraw","acct":"A1","bank":"C1","amount":0,"all":true}));
            });
            r.act(json!({"op":"deposit","acct":"A1","bank":"C1","amount":5}));
            r.act(json!({"op":"withdraw","acct":"LP","bank":"D1","amount":1}));
            r.act(json!({"op":"deposit","acct":"LP","bank":"D1","amount":1000}));
            let killed = r.ex.bank("D1").map(|b| b.config.operational_state as u8 == 3).unwrap_or(false);
            if killed {
                nkill += 1;
                r.act(json!({"op":"configure_bank","bank":"D1","cfg":{"op_state":1}}));
                r.act(json!({"op":"configure_bank","bank":"D1","cfg":{"op_state":3}}));
                r.act(json!({"op":"deposit","acct":"LP","bank":"D1","amount":1000}));
                r.act(json!({"op":"borrow","acct":"A2","bank":"D1","amount":1}));
                r.act(json!({"op":"repay","acct":"A2","bank":"D1","amount":1}));
                r.act(json!({"op":"withdraw","acct":"LP","bank":"D1","amount":0,"all":true}));
            } else {
                r.act(json!({"op":"configure_bank","bank":"D1","cfg":{"op_state":3}}));
            }
        }
    }
    eprintln!("liq driver: {} scenarios, {} liquidations ok, {} bankruptcies ok, {} banks killed, {} events", n, nliq, nbk, nkill, r.events);
    r.finish();
}

// ------------------------------------------------------------------------------------------------
// admin driver: delegated-admin instructions with arbitrary arguments, frozen banks, fee collection
// with doctored buckets, emissions life cycle, forced deleverage with a daily limit
// ------------------------------------------------------------------------------------------------
fn admin_driver(out: &str, seed: u64, n: u64) {
    let mut rng = StdRng::seed_from_u64(seed);
    let mut rng2 = StdRng::seed_from_u64(seed ^ 0xde1e_7e);
    let mut r = Recorder::new(&format!("{}/admin.trace", out), load_setup("auth"));
    let words: Vec<u64> = vec![0, 1, 2, 3, 1 << 2, 1 << 3, 1 << 4, 1 << 5, 1 << 6, 8 | 2, 16 | 1, u64::MAX, 1 << 63, 0xff];
    for k in 0..n {
        r.begin(&[]);
        match k % 4 {
            0 => {
                // ---- emissions on B2 (none set up yet) and B1 (set up in the seed script)
                if rng.gen_bool(0.5) {
                    r.act(json!({"op":"configure_bank","bank":"B2","cfg":{"freeze": rng.gen_bool(0.5), "permissionless_bad_debt": rng.gen_bool(0.5)}}));
                }
                let f = *pick(&mut rng, &[0u64, 1, 2, 3, 4, 8, 11]);
                r.act(json!({"op":"fund","user":"emisadmin","mint":"M3","amount":"0"}));
                r.act(json!({"op":"setup_emissions","bank":"B2","mint":"ME","flags":f,"rate": rng.gen_range(0..5_000_000u64),"total": rng.gen_range(0..2_000_000_000u64)}));
                for _ in 0..rng.gen_range(1..5) {
                    let w = if rng.gen_bool(0.3) { rng.gen::<u64>() } else { *pick(&mut rng, &words) };
                    let b = *pick(&mut rng, &["B1", "B2"]);
                    let mut a = json!({"op":"update_emissions","bank":b,"mint":"ME"});
                    if rng.gen_bool(0.8) {
                        a["flags"] = json!(w.to_string());
                    }
                    if rng.gen_bool(0.5) {
                        a["rate"] = json!(rng.gen_range(0..10_000_000u64));
                    }
                    if rng.gen_bool(0.4) {
                        a["additional"] = json!(rng.gen_range(0..1_000_000_000u64));
                    }
                    if rng.gen_bool(0.15) {
                        a["signer"] = json!(*pick(&mut rng, &["admin", "U1", "stranger"]));
                    }
                    r.act(a);
                }
                // user activity under emissions
                // (sometimes the authority has not chosen a destination yet: the permissionless payout must then be refused)
                if rng.gen_bool(0.6) {
                    r.act(json!({"op":"update_emis_dest","acct":"A1","dst":"U7"}));
                }
                for _ in 0..rng.gen_range(2..8) {
                    let c = rng.gen_range(0..8);
                    let a = match c {
                        0 => json!({"op":"tick","dt": *pick(&mut rng, &[1i64, 3600, 86400, 31_536_000])}),
                        1 => json!({"op":"deposit","acct":"A1","bank":*pick(&mut rng, &["B1","B2"]),"amount": rng.gen_range(1..2_000_000_000u64)}),
                        2 => json!({"op":"settle_emissions","acct":*pick(&mut rng, &["A1","A2"]),"bank":*pick(&mut rng, &["B1","B2"])}),
                        3 => json!({"op":"withdraw_emissions","acct":"A1","bank":*pick(&mut rng, &["B1","B2"])}),
                        4 => json!({"op":"withdraw_emissions_perm","acct":*pick(&mut rng, &["A1","A1","A2"]),"bank":*pick(&mut rng, &["B1","B2"])}),
                        5 => json!({"op":"withdraw_emissions","acct":"A1","bank":"B1","signer":"stranger"}),
                        6 => json!({"op":"withdraw_emissions_perm","acct":"A1","bank":"B1","dst":"stranger.ME"}),
                        _ => json!({"op":"withdraw","acct":"A1","bank":"B1","amount": rng.gen_range(1..1_000_000u64)}),
                    };
                    if a["op"] == "withdraw_emissions_perm" && a.get("dst").is_some() {
                        r.ex.user_tok("stranger", "ME");
                    }
                    r.act(a);
                }
            }
            1 if rng.gen_bool(0.4) => {
                // ---- e-mode: entries validated against the source bank's liability weights, then cloned
                r.act(json!({"op":"configure_bank","bank":"B1","cfg":{"lw_init":"1.5","lw_maint":"1.25"}}));
                let (wi, wm) = *pick(&mut rng, &[("1.0", "1.1"), ("0.9", "0.95"), ("1.2", "1.2"), ("0.5", "0.6")]);
                r.act(json!({"op":"configure_emode","bank":"B1","tag":7,"entries":[{"tag":5,"init":wi,"maint":wm},{"tag":9,"init":"0.1","maint":"0.2"}]}));
                let dst = *pick(&mut rng, &["B2", "B3"]);
                let (li, lm) = *pick(&mut rng, &[("1", "1"), ("1.05", "1.01"), ("2", "1.5")]);
                r.act(json!({"op":"configure_bank","bank":dst,"cfg":{"lw_init":li,"lw_maint":lm}}));
                r.act(json!({"op":"clone_emode","from":"B1","to":dst,"signer": *pick(&mut rng, &["admin", "emodeadmin"])}));
                r.act(json!({"op":"configure_emode","bank":dst,"tag":7,"entries":[{"tag":5,"init":wi,"maint":wm}]}));
                r.act(json!({"op":"config_group","group":"G1","emode_max_init":"3","emode_max_maint":"4"}));
                r.act(json!({"op":"configure_bank","bank":"B1","cfg":{"lw_init":"1.21","lw_maint":"1.2"}}));
            }
            1 => {
                // ---- frozen settings
                let b = *pick(&mut rng, &["B1", "B2", "B3"]);
                r.act(json!({"op":"configure_bank","bank":b,"cfg":{"freeze":true}}));
                for _ in 0..6 {
                    let c = rng.gen_range(0..9);
                    let a = match c {
                        0 => json!({"op":"configure_bank","bank":b,"cfg":{"aw_init":"0.1","aw_maint":"0.2","lw_init":"3","lw_maint":"2","op_state":2,"risk_tier":0,"init_limit":77,"oracle_max_age":33,"deposit_limit":"12345","borrow_limit":"54321"}}),
                        1 => json!({"op":"configure_bank","bank":b,"cfg":{"freeze":false}}),
                        2 => json!({"op":"configure_interest","bank":b,"ir":{"ins_ir":"0.2","zero":1000,"hundred":4000000000u64}}),
                        3 => json!({"op":"configure_limits","bank":b,"deposit_limit":"999","borrow_limit":"888","init_limit":"777"}),
                        4 => json!({"op":"configure_oracle","bank":b,"oracle":"O1","setup":3}),
                        5 => json!({"op":"set_fixed_price","bank":b,"price":5}),
                        6 => json!({"op":"configure_emode","bank":b,"tag":9,"entries":[{"tag":5,"init":"0.5","maint":"0.6"}]}),
                        7 => json!({"op":"update_emissions","bank":"B1","mint":"ME","flags":"0"}),
                        _ => json!({"op":"clone_emode","from":"B1","to":b}),
                    };
                    r.act(a);
                }
            }
            2 => {
                // ---- fee buckets and their destinations
                let b = *pick(&mut rng, &["B1", "B2"]);
                let mk = |rng: &mut StdRng| -> String {
                    match rng.gen_range(0..6) {
                        0 => "0".into(),
                        1 => "1/2".into(),
                        2 => "3/2".into(),
                        3 => format!("{}/7", rng.gen_range(1..1_000_000_000u64)),
                        4 => "99999999999999".into(),
                        _ => format!("{}", rng.gen_range(1..100_000u64)),
                    }
                };
                r.act(json!({"op":"inject_bank","bank":b,"fee_ins":mk(&mut rng),"fee_grp":mk(&mut rng),"fee_prog":mk(&mut rng)}));
                // (own random stream) the fee admin rotates the protocol's fee wallet; until somebody propagates the change the
                // group still caches the old one - program fees must follow the fee state, not the copy (recorded side branch)
                if rng2.gen_bool(0.5) {
                    let propagate_first = rng2.gen_bool(0.3);
                    r.fork(&mut |r: &mut Recorder| {
                        r.act(json!({"op":"edit_fee_state","admin":"feeadmin","wallet":"feewallet2","prog_fixed":"0.01","prog_rate":"0.025","liq_max_fee":"0.05","bank_init_fee":1000,"liq_flat_fee":500}));
                        if propagate_first {
                            r.act(json!({"op":"propagate_fee","group":"G1"}));
                        }
                        r.act(json!({"op":"collect_fees","bank":b,"fee_ata_of":"cache"}));
                        r.act(json!({"op":"collect_fees","bank":b}));
                    });
                }
                r.act(json!({"op":"collect_fees","bank":b}));
                r.act(json!({"op":"collect_fees","bank":b,"fee_ata":"U1.M1"}));
                for _ in 0..4 {
                    let who = *pick(&mut rng, &["admin", "admin", "riskadmin", "stranger", "admin2"]);
                    let amt = rng.gen_range(0..2000u64);
                    let op = *pick(&mut rng, &["withdraw_fees", "withdraw_insurance", "withdraw_fees_perm", "update_fees_dest"]);
                    let mut a = json!({"op":op,"bank":b,"amount":amt});
                    if op == "update_fees_dest" {
                        let m = if b == "B1" { "M1" } else { "M2" };
                        a["dst"] = json!(format!("{}.{}", *pick(&mut rng, &["U1", "U2"]), m));
                    }
                    if op == "withdraw_fees_perm" && rng.gen_bool(0.4) {
                        a["dst"] = json!(if b == "B1" { "stranger.M1" } else { "stranger.M2" });
                    }
                    if op != "withdraw_fees_perm" && who != "admin" {
                        a["signer"] = json!(who);
                    }
                    r.act(a);
                }
            }
            _ => {
                // ---- forced deleverage by the risk admin with a daily limit
                let limit = *pick(&mut rng, &[0u64, 1, 5, 50]);
                r.act(json!({"op":"delev_limit","group":"G1","limit":limit}));
                // (own random stream) sometimes the limit then sits unused for several days before a burst of withdrawals
                let idle = rng2.gen_bool(0.4);
                if idle {
                    r.act(json!({"op":"tick","dt": rng2.gen_range(2i64..5) * 86400 + rng2.gen_range(1i64..80000)}));
                    // a clean burst sized so that two withdrawals together exceed the limit while each one stays below it
                    if limit >= 5 {
                        let each = limit * 4 / 5;                                  // dollars per withdrawal
                        let wamt = each * 1_000_000 / 7 + 1;                       // B2 units ($7 per 1e6)
                        for _ in 0..3 {
                            r.act(json!({"op":"tx","ixs":[
                                json!({"op":"start_delev","acct":"A2","signer":"riskadmin"}),
                                json!({"op":"withdraw","acct":"A2","bank":"B2","amount":wamt,"signer":"riskadmin"}),
                                json!({"op":"repay","acct":"A2","bank":"B1","amount":wamt * 8,"signer":"riskadmin"}),
                                json!({"op":"end_delev","acct":"A2","signer":"riskadmin"}),
                            ]}));
                            r.act(json!({"op":"tick","dt": rng2.gen_range(1i64..30)}));
                        }
                    }
                }
                for _ in 0..rng.gen_range(1..5) {
                    let acct = *pick(&mut rng, &["A2", "A3"]);
                    let wamt = *pick(&mut rng, &[1u64, 100_000, 499_999, 1_000_000, 4_000_000]); // B2 units ($7 per 1e6)
                    let ramt = (wamt as u128 * 8) as u64; // B1 units ($1 per 1e6): repay more value than seized
                    let ra = *pick(&mut rng, &["riskadmin", "riskadmin", "riskadmin", "admin", "stranger"]);
                    let mut ixs = vec![
                        json!({"op":"start_delev","acct":acct,"signer":ra}),
                        json!({"op":"withdraw","acct":acct,"bank":"B2","amount":wamt,"signer":ra}),
                        json!({"op":"repay","acct":acct,"bank":"B1","amount":ramt,"signer":ra}),
                        json!({"op":"end_delev","acct":acct,"signer":ra}),
                    ];
                    match rng.gen_range(0..8) {
                        0 => {
                            ixs.remove(2); // no repay: health would worsen
                        }
                        1 => {
                            ixs.pop(); // missing end
                        }
                        2 => {
                            ixs.insert(2, json!({"op":"withdraw","acct":acct,"bank":"B2","amount":wamt,"signer":ra}));
                        }
                        3 => {
                            ixs.insert(1, json!({"op":"borrow","acct":acct,"bank":"B1","amount":5,"signer":ra}));
                        }
                        _ => {}
                    }
                    r.act(json!({"op":"tx","ixs":ixs}));
                    // two accounts in one bracket: a second start (as it is, and with a byte trailing its empty argument
                    // list) whose own end closes the transaction, the first account never being closed (recorded side branches)
                    let other = if acct == "A2" { "A3" } else { "A2" };
                    for pad in [0u64, 1] {
                        r.fork(&mut |r: &mut Recorder| {
                            let mut s2 = json!({"op":"start_delev","acct":other,"signer":ra});
                            if pad > 0 {
                                s2["pad"] = json!(pad);
                            }
                            r.act(json!({"op":"tx","ixs":[
                                {"op":"start_delev","acct":acct,"signer":ra}, s2,
                                {"op":"withdraw","acct":other,"bank":"B2","amount":wamt,"signer":ra},
                                {"op":"repay","acct":other,"bank":"B1","amount":ramt,"signer":ra},
                                {"op":"end_delev","acct":other,"signer":ra}]}));
                            r.act(json!({"op":"withdraw","acct":acct,"bank":"B2","amount":1,"signer":ra}));
                        });
                    }
                    if rng.gen_bool(0.3) {
                        r.act(json!({"op":"tick","dt": *pick(&mut rng, &[3600i64, 86399, 86400, 90000])}));
                    }
                }
                // winding a bank down: token-less repayments allowed, declared complete by the risk admin, then
                // depositors' positions purged (only deposits, only in the flagged bank, only by the risk admin)
                if rng.gen_bool(0.5) {
                    r.act(json!({"op":"purge","acct":"A2","bank":"B2"}));                       // not flagged yet
                    r.act(json!({"op":"tokenless_complete","bank":"B2"}));                      // no effect unless allowed
                    r.act(json!({"op":"purge","acct":"A2","bank":"B2"}));
                    r.act(json!({"op":"configure_bank","bank":"B2","cfg":{"tokenless_allowed":true}}));
                    r.act(json!({"op":"tokenless_complete","bank":"B2","signer": *pick(&mut rng, &["riskadmin", "riskadmin", "admin", "stranger"])}));
                    r.act(json!({"op":"tokenless_complete","bank":"B2"}));
                    r.act(json!({"op":"purge","acct":"A3","bank":"B1"}));                       // a debt position, bank not flagged
                    r.act(json!({"op":"purge","acct":"A2","bank":"B2","signer":"stranger"}));
                    r.act(json!({"op":"purge","acct":"A2","bank":"B2"}));
                    r.act(json!({"op":"purge","acct":"A2","bank":"B2"}));                       // already gone
                    r.act(json!({"op":"pulse_health","acct":"A2"}));
                    r.act(json!({"op":"withdraw","acct":"A3","bank":"B2","amount":1}));
                }
            }
        }
    }
    eprintln!("admin driver: {} scenarios, {} events", n, r.events);
    r.finish();
}

// ------------------------------------------------------------------------------------------------
// curve driver (C18): random full-range seven-point curves (valid by construction, plus single defects)
// and legacy curves, dense utilization sweeps around every breakpoint
// ------------------------------------------------------------------------------------------------
fn curve_driver(out: &str, seed: u64, n: u64) {
    use fixed::types::I80F48;
    let mut rng = StdRng::seed_from_u64(seed);
    let mut rng2 = StdRng::seed_from_u64(seed ^ 0xc18d);
    let mut r = Recorder::new(&format!("{}/curve.trace", out), vec![]);
    r.begin(&[]);
    let fx = |v: I80F48| crate::num::big_i(v.to_bits());
    for _ in 0..n {
        let k = rng.gen_range(0..=5usize);
        let mut utils: Vec<u32> = (0..k).map(|_| match rng.gen_range(0..6) {
            0 => rng.gen_range(1..10),
            1 => u32::MAX - rng.gen_range(0..10),
            _ => rng.gen_range(1..u32::MAX),
        }).collect();
        utils.sort();
        utils.dedup();
        let mut rates: Vec<u32> = (0..utils.len() + 2).map(|_| match rng.gen_range(0..5) {
            0 => 0,
            1 => u32::MAX,
            _ => rng.gen::<u32>(),
        }).collect();
        rates.sort();
        let zero = rates[0];
        let hundred = rates[rates.len() - 1];
        let mut pts: Vec<(u32, u32)> = utils.iter().enumerate().map(|(i, u)| (*u, rates[i + 1])).collect();
        // occasionally adjacent utilizations (steepest possible segment) or a single defect
        match rng.gen_range(0..12) {
            0 if pts.len() >= 2 => { pts[1].0 = pts[0].0 + 1; let (a, b) = (pts[0].1, pts[1].1); if pts.len() > 2 && pts[2].0 <= pts[1].0 { pts.truncate(2); } pts[1].1 = b.max(a); }
            1 if pts.len() >= 2 => { pts.swap(0, 1); }
            2 if !pts.is_empty() => { pts[0].1 = pts[0].1.wrapping_add(rng.gen()); }
            3 if pts.len() >= 2 => { pts[0] = (0, 0); }
            _ => {}
        }
        // (own random stream) one defect at a random position of an otherwise valid curve: last point above the hundred rate,
        // first point below the zero rate, a rate dip, equal utilizations, a padding hole, a point at utilization 0 with a rate
        let (mut zero, mut hundred) = (zero, hundred);
        if rng2.gen_bool(0.25) {
            let d: u32 = *pick(&mut rng2, &[1u32, 1, 1000, 1 << 20]);
            let j = if pts.is_empty() { 0 } else { rng2.gen_range(0..pts.len()) };
            match rng2.gen_range(0..7) {
                0 if !pts.is_empty() && hundred < u32::MAX => { let l = pts.len() - 1; pts[l].1 = hundred.saturating_add(d); }
                1 if !pts.is_empty() && zero > 0 => { pts[0].1 = zero.saturating_sub(d.min(zero)); }
                2 if pts.len() >= 2 && j + 1 < pts.len() && pts[j].1 < u32::MAX => { pts[j + 1].1 = pts[j].1.saturating_sub(d.min(pts[j].1)); pts[j].1 = pts[j].1.max(pts[j + 1].1 + 1); }
                3 if pts.len() >= 2 && j + 1 < pts.len() => { pts[j + 1].0 = pts[j].0; }
                4 if pts.len() >= 2 => { pts.insert(j, (0, 0)); pts.truncate(5); }
                5 if !pts.is_empty() => { pts[j].0 = 0; }
                _ => { if hundred > 0 { zero = hundred; hundred = hundred - d.min(hundred); } }
            }
        }
        let bu = |v: u32| crate::num::big_u(v as u128);
        let mut p5: Vec<Value> = pts.iter().map(|(u, r)| json!([bu(*u), bu(*r)])).collect();
        while p5.len() < 5 { p5.push(json!([bu(0), bu(0)])); }
        let mut urs: Vec<I80F48> = vec![I80F48::ZERO, I80F48::from_bits(1), I80F48::ONE, I80F48::ONE + I80F48::from_bits(1), I80F48::from_num(2), I80F48::from_num(-1)];
        for (u, _) in pts.iter() {
            let x = I80F48::from_num(*u) / I80F48::from_num(u32::MAX);
            for d in [-2i128, -1, 0, 1, 2] {
                urs.push(I80F48::from_bits((x.to_bits() + d).max(0)));
            }
        }
        for _ in 0..24 {
            urs.push(I80F48::from_bits(rng.gen_range(0..=I80F48::ONE.to_bits())));
        }
        urs.sort();
        let fees = match rng.gen_range(0..3) {
            0 => json!({}),
            1 => json!({"ins_fixed":"0.01","ins_ir":"0.1","grp_fixed":"0.02","grp_ir":"0.3"}),
            _ => json!({"ins_ir":"2","grp_fixed":"0.5","prog_fixed":"0.01","prog_rate":"0.025"}),
        };
        if rng.gen_bool(0.1) {
            let opt = *pick(&mut rng, &["0.5", "0.8", "0.999", "0.0001", "0", "1"]);
            let pl = *pick(&mut rng, &["0.1", "0.0001", "3", "0"]);
            let mx = *pick(&mut rng, &["1", "0.2", "9.99", "0.05"]);
            let lb = |x: &str| crate::num::big_i(x.parse::<I80F48>().unwrap().to_bits());
            r.act(json!({"op":"curve","legacy":{"opt":lb(opt),"plateau":lb(pl),"max":lb(mx)},"fees":fees,"program_fees":rng.gen_bool(0.5),
                         "urs": urs.iter().map(|u| fx(*u)).collect::<Vec<_>>()}));
        } else {
            r.act(json!({"op":"curve","zero":bu(zero),"hundred":bu(hundred),"points":p5,"fees":fees,"program_fees":rng.gen_bool(0.5),
                         "urs": urs.iter().map(|u| fx(*u)).collect::<Vec<_>>()}));
        }
    }
    r.finish();
}

// ------------------------------------------------------------------------------------------------
// integ driver (C20): random 64/128-bit operand tuples biased to overflow cliffs, neighbour pairs
// ------------------------------------------------------------------------------------------------
fn integ_driver(out: &str, seed: u64, n: u64) {
    let mut rng = StdRng::seed_from_u64(seed);
    let mut r = Recorder::new(&format!("{}/integ.trace", out), vec![]);
    r.begin(&[]);
    let b = |v: i128| crate::num::big_i(v);
    let ru64 = |rng: &mut StdRng| -> u64 {
        match rng.gen_range(0..8) {
            0 => rng.gen_range(0..4),
            1 => u64::MAX - rng.gen_range(0..4),
            2 => (1u64 << rng.gen_range(1..64)).wrapping_add(rng.gen_range(0..3)).wrapping_sub(1),
            3 => 10u64.pow(rng.gen_range(0..20)),
            _ => rng.gen::<u64>() >> rng.gen_range(0..64),
        }
    };
    let rfx = |rng: &mut StdRng| -> i128 {
        match rng.gen_range(0..6) {
            0 => rng.gen_range(0..3),
            1 => i128::MAX - rng.gen_range(0..3),
            2 => (rng.gen::<u64>() as i128) << rng.gen_range(0..60),
            _ => ((rng.gen::<u64>() >> rng.gen_range(0..64)) as i128) << rng.gen_range(0..48),
        }
    };
    // U68F60 / WAD style 127-bit operands
    let r127 = |rng: &mut StdRng| -> i128 {
        match rng.gen_range(0..6) {
            0 => rng.gen_range(0..5000),
            1 => i128::MAX - rng.gen_range(0..3),
            2 => (1i128 << rng.gen_range(0..127)) - 1 + rng.gen_range(0..3),
            _ => ((rng.gen::<u64>() as i128) << 63 | rng.gen::<u64>() as i128 >> 1) >> rng.gen_range(0..126),
        }
    };
    for _ in 0..n {
        let k = rng.gen_range(0..19);
        let a = match k {
            14 => {
                // the 80-bit integer range of I80F48 from both sides
                let e = *pick(&mut rng, &[79u32, 79, 80, 78]);
                let raw = (1i128 << e) - 2 + rng.gen_range(0..4);
                let raw = if rng.gen_bool(0.3) { -raw } else { raw };
                let ratio = *pick(&mut rng, &[1i128 << 48, 1, 3i128 << 47, (1i128 << 48) - 1]);
                if raw >= 0 {
                    json!({"op":"integ","fn":"ty.adj_i128","args":[b(raw), b(ratio)],"args2":[b(raw + rng.gen_range(0..3)), b(ratio)]})
                } else {
                    json!({"op":"integ","fn":"ty.adj_i128","args":[b(raw), b(ratio)]})
                }
            }
            15 => json!({"op":"integ","fn":*pick(&mut rng, &["kamino.sf", "solend.wad"]),"args":[b(r127(&mut rng))]}),
            16 => {
                let sm = |rng: &mut StdRng| -> i128 { r127(rng) >> *pick(rng, &[0u32, 40, 60, 67, 100]) };
                json!({"op":"integ","fn":"kamino.total","args":[b(ru64(&mut rng) as i128), b(r127(&mut rng)), b(sm(&mut rng)), b(sm(&mut rng)), b(sm(&mut rng))]})
            }
            17 => {
                let sm = |rng: &mut StdRng| -> i128 { r127(rng) >> *pick(rng, &[0u32, 40, 60, 100]) };
                json!({"op":"integ","fn":"solend.total","args":[b(ru64(&mut rng) as i128), b(r127(&mut rng)), b(sm(&mut rng))]})
            }
            18 => {
                // a reserve with every component of its supply populated (fees below what was borrowed)
                let avail = ru64(&mut rng) >> 8;
                let bor: i128 = ((ru64(&mut rng) >> 10) as i128) << 60;
                let fee = |rng: &mut StdRng| -> i128 { (bor >> rng.gen_range(4..40)) + rng.gen_range(0..5000) };
                let sup = (ru64(&mut rng) >> 8).max(1);
                json!({"op":"integ","fn":"kamino.full.c2l","args":[b((ru64(&mut rng) >> 12) as i128), b(avail as i128), b(bor), b(fee(&mut rng)), b(fee(&mut rng)), b(fee(&mut rng)),
                       b(sup as i128), b(*pick(&mut rng, &[0i128, 6, 9]))]})
            }
            0 | 1 | 2 => {
                let f = *pick(&mut rng, &["ty.c2l", "ty.l2c", "ty.roundtrip"]);
                json!({"op":"integ","fn":f,"args":[b(ru64(&mut rng) as i128), b(rfx(&mut rng)), b(rfx(&mut rng))]})
            }
            3 | 4 => {
                let f = *pick(&mut rng, &["ty.adj_i64", "ty.adj_i128", "ty.adj_u64"]);
                let raw = (ru64(&mut rng) >> 1) as i128;
                let ratio = rfx(&mut rng) >> 20;
                let raw2 = raw.saturating_add(rng.gen_range(0..3));
                let ratio2 = ratio.saturating_add(rng.gen_range(0..3));
                json!({"op":"integ","fn":f,"args":[b(raw), b(ratio)],"args2":[b(raw2), b(ratio2)]})
            }
            5 | 6 | 7 => {
                let f = *pick(&mut rng, &["kamino.c2l", "kamino.l2c", "kamino.roundtrip", "solend.c2l", "solend.l2c", "solend.roundtrip"]);
                // realistic reserves: at least one whole token of supply, rate between 0.5 and 4
                let dec = *pick(&mut rng, &[0i128, 6, 9]);
                let supply = (10u64.pow(dec as u32)).saturating_mul(rng.gen_range(1..1_000_000_000)) as i128;
                let avail = (supply as f64 * *pick(&mut rng, &[0.5f64, 1.0, 1.000001, 1.37, 4.0])) as i128;
                json!({"op":"integ","fn":f,"args":[b((ru64(&mut rng) >> 8) as i128), b(avail.min(u64::MAX as i128)), b(supply), b(dec)]})
            }
            8 | 9 | 10 => {
                let f = *pick(&mut rng, &["drift.inc", "drift.dec", "drift.wd", "drift.roundtrip"]);
                let cum: i128 = match rng.gen_range(0..4) { 0 => 10_000_000_000, 1 => 0, 2 => rng.gen_range(10_000_000_000..40_000_000_000), _ => rfx(&mut rng) };
                json!({"op":"integ","fn":f,"args":[b(ru64(&mut rng) as i128), b(cum), b(*pick(&mut rng, &[0i128, 6, 8, 9, 19, 20]))]})
            }
            11 => {
                let f = *pick(&mut rng, &["drift.adj_i64", "drift.adj_i128", "drift.adj_u64"]);
                let raw = (ru64(&mut rng) >> 1) as i128;
                let cum = rng.gen_range(10_000_000_000i128..90_000_000_000);
                json!({"op":"integ","fn":f,"args":[b(raw), b(cum)],"args2":[b(raw + 1), b(cum + rng.gen_range(0..5))]})
            }
            12 => {
                let f = *pick(&mut rng, &["kamino.stale", "solend.stale", "drift.stale"]);
                let s = rng.gen_range(0..1000i128);
                // (slots are unsigned: the comparison point never goes below 0 for the slot-based venues)
                let t = s + rng.gen_range(-1..2);
                json!({"op":"integ","fn":f,"args":[b(s), b(if f == "drift.stale" { t } else { t.max(0) })]})
            }
            _ => json!({"op":"integ","fn":"ty.adj_sup_i64","args":[b((ru64(&mut rng) >> 2) as i128), b(rfx(&mut rng) >> 10), b(rfx(&mut rng) >> 10)]}),
        };
        r.act(a);
    }
    r.finish();
}

// ------------------------------------------------------------------------------------------------
// caps driver (C17): limits x share values x amounts at the cap, pending accrual before up-to-limit deposits
// ------------------------------------------------------------------------------------------------
fn caps_driver(out: &str, seed: u64, n: u64) {
    let mut rng = StdRng::seed_from_u64(seed);
    let mut r = Recorder::new(&format!("{}/caps.trace", out), load_setup("ledger"));
    for _ in 0..n {
        r.begin(&[]);
        let bank = *pick(&mut rng, &["B1", "B2"]);
        let scale: u64 = if bank == "B1" { 1 } else { 1000 };
        // liquidity, a borrower (so that interest accrues), then limits around the current totals
        let dep: u64 = *pick(&mut rng, &[1_000_000u64, 900_000, 123_456_789]) * scale;
        r.act(json!({"op":"deposit","acct":"A4","bank":bank,"amount":dep}));
        r.act(json!({"op":"deposit","acct":"A3","bank": if bank == "B1" {"B2"} else {"B1"},"amount": 50_000_000_000u64}));
        let bor = dep / 10 * *pick(&mut rng, &[0u64, 5, 8, 9]);
        if bor > 0 {
            r.act(json!({"op":"borrow","acct":"A3","bank":bank,"amount":bor}));
        }
        if bor == 0 && rng.gen_bool(0.6) {
            // a bank lent out almost completely whose vault still holds the origination fees: a small lender leaving
            // (by amount and with withdraw-all) must not take deposits below debt
            let small = dep / 25;
            r.act(json!({"op":"deposit","acct":"A1","bank":bank,"amount":small}));
            r.act(json!({"op":"borrow","acct":"A3","bank":bank,"amount":dep - 1}));
            for all in [true, false] {
                r.fork(&mut |r: &mut Recorder| {
                    r.act(json!({"op":"withdraw","acct":"A1","bank":bank,"amount": if all { 0 } else { small },"all":all}));
                });
            }
            r.fork(&mut |r: &mut Recorder| {
                r.act(json!({"op":"withdraw","acct":"A1","bank":bank,"amount":small - small / 2}));
            });
            continue;
        }
        let dl: u64 = match rng.gen_range(0..5) { 0 => 0, 1 => 1, 2 => dep + rng.gen_range(0..3), 3 => dep + dep / 10, _ => u64::MAX };
        let bl: u64 = match rng.gen_range(0..4) { 0 => 0, 1 => bor + rng.gen_range(0..3), 2 => bor + dep / 20, _ => u64::MAX };
        r.act(json!({"op":"configure_limits","bank":bank,"deposit_limit":dl.to_string(),"borrow_limit":bl.to_string()}));
        for _ in 0..rng.gen_range(3..10) {
            let c = rng.gen_range(0..10);
            let a = match c {
                0 | 1 => json!({"op":"tick","dt": *pick(&mut rng, &[1i64, 3600, 86400, 2_592_000, 31_536_000])}),
                2 | 3 | 4 => {
                    // amounts at the remaining capacity +-1
                    if rng.gen_bool(0.5) {
                        r.act(json!({"op":"accrue","bank":bank}));
                    }
                    let b = r.ex.bank(bank).unwrap();
                    let tot = (fixed::types::I80F48::from(b.total_asset_shares) * fixed::types::I80F48::from(b.asset_share_value)).to_num::<u64>();
                    let room = dl.saturating_sub(tot);
                    let amt = match rng.gen_range(0..5) { 0 => room, 1 => room.saturating_sub(1), 2 => room.saturating_sub(2), 3 => room.saturating_add(1), _ => rng.gen_range(0..room.max(1).saturating_mul(2).saturating_add(2)) };
                    json!({"op":"deposit","acct":"A1","bank":bank,"amount":amt,"up_to_limit": rng.gen_bool(0.5)})
                }
                5 => json!({"op":"deposit","acct":"A1","bank":bank,"amount": u64::MAX.to_string(),"up_to_limit":true}),
                6 | 7 => {
                    // bring interest up to now first, so that the remaining room computed here is the one the handler sees;
                    // then the three amounts around it as recorded side branches
                    r.act(json!({"op":"accrue","bank":bank}));
                    let b = r.ex.bank(bank).unwrap();
                    let tot = (fixed::types::I80F48::from(b.total_liability_shares) * fixed::types::I80F48::from(b.liability_share_value)).to_num::<u64>();
                    let room = bl.saturating_sub(tot);
                    if bl != u64::MAX && room > 2 {
                        // (the origination fee is added to the debt too: the largest accepted amount is found by bisection)
                        let mk = |x: u64| json!({"op":"borrow","acct":"A3","bank":bank,"amount":x});
                        if let Some((lo, hi)) = search_boundary(&mut r, &mk, room.saturating_add(1), "BankLiabilityCapacityExceeded") {
                            for amt in [hi, lo] {
                                if amt > 0 {
                                    r.fork(&mut |r: &mut Recorder| {
                                        r.act(mk(amt));
                                    });
                                }
                            }
                        }
                    }
                    let amt = match rng.gen_range(0..4) { 0 => room, 1 => room.saturating_sub(1), 2 => room.saturating_add(1), _ => rng.gen_range(0..room.max(1).saturating_mul(2).saturating_add(2)) };
                    json!({"op":"borrow","acct":"A3","bank":bank,"amount":amt})
                }
                8 => json!({"op":"withdraw","acct":"A4","bank":bank,"amount": rng.gen_range(0..dep)}),
                _ => json!({"op":"accrue","bank":bank}),
            };
            r.act(a);
        }
    }
    r.finish();
}

// ------------------------------------------------------------------------------------------------
// struct driver (C16): positions opened by liquidation in re-tagged banks (integration / staked tags),
// caps on integration positions, tag mixing, slot exhaustion
// ------------------------------------------------------------------------------------------------
fn struct_driver(out: &str, seed: u64, n: u64) {
    let mut rng = StdRng::seed_from_u64(seed);
    let mut r = Recorder::new(&format!("{}/struct.trace", out), load_setup("struct"));
    for k in 0..n {
        r.begin(&[]);
        if k % 3 == 0 {
            // open / close orderings: several positions, some closed (holes in the slot array), then positions opened in banks
            // whose keys lie below, between and above the remaining ones
            let mut banks: Vec<String> = (1..=10).map(|i| format!("T{}", i)).collect();
            banks.sort_by_key(|b| std::cmp::Reverse(r.ex.env.k(b)));
            let pickn = rng.gen_range(4..=7);
            let mut chosen: Vec<usize> = (0..10).collect();
            for i in (1..chosen.len()).rev() {
                chosen.swap(i, rng.gen_range(0..=i));
            }
            let mut open: Vec<usize> = chosen[..pickn].to_vec();
            let rest: Vec<usize> = chosen[pickn..].to_vec();
            open.sort();
            for &i in open.iter() {
                r.act(json!({"op":"deposit","acct":"L2","bank":banks[i],"amount":1000 + i as u64}));
            }
            // close two or three, in key order or not
            let nclose = rng.gen_range(2..=3).min(open.len() - 1);
            let closing: Vec<usize> = if rng.gen_bool(0.6) { open[..nclose].to_vec() } else { let mut o = open.clone(); o.reverse(); o[..nclose].to_vec() };
            for &i in closing.iter() {
                r.act(json!({"op":"withdraw","acct":"L2","bank":banks[i],"amount":0,"all":true}));
            }
            let mut rest_sorted = rest.clone();
            rest_sorted.sort();
            // lowest key, highest key, something in between
            for &i in [rest_sorted[rest_sorted.len() - 1], rest_sorted[0], rest_sorted[rest_sorted.len() / 2]].iter() {
                r.act(json!({"op":"deposit","acct":"L2","bank":banks[i],"amount":77}));
                r.act(json!({"op":"pulse_health","acct":"L2"}));
            }
            r.act(json!({"op":"borrow","acct":"L2","bank":"D","amount":10}));
            continue;
        }
        let liq = |b: &str, amt: u64| json!({"op":"liquidate","liquidator":"Q","liquidatee":"L","asset_bank":b,"liab_bank":"D","amount":amt});
        if k % 5 == 4 {
            // a liquidator that holds positions in neither liquidation bank opens two at once (the seized collateral and a
            // debt in the liability bank) next to two or three it already has; if the program refuses the canonical account
            // order, every other order is tried, as a client would (the first accepted one is recorded)
            for i in 1..=9 {
                r.act(json!({"op":"set_fixed_price","bank":format!("T{}", i),"price":"3/4"}));
            }
            let mut order: Vec<usize> = (1..=10).collect();
            for i in (1..order.len()).rev() {
                order.swap(i, rng.gen_range(0..=i));
            }
            let nhold = rng.gen_range(2..=3);
            for &i in order[..nhold].iter() {
                r.act(json!({"op":"deposit","acct":"L2","bank":format!("T{}", i),"amount":200_000_000u64}));
            }
            let targets: Vec<usize> = order[nhold..].iter().copied().filter(|&i| i <= 9).take(2).collect();
            for (j, &t) in targets.iter().enumerate() {
                let l = json!({"op":"liquidate","liquidator":"L2","liquidatee":"L","asset_bank":format!("T{}", t),"liab_bank":"D","amount":1000 + j as u64});
                let ev = r.probe(&l);
                if ev["res"] == "ok" {
                    r.act(l);
                } else {
                    r.act(l.clone());
                    let npos = nhold + 2 - j.min(1);   // after the first liquidation the debt position exists
                    let mut perm: Vec<usize> = (0..npos).collect();
                    let mut found = false;
                    // all permutations (Heap's algorithm, at most 120)
                    let mut c = vec![0usize; npos];
                    let mut i = 0;
                    while i < npos && !found {
                        if c[i] < i {
                            if i % 2 == 0 { perm.swap(0, i) } else { perm.swap(c[i], i) }
                            let mut l2 = l.clone();
                            l2["rem_perm"] = json!({"L2": perm.clone()});
                            if r.probe(&l2)["res"] == "ok" {
                                r.act(l2);
                                found = true;
                            }
                            c[i] += 1;
                            i = 0;
                        } else {
                            c[i] = 0;
                            i += 1;
                        }
                    }
                }
                r.act(json!({"op":"pulse_health","acct":"L2"}));
            }
            continue;
        }
        if k % 2 == 0 {
            // integration tags: 9 collateral banks re-tagged with a random mix of Kamino / Drift / Solend tags
            let mut order: Vec<usize> = (1..=9).collect();
            for i in (1..order.len()).rev() {
                order.swap(i, rng.gen_range(0..=i));
            }
            let ntag = rng.gen_range(7..=9);
            for (j, i) in order.iter().enumerate() {
                if j < ntag {
                    r.act(json!({"op":"configure_bank","bank":format!("T{}", i),"cfg":{"asset_tag": *pick(&mut rng, &[3u64, 3, 4, 5])}}));
                }
            }
            for i in 1..=9 {
                r.act(json!({"op":"set_fixed_price","bank":format!("T{}", i),"price":"3/4"}));
            }
            // the liquidator may already hold a few ordinary positions
            for _ in 0..rng.gen_range(0..3) {
                r.act(json!({"op":"deposit","acct":"Q","bank":"T10","amount":1000}));
            }
            for i in order.iter() {
                r.act(liq(&format!("T{}", i), *pick(&mut rng, &[1u64, 1000, 50_000])));
            }
            // closing one and opening another
            let b = format!("T{}", order[0]);
            r.act(json!({"op":"withdraw","acct":"Q","bank":b,"amount":0,"all":true}));
            r.act(liq(&format!("T{}", order[8]), 1000));
            r.act(json!({"op":"pulse_health","acct":"Q"}));
        } else {
            // staked vs default mixing through the liquidation path
            let staked = format!("T{}", rng.gen_range(1..=9));
            r.act(json!({"op":"configure_bank","bank":staked,"cfg":{"asset_tag":2}}));
            for i in 1..=9 {
                r.act(json!({"op":"set_fixed_price","bank":format!("T{}", i),"price":"3/4"}));
            }
            // a second user whose collateral is opened *after* the re-tagging, i.e. carries the staked tag
            r.act(json!({"op":"deposit","acct":"L2","bank":staked.clone(),"amount":100_000_000u64}));
            r.act(json!({"op":"borrow","acct":"L2","bank":"D","amount":63_000_000u64}));
            if rng.gen_bool(0.7) {
                r.act(json!({"op":"deposit","acct":"Q","bank":"T10","amount":1000})); // default-class position on the liquidator
            }
            for i in 1..=9 {
                r.act(json!({"op":"set_fixed_price","bank":format!("T{}", i),"price":"3/4"}));
            }
            // (a staked-tag bank refuses set_fixed_price: make the second user unhealthy through the debt price instead)
            r.act(json!({"op":"set_fixed_price","bank":"D","price":"3/2"}));
            r.act(json!({"op":"liquidate","liquidator":"Q","liquidatee":"L2","asset_bank":staked.clone(),"liab_bank":"D","amount":1000}));
            r.act(liq(&staked, 1000));
            let other = format!("T{}", rng.gen_range(1..=9));
            r.act(liq(&other, 1000));
            r.act(liq(&staked, 1000));
            // the user side: deposits into a default bank while holding the (now staked-tagged) bank's position keep their tags
            r.act(json!({"op":"deposit","acct":"L","bank":"T10","amount":5}));
            r.act(json!({"op":"deposit","acct":"Q","bank":staked.clone(),"amount":5}));
            r.act(json!({"op":"borrow","acct":"Q","bank":other.clone(),"amount":5}));
        }
    }
    r.finish();
}

// ------------------------------------------------------------------------------------------------
// recv driver (C10): receivership liquidations with controlled dollar values. Two borrowers at their
// borrow limit, a price drop found by binary search on the empty bracket [start, end], then brackets
// [start, repay r, withdraw w, end] with the largest accepted w found by binary search, for accounts
// far above, just above and below the $5 close-out threshold (asset value and net value on either
// side of it); attempts that would leave the account healthy; brackets with two starts, ends for the
// other account, and instructions on the other account inside the bracket.
// ------------------------------------------------------------------------------------------------
fn recv_driver(out: &str, seed: u64, n: u64) {
    let mut rng = StdRng::seed_from_u64(seed);
    let mut setup = base_setup();
    setup.push(json!({"op":"init_account","acct":"A3","group":"G1","authority":"U3"}));
    let mut r = Recorder::new(&format!("{}/recv.trace", out), setup);
    let (mut nacc, mut nrej, mut nbound) = (0u64, 0u64, 0u64);
    for _k in 0..n {
        let mut extra = vec![];
        let cdec: u32 = *pick(&mut rng, &[6u32, 8, 9]);
        let ddec: u32 = *pick(&mut rng, &[6u32, 9]);
        let ckind = *pick(&mut rng, &["spl", "spl", "t22", "t22fee"]);
        let dkind = *pick(&mut rng, &["spl", "spl", "t22"]);
        extra.push(json!({"op":"add_mint","mint":"M.C1","decimals":cdec,"kind":ckind,"fee_bps":*pick(&mut rng, &[1u64, 100]),"max_fee":*pick(&mut rng, &[10u64, 5000])}));
        extra.push(json!({"op":"add_mint","mint":"M.D1","decimals":ddec,"kind":dkind}));
        let (aw_i, aw_m) = *pick(&mut rng, &[("0.8", "0.9"), ("0.5", "0.65"), ("0.95", "0.97"), ("1", "1"), ("0.8", "0.9")]);
        let (lw_i, lw_m) = *pick(&mut rng, &[("1", "1"), ("1.25", "1.125"), ("1.5", "1.25"), ("1.05", "1.01"), ("1.25", "1.125")]);
        extra.push(json!({"op":"add_bank","group":"G1","bank":"C1","mint":"M.C1","cfg":{"aw_init":aw_i,"aw_maint":aw_m}}));
        extra.push(json!({"op":"add_bank","group":"G1","bank":"D1","mint":"M.D1","cfg":{"aw_init":"0.5","aw_maint":"0.6","lw_init":lw_i,"lw_maint":lw_m}}));
        // collateral price in 1/1000 dollars per token, debt price 1 or 3/2
        let pc0: i64 = *pick(&mut rng, &[1000i64, 7000, 250, 123_456, 40]);
        let pd = *pick(&mut rng, &["1", "3/2", "1"]);
        extra.push(json!({"op":"set_fixed_price","bank":"C1","price":format!("{}/1000", pc0)}));
        extra.push(json!({"op":"set_fixed_price","bank":"D1","price":pd}));
        // target dollar value of the first borrower's collateral
        let v: f64 = *pick(&mut rng, &[2.0f64, 4.9, 5.5, 8.0, 12.0, 20.0, 60.0, 1000.0, 1_000_000.0]);
        let camt: u64 = ((v / (pc0 as f64 / 1000.0)) * 10f64.powi(cdec as i32)) as u64;
        let camt3: u64 = camt / 2 + 1;
        for u in ["U1", "U3", "liquidator"] {
            extra.push(json!({"op":"fund","user":u,"mint":"M.C1","amount":"4000000000000000000"}));
            extra.push(json!({"op":"fund","user":u,"mint":"M.D1","amount":"4000000000000000000"}));
        }
        extra.push(json!({"op":"fund","user":"U9","mint":"M.D1","amount":"4000000000000000000"}));
        extra.push(json!({"op":"deposit","acct":"LP","bank":"D1","amount":3_000_000_000_000_000u64}));
        extra.push(json!({"op":"deposit","acct":"A1","bank":"C1","amount":camt}));
        extra.push(json!({"op":"deposit","acct":"A3","bank":"C1","amount":camt3}));
        extra.push(json!({"op":"init_liq_record","acct":"A1"}));
        extra.push(json!({"op":"init_liq_record","acct":"A3"}));
        // the first borrower also lends in an isolated-tier bank and in a collateral bank whose initial weight is zero:
        // deposits the bracket's end checks value at nothing resp. only at maintenance level
        let with_iso = rng.gen_bool(0.5);
        if with_iso {
            extra.push(json!({"op":"add_mint","mint":"M.I1","decimals":6,"kind":"spl"}));
            extra.push(json!({"op":"add_bank","group":"G1","bank":"I1","mint":"M.I1","cfg":{"aw_init":"0","aw_maint":"0","risk_tier":1}}));
            extra.push(json!({"op":"add_bank","group":"G1","bank":"Z1","mint":"M.I1","seed":7,"cfg":{"aw_init":"0","aw_maint":*pick(&mut rng, &["0", "0.5"])}}));
            extra.push(json!({"op":"set_fixed_price","bank":"I1","price":"1"}));
            extra.push(json!({"op":"set_fixed_price","bank":"Z1","price":"1"}));
            extra.push(json!({"op":"fund","user":"U1","mint":"M.I1","amount":"4000000000000"}));
            extra.push(json!({"op":"fund","user":"liquidator","mint":"M.I1","amount":"1000000"}));
            extra.push(json!({"op":"deposit","acct":"A1","bank":"I1","amount":*pick(&mut rng, &[3_000_000u64, 50_000_000, 1_000_000_000])}));
            extra.push(json!({"op":"deposit","acct":"A1","bank":"Z1","amount":*pick(&mut rng, &[3_000_000u64, 50_000_000])}));
        }
        r.begin(&extra);
        // both borrow to their limit
        let mut debt = [0u64; 2];
        for (i, acct) in ["A1", "A3"].iter().enumerate() {
            let mkb = |x: u64| json!({"op":"borrow","acct":acct,"bank":"D1","amount":x});
            if let Some((lo, _)) = search_boundary(&mut r, &mkb, 2_000_000_000_000_000, "RiskEngineInitRejected") {
                if lo > 0 && r.act(mkb(lo))["res"] == "ok" {
                    debt[i] = lo;
                }
            }
        }
        if debt[0] == 0 {
            continue;
        }
        if rng.gen_bool(0.3) {
            r.act(json!({"op":"tick","dt": *pick(&mut rng, &[3600i64, 86400, 2_592_000])}));
        }
        let start = |a: &str| json!({"op":"start_liq","acct":a,"receiver":"liquidator"});
        let end = |a: &str| json!({"op":"end_liq","acct":a,"receiver":"liquidator"});
        let rep = |a: &str, x: u64, all: bool| json!({"op":"repay","acct":a,"bank":"D1","amount":x,"all":all,"signer":"liquidator"});
        let wd = |a: &str, x: u64, all: bool| json!({"op":"withdraw","acct":a,"bank":"C1","amount":x,"all":all,"signer":"liquidator"});
        let tx = |ixs: Vec<Value>| json!({"op":"tx","ixs":ixs});
        // while healthy: every bracket is refused
        r.act(tx(vec![start("A1"), end("A1")]));
        r.act(tx(vec![start("A1"), rep("A1", 1, false), end("A1")]));
        // largest collateral price (in 1/1000000 dollars) at which the empty bracket is accepted
        let setp = |p: i64| json!({"op":"set_fixed_price","bank":"C1","price":format!("{}/1000000", p)});
        let at = |r: &mut Recorder, p: i64| -> Value {
            let s = r.ex.snapshot();
            r.ex.apply(&setp(p));
            let ev = r.ex.apply(&tx(vec![start("A1"), end("A1")]));
            r.ex.restore(&s);
            ev
        };
        let (mut plo, mut phi) = (1i64, pc0 * 1000);
        if !(at(&mut r, phi)["res"] != "ok" && at(&mut r, plo)["res"] == "ok") {
            continue;
        }
        while phi - plo > 1 {
            let mid = plo + (phi - plo) / 2;
            if at(&mut r, mid)["res"] == "ok" {
                plo = mid;
            } else {
                phi = mid;
            }
        }
        r.act(setp(phi));
        r.act(tx(vec![start("A1"), end("A1")]));
        r.act(setp(plo));
        if r.act(tx(vec![start("A1"), end("A1")]))["res"] == "ok" {
            nacc += 1;
        }
        let f = *pick(&mut rng, &[1.0f64, 0.99, 0.95, 0.8, 0.5]);
        let pnew = ((plo as f64) * f).max(1.0) as i64;
        r.act(setp(pnew));
        // brackets [start, repay r, withdraw w, end] with the largest accepted w
        for round in 0..3 {
            let acct = if round == 2 { "A3" } else { "A1" };
            let d = if acct == "A1" { debt[0] } else { debt[1] };
            if d == 0 {
                continue;
            }
            let rr: u64 = match rng.gen_range(0..5) {
                0 => 1,
                1 => d / 100 + 1,
                2 => d / 10 + 1,
                3 => d / 3 + 1,
                _ => d / 2 + 1,
            };
            let order = rng.gen_bool(0.5);
            let mk = |w: u64| {
                let mut ixs = vec![start(acct)];
                if order {
                    ixs.push(rep(acct, rr, false));
                    ixs.push(wd(acct, w, false));
                } else {
                    ixs.push(wd(acct, w, false));
                    ixs.push(rep(acct, rr, false));
                }
                ixs.push(end(acct));
                tx(ixs)
            };
            let top = if acct == "A1" { camt } else { camt3 };
            let e0 = r.probe(&mk(1));
            if e0["res"] != "ok" {
                r.act(mk(1));
                nrej += 1;
                // repay alone
                r.act(tx(vec![start(acct), rep(acct, rr, false), end(acct)]));
                continue;
            }
            let (mut lo, mut hi) = (1u64, top);
            if r.probe(&mk(top))["res"] == "ok" {
                lo = top;
            } else {
                while hi - lo > 1 {
                    let mid = lo + (hi - lo) / 2;
                    if r.probe(&mk(mid))["res"] == "ok" {
                        lo = mid;
                    } else {
                        hi = mid;
                    }
                }
                r.act(mk(hi));
                nrej += 1;
                nbound += 1;
            }
            let w = *pick(&mut rng, &[lo, lo, lo / 2 + 1, 1]);
            if r.act(mk(w))["res"] == "ok" {
                nacc += 1;
            }
        }
        // the receiver reaches for the deposits the end checks cannot see
        if with_iso {
            let wdb = |b: &str, x: u64, all: bool| json!({"op":"withdraw","acct":"A1","bank":b,"amount":x,"all":all,"signer":"liquidator"});
            for b in ["I1", "Z1"] {
                r.act(tx(vec![start("A1"), wdb(b, 0, true), end("A1")]));
                r.act(tx(vec![start("A1"), wdb(b, 1_000_000, false), rep("A1", 1, false), end("A1")]));
                r.act(tx(vec![start("A1"), rep("A1", debt[0] / 10 + 1, false), wdb(b, 2_500_000, false), end("A1")]));
            }
        }
        // making the account healthy: repay (nearly) everything, take nothing
        r.act(tx(vec![start("A1"), rep("A1", debt[0] / 2 + 1, false), end("A1")]));
        r.act(tx(vec![start("A1"), rep("A1", 0, true), end("A1")]));
        // shape variants with the second unhealthy account
        if debt[1] > 0 {
            r.act(tx(vec![start("A1"), start("A3"), end("A3")]));
            r.act(tx(vec![start("A1"), start("A3"), rep("A3", 1, false), end("A3")]));
            r.act(tx(vec![start("A3"), start("A1"), rep("A1", 1, false), end("A1")]));
            r.act(tx(vec![start("A1"), start("A1"), end("A1")]));
            r.act(tx(vec![start("A1"), end("A3")]));
            r.act(tx(vec![start("A1"), rep("A3", 1, false), end("A1")]));
            r.act(tx(vec![start("A1"), wd("A3", 1, false), rep("A1", 1, false), end("A1")]));
            r.act(tx(vec![start("A1"), rep("A1", 1, false), end("A1"), start("A3"), rep("A3", 1, false), end("A3")]));
            if r.act(tx(vec![start("A3"), rep("A3", 1, false), end("A3")]))["res"] == "ok" {
                nacc += 1;
            }
        }
        if debt[1] > 0 {
            // a second start that is not the one the end belongs to
            r.act(tx(vec![start("A1"), start("A3"), end("A1")]));
            r.act(tx(vec![start("A3"), rep("A3", 1, false), start("A1"), end("A3")]));
        }
        // outside any bracket the receiver has no rights, and neither has anybody else
        r.act(wd("A1", 1, false));
        r.act(rep("A1", 1, false));
        for who in ["liquidator", "U7"] {
            for acct in ["A1", "A3"] {
                r.fork(&mut |r: &mut Recorder| {
                    r.act(json!({"op":"withdraw","acct":acct,"bank":"C1","amount":1,"signer":who}));
                    r.act(json!({"op":"repay","acct":acct,"bank":"D1","amount":1,"signer":who}));
                    r.act(json!({"op":"borrow","acct":acct,"bank":"D1","amount":1,"signer":who}));
                });
            }
        }
        r.act(json!({"op":"pulse_health","acct":"A1"}));
    }
    eprintln!("recv driver: {} scenarios, {} brackets accepted, {} rejected, {} seize boundaries, {} events", n, nacc, nrej, nbound, r.events);
    r.finish();
}

// ------------------------------------------------------------------------------------------------
// staked driver (C04 C05 C08 C09 C13 C16): real spl-single-pool collateral banks. Two validator pools
// with different exchange rates, group-wide staked settings, permissionless bank creation (with and
// without substituted pool accounts), borrow boundaries against LST collateral, substitution of each
// of the three price accounts, stake / supply / SOL price moves, liquidation of LST collateral,
// settings edits and their permissionless propagation, tag mixing attempts.
// ------------------------------------------------------------------------------------------------
fn staked_setup() -> Vec<Value> {
    let mut v = base_setup();
    v.extend(vec![
        json!({"op":"init_account","acct":"A3","group":"G1","authority":"U3"}),
        json!({"op":"init_group","group":"G2","admin":"admin2"}),
        json!({"op":"add_mint","mint":"MSOL","decimals":9,"kind":"spl"}),
        json!({"op":"add_mint","mint":"MUSD","decimals":6,"kind":"spl"}),
        json!({"op":"set_oracle","oracle":"OSOL","kind":"pyth","price":10_000_000_000i64,"conf":5_000_000,"expo":-8}),
        json!({"op":"set_oracle","oracle":"OALT","kind":"pyth","price":20_000_000_000i64,"conf":0,"expo":-8}),
        json!({"op":"add_bank","group":"G1","bank":"BSOL","mint":"MSOL","cfg":{"asset_tag":1,"lw_init":"1.25","lw_maint":"1.125"}}),
        json!({"op":"configure_oracle","bank":"BSOL","oracle":"OSOL","setup":3}),
        json!({"op":"add_bank","group":"G1","bank":"BUSD","mint":"MUSD","cfg":{}}),
        json!({"op":"set_fixed_price","bank":"BUSD","price":1}),
        json!({"op":"fund","user":"U9","mint":"MSOL","amount":"5000000000000000"}),
        json!({"op":"fund","user":"U9","mint":"MUSD","amount":"5000000000000000"}),
        json!({"op":"deposit","acct":"LP","bank":"BSOL","amount":"1000000000000000"}),
        json!({"op":"deposit","acct":"LP","bank":"BUSD","amount":"1000000000000"}),
        json!({"op":"fund","user":"U2","mint":"MSOL","amount":"5000000000000000"}),
        json!({"op":"fund","user":"U2","mint":"MUSD","amount":"5000000000000"}),
        json!({"op":"fund","user":"U1","mint":"MUSD","amount":"5000000000000"}),
        json!({"op":"fund","user":"U3","mint":"MUSD","amount":"5000000000000"}),
    ]);
    v
}

fn staked_driver(out: &str, seed: u64, n: u64) {
    let mut rng = StdRng::seed_from_u64(seed);
    let mut r = Recorder::new(&format!("{}/staked.trace", out), staked_setup());
    let (mut nb, mut nliq) = (0u64, 0u64);
    for _k in 0..n {
        // pools: delegated stake (incl. the permanent 1 SOL) and LST supply chosen so that the rates differ
        let sol = 1_000_000_000u64;
        let stake1: u64 = sol + *pick(&mut rng, &[1_000 * sol, 37 * sol + 123_456_789, 1_000_000 * sol, 3 * sol]);
        let stake2: u64 = sol + *pick(&mut rng, &[50 * sol, 999 * sol + 1, 20_000 * sol]);
        let sup1: u64 = ((stake1 - sol) as f64 / *pick(&mut rng, &[1.0f64, 1.111, 1.3, 0.97])) as u64;
        let sup2: u64 = ((stake2 - sol) as f64 / *pick(&mut rng, &[1.0f64, 2.0, 1.05])) as u64;
        let (aw_i, aw_m) = *pick(&mut rng, &[("0.8", "0.9"), ("0.5", "0.65"), ("0.9", "0.95"), ("1", "1")]);
        let mut extra = vec![
            json!({"op":"add_stake_pool","pool":"SP1","mint":"LST1","stake":stake1.to_string()}),
            json!({"op":"add_stake_pool","pool":"SP2","mint":"LST2","stake":stake2.to_string()}),
            // the bulk of each supply sits with outside holders; the users get a slice
            json!({"op":"fund","user":"outside","mint":"LST1","amount":(sup1 - sup1 / 4).to_string()}),
            json!({"op":"fund","user":"U1","mint":"LST1","amount":(sup1 / 8).to_string()}),
            json!({"op":"fund","user":"U3","mint":"LST1","amount":(sup1 / 8).to_string()}),
            json!({"op":"fund","user":"outside","mint":"LST2","amount":(sup2 - sup2 / 4).to_string()}),
            json!({"op":"fund","user":"U1","mint":"LST2","amount":(sup2 / 8).to_string()}),
            json!({"op":"fund","user":"U2","mint":"LST2","amount":(sup2 / 8).to_string()}),
        ];
        let conf: i64 = *pick(&mut rng, &[0i64, 5_000_000, 150_000_000, 600_000_000]);
        extra.push(json!({"op":"set_oracle","oracle":"OSOL","price":10_000_000_000i64,"conf":conf}));
        r.begin(&extra);
        // ---- settings and bank creation
        r.act(json!({"op":"add_bank_staked","group":"G1","bank":"SBX","pool":"SP1","seed":7}));   // no settings yet
        r.act(json!({"op":"init_staked_settings","group":"G1","oracle":"OSOL","aw_init":aw_i,"aw_maint":aw_m,"max_age":*pick(&mut rng, &[60u64, 30, 300]),"signer":"stranger"}));
        r.act(json!({"op":"init_staked_settings","group":"G1","oracle":"OSOL","aw_init":"0.9","aw_maint":"0.8"}));   // maint < init
        r.act(json!({"op":"init_staked_settings","group":"G1","oracle":"OSOL","aw_init":aw_i,"aw_maint":aw_m,"max_age":*pick(&mut rng, &[60u64, 30, 300])}));
        r.act(json!({"op":"init_staked_settings","group":"G1","oracle":"OSOL","aw_init":aw_i,"aw_maint":aw_m}));   // twice
        // substituted pool accounts: every single one, and pairs
        for sub in [
            json!({"mint":"LST2"}), json!({"sol_pool":"SP2.stake"}), json!({"stake_pool":"SP2"}),
            json!({"stake_pool":"SP2","sol_pool":"SP2.stake"}), json!({"mint":"LST2","sol_pool":"SP2.stake"}),
            json!({"mint":"MSOL"}), json!({"stake_pool":"stranger"}),
            json!({"rem":["OALT","LST1","SP1.stake"]}), json!({"rem":["OSOL","LST2","SP1.stake"]}), json!({"rem":["OSOL","LST1","SP2.stake"]}),
            json!({"rem":["OSOL","LST1"]}), json!({"group":"G2"}),
        ] {
            let mut a = json!({"op":"add_bank_staked","group":"G1","bank":"SBX","pool":"SP1","seed":9});
            for (k, v) in sub.as_object().unwrap() {
                a[k] = v.clone();
            }
            r.act(a);
        }
        r.act(json!({"op":"add_bank_staked","group":"G1","bank":"SB1","pool":"SP1","seed":0}));
        r.act(json!({"op":"add_bank_staked","group":"G1","bank":"SB1","pool":"SP1","seed":0}));   // same seed again
        r.act(json!({"op":"add_bank_staked","group":"G1","bank":"SB2","pool":"SP2","seed":0,"signer":"stranger"}));   // permissionless
        // admin-style edits that a staked bank refuses or accepts
        r.act(json!({"op":"set_fixed_price","bank":"SB1","price":5}));
        r.fork(&mut |r: &mut Recorder| {
            r.act(json!({"op":"configure_bank","bank":"SB1","cfg":{"asset_tag":0}}));
        });
        r.fork(&mut |r: &mut Recorder| {
            r.act(json!({"op":"configure_oracle","bank":"SB1","oracle":"OALT","setup":3}));
        });
        r.fork(&mut |r: &mut Recorder| {
            r.act(json!({"op":"configure_oracle","bank":"SB1","oracle":"OALT","setup":5}));
        });
        // ---- positions
        let dep1: u64 = (sup1 / 16).max(1000);
        r.act(json!({"op":"deposit","acct":"A1","bank":"SB1","amount":dep1}));
        r.act(json!({"op":"deposit","acct":"A1","bank":"BUSD","amount":1_000_000}));      // default-tag deposit next to staked collateral
        r.act(json!({"op":"deposit","acct":"A3","bank":"BUSD","amount":50_000_000}));
        r.act(json!({"op":"deposit","acct":"A3","bank":"SB1","amount":1000}));             // staked deposit next to default collateral
        r.act(json!({"op":"borrow","acct":"A1","bank":"BUSD","amount":1000}));             // only SOL may be borrowed against staked collateral
        r.act(json!({"op":"borrow","acct":"A1","bank":"SB2","amount":1000}));             // staked banks lend nothing
        r.act(json!({"op":"deposit","acct":"A2","bank":"BSOL","amount":"200000000000000"}));
        r.act(json!({"op":"deposit","acct":"A2","bank":"SB2","amount":(sup2 / 16).max(1000)}));
        // ---- borrow boundary against LST collateral
        let mkb = |x: u64| json!({"op":"borrow","acct":"A1","bank":"BSOL","amount":x});
        let mut debt = 0u64;
        if let Some((lo, hi)) = search_boundary(&mut r, &mkb, 900_000_000_000_000, "RiskEngineInitRejected") {
            r.act(mkb(hi));
            if lo > 0 {
                // the three price accounts, substituted one at a time and together, at an amount that is otherwise fine
                let small = (lo / 2).max(1);
                for sl in [json!({"1":"LST2"}), json!({"2":"SP2.stake"}), json!({"1":"LST2","2":"SP2.stake"}), json!({"0":"OALT"}), json!({"1":"MSOL"}), json!({"2":"SP1"})] {
                    r.fork(&mut |r: &mut Recorder| {
                        let mut a = mkb(small);
                        a["oracle_sub_slots"] = json!({"SB1": sl.clone()});
                        r.act(a);
                    });
                }
                r.fork(&mut |r: &mut Recorder| {
                    // more than the limit, presented with the richer pool's accounts
                    let mut a = mkb(hi.saturating_mul(3) / 2);
                    a["oracle_sub_slots"] = json!({"SB1": {"1":"LST2","2":"SP2.stake"}});
                    r.act(a);
                });
                if r.act(mkb(lo))["res"] == "ok" {
                    debt = lo;
                    nb += 1;
                }
            }
        }
        r.act(json!({"op":"pulse_health","acct":"A1"}));
        // ---- pool moves: rewards, slashing, dilution, degenerate pools
        match *pick(&mut rng, &[0usize, 1, 1, 1, 2, 2, 3, 4, 5]) {
            0 => {
                r.act(json!({"op":"set_stake","pool":"SP1","stake":(stake1 + (stake1 - sol) / 20).to_string()}));
            }
            1 => {
                r.act(json!({"op":"set_stake","pool":"SP1","stake":(sol + (stake1 - sol) / 2).to_string()}));
            }
            2 => {
                r.act(json!({"op":"fund","user":"outside","mint":"LST1","amount":(sup1 / 3).to_string()}));
            }
            3 => {
                r.act(json!({"op":"set_stake","pool":"SP1","stake":(sol - 1).to_string()}));
            }
            4 => {
                r.act(json!({"op":"set_stake","pool":"SP1","stake":stake1.to_string(),"state":"init"}));
            }
            _ => {
                r.act(json!({"op":"set_oracle","oracle":"OSOL","price":*pick(&mut rng, &[5_000_000_000i64, 9_000_000_000, 30_000_000_000]),"conf":conf}));
            }
        }
        r.act(json!({"op":"pulse_health","acct":"A1"}));
        r.act(json!({"op":"borrow","acct":"A1","bank":"BSOL","amount":1}));
        r.act(json!({"op":"withdraw","acct":"A1","bank":"SB1","amount":1}));
        // ---- liquidation of LST collateral (liquidator A2 holds SOL and LST2: both allowed next to LST1)
        if debt > 0 {
            let mkl = |x: u64| json!({"op":"liquidate","liquidator":"A2","liquidatee":"A1","asset_bank":"SB1","liab_bank":"BSOL","amount":x});
            let e1 = r.probe(&mkl(1));
            if e1["res"] == "ok" {
                let (mut lo, mut hi) = (1u64, dep1.saturating_add(1));
                while hi - lo > 1 {
                    let mid = lo + (hi - lo) / 2;
                    if r.probe(&mkl(mid))["res"] == "ok" {
                        lo = mid;
                    } else {
                        hi = mid;
                    }
                }
                r.act(mkl(hi));
                r.fork(&mut |r: &mut Recorder| {
                    let mut a = mkl((lo / 2).max(1));
                    a["oracle_sub_slots"] = json!({"SB1": {"2":"SP2.stake"}});
                    r.act(a);
                });
                if r.act(mkl(*pick(&mut rng, &[lo, lo / 2 + 1, 1])))["res"] == "ok" {
                    nliq += 1;
                }
            } else {
                r.act(mkl(1));
            }
            // a liquidator with default-tag collateral may not take LST
            r.act(json!({"op":"liquidate","liquidator":"A3","liquidatee":"A1","asset_bank":"SB1","liab_bank":"BSOL","amount":1}));
        }
        // ---- settings edits and their permissionless propagation
        let edits = [
            json!({"aw_init":"0.7","aw_maint":"0.75"}), json!({"aw_init":"0.99","aw_maint":"0.5"}), json!({"max_age":5}), json!({"max_age":9}), json!({"max_age":10}),
            json!({"risk_tier":1}), json!({"risk_tier":1,"aw_init":"0","aw_maint":"0"}), json!({"oracle":"OALT"}), json!({"deposit_limit":1}), json!({"init_limit":"1000"}),
            json!({"aw_init":"1","aw_maint":"2"}), json!({"aw_maint":"2.01"}),
        ];
        for _ in 0..rng.gen_range(1..4) {
            let ed = pick(&mut rng, &edits).clone();
            let mut a = json!({"op":"edit_staked_settings","group":"G1"});
            for (k, v) in ed.as_object().unwrap() {
                a[k] = v.clone();
            }
            if rng.gen_bool(0.2) {
                a["signer"] = json!("riskadmin");
            }
            r.act(a);
            let bank = *pick(&mut rng, &["SB1", "SB2", "BSOL"]);
            let mut p = json!({"op":"propagate_staked","bank":bank});
            match rng.gen_range(0..5) {
                0 => {
                    p["oracle"] = json!("OALT");
                }
                1 => {
                    p["oracle"] = json!("OSOL");
                }
                2 => {
                    p["group"] = json!("G2");
                }
                _ => {}
            }
            r.act(p);
            r.act(json!({"op":"pulse_health","acct":"A1"}));
            r.act(json!({"op":"borrow","acct":"A1","bank":"BSOL","amount":1}));
            // a bank created from the settings as they stand now (recorded side branch)
            r.fork(&mut |r: &mut Recorder| {
                r.act(json!({"op":"add_bank_staked","group":"G1","bank":"SBN","pool":"SP2","seed":77}));
                r.act(json!({"op":"add_bank_staked","group":"G1","bank":"SBM","pool":"SP1","seed":78,"signer":"stranger"}));
            });
        }
    }
    eprintln!("staked driver: {} scenarios, {} borrow boundaries, {} liquidations ok, {} events", n, nb, nliq, r.events);
    r.finish();
}

// ------------------------------------------------------------------------------------------------
// kamino driver (C02 C03 C04 C08 C09 C14 C16): the Kamino integration instructions on the stand-in venue
// (venue.rs). Nine reserves with different exchange rates and decimals, a bank per reserve, obligations
// initialised; deposits through the venue, borrow limits against venue collateral found by bisection,
// venue interest (exchange rate moves), reserves not refreshed in the current slot, substituted reserve /
// obligation / supply vault accounts, withdrawals by amount and in full, the cap of eight integration
// positions, receivership with a venue withdrawal.
// ------------------------------------------------------------------------------------------------
fn kamino_driver(out: &str, seed: u64, n: u64) {
    let mut rng = StdRng::seed_from_u64(seed);
    let mut setup = base_setup();
    setup.extend(vec![
        json!({"op":"init_account","acct":"A3","group":"G1","authority":"U3"}),
        json!({"op":"add_mint","mint":"MD","decimals":6,"kind":"spl"}),
        json!({"op":"add_bank","group":"G1","bank":"BD","mint":"MD","cfg":{"lw_init":"1.25","lw_maint":"1.125"}}),
        json!({"op":"set_fixed_price","bank":"BD","price":1}),
        json!({"op":"fund","user":"U9","mint":"MD","amount":"4000000000000000"}),
        json!({"op":"deposit","acct":"LP","bank":"BD","amount":"3000000000000000"}),
        json!({"op":"fund","user":"liquidator","mint":"MD","amount":"4000000000000000"}),
    ]);
    let mut r = Recorder::new(&format!("{}/kamino.trace", out), setup);
    let (mut nb, mut nw) = (0u64, 0u64);
    for k in 0..n {
        let nres = if k % 3 == 0 { 9 } else { 2 };
        let mut extra = vec![];
        let mut deps: Vec<u64> = vec![];
        for i in 1..=nres {
            let dec: u64 = *pick(&mut rng, &[6u64, 6, 9, 8]);
            let kind = *pick(&mut rng, &["spl", "spl", "t22"]);
            let avail: u64 = *pick(&mut rng, &[1_000_000u64, 5_000_000_000, 800_000_000_000_000]);
            let borrowed: u64 = avail / *pick(&mut rng, &[1u64, 3, 100, 1_000_000]);
            let rate = *pick(&mut rng, &[1.0f64, 1.0, 1.11, 2.5, 0.73, 1.000001]);
            let supply: u64 = (((avail as f64) + (borrowed as f64)) / rate) as u64;
            let price: i64 = *pick(&mut rng, &[1_000_000i64, 150_000_000, 3_456, 99_999_999]);
            extra.push(json!({"op":"add_mint","mint":format!("MK{}", i),"decimals":dec,"kind":kind}));
            // (a quarter of the scenarios price the venue banks through the Switchboard variant of the setup)
            let swb = k % 4 == 1;
            let confr = *pick(&mut rng, &[0.0f64, 0.001, 0.02]);
            if swb {
                let v: i128 = (price as i128) * 1_000_000_000_000i128;
                extra.push(json!({"op":"set_oracle","oracle":format!("OK{}", i),"kind":"swb","swb_value":v.to_string(),"swb_std":(((v as f64) * confr) as i128).to_string()}));
            } else {
                extra.push(json!({"op":"set_oracle","oracle":format!("OK{}", i),"kind":"pyth","price":price,"conf":(price as f64 * confr) as i64,"expo":-6}));
            }
            extra.push(json!({"op":"add_kamino_reserve","reserve":format!("KR{}", i),"mint":format!("MK{}", i),"market":"KM1","avail":avail.to_string(),"supply":supply.max(1).to_string(),"borrowed":borrowed.to_string()}));
            let (awi, awm) = *pick(&mut rng, &[("0.8", "0.9"), ("0.5", "0.65"), ("0.95", "0.97"), ("1", "1")]);
            extra.push(json!({"op":"add_bank_kamino","group":"G1","bank":format!("KB{}", i),"reserve":format!("KR{}", i),"oracle":format!("OK{}", i),"setup":if swb { 7 } else { 6 },"seed":0,
                              "cfg":{"aw_init":awi,"aw_maint":awm,"oracle_max_age":60}}));
            extra.push(json!({"op":"fund","user":"payer","mint":format!("MK{}", i),"amount":"1000000"}));
            extra.push(json!({"op":"kamino_init_obligation","bank":format!("KB{}", i),"amount":*pick(&mut rng, &[10u64, 100, 999])}));
            for u in ["U1", "U3"] {
                extra.push(json!({"op":"fund","user":u,"mint":format!("MK{}", i),"amount":"4000000000000000"}));
            }
            deps.push((*pick(&mut rng, &[1_000u64, 1_000_000, 123_456_789, 50_000_000_000])).min(avail));
        }
        r.begin(&extra);
        // creation-time checks: a second obligation init, too small a first deposit, a foreign reserve for the bank
        r.act(json!({"op":"kamino_init_obligation","bank":"KB1","amount":100}));
        r.act(json!({"op":"add_bank_kamino","group":"G1","bank":"KBX","reserve":"KR1","oracle":"OK1","setup":3,"seed":5}));
        r.act(json!({"op":"add_bank_kamino","group":"G1","bank":"KBX","reserve":"KR1","mint":"MD","oracle":"OK1","setup":6,"seed":5}));
        r.act(json!({"op":"add_bank_kamino","group":"G1","bank":"KBX","reserve":"KR1","oracle":"OK1","setup":6,"seed":5,"signer":"stranger"}));
        // incoherent configurations, also for a bank that starts out paused
        for st in [1u64, 0, 2] {
            let bad = pick(&mut rng, &[json!({"aw_init":"0.9","aw_maint":"0.5"}), json!({"aw_init":"1.5","aw_maint":"1.6"}), json!({"risk_tier":1,"aw_init":"0.5","aw_maint":"0.6"}),
                                        json!({"oracle_max_age":5}), json!({"aw_init":"0.5","aw_maint":"2.5"})]).clone();
            let mut cfg = bad;
            cfg["op_state"] = json!(st);
            r.act(json!({"op":"add_bank_kamino","group":"G1","bank":"KBY","reserve":"KR1","oracle":"OK1","setup":6,"seed":6 + st,"cfg":cfg}));
        }
        // deposits through the venue; the ordinary deposit / withdraw / borrow instructions refuse venue banks
        r.act(json!({"op":"deposit","acct":"A1","bank":"KB1","amount":5}));
        r.act(json!({"op":"kamino_deposit","acct":"A1","bank":"KB1","amount":0}));
        r.act(json!({"op":"kamino_deposit","acct":"A1","bank":"KB1","amount":deps[0]}));
        r.act(json!({"op":"kamino_deposit","acct":"A1","bank":"KB1","amount":deps[0] / 3 + 1,"signer":"stranger"}));
        r.act(json!({"op":"borrow","acct":"A3","bank":"KB1","amount":1}));
        r.act(json!({"op":"withdraw","acct":"A1","bank":"KB1","amount":1}));
        for sub in [json!({"reserve_acct":"KR2"}), json!({"obligation":"KB2.obl"}), json!({"supply_vault":"KR2.supply"})] {
            let mut a = json!({"op":"kamino_deposit","acct":"A1","bank":"KB1","amount":10});
            for (kk, v) in sub.as_object().unwrap() {
                a[kk] = v.clone();
            }
            r.act(a);
        }
        if nres == 9 {
            // the cap of eight integration positions, with and without an ordinary position next to them
            if rng.gen_bool(0.5) {
                r.act(json!({"op":"fund","user":"U1","mint":"MD","amount":"1000000"}));
                r.act(json!({"op":"deposit","acct":"A1","bank":"BD","amount":1000}));
            }
            for i in 2..=9 {
                r.act(json!({"op":"kamino_deposit","acct":"A1","bank":format!("KB{}", i),"amount":deps[i - 1]}));
            }
            r.act(json!({"op":"kamino_withdraw","acct":"A1","bank":"KB3","amount":0,"all":true}));
            r.act(json!({"op":"kamino_deposit","acct":"A1","bank":"KB9","amount":deps[8]}));
            r.act(json!({"op":"pulse_health","acct":"A1"}));
        }
        // borrow limit against venue collateral
        let mkb = |x: u64| json!({"op":"borrow","acct":"A1","bank":"BD","amount":x});
        let mut debt = 0u64;
        if let Some((lo, hi)) = search_boundary(&mut r, &mkb, 2_000_000_000_000_000, "RiskEngineInitRejected") {
            r.act(mkb(hi));
            let keep = rng.gen_bool(0.6);
            if lo > 0 {
                let small = (lo / 2).max(1);
                r.fork(&mut |r: &mut Recorder| {
                    let mut a = mkb(small);
                    a["oracle_sub_slots"] = json!({"KB1": {"1": "KR2"}});
                    r.act(a);
                });
                r.fork(&mut |r: &mut Recorder| {
                    let mut a = mkb(small);
                    a["oracle_sub_slots"] = json!({"KB1": {"0": "OK2"}});
                    r.act(a);
                });
                // the reserve refreshed in this slot, one slot ago, two slots ago (recorded side branches)
                let now_slot = r.ex.env.world.clock.slot;
                for back in [0u64, 1, 2] {
                    r.fork(&mut |r: &mut Recorder| {
                        r.act(json!({"op":"set_kamino_reserve","reserve":"KR1","slot":now_slot.saturating_sub(back)}));
                        r.act(mkb(small));
                    });
                }
                // the time-weighted price carries its own confidence: far wider than the spot one, and beyond the bank's maximum
                for ec in [0.03f64, 0.2] {
                    r.fork(&mut |r: &mut Recorder| {
                        let o = r.ex.env.oracles.get("OK1").cloned();
                        if let Some(o) = o {
                            r.act(json!({"op":"set_oracle","oracle":"OK1","price":o.price,"conf":o.conf,"ema":o.price,"ema_conf":((o.price as f64) * ec) as i64}));
                            r.act(mkb(small));
                            r.act(mkb(lo));
                        }
                    });
                }
                if r.act(mkb(lo))["res"] == "ok" {
                    debt = lo;
                    nb += 1;
                }
            }
        }
        // the feed is older than the reserve's last refresh, which is older than now
        for (dt, back) in [(7i64, 1u64), (30, 25), (0, 1)] {
            r.fork(&mut |r: &mut Recorder| {
                r.act(json!({"op":"tick","dt":dt,"refresh_oracles":false}));
                let slot = r.ex.env.world.clock.slot;
                r.act(json!({"op":"set_kamino_reserve","reserve":"KR1","slot":slot - back}));
                r.act(mkb(1));
                r.act(json!({"op":"pulse_health","acct":"A1"}));
                r.act(json!({"op":"set_kamino_reserve","reserve":"KR1","slot":slot}));
                r.act(mkb(1));
            });
        }
        // the venue moves on: a slot later the reserve is stale until somebody refreshes it
        r.act(json!({"op":"tick","dt": *pick(&mut rng, &[1i64, 10, 3600])}));
        r.act(mkb(1));
        r.act(json!({"op":"kamino_deposit","acct":"A1","bank":"KB1","amount":10}));
        r.act(json!({"op":"tx","ixs":[{"op":"kamino_refresh","reserve":"KR1"},{"op":"kamino_deposit","acct":"A1","bank":"KB1","amount":10}]}));
        let mut refresh_all = vec![];
        for i in 1..=nres {
            refresh_all.push(json!({"op":"kamino_refresh","reserve":format!("KR{}", i)}));
        }
        let with_refresh = |a: Value| {
            let mut ixs = refresh_all.clone();
            ixs.push(a);
            json!({"op":"tx","ixs":ixs})
        };
        r.act(with_refresh(mkb(1)));
        r.act(json!({"op":"pulse_health","acct":"A1"}));
        // venue interest / fees: the exchange rate moves
        match rng.gen_range(0..4) {
            0 => {
                r.act(json!({"op":"set_kamino_reserve","reserve":"KR1","borrowed":"900000000000000","refresh":true}));
            }
            1 => {
                r.act(json!({"op":"set_kamino_reserve","reserve":"KR1","borrowed":0,"refresh":true}));
            }
            2 => {
                r.act(json!({"op":"set_kamino_reserve","reserve":"KR1","protocol_sf":"1152921504606846976000","pending_sf":"4611686018427387904","refresh":true}));
            }
            _ => {}
        }
        r.act(with_refresh(json!({"op":"pulse_health","acct":"A1"})));
        r.act(with_refresh(mkb(1)));
        // withdrawals: by amount up to the health limit, then everything
        let mkw = |x: u64| with_refresh(json!({"op":"kamino_withdraw","acct":"A1","bank":"KB1","amount":x}));
        if debt > 0 {
            // (the health limit lies below the balance limit: search below the latter)
            let top = search_boundary(&mut r, &mkw, deps[0].saturating_mul(3), "OperationWithdrawOnly").map(|(lo, _)| lo).unwrap_or(deps[0]);
            if let Some((wlo, whi)) = search_boundary(&mut r, &mkw, top.max(2), "RiskEngineInitRejected") {
                r.act(mkw(whi));
                if wlo > 0 && r.act(mkw(wlo))["res"] == "ok" {
                    nw += 1;
                }
            } else {
                r.act(mkw(1));
            }
            // receivership with a venue withdrawal (the price must be positive and the reserve fresh)
            r.act(json!({"op":"init_liq_record","acct":"A1"}));
            r.act(json!({"op":"set_oracle","oracle":"OK1","price":1,"conf":0}));
            let mut ixs = refresh_all.clone();
            ixs.retain(|_| false);
            ixs.push(json!({"op":"start_liq","acct":"A1","receiver":"liquidator"}));
            ixs.push(json!({"op":"repay","acct":"A1","bank":"BD","amount":(debt / 10).max(1),"signer":"liquidator"}));
            ixs.push(json!({"op":"kamino_withdraw","acct":"A1","bank":"KB1","amount":1,"signer":"liquidator"}));
            ixs.push(json!({"op":"end_liq","acct":"A1","receiver":"liquidator"}));
            r.act(json!({"op":"tx","ixs":ixs}));
        } else {
            r.act(mkw(1));
            r.act(with_refresh(json!({"op":"kamino_withdraw","acct":"A1","bank":"KB1","amount":0,"all":true})));
            r.act(with_refresh(json!({"op":"kamino_withdraw","acct":"A1","bank":"KB1","amount":0,"all":true})));
        }
    }
    eprintln!("kamino driver: {} scenarios, {} borrow boundaries, {} withdraw boundaries, {} events", n, nb, nw, r.events);
    r.finish();
}

// ------------------------------------------------------------------------------------------------
// solend driver: the Solend integration instructions on the stand-in venue (same episodes as the Kamino driver:
// creation-time checks, deposits, bisected borrow limits, substituted venue accounts and price slots, stale
// reserves, venue interest and fees in 10^18-scaled units, withdrawals to the health limit, the shared cap of
// eight integration positions, a receivership attempt - the Solend program is not on the receivership allow-list).
// ------------------------------------------------------------------------------------------------
fn solend_driver(out: &str, seed: u64, n: u64) {
    let mut rng = StdRng::seed_from_u64(seed);
    let mut setup = base_setup();
    setup.extend(vec![
        json!({"op":"init_account","acct":"A3","group":"G1","authority":"U3"}),
        json!({"op":"add_mint","mint":"MD","decimals":6,"kind":"spl"}),
        json!({"op":"add_bank","group":"G1","bank":"BD","mint":"MD","cfg":{"lw_init":"1.25","lw_maint":"1.125"}}),
        json!({"op":"set_fixed_price","bank":"BD","price":1}),
        json!({"op":"fund","user":"U9","mint":"MD","amount":"4000000000000000"}),
        json!({"op":"deposit","acct":"LP","bank":"BD","amount":"3000000000000000"}),
        json!({"op":"fund","user":"liquidator","mint":"MD","amount":"4000000000000000"}),
    ]);
    let mut r = Recorder::new(&format!("{}/solend.trace", out), setup);
    let (mut nb, mut nw) = (0u64, 0u64);
    for k in 0..n {
        let nres = if k % 3 == 0 { 9 } else { 2 };
        let mut extra = vec![];
        let mut deps: Vec<u64> = vec![];
        for i in 1..=nres {
            let dec: u64 = *pick(&mut rng, &[6u64, 6, 9, 8]);
            let kind = "spl";   // (Solend moves tokens with the plain SPL transfer)
            let avail: u64 = *pick(&mut rng, &[1_000_000u64, 5_000_000_000, 800_000_000_000_000]);
            let borrowed: u64 = avail / *pick(&mut rng, &[1u64, 3, 100, 1_000_000]);
            let rate = *pick(&mut rng, &[1.0f64, 1.0, 1.11, 2.5, 0.73, 1.000001]);
            let supply: u64 = (((avail as f64) + (borrowed as f64)) / rate) as u64;
            let price: i64 = *pick(&mut rng, &[1_000_000i64, 150_000_000, 3_456, 99_999_999]);
            extra.push(json!({"op":"add_mint","mint":format!("MS{}", i),"decimals":dec,"kind":kind}));
            // (a quarter of the scenarios price the venue banks through the Switchboard variant of the setup)
            let swb = k % 4 == 1;
            let confr = *pick(&mut rng, &[0.0f64, 0.001, 0.02]);
            if swb {
                let v: i128 = (price as i128) * 1_000_000_000_000i128;
                extra.push(json!({"op":"set_oracle","oracle":format!("OS{}", i),"kind":"swb","swb_value":v.to_string(),"swb_std":(((v as f64) * confr) as i128).to_string()}));
            } else {
                extra.push(json!({"op":"set_oracle","oracle":format!("OS{}", i),"kind":"pyth","price":price,"conf":(price as f64 * confr) as i64,"expo":-6}));
            }
            extra.push(json!({"op":"add_solend_reserve","reserve":format!("SR{}", i),"mint":format!("MS{}", i),"market":"SM1","avail":avail.to_string(),"supply":supply.max(1).to_string(),"borrowed_wads":((borrowed as u128) * 1_000_000_000_000_000_000u128 + *pick(&mut rng, &[0u128, 1, 999_999_999_999_999_999])).to_string()}));
            let (awi, awm) = *pick(&mut rng, &[("0.8", "0.9"), ("0.5", "0.65"), ("0.95", "0.97"), ("1", "1")]);
            extra.push(json!({"op":"add_bank_solend","group":"G1","bank":format!("SB{}", i),"reserve":format!("SR{}", i),"oracle":format!("OS{}", i),"setup":if swb { 12 } else { 11 },"seed":0,
                              "cfg":{"aw_init":awi,"aw_maint":awm,"oracle_max_age":60}}));
            extra.push(json!({"op":"fund","user":"payer","mint":format!("MS{}", i),"amount":"1000000"}));
            extra.push(json!({"op":"solend_init_obligation","bank":format!("SB{}", i),"amount":*pick(&mut rng, &[10u64, 100, 999])}));
            for u in ["U1", "U3"] {
                extra.push(json!({"op":"fund","user":u,"mint":format!("MS{}", i),"amount":"4000000000000000"}));
            }
            deps.push((*pick(&mut rng, &[1_000u64, 1_000_000, 123_456_789, 50_000_000_000])).min(avail));
        }
        r.begin(&extra);
        // creation-time checks: a second obligation init, too small a first deposit, a foreign reserve for the bank
        r.act(json!({"op":"solend_init_obligation","bank":"SB1","amount":100}));
        r.act(json!({"op":"add_bank_solend","group":"G1","bank":"SBX","reserve":"SR1","oracle":"OS1","setup":3,"seed":5}));
        r.act(json!({"op":"add_bank_solend","group":"G1","bank":"SBX","reserve":"SR1","mint":"MD","oracle":"OS1","setup":11,"seed":5}));
        r.act(json!({"op":"add_bank_solend","group":"G1","bank":"SBX","reserve":"SR1","oracle":"OS1","setup":11,"seed":5,"signer":"stranger"}));
        // incoherent configurations, also for a bank that starts out paused
        for st in [1u64, 0, 2] {
            let bad = pick(&mut rng, &[json!({"aw_init":"0.9","aw_maint":"0.5"}), json!({"aw_init":"1.5","aw_maint":"1.6"}), json!({"risk_tier":1,"aw_init":"0.5","aw_maint":"0.6"}),
                                        json!({"oracle_max_age":5}), json!({"aw_init":"0.5","aw_maint":"2.5"})]).clone();
            let mut cfg = bad;
            cfg["op_state"] = json!(st);
            r.act(json!({"op":"add_bank_solend","group":"G1","bank":"SBY","reserve":"SR1","oracle":"OS1","setup":11,"seed":6 + st,"cfg":cfg}));
        }
        // deposits through the venue; the ordinary deposit / withdraw / borrow instructions refuse venue banks
        r.act(json!({"op":"deposit","acct":"A1","bank":"SB1","amount":5}));
        r.act(json!({"op":"solend_deposit","acct":"A1","bank":"SB1","amount":0}));
        r.act(json!({"op":"solend_deposit","acct":"A1","bank":"SB1","amount":deps[0]}));
        r.act(json!({"op":"solend_deposit","acct":"A1","bank":"SB1","amount":deps[0] / 3 + 1,"signer":"stranger"}));
        r.act(json!({"op":"borrow","acct":"A3","bank":"SB1","amount":1}));
        r.act(json!({"op":"withdraw","acct":"A1","bank":"SB1","amount":1}));
        for sub in [json!({"reserve_acct":"SR2"}), json!({"obligation":"SB2.obl"}), json!({"supply_vault":"SR2.supply"})] {
            let mut a = json!({"op":"solend_deposit","acct":"A1","bank":"SB1","amount":10});
            for (kk, v) in sub.as_object().unwrap() {
                a[kk] = v.clone();
            }
            r.act(a);
        }
        if nres == 9 {
            // the cap of eight integration positions, with and without an ordinary position next to them
            if rng.gen_bool(0.5) {
                r.act(json!({"op":"fund","user":"U1","mint":"MD","amount":"1000000"}));
                r.act(json!({"op":"deposit","acct":"A1","bank":"BD","amount":1000}));
            }
            for i in 2..=9 {
                r.act(json!({"op":"solend_deposit","acct":"A1","bank":format!("SB{}", i),"amount":deps[i - 1]}));
            }
            r.act(json!({"op":"solend_withdraw","acct":"A1","bank":"SB3","amount":0,"all":true}));
            r.act(json!({"op":"solend_deposit","acct":"A1","bank":"SB9","amount":deps[8]}));
            r.act(json!({"op":"pulse_health","acct":"A1"}));
        }
        // borrow limit against venue collateral
        let mkb = |x: u64| json!({"op":"borrow","acct":"A1","bank":"BD","amount":x});
        let mut debt = 0u64;
        if let Some((lo, hi)) = search_boundary(&mut r, &mkb, 2_000_000_000_000_000, "RiskEngineInitRejected") {
            r.act(mkb(hi));
            let keep = rng.gen_bool(0.6);
            if lo > 0 {
                let small = (lo / 2).max(1);
                r.fork(&mut |r: &mut Recorder| {
                    let mut a = mkb(small);
                    a["oracle_sub_slots"] = json!({"SB1": {"1": "SR2"}});
                    r.act(a);
                });
                r.fork(&mut |r: &mut Recorder| {
                    let mut a = mkb(small);
                    a["oracle_sub_slots"] = json!({"SB1": {"0": "OS2"}});
                    r.act(a);
                });
                // the reserve refreshed in this slot, one slot ago, two slots ago (recorded side branches)
                let now_slot = r.ex.env.world.clock.slot;
                for back in [0u64, 1, 2] {
                    r.fork(&mut |r: &mut Recorder| {
                        r.act(json!({"op":"set_solend_reserve","reserve":"SR1","slot":now_slot.saturating_sub(back)}));
                        r.act(mkb(small));
                    });
                }
                // the time-weighted price carries its own confidence: far wider than the spot one, and beyond the bank's maximum
                for ec in [0.03f64, 0.2] {
                    r.fork(&mut |r: &mut Recorder| {
                        let o = r.ex.env.oracles.get("OS1").cloned();
                        if let Some(o) = o {
                            r.act(json!({"op":"set_oracle","oracle":"OS1","price":o.price,"conf":o.conf,"ema":o.price,"ema_conf":((o.price as f64) * ec) as i64}));
                            r.act(mkb(small));
                            r.act(mkb(lo));
                        }
                    });
                }
                if r.act(mkb(lo))["res"] == "ok" {
                    debt = lo;
                    nb += 1;
                }
            }
        }
        // the feed is older than the reserve's last refresh, which is older than now
        for (dt, back) in [(7i64, 1u64), (30, 25), (0, 1)] {
            r.fork(&mut |r: &mut Recorder| {
                r.act(json!({"op":"tick","dt":dt,"refresh_oracles":false}));
                let slot = r.ex.env.world.clock.slot;
                r.act(json!({"op":"set_solend_reserve","reserve":"SR1","slot":slot - back}));
                r.act(mkb(1));
                r.act(json!({"op":"pulse_health","acct":"A1"}));
                r.act(json!({"op":"set_solend_reserve","reserve":"SR1","slot":slot}));
                r.act(mkb(1));
            });
        }
        // the venue moves on: a slot later the reserve is stale until somebody refreshes it
        r.act(json!({"op":"tick","dt": *pick(&mut rng, &[1i64, 10, 3600])}));
        r.act(mkb(1));
        r.act(json!({"op":"solend_deposit","acct":"A1","bank":"SB1","amount":10}));
        r.act(json!({"op":"tx","ixs":[{"op":"solend_refresh","reserve":"SR1"},{"op":"solend_deposit","acct":"A1","bank":"SB1","amount":10}]}));
        let mut refresh_all = vec![];
        for i in 1..=nres {
            refresh_all.push(json!({"op":"solend_refresh","reserve":format!("SR{}", i)}));
        }
        let with_refresh = |a: Value| {
            let mut ixs = refresh_all.clone();
            ixs.push(a);
            json!({"op":"tx","ixs":ixs})
        };
        r.act(with_refresh(mkb(1)));
        r.act(json!({"op":"pulse_health","acct":"A1"}));
        // venue interest / fees: the exchange rate moves
        match rng.gen_range(0..4) {
            0 => {
                r.act(json!({"op":"set_solend_reserve","reserve":"SR1","borrowed_wads":"900000000000000000000000000000000","refresh":true}));
            }
            1 => {
                r.act(json!({"op":"set_solend_reserve","reserve":"SR1","borrowed_wads":0,"refresh":true}));
            }
            2 => {
                r.act(json!({"op":"set_solend_reserve","reserve":"SR1","fees_wads":"1000500000000000000000","refresh":true}));
            }
            _ => {}
        }
        r.act(with_refresh(json!({"op":"pulse_health","acct":"A1"})));
        r.act(with_refresh(mkb(1)));
        // withdrawals: by amount up to the health limit, then everything
        let mkw = |x: u64| with_refresh(json!({"op":"solend_withdraw","acct":"A1","bank":"SB1","amount":x}));
        if debt > 0 {
            // (the health limit lies below the balance limit: search below the latter)
            let top = search_boundary(&mut r, &mkw, deps[0].saturating_mul(3), "OperationWithdrawOnly").map(|(lo, _)| lo).unwrap_or(deps[0]);
            if let Some((wlo, whi)) = search_boundary(&mut r, &mkw, top.max(2), "RiskEngineInitRejected") {
                r.act(mkw(whi));
                if wlo > 0 && r.act(mkw(wlo))["res"] == "ok" {
                    nw += 1;
                }
            } else {
                r.act(mkw(1));
            }
            // receivership with a venue withdrawal (the price must be positive and the reserve fresh)
            r.act(json!({"op":"init_liq_record","acct":"A1"}));
            r.act(json!({"op":"set_oracle","oracle":"OS1","price":1,"conf":0}));
            let mut ixs = refresh_all.clone();
            ixs.retain(|_| false);
            ixs.push(json!({"op":"start_liq","acct":"A1","receiver":"liquidator"}));
            ixs.push(json!({"op":"repay","acct":"A1","bank":"BD","amount":(debt / 10).max(1),"signer":"liquidator"}));
            ixs.push(json!({"op":"solend_withdraw","acct":"A1","bank":"SB1","amount":1,"signer":"liquidator"}));
            ixs.push(json!({"op":"end_liq","acct":"A1","receiver":"liquidator"}));
            r.act(json!({"op":"tx","ixs":ixs}));
        } else {
            r.act(mkw(1));
            r.act(with_refresh(json!({"op":"solend_withdraw","acct":"A1","bank":"SB1","amount":0,"all":true})));
            r.act(with_refresh(json!({"op":"solend_withdraw","acct":"A1","bank":"SB1","amount":0,"all":true})));
        }
    }
    eprintln!("solend driver: {} scenarios, {} borrow boundaries, {} withdraw boundaries, {} events", n, nb, nw, r.events);
    r.finish();
}

// ------------------------------------------------------------------------------------------------
// drift driver (C02 C03 C04 C08 C09 C16): the Drift integration instructions on the stand-in venue.
// Spot markets with different cumulative interest and decimals, a bank per market, venue users
// initialised; deposits, bisected borrow limits against venue collateral (scaled balances, nine
// decimals), stale markets until refreshed in the same transaction, venue interest, substituted
// venue accounts, the withdraw rounding cases (exact balance, one scaled unit above, everything),
// and the eight-position cap shared with Kamino positions.
// ------------------------------------------------------------------------------------------------
fn drift_driver(out: &str, seed: u64, n: u64) {
    let mut rng = StdRng::seed_from_u64(seed);
    let mut setup = base_setup();
    setup.extend(vec![
        json!({"op":"add_mint","mint":"MD","decimals":6,"kind":"spl"}),
        json!({"op":"add_bank","group":"G1","bank":"BD","mint":"MD","cfg":{"lw_init":"1.25","lw_maint":"1.125"}}),
        json!({"op":"set_fixed_price","bank":"BD","price":1}),
        json!({"op":"fund","user":"U9","mint":"MD","amount":"4000000000000000"}),
        json!({"op":"deposit","acct":"LP","bank":"BD","amount":"3000000000000000"}),
    ]);
    let mut r = Recorder::new(&format!("{}/drift.trace", out), setup);
    let (mut nb, mut nw) = (0u64, 0u64);
    for k in 0..n {
        let with_kamino = k % 3 == 0;
        let mut extra = vec![];
        let mut deps: Vec<u64> = vec![];
        for i in 1..=2u64 {
            let dec: u64 = *pick(&mut rng, &[6u64, 6, 9, 8]);
            let cum: u128 = *pick(&mut rng, &[10_000_000_000u128, 11_000_000_000, 10_000_000_001, 27_182_818_284, 10_345_678_901]);
            let price: i64 = *pick(&mut rng, &[1_000_000i64, 150_000_000, 3_456, 99_999_999]);
            extra.push(json!({"op":"add_mint","mint":format!("MR{}", i),"decimals":dec,"kind":*pick(&mut rng, &["spl", "spl", "t22"])}));
            let swb = k % 4 == 1;
            let confr = *pick(&mut rng, &[0.0f64, 0.001, 0.02]);
            if swb {
                let v: i128 = (price as i128) * 1_000_000_000_000i128;
                extra.push(json!({"op":"set_oracle","oracle":format!("OR{}", i),"kind":"swb","swb_value":v.to_string(),"swb_std":(((v as f64) * confr) as i128).to_string()}));
            } else {
                extra.push(json!({"op":"set_oracle","oracle":format!("OR{}", i),"kind":"pyth","price":price,"conf":(price as f64 * confr) as i64,"expo":-6}));
            }
            extra.push(json!({"op":"add_drift_market","market":format!("DM{}", i),"mint":format!("MR{}", i),"index":i,"cum":cum.to_string()}));
            let (awi, awm) = *pick(&mut rng, &[("0.8", "0.9"), ("0.5", "0.65"), ("0.95", "0.97"), ("1", "1")]);
            extra.push(json!({"op":"add_bank_drift","group":"G1","bank":format!("DB{}", i),"market":format!("DM{}", i),"oracle":format!("OR{}", i),"setup":if swb { 10 } else { 9 },"seed":0,
                              "cfg":{"aw_init":awi,"aw_maint":awm,"oracle_max_age":60}}));
            extra.push(json!({"op":"fund","user":"payer","mint":format!("MR{}", i),"amount":"1000000"}));
            extra.push(json!({"op":"drift_init_user","bank":format!("DB{}", i),"amount":*pick(&mut rng, &[10u64, 100, 999])}));
            extra.push(json!({"op":"fund","user":"U1","mint":format!("MR{}", i),"amount":"4000000000000000"}));
            deps.push(*pick(&mut rng, &[1_000u64, 1_000_000, 123_456_789, 50_000_000_000]));
        }
        if with_kamino {
            for i in 1..=8u64 {
                extra.push(json!({"op":"add_mint","mint":format!("MK{}", i),"decimals":6,"kind":"spl"}));
                extra.push(json!({"op":"set_oracle","oracle":format!("OK{}", i),"kind":"pyth","price":1_000_000,"conf":0,"expo":-6}));
                extra.push(json!({"op":"add_kamino_reserve","reserve":format!("KR{}", i),"mint":format!("MK{}", i),"market":"KM1","avail":"1000000000","supply":"900000000","borrowed":0}));
                extra.push(json!({"op":"add_bank_kamino","group":"G1","bank":format!("KB{}", i),"reserve":format!("KR{}", i),"oracle":format!("OK{}", i),"setup":6,"seed":0}));
                extra.push(json!({"op":"fund","user":"payer","mint":format!("MK{}", i),"amount":"1000000"}));
                extra.push(json!({"op":"kamino_init_obligation","bank":format!("KB{}", i),"amount":10}));
                extra.push(json!({"op":"fund","user":"U1","mint":format!("MK{}", i),"amount":"1000000000"}));
            }
        }
        r.begin(&extra);
        r.act(json!({"op":"drift_init_user","bank":"DB1","amount":100}));                       // twice
        r.act(json!({"op":"add_bank_drift","group":"G1","bank":"DBX","market":"DM1","oracle":"OR1","setup":3,"seed":5}));
        r.act(json!({"op":"add_bank_drift","group":"G1","bank":"DBX","market":"DM1","mint":"MD","oracle":"OR1","setup":9,"seed":5}));
        r.act(json!({"op":"add_bank_drift","group":"G1","bank":"DBX","market":"DM1","oracle":"OR1","setup":9,"seed":5,"signer":"stranger"}));
        r.act(json!({"op":"add_bank_drift","group":"G1","bank":"DBY","market":"DM1","oracle":"OR1","setup":9,"seed":6,"cfg":{"op_state":0,"aw_init":"0.9","aw_maint":"0.5"}}));
        if with_kamino {
            // eight positions of one integration, then one of the other: the cap is shared
            for i in 1..=8 {
                r.act(json!({"op":"kamino_deposit","acct":"A1","bank":format!("KB{}", i),"amount":1000 + i}));
            }
            r.act(json!({"op":"drift_deposit","acct":"A1","bank":"DB1","amount":deps[0]}));
            r.act(json!({"op":"kamino_withdraw","acct":"A1","bank":"KB2","amount":0,"all":true}));
            r.act(json!({"op":"drift_deposit","acct":"A1","bank":"DB1","amount":deps[0]}));
            r.act(json!({"op":"drift_deposit","acct":"A1","bank":"DB2","amount":deps[1]}));
            r.act(json!({"op":"pulse_health","acct":"A1"}));
            continue;
        }
        r.act(json!({"op":"deposit","acct":"A1","bank":"DB1","amount":5}));
        r.act(json!({"op":"drift_deposit","acct":"A1","bank":"DB1","amount":0}));
        r.act(json!({"op":"drift_deposit","acct":"A1","bank":"DB1","amount":deps[0]}));
        r.act(json!({"op":"drift_deposit","acct":"A1","bank":"DB1","amount":deps[0] / 3 + 1,"signer":"stranger"}));
        r.act(json!({"op":"withdraw","acct":"A1","bank":"DB1","amount":1}));
        for sub in [json!({"market_acct":"DM2"}), json!({"user":"DB2.duser"}), json!({"stats":"DB2.dstats"}), json!({"market_vault":"DM2.vault"})] {
            let mut a = json!({"op":"drift_deposit","acct":"A1","bank":"DB1","amount":10});
            for (kk, v) in sub.as_object().unwrap() {
                a[kk] = v.clone();
            }
            r.act(a);
        }
        // borrow limit against the venue collateral
        let mkb = |x: u64| json!({"op":"borrow","acct":"A1","bank":"BD","amount":x});
        let mut debt = 0u64;
        if let Some((lo, hi)) = search_boundary(&mut r, &mkb, 2_000_000_000_000_000, "RiskEngineInitRejected") {
            r.act(mkb(hi));
            let keep = rng.gen_bool(0.6);
            if lo > 0 {
                let small = (lo / 2).max(1);
                r.fork(&mut |r: &mut Recorder| {
                    let mut a = mkb(small);
                    a["oracle_sub_slots"] = json!({"DB1": {"1": "DM2"}});
                    r.act(a);
                });
                let now = r.ex.env.world.clock.unix_timestamp;
                for back in [0i64, 1, 2] {
                    r.fork(&mut |r: &mut Recorder| {
                        r.act(json!({"op":"set_drift_market","market":"DM1","ts":now - back}));
                        r.act(mkb(small));
                    });
                }
                if keep && r.act(mkb(lo))["res"] == "ok" {
                    debt = lo;
                    nb += 1;
                }
            }
        }
        // the feed is older than the market's last update, which is older than now: the rate is measured against the clock, not
        // against the price it is applied to
        for (dt, back) in [(7i64, 1i64), (30, 12), (2, 1)] {
            r.fork(&mut |r: &mut Recorder| {
                r.act(json!({"op":"tick","dt":dt,"refresh_oracles":false}));
                let now = r.ex.env.world.clock.unix_timestamp;
                r.act(json!({"op":"set_drift_market","market":"DM1","ts":now - back}));
                r.act(mkb(1));
                r.act(json!({"op":"pulse_health","acct":"A1"}));
                r.act(json!({"op":"set_drift_market","market":"DM1","ts":now}));
                r.act(mkb(1));
            });
        }
        // time passes: the market's interest is stale until somebody brings it up to date
        r.act(json!({"op":"tick","dt": *pick(&mut rng, &[1i64, 10, 3600])}));
        r.act(mkb(1));
        let refreshed = |a: Value| json!({"op":"tx","ixs":[{"op":"drift_refresh","market":"DM1"},{"op":"drift_refresh","market":"DM2"}, a]});
        r.act(refreshed(mkb(1)));
        // venue interest
        if rng.gen_bool(0.6) {
            r.act(json!({"op":"set_drift_market","market":"DM1","cum":*pick(&mut rng, &["12000000000", "10000000007", "30000000000"]),"refresh":true,
                         "vault_add":*pick(&mut rng, &[0u64, 400_000_000_000, 400_000_000_000])}));
        }
        r.act(refreshed(json!({"op":"pulse_health","acct":"A1"})));
        // withdrawals: around the exact balance, up to the health limit, everything
        let shares: u64 = asset_amount(&mut r, "A1", "DB1").map(|x| x.to_num::<u128>().min(u64::MAX as u128) as u64).unwrap_or(0);
        let mkw = |x: u64| json!({"op":"drift_withdraw","acct":"A1","bank":"DB1","amount":x});
        if debt == 0 && shares > 0 {
            // token amounts whose scaled decrement lands on the balance, one above and two above it
            if let Some((lo, hi)) = search_boundary(&mut r, &mkw, deps[0].saturating_mul(4), "OperationWithdrawOnly") {
                for x in [hi.saturating_add(1), hi, lo] {
                    r.fork(&mut |r: &mut Recorder| {
                        r.act(mkw(x));
                        r.act(json!({"op":"drift_withdraw","acct":"A1","bank":"DB1","amount":0,"all":true}));
                    });
                }
            }
            r.act(json!({"op":"drift_withdraw","acct":"A1","bank":"DB1","amount":0,"all":true}));
            r.act(json!({"op":"drift_withdraw","acct":"A1","bank":"DB1","amount":0,"all":true}));
        } else if debt > 0 {
            let mkwr = |x: u64| refreshed(mkw(x));
            // (the health limit lies below the balance limit: search below the latter)
            let top = search_boundary(&mut r, &mkwr, deps[0].saturating_mul(4), "OperationWithdrawOnly").map(|(lo, _)| lo).unwrap_or(deps[0]);
            if let Some((wlo, whi)) = search_boundary(&mut r, &mkwr, top.max(2), "RiskEngineInitRejected") {
                r.act(mkwr(whi));
                if wlo > 0 && r.act(mkwr(wlo))["res"] == "ok" {
                    nw += 1;
                }
            } else {
                r.act(mkwr(1));
            }
            r.act(refreshed(json!({"op":"drift_withdraw","acct":"A1","bank":"DB1","amount":0,"all":true})));
        }
    }
    eprintln!("drift driver: {} scenarios, {} borrow boundaries, {} withdraw boundaries, {} events", n, nb, nw, r.events);
    r.finish();
}
