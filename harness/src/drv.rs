//! Drivers: smoke test and seeded scenario generators.
use crate::act::Exec;
use serde_json::{json, Value};

pub fn std_setup() -> Vec<Value> {
    vec![
        json!({"op":"init_fee_state","admin":"feeadmin","wallet":"feewallet","prog_fixed":"0.01","prog_rate":"0.025","liq_max_fee":"0.05"}),
        json!({"op":"init_group","group":"G1","admin":"admin"}),
        json!({"op":"add_mint","mint":"M1","decimals":6,"kind":"spl"}),
        json!({"op":"add_mint","mint":"M2","decimals":9,"kind":"t22fee","fee_bps":100,"max_fee":5000}),
        json!({"op":"set_oracle","oracle":"O1","kind":"pyth","price":1000000,"conf":1000,"expo":-6}),
        json!({"op":"set_oracle","oracle":"O2","kind":"pyth","price":20000000,"conf":20000,"expo":-6}),
        json!({"op":"add_bank","group":"G1","bank":"B1","mint":"M1","cfg":{}}),
        json!({"op":"configure_oracle","bank":"B1","oracle":"O1","setup":3}),
        json!({"op":"add_bank","group":"G1","bank":"B2","mint":"M2","cfg":{}}),
        json!({"op":"configure_oracle","bank":"B2","oracle":"O2","setup":3}),
        json!({"op":"init_account","acct":"A1","group":"G1","authority":"U1"}),
        json!({"op":"init_account","acct":"A2","group":"G1","authority":"U2"}),
        json!({"op":"fund","user":"U1","mint":"M1","amount":1000000000u64}),
        json!({"op":"fund","user":"U2","mint":"M2","amount":100000000000u64}),
    ]
}

pub fn smoke() {
    let mut ex = Exec::new();
    let mut acts = std_setup();
    acts.extend(vec![
        json!({"op":"deposit","acct":"A1","bank":"B1","amount":500000000u64}),
        json!({"op":"deposit","acct":"A2","bank":"B2","amount":50000000000u64}),
        json!({"op":"borrow","acct":"A2","bank":"B1","amount":900000000u64}),
        json!({"op":"borrow","acct":"A2","bank":"B1","amount":100000000u64}),
        json!({"op":"tick","dt":3600}),
        json!({"op":"accrue","bank":"B1"}),
        json!({"op":"repay","acct":"A2","bank":"B1","amount":0,"all":true}),
        json!({"op":"withdraw","acct":"A1","bank":"B1","amount":0,"all":true}),
        json!({"op":"deposit","acct":"A1","bank":"B1","amount":5,"signer":"U2"}),
    ]);
    for a in acts {
        let t0 = std::time::Instant::now();
        let ev = ex.apply(&a);
        let sz = ev.to_string().len();
        println!("{:<18} {} {} {} ({} bytes, {:?})", ev["ev"].as_str().unwrap(), ev["res"], ev["code"], ev["label"], sz, t0.elapsed());
    }
    println!("{}", serde_json::to_string(&ex.last["banks"]["B1"]).unwrap());
    println!("{}", serde_json::to_string(&ex.last["accts"]["A2"]["bal"][0]).unwrap());
    println!("{}", serde_json::to_string(&ex.last["tok"]).unwrap());
}

pub fn drive(_name: &str, _out: &str, _args: &[String]) {
    unimplemented!()
}
